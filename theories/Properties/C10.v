(* C10 -- expand_actions changes only Action/NotAction text and is idempotent on Action elements.
   Statements only; proofs are [exact] of lemmas of Actions/TreeThm.v.
   [expand_tree cat] is the walk over one dumped resource, [expand_model cat] the model-level function over a dumped
   template, [cat] ANY catalogue; idempotence needs the catalogue invariants ([catalogue_ok cat = true], proved for the
   shipped catalogue in Actions/CatalogueChecks.v on every run). *)
From Coq Require Import List Bool NArith ZArith Sorting.Sorted Permutation.
From PV Require Import Base.Str Base.Value Glob.Glob Run.RState.
From PV Require Import Actions.Expand Actions.ExpandThm Actions.Catalogue Actions.Tree Actions.TreeThm Actions.Fast.
From PV Require Import Actions.ExpandAlgebra Actions.CatalogueMono Actions.TreeAlgebra.
Import ListNotations.

(* FRAME.  [frame_rel may v w] (Actions/TreeThm.v): w has the same constructor as v, objects have the same keys in the
   same order, lists the same length, members are related; the only members that may differ are those whose key
   satisfies [may] and whose value in v is action text (string / list of strings) -- they hold a list of strings in w.
   For every tree, the walk is related to its input with may = {Action, NotAction}. *)
Theorem C10_frame : forall cat v, frame_rel is_action_key v (expand_tree cat v).
Proof. intros cat v. exact (walk_frame (expand cat) (expand_not cat) v). Qed.
Print Assumptions C10_frame.

(* the relation says something: with no key allowed to change it is equality *)
Theorem C10_frame_rel_is_tight : forall v w, frame_rel (fun _ => false) v w -> v = w.
Proof. exact frame_rel_none_eq. Qed.
Print Assumptions C10_frame_rel_is_tight.

(* an Action / NotAction member whose value is NOT action text (an object, a number, a list holding an object ...)
   is never expanded: it is walked like any other member; and a tree that holds no action text under such a key
   is returned unchanged (WAF rule actions {"Block": {}}, Lambda permissions under other keys, ...) *)
Theorem C10_object_action_kept : forall cat k x,
  action_text x = None ->
  walk_member (expand cat) (expand_not cat) k x = expand_tree cat x.
Proof. intros cat k x. exact (walk_member_nontext (expand cat) (expand_not cat) k x). Qed.
Print Assumptions C10_object_action_kept.

Theorem C10_no_action_text_unchanged : forall cat v, has_action_text v = false -> expand_tree cat v = v.
Proof. intros cat v. exact (walk_no_text (expand cat) (expand_not cat) v). Qed.
Print Assumptions C10_no_action_text_unchanged.

(* model level: same sections in the same order; every section other than Resources keeps its value; inside Resources
   every resource keeps its name and is walked on its own; a resource's Type is untouched (same model class) *)
Theorem C10_other_sections : forall cat t,
  vkeys (expand_model cat t) = vkeys t /\
  (forall k, k <> K_RESOURCES -> vlookup k (expand_model cat t) = vlookup k t) /\
  (forall rs, vlookup K_RESOURCES t = Some (VDict rs) ->
     vlookup K_RESOURCES (expand_model cat t) = Some (VDict (map (fun nr => (fst nr, expand_tree cat (snd nr))) rs))).
Proof.
  intros cat t.
  exact (conj (walk_model_keys (expand cat) (expand_not cat) t)
        (conj (walk_model_other (expand cat) (expand_not cat) t) (walk_model_resources (expand cat) (expand_not cat) t))).
Qed.
Print Assumptions C10_other_sections.

Theorem C10_class_kept : forall cat d t,
  lookup K_TYPE d = Some (VStr t) -> vlookup K_TYPE (expand_tree cat (VDict d)) = Some (VStr t).
Proof. intros cat d t. exact (walk_type_kept (expand cat) (expand_not cat) d t). Qed.
Print Assumptions C10_class_kept.

(* IDEMPOTENCE on Action elements *)
Theorem C10_idempotent_action : forall cat ps,
  catalogue_ok cat = true -> expand cat (expand cat ps) = expand cat ps.
Proof. intros cat ps H. exact (expand_idem cat ps (catalogue_ok_spec cat H)). Qed.
Print Assumptions C10_idempotent_action.

(* ... hence a second application of the walk can change nothing but NotAction text, anywhere in the tree *)
Theorem C10_idempotent_tree : forall cat v,
  catalogue_ok cat = true ->
  frame_rel is_notaction_key (expand_tree cat v) (expand_tree cat (expand_tree cat v)).
Proof. intros cat v H. exact (expand_tree_twice cat v (catalogue_ok_spec cat H)). Qed.
Print Assumptions C10_idempotent_tree.

(* ... and is the identity on trees without NotAction text *)
Theorem C10_idempotent_no_notaction : forall cat v,
  catalogue_ok cat = true -> has_notaction_text v = false ->
  expand_tree cat (expand_tree cat v) = expand_tree cat v.
Proof. intros cat v H. exact (expand_tree_idem cat v (catalogue_ok_spec cat H)). Qed.
Print Assumptions C10_idempotent_no_notaction.

(* NotAction is an involution, not idempotent: complement of the complement = the expansion *)
Theorem C10_notaction_involution : forall cat ps,
  catalogue_ok cat = true -> expand_not cat (expand_not cat ps) = expand cat ps.
Proof. intros cat ps H. exact (expand_not_involution cat ps (catalogue_ok_spec cat H)). Qed.
Print Assumptions C10_notaction_involution.

Theorem C10_notaction_twice : forall cat x ps,
  catalogue_ok cat = true -> action_text x = Some ps ->
  walk_member (expand cat) (expand_not cat) K_NOTACTION (walk_member (expand cat) (expand_not cat) K_NOTACTION x)
  = vstrs (expand cat ps).
Proof. intros cat x ps H. exact (notaction_twice cat x ps (catalogue_ok_spec cat H)). Qed.
Print Assumptions C10_notaction_twice.

(* the functions the extracted runner executes (staged for speed, Actions/Fast.v) ARE the model functions above *)
Theorem C10_runner_functions : forall cat v,
  expand_tree_pre cat v = expand_tree cat v /\ expand_model_pre cat v = expand_model cat v /\
  expand_model_twice_pre cat v = expand_model cat (expand_model cat v).
Proof.
  intros cat v. exact (conj (expand_tree_pre_ok cat v) (conj (expand_model_pre_ok cat v) (expand_model_twice_pre_ok cat v))).
Qed.
Print Assumptions C10_runner_functions.

(* ---- examples ---- *)
From Coq Require Import String.
Definition s (x : string) : str := of_string x.
Definition CAT5 : list str :=
  [s "iam:PassRole"; s "s3:GetObject"; s "s3:GetObjectAcl"; s "s3:ListBucket"; s "s3:PutObject"]%string.
Example C10_ex_hypothesis_satisfiable : catalogue_ok CAT5 = true.
Proof. vm_compute. reflexivity. Qed.

(* WAF-style rule: the object-valued Action stays, the nested string Action is expanded, NotAction complements *)
Example C10_ex_walk :
  expand_tree CAT5
    (VDict [(s "Rules", VList [VDict [(s "Action", VDict [(s "Block", VDict [])]); (s "Priority", VInt 1%Z)]]);
            (s "Action", VStr (s "s3:Get*"));
            (s "Metadata", VDict [(s "Action", VInt 5%Z); (s "NotAction", VList [VStr (s "s3:*")])])])%string
  = (VDict [(s "Rules", VList [VDict [(s "Action", VDict [(s "Block", VDict [])]); (s "Priority", VInt 1%Z)]]);
            (s "Action", VList [VStr (s "s3:GetObject"); VStr (s "s3:GetObjectAcl")]);
            (s "Metadata", VDict [(s "Action", VInt 5%Z); (s "NotAction", VList [VStr (s "iam:PassRole")])])])%string.
Proof. vm_compute. reflexivity. Qed.

(* without the invariants idempotence fails: an entry holding a wildcard re-expands *)
Example C10_ex_invariants_needed :
  let cat := [s "a:*"; s "a:xy"]%string in
  catalogue_ok cat = false /\ expand cat (expand cat [s "a:?"]%string) <> expand cat [s "a:?"]%string.
Proof. vm_compute. split; [reflexivity | discriminate]. Qed.

(* ================================================================================================ *)
(* THE ALGEBRA OF THE WALK (Actions/TreeAlgebra.v, Actions/CatalogueMono.v).  Every statement: ANY catalogue, ANY tree,
   ANY pattern lists, ANY depth.
   [member_at p i v]: the i-th member (key, value) of the object reached from the root of v by the path p, a list of steps
   [SMember j] (into the value of the j-th member of an object) / [SElem j] (into the j-th element of an array). *)

(* THE PATH THEOREM: the result has an object exactly where the input has one, with the same members in the same
   positions under the same keys, each value being that member's own walk *)
Theorem C10_member_at_walk : forall cat p i v,
  member_at p i (expand_tree cat v) =
  option_map (fun kv => (fst kv, walk_member (expand cat) (expand_not cat) (fst kv) (snd kv))) (member_at p i v).
Proof. intros cat. exact (member_at_walk (expand cat) (expand_not cat)). Qed.
Print Assumptions C10_member_at_walk.

(* 1. SOUND and COMPLETE at any depth: an Action element (string or list of strings) becomes the list of exactly the
   catalogue entries matched -- as a glob, blind to ASCII letter case -- by one of the patterns written there; a NotAction
   element the list of exactly the entries matched by none *)
Theorem C10_expanded_sound_complete : forall cat v p i x ps,
  action_text x = Some ps ->
  (member_at p i v = Some (K_ACTION, x) ->
   exists out, member_at p i (expand_tree cat v) = Some (K_ACTION, vstrs out) /\
     forall a, In a out <-> In a cat /\ exists q, In q ps /\ glob_ci q a = true) /\
  (member_at p i v = Some (K_NOTACTION, x) ->
   exists out, member_at p i (expand_tree cat v) = Some (K_NOTACTION, vstrs out) /\
     forall a, In a out <-> In a cat /\ forall q, In q ps -> glob_ci q a = false).
Proof.
  intros cat v p i x ps Ht.
  exact (conj (fun Hm => action_at_sound_complete cat v p i x ps Hm Ht)
              (fun Hm => notaction_at_sound_complete cat v p i x ps Hm Ht)).
Qed.
Print Assumptions C10_expanded_sound_complete.

(* read from the RESULT: a list of strings under an Action / NotAction key, at any depth, is the expansion of the patterns
   that stood at the same place of the input (nothing is invented, moved or merged) *)
Theorem C10_expanded_origin : forall cat v p i k y out,
  member_at p i (expand_tree cat v) = Some (k, y) -> is_action_key k = true -> action_text y = Some out ->
  exists x ps, member_at p i v = Some (k, x) /\ action_text x = Some ps /\
               out = if str_eqb k K_ACTION then expand cat ps else expand_not cat ps.
Proof. exact expanded_origin. Qed.
Print Assumptions C10_expanded_origin.

(* a member that is not Action / NotAction text is simply walked, wherever it is *)
Theorem C10_other_member_at : forall cat p i v k x,
  member_at p i v = Some (k, x) -> is_action_key k = false \/ action_text x = None ->
  member_at p i (expand_tree cat v) = Some (k, expand_tree cat x).
Proof. intros cat. exact (other_at_walk (expand cat) (expand_not cat)). Qed.
Print Assumptions C10_other_member_at.

(* 2. CANONICAL FORM at any depth: strictly increasing (Python's str order), duplicate-free, made of catalogue entries,
   no longer than the catalogue *)
Theorem C10_expanded_canonical : forall cat v p i k y out,
  member_at p i (expand_tree cat v) = Some (k, y) -> is_action_key k = true -> action_text y = Some out ->
  StronglySorted str_lt out /\ NoDup out /\ incl out cat /\ List.length out <= List.length cat.
Proof. exact expanded_canonical. Qed.
Print Assumptions C10_expanded_canonical.

Theorem C10_expansion_lengths : forall cat ps,
  List.length (expand cat ps) <= List.length cat /\ List.length (expand_not cat ps) <= List.length cat /\
  List.length (expand cat ps) + List.length (expand_not cat ps) = List.length (nodup_sort cat).
Proof. intros cat ps. exact (conj (expand_length cat ps) (conj (expand_not_length cat ps) (expand_lengths_add cat ps))). Qed.
Print Assumptions C10_expansion_lengths.

(* 3. LOCALITY.  The walk distributes over the members of an object and the elements of an array ... *)
Theorem C10_distributes : forall cat,
  (forall d1 d2, expand_tree cat (VDict (d1 ++ d2)) =
                 VDict (vmembers (expand_tree cat (VDict d1)) ++ vmembers (expand_tree cat (VDict d2)))) /\
  (forall l1 l2, expand_tree cat (VList (l1 ++ l2)) =
                 VList (velems (expand_tree cat (VList l1)) ++ velems (expand_tree cat (VList l2)))).
Proof. intros cat. exact (conj (walk_dict_app (expand cat) (expand_not cat)) (walk_list_app (expand cat) (expand_not cat))). Qed.
Print Assumptions C10_distributes.

(* ... the result for one member / element is a function of that member alone: the same among any siblings *)
Theorem C10_members_independent : forall cat,
  (forall d1 k x d2,
     expand_tree cat (VDict (d1 ++ (k, x) :: d2)) =
     VDict (vmembers (expand_tree cat (VDict d1)) ++ (k, walk_member (expand cat) (expand_not cat) k x)
            :: vmembers (expand_tree cat (VDict d2)))) /\
  (forall l1 x l2,
     expand_tree cat (VList (l1 ++ x :: l2)) =
     VList (velems (expand_tree cat (VList l1)) ++ expand_tree cat x :: velems (expand_tree cat (VList l2)))) /\
  (forall d i, nth_error (vmembers (expand_tree cat (VDict d))) i =
               option_map (fun kv => (fst kv, walk_member (expand cat) (expand_not cat) (fst kv) (snd kv))) (nth_error d i)) /\
  (forall l i, nth_error (velems (expand_tree cat (VList l))) i = option_map (expand_tree cat) (nth_error l i)).
Proof.
  intros cat.
  exact (conj (walk_member_among (expand cat) (expand_not cat)) (conj (walk_elem_among (expand cat) (expand_not cat))
        (conj (walk_nth_member (expand cat) (expand_not cat)) (walk_nth_elem (expand cat) (expand_not cat))))).
Qed.
Print Assumptions C10_members_independent.

(* ... keys and their order, the number of members and the length of arrays are kept *)
Theorem C10_keys_lengths_preserved : forall cat v,
  vkeys (expand_tree cat v) = vkeys v /\
  List.length (velems (expand_tree cat v)) = List.length (velems v) /\
  List.length (vmembers (expand_tree cat v)) = List.length (vmembers v).
Proof.
  intros cat v. exact (conj (walk_keys (expand cat) (expand_not cat) v) (walk_length (expand cat) (expand_not cat) v)).
Qed.
Print Assumptions C10_keys_lengths_preserved.

(* SHAPE: [skeleton v] is v with every Action / NotAction text replaced by null and everything else kept (a tree without
   such text is its own skeleton).  The walk does not change it -- at any depth, for any catalogue. *)
Theorem C10_skeleton_preserved : forall cat v, skeleton (expand_tree cat v) = skeleton v.
Proof. intros cat v. exact (skeleton_walk (expand cat) (expand_not cat) v). Qed.
Print Assumptions C10_skeleton_preserved.

Theorem C10_skeleton_is_tight : forall v,
  (has_action_text v = false -> skeleton v = v) /\
  vkeys (skeleton v) = vkeys v /\ List.length (velems (skeleton v)) = List.length (velems v).
Proof. intros v. exact (conj (skeleton_no_text v) (skeleton_keys_lengths v)). Qed.
Print Assumptions C10_skeleton_is_tight.

(* FUSION: a walk after a walk is ONE walk with the composed replacement functions (what the iteration and
   catalogue-update statements below rest on) *)
Theorem C10_walk_fusion : forall a n f g v,
  walk f g (walk a n v) = walk (fun ps => f (a ps)) (fun ps => g (n ps)) v.
Proof. exact walk_compose. Qed.
Print Assumptions C10_walk_fusion.

(* 4. CATALOGUE UPDATE.  [cat] the old catalogue, [cat'] the new one, every old entry still there.
   MONOTONE: the expansion over the old catalogue is the expansion over the new one with the new entries left out -- for
   Action AND for NotAction (complement within the respective catalogue); no well-formedness needed *)
Theorem C10_catalogue_monotone : forall cat cat' ps,
  incl cat cat' ->
  expand cat ps = restrict cat (expand cat' ps) /\ expand_not cat ps = restrict cat (expand_not cat' ps).
Proof. intros cat cat' ps H. exact (conj (expand_mono cat cat' ps H) (expand_not_mono cat cat' ps H)). Qed.
Print Assumptions C10_catalogue_monotone.

(* nothing returned before disappears, and whatever is new in a result is a new catalogue entry *)
Theorem C10_catalogue_monotone_members : forall cat cat' ps,
  incl cat cat' ->
  (forall a, In a (expand cat ps) -> In a (expand cat' ps)) /\
  (forall a, In a (expand cat' ps) -> ~ In a (expand cat ps) -> In a cat' /\ ~ In a cat) /\
  (forall a, In a (expand_not cat ps) -> In a (expand_not cat' ps)) /\
  (forall a, In a (expand_not cat' ps) -> ~ In a (expand_not cat ps) -> In a cat' /\ ~ In a cat).
Proof. exact expand_mono_mem. Qed.
Print Assumptions C10_catalogue_monotone_members.

(* the same for whole trees: walking with the old catalogue = walking with the new one, then dropping the new entries
   from every Action / NotAction element; and catalogues with the same entries (any order, repetitions) walk alike *)
Theorem C10_catalogue_monotone_tree : forall cat cat' v,
  incl cat cat' -> expand_tree cat v = walk (restrict cat) (restrict cat) (expand_tree cat' v).
Proof. exact expand_tree_mono. Qed.
Print Assumptions C10_catalogue_monotone_tree.

Theorem C10_catalogue_same_entries : forall cat cat' v,
  (forall a, In a cat <-> In a cat') -> expand_tree cat v = expand_tree cat' v.
Proof. exact expand_tree_same_entries. Qed.
Print Assumptions C10_catalogue_same_entries.

(* IDEMPOTENCE SURVIVES THE UPDATE when the NEW catalogue is well-formed (nothing is asked of the old one): an Action or
   NotAction list produced with the old catalogue is a fixed point of Action expansion with the new one; a tree expanded
   with the old catalogue and then with the new one keeps every Action element, can differ in NotAction text only, and is
   unchanged when it holds no NotAction text *)
Theorem C10_fixed_point_survives_catalogue_update : forall cat cat' ps v,
  catalogue_ok cat' = true -> incl cat cat' ->
  expand cat' (expand cat ps) = expand cat ps /\
  expand cat' (expand_not cat ps) = expand_not cat ps /\
  expand_tree cat' (expand_tree cat v) = walk (expand cat) (fun qs => expand_not cat' (expand_not cat qs)) v /\
  (has_notaction_text v = false -> expand_tree cat' (expand_tree cat v) = expand_tree cat v) /\
  frame_rel is_notaction_key (expand_tree cat v) (expand_tree cat' (expand_tree cat v)).
Proof.
  intros cat cat' ps v H Hi.
  exact (conj (proj1 (expand_fixed_after_update cat cat' ps (catalogue_ok_spec cat' H) Hi))
        (conj (proj2 (expand_fixed_after_update cat cat' ps (catalogue_ok_spec cat' H) Hi))
        (conj (expand_tree_after_update cat cat' v (catalogue_ok_spec cat' H) Hi)
              (expand_tree_fixed_after_update cat cat' v (catalogue_ok_spec cat' H) Hi)))).
Qed.
Print Assumptions C10_fixed_point_survives_catalogue_update.

(* a NotAction element expanded with the old catalogue and AGAIN with the new one holds the actions its patterns match
   (the involution) together with every action the update added *)
Theorem C10_notaction_after_update : forall cat cat' ps a,
  catalogue_ok cat' = true -> incl cat cat' ->
  (In a (expand_not cat' (expand_not cat ps)) <-> In a (expand cat ps) \/ (In a cat' /\ ~ In a cat)).
Proof. intros cat cat' ps a H. exact (expand_not_twice_after_update cat cat' ps a (catalogue_ok_spec cat' H)). Qed.
Print Assumptions C10_notaction_after_update.

(* THE EXACT CONDITION, when only the OLD catalogue is known to be well-formed: old expansions are fixed points of the new
   expansion, for every pattern list, IF AND ONLY IF no new entry differs from an old entry by ASCII letter case only *)
Theorem C10_fixed_point_update_exact_condition : forall cat cat',
  catalogue_ok cat = true -> incl cat cat' ->
  ((forall ps, expand cat' (expand cat ps) = expand cat ps) <->
   (forall q a, In q cat -> In a cat' -> lower a = lower q -> a = q)).
Proof. intros cat cat' H. exact (fixed_after_update_iff cat cat' (catalogue_ok_spec cat H)). Qed.
Print Assumptions C10_fixed_point_update_exact_condition.

(* ... and it is NOT unconditional: a new entry spelled like an old one in another letter case re-expands *)
Theorem C10_fixed_point_any_update_refuted :
  exists cat cat' ps, catalogue_ok cat = true /\ incl cat cat' /\ expand cat' (expand cat ps) <> expand cat ps.
Proof.
  exists [of_string "s3:GetObject"], [of_string "s3:GetObject"; of_string "s3:getobject"], [of_string "s3:Get*"].
  split; [vm_compute; reflexivity|]. split; [apply sub_catalogue_incl; vm_compute; reflexivity|]. vm_compute. discriminate.
Qed.
Print Assumptions C10_fixed_point_any_update_refuted.

(* 5. ITERATION.  [C10_idempotent_tree] leaves NotAction text open; this closes it.  Twice: every Action AND every
   NotAction element holds the plain expansion of its patterns.  Three times = once.  Period two ever after. *)
Theorem C10_notaction_iterated : forall cat v,
  catalogue_ok cat = true ->
  expand_tree cat (expand_tree cat v) = walk (expand cat) (expand cat) v /\
  expand_tree cat (expand_tree cat (expand_tree cat v)) = expand_tree cat v /\
  (forall k, iterate (S (S (S k))) (expand_tree cat) v = iterate (S k) (expand_tree cat) v) /\
  (forall k, iterate (S (2 * k)) (expand_tree cat) v = expand_tree cat v /\
             iterate (S (S (2 * k))) (expand_tree cat) v = expand_tree cat (expand_tree cat v)).
Proof.
  intros cat v H.
  exact (conj (expand_tree_twice_is cat v (catalogue_ok_spec cat H))
        (conj (expand_tree_thrice cat v (catalogue_ok_spec cat H))
        (conj (fun k => expand_tree_period cat v k (catalogue_ok_spec cat H))
              (fun k => expand_tree_odd_even cat v k (catalogue_ok_spec cat H))))).
Qed.
Print Assumptions C10_notaction_iterated.

Theorem C10_notaction_of_expansion : forall cat ps,
  catalogue_ok cat = true -> expand_not cat (expand cat ps) = expand_not cat ps.
Proof. intros cat ps H. exact (expand_not_of_expand cat ps (catalogue_ok_spec cat H)). Qed.
Print Assumptions C10_notaction_of_expansion.

(* 6. THE PATTERN ALGEBRA ON TREES.  [pats_equiv ps qs]: each pattern of either list has an equivalent ([ci_equiv]) in the
   other -- what remains of a list when order, repetition and spelling are set aside.  [pat_rel v w]: the same tree, except
   that an Action / NotAction member holding action text in both may hold an equivalent pattern set (a bare string counts
   as a one-element list).  Such trees are walked to the SAME tree. *)
Theorem C10_pattern_order_blind : forall cat v w, pat_rel v w -> expand_tree cat v = expand_tree cat w.
Proof. exact expand_tree_pat_rel. Qed.
Print Assumptions C10_pattern_order_blind.

Theorem C10_pattern_order_blind_member : forall cat k x y ps qs d1 d2,
  is_action_key k = true -> action_text x = Some ps -> action_text y = Some qs -> pats_equiv ps qs ->
  walk_member (expand cat) (expand_not cat) k x = walk_member (expand cat) (expand_not cat) k y /\
  expand_tree cat (VDict (d1 ++ (k, x) :: d2)) = expand_tree cat (VDict (d1 ++ (k, y) :: d2)).
Proof.
  intros cat k x y ps qs d1 d2 HK E1 E2 HE.
  exact (conj (expand_member_pats cat k x y ps qs HK E1 E2 HE)
              (expand_tree_pat_rel cat _ _ (pat_rel_member d1 k x y d2 ps qs HK E1 E2 HE))).
Qed.
Print Assumptions C10_pattern_order_blind_member.

(* what makes two pattern lists equivalent: a permutation, a repetition, the same members, member-wise equivalent spellings
   (C09_pattern_equivalences: "p**q" ~ "p*q", "p*?q" ~ "p?*q", normal form, letter case); it is an equivalence relation *)
Theorem C10_pattern_sets : forall ps qs rs,
  (Permutation ps qs -> pats_equiv ps qs) /\
  pats_equiv (ps ++ ps) ps /\
  ((forall p, In p ps <-> In p qs) -> pats_equiv ps qs) /\
  (Forall2 ci_equiv ps qs -> pats_equiv ps qs) /\
  pats_equiv ps ps /\ (pats_equiv ps qs -> pats_equiv qs ps) /\ (pats_equiv ps qs -> pats_equiv qs rs -> pats_equiv ps rs).
Proof.
  intros ps qs rs.
  exact (conj (pats_equiv_perm ps qs) (conj (pats_equiv_dup ps) (conj (pats_equiv_same_members ps qs)
        (conj (pats_equiv_spelling ps qs) (conj (pats_equiv_refl ps) (conj (pats_equiv_sym ps qs) (pats_equiv_trans ps qs rs))))))).
Qed.
Print Assumptions C10_pattern_sets.

(* ---- non-vacuity: a policy inside a resource, two statements, on the small catalogue ---- *)
Definition T1 : value :=
  (VDict [(s "Properties", VDict [(s "PolicyDocument", VDict [(s "Statement", VList [
     VDict [(s "Effect", VStr (s "Allow")); (s "Action", VList [VStr (s "s3:Get*"); VStr (s "IAM:*")]); (s "Resource", VStr (s "*"))];
     VDict [(s "Effect", VStr (s "Deny")); (s "NotAction", VStr (s "s3:*"))]])])])])%string.
(* the same policy, the patterns written differently: reordered, repeated, other letter case, a doubled star, a list for a string *)
Definition T2 : value :=
  (VDict [(s "Properties", VDict [(s "PolicyDocument", VDict [(s "Statement", VList [
     VDict [(s "Effect", VStr (s "Allow")); (s "Action", VList [VStr (s "iam:*"); VStr (s "s3:Get**"); VStr (s "iam:*")]);
            (s "Resource", VStr (s "*"))];
     VDict [(s "Effect", VStr (s "Deny")); (s "NotAction", VList [VStr (s "s3:*"); VStr (s "s3:*")])]])])])])%string.
Definition P_STMT (j : nat) : path := [SMember 0; SMember 0; SMember 0; SElem j].
Definition CAT7 : list str :=
  [s "iam:PassRole"; s "s3:GetBucketAcl"; s "s3:GetObject"; s "s3:GetObjectAcl"; s "s3:ListBucket"; s "s3:PutObject";
   s "sts:AssumeRole"]%string.

(* hypotheses of C10_expanded_sound_complete / _origin / _canonical: an Action and a NotAction element three objects and
   one array deep, before and after *)
Example C10_ex_paths :
  member_at (P_STMT 0) 1 T1 = Some (K_ACTION, VList [VStr (s "s3:Get*"); VStr (s "IAM:*")])%string /\
  action_text (VList [VStr (s "s3:Get*"); VStr (s "IAM:*")])%string = Some [s "s3:Get*"; s "IAM:*"]%string /\
  member_at (P_STMT 0) 1 (expand_tree CAT5 T1)
    = Some (K_ACTION, vstrs [s "iam:PassRole"; s "s3:GetObject"; s "s3:GetObjectAcl"])%string /\
  member_at (P_STMT 1) 1 T1 = Some (K_NOTACTION, VStr (s "s3:*"))%string /\
  member_at (P_STMT 1) 1 (expand_tree CAT5 T1) = Some (K_NOTACTION, vstrs [s "iam:PassRole"])%string /\
  member_at (P_STMT 0) 2 (expand_tree CAT5 T1) = Some (s "Resource", VStr (s "*"))%string /\
  member_at (P_STMT 2) 0 (expand_tree CAT5 T1) = None.
Proof. vm_compute. repeat split; reflexivity. Qed.

Example C10_ex_skeleton :
  skeleton T1 =
  (VDict [(s "Properties", VDict [(s "PolicyDocument", VDict [(s "Statement", VList [
     VDict [(s "Effect", VStr (s "Allow")); (s "Action", VNull); (s "Resource", VStr (s "*"))];
     VDict [(s "Effect", VStr (s "Deny")); (s "NotAction", VNull)]])])])])%string /\
  skeleton (expand_tree CAT5 T1) = skeleton T1 /\ expand_tree CAT5 T1 <> T1.
Proof. vm_compute. repeat split; try reflexivity. discriminate. Qed.

(* catalogue update: CAT5 is a part of CAT7, both well-formed; the Action element gains exactly the new entry it matches,
   the NotAction element exactly the new entry it does not; restricted to CAT5 both are as before *)
Example C10_ex_catalogue_update :
  catalogue_ok CAT5 = true /\ catalogue_ok CAT7 = true /\ incl CAT5 CAT7 /\
  expand CAT5 [s "s3:Get*"; s "IAM:*"]%string = [s "iam:PassRole"; s "s3:GetObject"; s "s3:GetObjectAcl"]%string /\
  expand CAT7 [s "s3:Get*"; s "IAM:*"]%string
    = [s "iam:PassRole"; s "s3:GetBucketAcl"; s "s3:GetObject"; s "s3:GetObjectAcl"]%string /\
  expand_not CAT5 [s "s3:*"]%string = [s "iam:PassRole"]%string /\
  expand_not CAT7 [s "s3:*"]%string = [s "iam:PassRole"; s "sts:AssumeRole"]%string /\
  expand_tree CAT5 T1 = walk (restrict CAT5) (restrict CAT5) (expand_tree CAT7 T1) /\
  expand_tree CAT5 T1 <> expand_tree CAT7 T1 /\
  expand CAT7 (expand CAT5 [s "s3:Get*"; s "IAM:*"]%string) = expand CAT5 [s "s3:Get*"; s "IAM:*"]%string /\
  expand_not CAT7 (expand_not CAT5 [s "s3:*"]%string)
    = [s "s3:GetBucketAcl"; s "s3:GetObject"; s "s3:GetObjectAcl"; s "s3:ListBucket"; s "s3:PutObject"; s "sts:AssumeRole"]%string.
Proof.
  split; [vm_compute; reflexivity|]. split; [vm_compute; reflexivity|].
  split; [apply sub_catalogue_incl; vm_compute; reflexivity|].
  vm_compute. repeat split; try reflexivity. discriminate.
Qed.

(* the witness of C10_fixed_point_any_update_refuted spelled out: the new catalogue is rejected by the catalogue check,
   and with it the already expanded element {"Action": ["s3:GetObject"]} grows on re-expansion *)
Example C10_ex_case_variant_update :
  let cat := [s "s3:GetObject"]%string in
  let cat' := [s "s3:GetObject"; s "s3:getobject"]%string in
  catalogue_ok cat = true /\ catalogue_ok cat' = false /\
  expand_tree cat (VDict [(s "Action", VStr (s "s3:Get*"))])%string = VDict [(s "Action", VList [VStr (s "s3:GetObject")])]%string /\
  expand_tree cat' (VDict [(s "Action", VList [VStr (s "s3:GetObject")])])%string
    = VDict [(s "Action", VList [VStr (s "s3:GetObject"); VStr (s "s3:getobject")])]%string.
Proof. vm_compute. repeat split; reflexivity. Qed.

(* iteration: twice differs from once exactly in the NotAction element (now the plain expansion); three times = once *)
Example C10_ex_iterated :
  member_at (P_STMT 1) 1 (expand_tree CAT5 (expand_tree CAT5 T1))
    = Some (K_NOTACTION, vstrs [s "s3:GetObject"; s "s3:GetObjectAcl"; s "s3:ListBucket"; s "s3:PutObject"])%string /\
  member_at (P_STMT 0) 1 (expand_tree CAT5 (expand_tree CAT5 T1)) = member_at (P_STMT 0) 1 (expand_tree CAT5 T1) /\
  expand_tree CAT5 (expand_tree CAT5 T1) <> expand_tree CAT5 T1 /\
  expand_tree CAT5 (expand_tree CAT5 (expand_tree CAT5 T1)) = expand_tree CAT5 T1 /\
  iterate 7 (expand_tree CAT5) T1 = expand_tree CAT5 T1 /\
  iterate 8 (expand_tree CAT5) T1 = expand_tree CAT5 (expand_tree CAT5 T1).
Proof. vm_compute. repeat split; try reflexivity. discriminate. Qed.

(* hypotheses of C10_pattern_order_blind: T1 and T2 are related, and are walked to the same tree *)
Example C10_ex_pattern_order_blind :
  pats_equiv [s "s3:Get*"; s "IAM:*"]%string [s "iam:*"; s "s3:Get**"; s "iam:*"]%string /\
  pat_rel T1 T2 /\ T1 <> T2 /\ expand_tree CAT5 T1 = expand_tree CAT5 T2.
Proof.
  assert (E1 : ci_equiv (s "s3:Get*"%string) (s "s3:Get**"%string))
    by exact (ci_equiv_sym _ _ (ci_equiv_star_star (s "s3:Get"%string) [])).
  assert (E2 : ci_equiv (s "IAM:*"%string) (s "iam:*"%string))
    by exact (ci_equiv_sym _ _ (ci_equiv_case (s "IAM:*"%string))).
  assert (HP : pats_equiv [s "s3:Get*"; s "IAM:*"]%string [s "iam:*"; s "s3:Get**"; s "iam:*"]%string).
  { apply (pats_equiv_trans _ [s "s3:Get**"; s "iam:*"]%string).
    - apply pats_equiv_spelling. constructor; [exact E1|]. constructor; [exact E2 | constructor].
    - apply pats_equiv_same_members. intros p. cbn [In]. tauto. }
  assert (HN : pats_equiv [s "s3:*"]%string [s "s3:*"; s "s3:*"]%string)
    by exact (pats_equiv_sym _ _ (pats_equiv_dup [s "s3:*"]%string)).
  split; [exact HP|]. split; [|split; [vm_compute; discriminate | vm_compute; reflexivity]].
  unfold T1, T2.
  apply PR_dict. constructor; [|constructor]. split; [reflexivity|]. left.
  apply PR_dict. constructor; [|constructor]. split; [reflexivity|]. left.
  apply PR_dict. constructor; [|constructor]. split; [reflexivity|]. left.
  apply PR_list. constructor; [|constructor; [|constructor]].
  - apply PR_dict. constructor; [split; [reflexivity | left; apply PR_same]|].
    constructor; [|constructor; [split; [reflexivity | left; apply PR_same] | constructor]].
    split; [reflexivity|]. right. split; [reflexivity|].
    exists [s "s3:Get*"; s "IAM:*"]%string, [s "iam:*"; s "s3:Get**"; s "iam:*"]%string.
    split; [reflexivity|]. split; [reflexivity | exact HP].
  - apply PR_dict. constructor; [split; [reflexivity | left; apply PR_same]|]. constructor; [|constructor].
    split; [reflexivity|]. right. split; [reflexivity|].
    exists [s "s3:*"]%string, [s "s3:*"; s "s3:*"]%string. split; [reflexivity|]. split; [reflexivity | exact HN].
Qed.
