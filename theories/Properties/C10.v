(* C10 -- expand_actions changes only Action/NotAction text and is idempotent on Action elements.
   Statements only; proofs are [exact] of lemmas of Actions/TreeThm.v.
   [expand_tree cat] is the walk over one dumped resource, [expand_model cat] the model-level function over a dumped
   template, [cat] ANY catalogue; idempotence needs the catalogue invariants ([catalogue_ok cat = true], proved for the
   shipped catalogue in Actions/CatalogueChecks.v on every run). *)
From Coq Require Import List Bool NArith ZArith Sorting.Sorted Permutation.
From PV Require Import Base.Str Base.Value Glob.Glob Run.RState.
From PV Require Import Actions.Expand Actions.ExpandThm Actions.Catalogue Actions.Tree Actions.TreeThm Actions.Fast.
Import ListNotations.

(* FRAME.  [frame_rel may v w] (Actions/TreeThm.v): w has the same constructor as v, objects have the same keys in the
   same order, lists the same length, members are related; the only members that may differ are those whose key
   satisfies [may] and whose value in v is action text (string / list of strings) -- they hold a list of strings in w.
   For every tree, the walk is related to its input with may = {Action, NotAction}. *)
Theorem C10_frame : forall cat v, frame_rel is_action_key v (expand_tree cat v).
Proof. intros cat v. exact (walk_frame (expand cat) (expand_not cat) v). Qed.
Print Assumptions C10_frame.

(* the relation says something: with no key allowed to change it is equality *)
Theorem C10_frame_rel_is_tight : forall v w, frame_rel (fun _ => false) v w -> v = w.
Proof. exact frame_rel_none_eq. Qed.
Print Assumptions C10_frame_rel_is_tight.

(* an Action / NotAction member whose value is NOT action text (an object, a number, a list holding an object ...)
   is never expanded: it is walked like any other member; and a tree that holds no action text under such a key
   is returned unchanged (WAF rule actions {"Block": {}}, Lambda permissions under other keys, ...) *)
Theorem C10_object_action_kept : forall cat k x,
  action_text x = None ->
  walk_member (expand cat) (expand_not cat) k x = expand_tree cat x.
Proof. intros cat k x. exact (walk_member_nontext (expand cat) (expand_not cat) k x). Qed.
Print Assumptions C10_object_action_kept.

Theorem C10_no_action_text_unchanged : forall cat v, has_action_text v = false -> expand_tree cat v = v.
Proof. intros cat v. exact (walk_no_text (expand cat) (expand_not cat) v). Qed.
Print Assumptions C10_no_action_text_unchanged.

(* model level: same sections in the same order; every section other than Resources keeps its value; inside Resources
   every resource keeps its name and is walked on its own; a resource's Type is untouched (same model class) *)
Theorem C10_other_sections : forall cat t,
  vkeys (expand_model cat t) = vkeys t /\
  (forall k, k <> K_RESOURCES -> vlookup k (expand_model cat t) = vlookup k t) /\
  (forall rs, vlookup K_RESOURCES t = Some (VDict rs) ->
     vlookup K_RESOURCES (expand_model cat t) = Some (VDict (map (fun nr => (fst nr, expand_tree cat (snd nr))) rs))).
Proof.
  intros cat t.
  exact (conj (walk_model_keys (expand cat) (expand_not cat) t)
        (conj (walk_model_other (expand cat) (expand_not cat) t) (walk_model_resources (expand cat) (expand_not cat) t))).
Qed.
Print Assumptions C10_other_sections.

Theorem C10_class_kept : forall cat d t,
  lookup K_TYPE d = Some (VStr t) -> vlookup K_TYPE (expand_tree cat (VDict d)) = Some (VStr t).
Proof. intros cat d t. exact (walk_type_kept (expand cat) (expand_not cat) d t). Qed.
Print Assumptions C10_class_kept.

(* IDEMPOTENCE on Action elements *)
Theorem C10_idempotent_action : forall cat ps,
  catalogue_ok cat = true -> expand cat (expand cat ps) = expand cat ps.
Proof. intros cat ps H. exact (expand_idem cat ps (catalogue_ok_spec cat H)). Qed.
Print Assumptions C10_idempotent_action.

(* ... hence a second application of the walk can change nothing but NotAction text, anywhere in the tree *)
Theorem C10_idempotent_tree : forall cat v,
  catalogue_ok cat = true ->
  frame_rel is_notaction_key (expand_tree cat v) (expand_tree cat (expand_tree cat v)).
Proof. intros cat v H. exact (expand_tree_twice cat v (catalogue_ok_spec cat H)). Qed.
Print Assumptions C10_idempotent_tree.

(* ... and is the identity on trees without NotAction text *)
Theorem C10_idempotent_no_notaction : forall cat v,
  catalogue_ok cat = true -> has_notaction_text v = false ->
  expand_tree cat (expand_tree cat v) = expand_tree cat v.
Proof. intros cat v H. exact (expand_tree_idem cat v (catalogue_ok_spec cat H)). Qed.
Print Assumptions C10_idempotent_no_notaction.

(* NotAction is an involution, not idempotent: complement of the complement = the expansion *)
Theorem C10_notaction_involution : forall cat ps,
  catalogue_ok cat = true -> expand_not cat (expand_not cat ps) = expand cat ps.
Proof. intros cat ps H. exact (expand_not_involution cat ps (catalogue_ok_spec cat H)). Qed.
Print Assumptions C10_notaction_involution.

Theorem C10_notaction_twice : forall cat x ps,
  catalogue_ok cat = true -> action_text x = Some ps ->
  walk_member (expand cat) (expand_not cat) K_NOTACTION (walk_member (expand cat) (expand_not cat) K_NOTACTION x)
  = vstrs (expand cat ps).
Proof. intros cat x ps H. exact (notaction_twice cat x ps (catalogue_ok_spec cat H)). Qed.
Print Assumptions C10_notaction_twice.

(* the functions the extracted runner executes (staged for speed, Actions/Fast.v) ARE the model functions above *)
Theorem C10_runner_functions : forall cat v,
  expand_tree_pre cat v = expand_tree cat v /\ expand_model_pre cat v = expand_model cat v /\
  expand_model_twice_pre cat v = expand_model cat (expand_model cat v).
Proof.
  intros cat v. exact (conj (expand_tree_pre_ok cat v) (conj (expand_model_pre_ok cat v) (expand_model_twice_pre_ok cat v))).
Qed.
Print Assumptions C10_runner_functions.

(* ---- examples ---- *)
From Coq Require Import String.
Definition s (x : string) : str := of_string x.
Definition CAT5 : list str :=
  [s "iam:PassRole"; s "s3:GetObject"; s "s3:GetObjectAcl"; s "s3:ListBucket"; s "s3:PutObject"]%string.
Example C10_ex_hypothesis_satisfiable : catalogue_ok CAT5 = true.
Proof. vm_compute. reflexivity. Qed.

(* WAF-style rule: the object-valued Action stays, the nested string Action is expanded, NotAction complements *)
Example C10_ex_walk :
  expand_tree CAT5
    (VDict [(s "Rules", VList [VDict [(s "Action", VDict [(s "Block", VDict [])]); (s "Priority", VInt 1%Z)]]);
            (s "Action", VStr (s "s3:Get*"));
            (s "Metadata", VDict [(s "Action", VInt 5%Z); (s "NotAction", VList [VStr (s "s3:*")])])])%string
  = (VDict [(s "Rules", VList [VDict [(s "Action", VDict [(s "Block", VDict [])]); (s "Priority", VInt 1%Z)]]);
            (s "Action", VList [VStr (s "s3:GetObject"); VStr (s "s3:GetObjectAcl")]);
            (s "Metadata", VDict [(s "Action", VInt 5%Z); (s "NotAction", VList [VStr (s "iam:PassRole")])])])%string.
Proof. vm_compute. reflexivity. Qed.

(* without the invariants idempotence fails: an entry holding a wildcard re-expands *)
Example C10_ex_invariants_needed :
  let cat := [s "a:*"; s "a:xy"]%string in
  catalogue_ok cat = false /\ expand cat (expand cat [s "a:?"]%string) <> expand cat [s "a:?"]%string.
Proof. vm_compute. split; [reflexivity | discriminate]. Qed.
