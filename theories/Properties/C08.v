(* C08 -- Wildcard matching is IAM glob matching, never regular-expression matching.
   Statements only; every proof is [exact] of a lemma proved in Glob/Glob.v. *)
From Coq Require Import List Bool NArith.
From PV Require Import Base.Str Glob.Glob Run.RState.
Import ListNotations.

(* For EVERY alphabet with decidable equality and any two wildcard characters: the matcher accepts
   exactly the strings that can be cut into one segment per pattern character -- a single character equal
   to the literal, any single character for '?', any (possibly empty) run for '*' -- covering the WHOLE string. *)
Theorem C08_correct :
  forall (A : Type) (eqb : A -> A -> bool), (forall a b, eqb a b = true <-> a = b) ->
  forall (star qm : A) (p s : list A),
    glob_match A eqb star qm p s = true <-> glob_spec A (tokens A eqb star qm p) s.
Proof. exact glob_correct. Qed.
Print Assumptions C08_correct.

(* every non-wildcard character -- whatever it is, regex metacharacters included, since the alphabet is
   arbitrary -- matches only itself *)
Theorem C08_literal :
  forall (A : Type) (eqb : A -> A -> bool), (forall a b, eqb a b = true <-> a = b) ->
  forall (star qm : A) (p : list A), no_wild A star qm p ->
  forall s, glob_match A eqb star qm p s = true <-> s = p.
Proof. exact glob_literal. Qed.
Print Assumptions C08_literal.

Theorem C08_star :
  forall (A : Type) (eqb : A -> A -> bool), (forall a b, eqb a b = true <-> a = b) ->
  forall (star qm : A) (s : list A), star <> qm -> glob_match A eqb star qm [star] s = true.
Proof. exact glob_star_alone. Qed.
Print Assumptions C08_star.

Theorem C08_question :
  forall (A : Type) (eqb : A -> A -> bool), (forall a b, eqb a b = true <-> a = b) ->
  forall (star qm : A) (s : list A), star <> qm ->
    (glob_match A eqb star qm [qm] s = true <-> exists c, s = [c]).
Proof. exact glob_qm_alone. Qed.
Print Assumptions C08_question.

(* building / running a matcher never fails: that the matcher is a total function into bool is its type (no error branch exists
   to exclude).  What IS a statement: no pattern is rejected and none is vacuous -- every pattern, whatever characters it is made
   of ("(a", "[", "\\", "a|b", ...), matches the string obtained by deleting its stars, and nothing shorter. *)
Theorem C08_every_pattern_matches_something :
  forall p : str, glob_cs p (witness N N.eqb STAR p) = true.
Proof. exact (glob_satisfiable N N.eqb N.eqb_eq STAR QM). Qed.
Print Assumptions C08_every_pattern_matches_something.
Theorem C08_shortest_match :
  forall p s : str, glob_cs p s = true -> (List.length (witness N N.eqb STAR p) <= List.length s)%nat.
Proof. exact (glob_witness_shortest N N.eqb N.eqb_eq STAR QM). Qed.
Print Assumptions C08_shortest_match.

(* the instance that runs against the implementation: code points, '*' = 42, '?' = 63 *)
Theorem C08_instance_cs :
  forall p s, glob_cs p s = true <-> glob_spec N (tokens N N.eqb STAR QM p) s.
Proof. exact (glob_correct N N.eqb N.eqb_eq STAR QM). Qed.
Print Assumptions C08_instance_cs.

(* action names: matched without regard to (ASCII) letter case = matching the folded pattern against the folded name *)
Theorem C08_ci :
  forall p s, glob_ci p s = true <->
              glob_spec N (tokens N N.eqb STAR QM (map lower_cp p)) (map lower_cp s).
Proof. exact (glob_ci_spec N N.eqb N.eqb_eq STAR QM lower_cp). Qed.
Print Assumptions C08_ci.

Theorem C08_ci_case_blind :
  forall p s s', map lower_cp s = map lower_cp s' -> glob_ci p s = glob_ci p s'.
Proof. exact (glob_ci_fold_invariant N N.eqb STAR QM lower_cp). Qed.
Print Assumptions C08_ci_case_blind.

Local Open Scope N_scope.
(* non-vacuity: concrete instances, including regex metacharacters as literals *)
Example C08_ex_dot_is_literal : glob_cs [97;46;99] [97;98;99] = false /\ glob_cs [97;46;99] [97;46;99] = true.
Proof. split; vm_compute; reflexivity. Qed.
Example C08_ex_paren_builds : glob_cs [40;97] [40;97] = true.
Proof. vm_compute; reflexivity. Qed.
Example C08_ex_star_qm : glob_cs [97;42;63;122] [97;98;99;100;122] = true /\ glob_cs [97;42;63;122] [97;122] = false.
Proof. split; vm_compute; reflexivity. Qed.
Example C08_ex_like_case_sensitive : glob_cs [97;42] [65;98] = false /\ glob_ci [97;42] [65;98] = true.
Proof. split; vm_compute; reflexivity. Qed.
