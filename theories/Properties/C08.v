(* C08 -- Wildcard matching is IAM glob matching, never regular-expression matching.
   Statements only; every proof is [exact] of a lemma proved in Glob/Glob.v or Glob/GlobAlgebra.v (the algebra of patterns). *)
From Coq Require Import List Bool NArith.
From PV Require Import Base.Str Glob.Glob Glob.GlobAlgebra Run.RState.
Import ListNotations.

(* For EVERY alphabet with decidable equality and any two wildcard characters: the matcher accepts
   exactly the strings that can be cut into one segment per pattern character -- a single character equal
   to the literal, any single character for '?', any (possibly empty) run for '*' -- covering the WHOLE string. *)
Theorem C08_correct :
  forall (A : Type) (eqb : A -> A -> bool), (forall a b, eqb a b = true <-> a = b) ->
  forall (star qm : A) (p s : list A),
    glob_match A eqb star qm p s = true <-> glob_spec A (tokens A eqb star qm p) s.
Proof. exact glob_correct. Qed.
Print Assumptions C08_correct.

(* every non-wildcard character -- whatever it is, regex metacharacters included, since the alphabet is
   arbitrary -- matches only itself *)
Theorem C08_literal :
  forall (A : Type) (eqb : A -> A -> bool), (forall a b, eqb a b = true <-> a = b) ->
  forall (star qm : A) (p : list A), no_wild A star qm p ->
  forall s, glob_match A eqb star qm p s = true <-> s = p.
Proof. exact glob_literal. Qed.
Print Assumptions C08_literal.

Theorem C08_star :
  forall (A : Type) (eqb : A -> A -> bool), (forall a b, eqb a b = true <-> a = b) ->
  forall (star qm : A) (s : list A), star <> qm -> glob_match A eqb star qm [star] s = true.
Proof. exact glob_star_alone. Qed.
Print Assumptions C08_star.

Theorem C08_question :
  forall (A : Type) (eqb : A -> A -> bool), (forall a b, eqb a b = true <-> a = b) ->
  forall (star qm : A) (s : list A), star <> qm ->
    (glob_match A eqb star qm [qm] s = true <-> exists c, s = [c]).
Proof. exact glob_qm_alone. Qed.
Print Assumptions C08_question.

(* building / running a matcher never fails: that the matcher is a total function into bool is its type (no error branch exists
   to exclude).  What IS a statement: no pattern is rejected and none is vacuous -- every pattern, whatever characters it is made
   of ("(a", "[", "\\", "a|b", ...), matches the string obtained by deleting its stars, and nothing shorter. *)
Theorem C08_every_pattern_matches_something :
  forall p : str, glob_cs p (witness N N.eqb STAR p) = true.
Proof. exact (glob_satisfiable N N.eqb N.eqb_eq STAR QM). Qed.
Print Assumptions C08_every_pattern_matches_something.
Theorem C08_shortest_match :
  forall p s : str, glob_cs p s = true -> (List.length (witness N N.eqb STAR p) <= List.length s)%nat.
Proof. exact (glob_witness_shortest N N.eqb N.eqb_eq STAR QM). Qed.
Print Assumptions C08_shortest_match.

(* the instance that runs against the implementation: code points, '*' = 42, '?' = 63 *)
Theorem C08_instance_cs :
  forall p s, glob_cs p s = true <-> glob_spec N (tokens N N.eqb STAR QM p) s.
Proof. exact (glob_correct N N.eqb N.eqb_eq STAR QM). Qed.
Print Assumptions C08_instance_cs.

(* action names: matched without regard to (ASCII) letter case = matching the folded pattern against the folded name *)
Theorem C08_ci :
  forall p s, glob_ci p s = true <->
              glob_spec N (tokens N N.eqb STAR QM (map lower_cp p)) (map lower_cp s).
Proof. exact (glob_ci_spec N N.eqb N.eqb_eq STAR QM lower_cp). Qed.
Print Assumptions C08_ci.

Theorem C08_ci_case_blind :
  forall p s s', map lower_cp s = map lower_cp s' -> glob_ci p s = glob_ci p s'.
Proof. exact (glob_ci_fold_invariant N N.eqb STAR QM lower_cp). Qed.
Print Assumptions C08_ci_case_blind.

Local Open Scope N_scope.
(* non-vacuity: concrete instances, including regex metacharacters as literals *)
Example C08_ex_dot_is_literal : glob_cs [97;46;99] [97;98;99] = false /\ glob_cs [97;46;99] [97;46;99] = true.
Proof. split; vm_compute; reflexivity. Qed.
Example C08_ex_paren_builds : glob_cs [40;97] [40;97] = true.
Proof. vm_compute; reflexivity. Qed.
Example C08_ex_star_qm : glob_cs [97;42;63;122] [97;98;99;100;122] = true /\ glob_cs [97;42;63;122] [97;122] = false.
Proof. split; vm_compute; reflexivity. Qed.
Example C08_ex_like_case_sensitive : glob_cs [97;42] [65;98] = false /\ glob_ci [97;42] [65;98] = true.
Proof. split; vm_compute; reflexivity. Qed.

(* ================================================================================================ *)
(* THE ALGEBRA OF PATTERNS (Glob/GlobAlgebra.v): for every alphabet, every pattern, every text, no bound on lengths.
   Below, [p ++ x ++ q] is "x somewhere inside a pattern": p and q are arbitrary (wildcards included). *)
Local Close Scope N_scope.

(* concatenation: a text matches p ++ q iff it is a text matching p followed by a text matching q *)
Theorem C08_concat :
  forall (A : Type) (eqb : A -> A -> bool), (forall a b, eqb a b = true <-> a = b) ->
  forall (star qm : A) (p q s : list A),
    glob_match A eqb star qm (p ++ q) s = true <->
    exists s1 s2, s = s1 ++ s2 /\ glob_match A eqb star qm p s1 = true /\ glob_match A eqb star qm q s2 = true.
Proof. exact glob_app. Qed.
Print Assumptions C08_concat.

(* congruence: patterns with the same language may be exchanged inside any pattern *)
Theorem C08_congruence :
  forall (A : Type) (eqb : A -> A -> bool), (forall a b, eqb a b = true <-> a = b) ->
  forall (star qm : A) (x y p q : list A),
    (forall s, glob_match A eqb star qm x s = glob_match A eqb star qm y s) ->
    forall s, glob_match A eqb star qm (p ++ x ++ q) s = glob_match A eqb star qm (p ++ y ++ q) s.
Proof. exact geq_ctx. Qed.
Print Assumptions C08_congruence.

(* 1. "**" is "*"; a run of stars of any length is one star *)
Theorem C08_star_star :
  forall (A : Type) (eqb : A -> A -> bool), (forall a b, eqb a b = true <-> a = b) ->
  forall (star qm : A) (p q s : list A),
    glob_match A eqb star qm (p ++ [star; star] ++ q) s = glob_match A eqb star qm (p ++ [star] ++ q) s.
Proof. exact star_star. Qed.
Print Assumptions C08_star_star.

Theorem C08_star_run :
  forall (A : Type) (eqb : A -> A -> bool), (forall a b, eqb a b = true <-> a = b) ->
  forall (star qm : A) (p q : list A) (n : nat) (s : list A),
    glob_match A eqb star qm (p ++ repeat star (S n) ++ q) s = glob_match A eqb star qm (p ++ [star] ++ q) s.
Proof. exact star_run. Qed.
Print Assumptions C08_star_run.

(* 2. "*?" is "?*" *)
Theorem C08_star_question_commute :
  forall (A : Type) (eqb : A -> A -> bool), (forall a b, eqb a b = true <-> a = b) ->
  forall (star qm : A) (p q s : list A),
    glob_match A eqb star qm (p ++ [star; qm] ++ q) s = glob_match A eqb star qm (p ++ [qm; star] ++ q) s.
Proof. exact star_qm_commute. Qed.
Print Assumptions C08_star_question_commute.

(* a run w of wildcards, in any order, holding k = [qms w] question marks and at least one star, is ?^k followed by ONE star ... *)
Theorem C08_wildcard_run :
  forall (A : Type) (eqb : A -> A -> bool), (forall a b, eqb a b = true <-> a = b) ->
  forall (star qm : A) (p q w s : list A),
    star <> qm -> wild_run A star qm w -> In star w ->
    glob_match A eqb star qm (p ++ w ++ q) s =
    glob_match A eqb star qm (p ++ (repeat qm (qms A eqb qm w) ++ [star]) ++ q) s.
Proof. exact wild_run_canonical. Qed.
Print Assumptions C08_wildcard_run.

(* ... which says: "at least k characters here" -- and nothing else *)
Theorem C08_wildcard_run_meaning :
  forall (A : Type) (eqb : A -> A -> bool), (forall a b, eqb a b = true <-> a = b) ->
  forall (star qm : A) (p q w s : list A),
    star <> qm -> wild_run A star qm w -> In star w ->
    (glob_match A eqb star qm (p ++ w ++ q) s = true <->
     exists s1 m s2, s = s1 ++ m ++ s2 /\ glob_match A eqb star qm p s1 = true /\ qms A eqb qm w <= length m
                     /\ glob_match A eqb star qm q s2 = true).
Proof. exact wild_run_ctx_length. Qed.
Print Assumptions C08_wildcard_run_meaning.

(* a run of wildcards with NO star is ?^k: exactly k characters *)
Theorem C08_question_run :
  forall (A : Type) (eqb : A -> A -> bool), (forall a b, eqb a b = true <-> a = b) ->
  forall (star qm : A) (w : list A),
    star <> qm -> wild_run A star qm w -> ~ In star w ->
    w = repeat qm (qms A eqb qm w) /\
    forall s, glob_match A eqb star qm w s = true <-> length s = qms A eqb qm w.
Proof. exact wild_run_no_star. Qed.
Print Assumptions C08_question_run.

(* 3. BUT "*?" is NOT "*".  "p*?q" asks for one character more than "p*q" does: on the text that has NOTHING in that place --
   p and q with their stars deleted, side by side -- "p*q" matches and "p*?q" does not.  (A seeded change collapsed "*?" to "*".) *)
Theorem C08_star_question_is_not_star :
  forall (A : Type) (eqb : A -> A -> bool), (forall a b, eqb a b = true <-> a = b) ->
  forall (star qm : A) (p q : list A), star <> qm ->
    glob_match A eqb star qm (p ++ [star] ++ q) (witness A eqb star p ++ witness A eqb star q) = true /\
    glob_match A eqb star qm (p ++ [star; qm] ++ q) (witness A eqb star p ++ witness A eqb star q) = false.
Proof. exact star_qm_is_not_star. Qed.
Print Assumptions C08_star_question_is_not_star.

(* the length constraint: a text matching "p*?q" has at least one character more than the non-star symbols of p and q *)
Theorem C08_star_question_length :
  forall (A : Type) (eqb : A -> A -> bool), (forall a b, eqb a b = true <-> a = b) ->
  forall (star qm : A) (p q s : list A), star <> qm ->
    glob_match A eqb star qm (p ++ [star; qm] ++ q) s = true ->
    nonstar A eqb star p + 1 + nonstar A eqb star q <= length s.
Proof. exact star_qm_length. Qed.
Print Assumptions C08_star_question_length.

(* exactly: "p*?" matches the texts matched by "p*" with one more character at the end *)
Theorem C08_star_question_one_more :
  forall (A : Type) (eqb : A -> A -> bool), (forall a b, eqb a b = true <-> a = b) ->
  forall (star qm : A) (p s : list A), star <> qm ->
    (glob_match A eqb star qm (p ++ [star; qm]) s = true <->
     exists s' c, s = s' ++ [c] /\ glob_match A eqb star qm (p ++ [star]) s' = true).
Proof. exact star_qm_needs_one. Qed.
Print Assumptions C08_star_question_one_more.

(* 4. normal form: [norm] rewrites every maximal run of wildcards to ?^k or ?^k* ([normal]: no star is followed by a wildcard).
   Same language; idempotent; its result is normal; it changes exactly the patterns that are not normal. *)
Theorem C08_normal_form :
  forall (A : Type) (eqb : A -> A -> bool), (forall a b, eqb a b = true <-> a = b) ->
  forall (star qm : A) (p : list A),
    (forall s, glob_match A eqb star qm (norm A eqb star qm p) s = glob_match A eqb star qm p s) /\
    norm A eqb star qm (norm A eqb star qm p) = norm A eqb star qm p /\
    normal A star qm (norm A eqb star qm p) /\
    (norm A eqb star qm p = p <-> normal A star qm p).
Proof.
  intros A eqb H star qm p.
  exact (conj (norm_correct A eqb H star qm p) (conj (norm_idempotent A eqb H star qm p)
        (conj (norm_is_normal A eqb H star qm p) (norm_fixed_iff A eqb H star qm p)))).
Qed.
Print Assumptions C08_normal_form.

(* [normal] is what it says (unfolded), and it is decidable by [normalb] *)
Theorem C08_normal_meaning :
  forall (A : Type) (eqb : A -> A -> bool), (forall a b, eqb a b = true <-> a = b) ->
  forall (star qm : A) (p : list A),
    (normal A star qm p <-> forall l c r, p = l ++ star :: c :: r -> c <> star /\ c <> qm) /\
    (normalb A eqb star qm p = true <-> normal A star qm p).
Proof. intros A eqb H star qm p. exact (conj (iff_refl _) (normalb_spec A eqb H star qm p)). Qed.
Print Assumptions C08_normal_meaning.

(* norm only deletes and moves stars: the non-star symbols (literals and question marks), in their order, are untouched --
   in particular the literal characters and their order ([lits]); the result is never longer *)
Theorem C08_normal_form_keeps_symbols :
  forall (A : Type) (eqb : A -> A -> bool), (forall a b, eqb a b = true <-> a = b) ->
  forall (star qm : A) (p : list A),
    witness A eqb star (norm A eqb star qm p) = witness A eqb star p /\
    lits A eqb star qm (norm A eqb star qm p) = lits A eqb star qm p /\
    length (norm A eqb star qm p) <= length p.
Proof.
  intros A eqb H star qm p.
  exact (conj (norm_witness A eqb H star qm p) (conj (norm_lits A eqb H star qm p) (norm_length A eqb star qm p))).
Qed.
Print Assumptions C08_normal_form_keeps_symbols.

(* 5. minimal length: a matched text is at least as long as the pattern has non-star symbols; the bound is attained *)
Theorem C08_min_length :
  forall (A : Type) (eqb : A -> A -> bool), (forall a b, eqb a b = true <-> a = b) ->
  forall (star qm : A) (p s : list A),
    glob_match A eqb star qm p s = true -> length (filter (fun c => negb (eqb c star)) p) <= length s.
Proof. exact min_length. Qed.
Print Assumptions C08_min_length.
Theorem C08_min_length_attained :
  forall (A : Type) (eqb : A -> A -> bool), (forall a b, eqb a b = true <-> a = b) ->
  forall (star qm : A) (p : list A),
    glob_match A eqb star qm p (witness A eqb star p) = true /\
    length (witness A eqb star p) = length (filter (fun c => negb (eqb c star)) p).
Proof. exact min_length_attained. Qed.
Print Assumptions C08_min_length_attained.

(* 7. the laws IAM users rely on, for a literal [lit] (no wildcard in it; literal-only patterns match only themselves: C08_literal) *)
Theorem C08_prefix_law :
  forall (A : Type) (eqb : A -> A -> bool), (forall a b, eqb a b = true <-> a = b) ->
  forall (star qm : A) (lit s : list A), no_wild A star qm lit ->
    (glob_match A eqb star qm (lit ++ [star]) s = true <-> exists r, s = lit ++ r).
Proof. exact prefix_law. Qed.
Print Assumptions C08_prefix_law.
Theorem C08_suffix_law :
  forall (A : Type) (eqb : A -> A -> bool), (forall a b, eqb a b = true <-> a = b) ->
  forall (star qm : A) (lit s : list A), no_wild A star qm lit ->
    (glob_match A eqb star qm ([star] ++ lit) s = true <-> exists r, s = r ++ lit).
Proof. exact suffix_law. Qed.
Print Assumptions C08_suffix_law.
Theorem C08_infix_law :
  forall (A : Type) (eqb : A -> A -> bool), (forall a b, eqb a b = true <-> a = b) ->
  forall (star qm : A) (lit s : list A), no_wild A star qm lit ->
    (glob_match A eqb star qm ([star] ++ lit ++ [star]) s = true <-> exists l r, s = l ++ lit ++ r).
Proof. exact infix_law. Qed.
Print Assumptions C08_infix_law.
(* "l1*l2": starts with l1 and ends with l2, WITHOUT overlap *)
Theorem C08_between_law :
  forall (A : Type) (eqb : A -> A -> bool), (forall a b, eqb a b = true <-> a = b) ->
  forall (star qm : A) (l1 l2 s : list A), no_wild A star qm l1 -> no_wild A star qm l2 ->
    (glob_match A eqb star qm (l1 ++ [star] ++ l2) s = true <-> exists m, s = l1 ++ m ++ l2).
Proof. exact between_law. Qed.
Print Assumptions C08_between_law.

(* 6. the case-insensitive matcher IS the matcher on the folded pattern and the folded text (any fold); folding the pattern
   beforehand changes nothing (idempotent fold) *)
Theorem C08_ci_is_folded :
  forall (A : Type) (eqb : A -> A -> bool) (star qm : A) (fold : A -> A) (p s : list A),
    glob_match_ci A eqb star qm fold p s = glob_match A eqb star qm (map fold p) (map fold s).
Proof. exact glob_ci_is_folded. Qed.
Print Assumptions C08_ci_is_folded.
Theorem C08_ci_fold_pattern :
  forall (A : Type) (eqb : A -> A -> bool) (star qm : A) (fold : A -> A) (p s : list A),
    (forall c, fold (fold c) = fold c) ->
    glob_match_ci A eqb star qm fold (map fold p) s = glob_match_ci A eqb star qm fold p s.
Proof. exact glob_ci_fold_pattern. Qed.
Print Assumptions C08_ci_fold_pattern.

(* the algebra holds for the case-insensitive matcher too, whenever the fold neither creates nor destroys a wildcard
   (ASCII lowering does not: Actions/ExpandAlgebra.v, lower_cp_star / lower_cp_qm; the instance is in C09) *)
Theorem C08_ci_algebra :
  forall (A : Type) (eqb : A -> A -> bool), (forall a b, eqb a b = true <-> a = b) ->
  forall (star qm : A) (fold : A -> A),
    (forall c, eqb (fold c) star = eqb c star) -> (forall c, eqb (fold c) qm = eqb c qm) ->
  forall (p q s : list A),
    (forall n, glob_match_ci A eqb star qm fold (p ++ repeat star (S n) ++ q) s
               = glob_match_ci A eqb star qm fold (p ++ [star] ++ q) s) /\
    glob_match_ci A eqb star qm fold (p ++ [star; qm] ++ q) s = glob_match_ci A eqb star qm fold (p ++ [qm; star] ++ q) s /\
    glob_match_ci A eqb star qm fold (norm A eqb star qm p) s = glob_match_ci A eqb star qm fold p s /\
    map fold (norm A eqb star qm p) = norm A eqb star qm (map fold p) /\
    (glob_match_ci A eqb star qm fold p s = true -> length (filter (fun c => negb (eqb c star)) p) <= length s).
Proof.
  intros A eqb H star qm fold Hs Hq p q s.
  exact (conj (fun n => ci_star_run A eqb H star qm fold Hs p q n s)
        (conj (ci_star_qm_commute A eqb H star qm fold Hs Hq p q s)
        (conj (ci_norm_correct A eqb H star qm fold Hs Hq p s)
        (conj (norm_map_fold A eqb H star qm fold Hs Hq p) (ci_min_length A eqb H star qm fold Hs p s))))).
Qed.
Print Assumptions C08_ci_algebra.

(* ---- the running instance ('*' = 42, '?' = 63): hypotheses are satisfiable, statements are not vacuous ---- *)
Local Open Scope N_scope.
(* a=97 b=98 c=99 x=120 y=121 z=122 *)
Example C08_ex_wildcards_differ : STAR <> QM.
Proof. discriminate. Qed.
Example C08_ex_concat : glob_cs ([97;42] ++ [63;98]) ([97;120] ++ [121;98]) = true /\ glob_cs [97;42] [97;120] = true /\ glob_cs [63;98] [121;98] = true.
Proof. vm_compute. repeat split; reflexivity. Qed.
(* "a**b" ~ "a*b" ; "a*****b" *)
Example C08_ex_star_star :
  glob_cs ([97] ++ [42;42] ++ [98]) [97;120;121;98] = true /\ glob_cs ([97] ++ [42] ++ [98]) [97;120;121;98] = true /\
  glob_cs ([97] ++ repeat 42 5 ++ [98]) [97;98] = true /\ glob_cs ([97] ++ [42;42] ++ [98]) [97;120] = false.
Proof. vm_compute. repeat split; reflexivity. Qed.
(* "a*?b" ~ "a?*b": both need one character between a and b *)
Example C08_ex_star_question_commute :
  glob_cs ([97] ++ [42;63] ++ [98]) [97;120;98] = true /\ glob_cs ([97] ++ [63;42] ++ [98]) [97;120;98] = true /\
  glob_cs ([97] ++ [42;63] ++ [98]) [97;98] = false /\ glob_cs ([97] ++ [63;42] ++ [98]) [97;98] = false.
Proof. vm_compute. repeat split; reflexivity. Qed.
(* the run "?*?*" : a wildcard run with a star and two question marks = "??*" *)
Example C08_ex_wildcard_run :
  wild_run N STAR QM [63;42;63;42] /\ In STAR [63;42;63;42] /\ qms N N.eqb QM [63;42;63;42] = 2%nat /\
  glob_cs ([97] ++ [63;42;63;42] ++ [98]) [97;120;121;122;98] = true /\ glob_cs ([97] ++ [63;42;63;42] ++ [98]) [97;120;98] = false /\
  wild_run N STAR QM [63;63] /\ ~ In STAR [63;63].
Proof.
  assert (Hrun : forall w, Forall (fun c => c = 42 \/ c = 63) w -> wild_run N STAR QM w) by (intros w Hw; exact Hw).
  split; [apply Hrun; repeat (apply Forall_cons; [(left; reflexivity) || (right; reflexivity)|]); apply Forall_nil|].
  split; [right; left; reflexivity|]. split; [reflexivity|].
  split; [vm_compute; reflexivity|]. split; [vm_compute; reflexivity|].
  split; [apply Hrun; repeat (apply Forall_cons; [(left; reflexivity) || (right; reflexivity)|]); apply Forall_nil|].
  intros [H|[H|[]]]; discriminate.
Qed.
(* THE WITNESS: "a*?" against "a" -- nothing in that place.  "a*" matches it, "a*?" does not; "a*?" matches "ab". *)
Example C08_ex_star_question_is_not_star :
  glob_cs [97;42] [97] = true /\ glob_cs [97;42;63] [97] = false /\ glob_cs [97;42;63] [97;98] = true /\
  witness N N.eqb STAR [97] ++ witness N N.eqb STAR [] = [97].
Proof. vm_compute. repeat split; reflexivity. Qed.
Example C08_star_question_collapse_refuted :
  exists p s, glob_cs (p ++ [STAR; QM]) s <> glob_cs (p ++ [STAR]) s.
Proof. exists [97], [97]. vm_compute. discriminate. Qed.
(* norm "a*?*?b**" = "a??*b*" ; it is normal, the input is not; "?a?***c?" -> "?a?*c?" *)
Example C08_ex_normal_form :
  norm N N.eqb STAR QM [97;42;63;42;63;98;42;42] = [97;63;63;42;98;42] /\
  normalb N N.eqb STAR QM [97;63;63;42;98;42] = true /\ normalb N N.eqb STAR QM [97;42;63;42;63;98;42;42] = false /\
  norm N N.eqb STAR QM [63;97;63;42;42;42;99;63] = [63;97;63;42;99;63] /\
  lits N N.eqb STAR QM [97;42;63;42;63;98;42;42] = [97;98] /\ witness N N.eqb STAR [97;42;63;42;63;98;42;42] = [97;63;63;98].
Proof. vm_compute. repeat split; reflexivity. Qed.
(* "a*?b" matches "axb" (length 3 = its three non-star symbols) *)
Example C08_ex_min_length :
  glob_cs [97;42;63;98] [97;120;98] = true /\ length (filter (fun c => negb (N.eqb c STAR)) [97;42;63;98]) = 3%nat.
Proof. vm_compute. split; reflexivity. Qed.
(* "s3:*" / "*Object" / "*Get*" / "s3:*Acl", with regex metacharacters as literals: "a.b*" *)
Example C08_ex_prefix_suffix :
  no_wild N STAR QM [115;51;58] /\ glob_cs ([115;51;58] ++ [42]) [115;51;58;71;101;116] = true /\ glob_cs ([115;51;58] ++ [42]) [115;51] = false /\
  glob_cs ([42] ++ [101;116]) [115;51;58;71;101;116] = true /\ glob_cs ([42] ++ [101;116]) [101;116;115] = false /\
  glob_cs ([42] ++ [58;71] ++ [42]) [115;51;58;71;101;116] = true /\
  glob_cs ([97;98] ++ [42] ++ [98;99]) [97;98;99] = false /\ glob_cs ([97;98] ++ [42] ++ [98;99]) [97;98;98;99] = true /\
  no_wild N STAR QM [97;46;98] /\ glob_cs ([97;46;98] ++ [42]) [97;120;98;99] = false.
Proof.
  split; [repeat constructor; discriminate|]. repeat (split; [vm_compute; reflexivity|]).
  split; [repeat constructor; discriminate|]. vm_compute; reflexivity.
Qed.
(* action names: "S3:GET*?" (folded "s3:get*?") against "s3:GetX" and "s3:Get" *)
Example C08_ex_ci_algebra :
  (forall c, N.eqb (lower_cp (lower_cp c)) (lower_cp c) = true) /\
  glob_ci [83;51;58;71;69;84;42;63] [115;51;58;71;101;116;88] = true /\ glob_ci [83;51;58;71;69;84;42;63] [115;51;58;71;101;116] = false /\
  glob_ci [83;51;58;71;69;84;63;42] [115;51;58;71;101;116;88] = true /\ glob_ci [83;51;58;71;69;84;42] [115;51;58;71;101;116] = true.
Proof. split; [intros c; rewrite lower_cp_idem; apply N.eqb_refl|]. vm_compute. repeat split; reflexivity. Qed.
