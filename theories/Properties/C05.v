(* C05 -- The pipeline never fails on a valid, fully resolvable template; bounded resources.
   "For every well-formed CloudFormation template in the supported subset whose references all have values of the
   right type, parse, resolve, expand_actions and the policy queries ... complete without raising, in time and memory
   bounded by the size of the template and not by the magnitude of the values it mentions ..."

   PROVED here, for ALL inputs, about the hand-written models of CFModel.resolve (Resolver/Template.v resolve_model) and of
   expand_actions() (Robust/Validators.v expand_tree): a template satisfying the BOOLEAN predicate [valid_template]
   (Robust/WellFormed.v -- a type system over expressions; evaluated by the runner on every generated template) resolves
   without any error; the action walk fails exactly on a non-textual Action value (never once the C10 guard is present);
   the resolver has no unsupported leaf; the instrumented walk is linear in the number of nodes with a typed atom
   (network, date, bytes) costing one step whatever its magnitude; the RESOLVER instrumented with a step counter
   (Robust/ResolveCost.v: resolve_c, cost rules next to the Python lines) computes the same result and its cost is at
   most tsize v + refs v * psize e <= tsize v * (1 + psize e) -- sizes in nodes and characters, no magnitudes -- for the
   walk cost of EVERY expression and for the full cost of expressions without Fn::Join / Fn::Split / Fn::Base64 /
   Fn::Sub-with-variables; for those four the full cost includes the length of an intermediate text, which grows
   geometrically with nesting (C05_resolve_full_cost_not_polynomial), so no polynomial bound exists and none is claimed;
   the condition table is not costed.
   NOT provable and not claimed: wall time, memory, the interpreter, pydantic-core's validation (re-validation after
   resolve / expand) and the query methods -- those are executed in a resource-limited sandbox on every generated
   template and in a CIDR-width sweep (harness/props/c05.py): partial. *)
From Coq Require Import List Bool NArith ZArith Lia.
From PV Require Import Base.Str Base.Value Resolver.Consts Resolver.Text Resolver.Resolve Resolver.Spec Resolver.Template.
From PV Require Import Robust.RConsts Robust.Validators Robust.ValidatorsFacts Robust.WellFormed Robust.NoError Robust.Cost Robust.ResolveCost Robust.ExampleTemplate.
Import ListNotations.
Local Open Scope N_scope.

(* ---- no error ---- *)
Theorem C05_no_error : forall pseudo decls extra maps cdecl rs : list (str * value),
  valid_template pseudo decls extra maps cdecl rs = true ->
  exists r, resolve_model pseudo decls extra maps cdecl rs = Ok r.
Proof. exact valid_template_resolves. Qed.
Print Assumptions C05_no_error.

(* the expression-level statement it rests on: a well-typed expression resolves, to a value of the shape its type announces,
   in EVERY environment with these parameters and mappings whose condition references have values *)
Theorem C05_wf_expr_resolves : forall (e : env) (v : value) (t : ty),
  wf_maps (mappings e) = true -> (forall n, exists b, conds e n = Ok b) ->
  ty_of (params e) (mappings e) v = Some t ->
  exists r, resolve e v = Ok r /\ shape t r = true.
Proof. intros e v t Hm Hc Ht. exact (wf_resolves e v Hm Hc t Ht). Qed.
Print Assumptions C05_wf_expr_resolves.

(* parameters: a declared parameter without any value, list-typed or not, never makes binding fail *)
Theorem C05_parameters_bind : forall pseudo decls extra : list (str * value),
  wf_decls decls extra = true -> exists ps, bind_params pseudo decls extra = Ok ps.
Proof. exact wf_bind_params. Qed.
Print Assumptions C05_parameters_bind.
Theorem C05_valueless_parameter : forall d : value,
  field K_Default d = None -> exists o, ref_value d None = Ok o.
Proof.
  intros d H. apply wf_decl_ok. unfold wf_decl. rewrite H. apply orb_true_r.
Qed.
Print Assumptions C05_valueless_parameter.

(* conditions: on-demand evaluation of well-typed condition declarations always yields a boolean (no fuel exhaustion,
   whatever the reference graph: cycles, self references, undeclared names) *)
Theorem C05_conditions_total : forall (ps maps decl : list (str * value)) (n : str),
  wf_maps maps = true -> forallb (fun kb => wf_cond ps maps (snd kb)) decl = true ->
  exists b, cond_root ps maps decl n = Ok b.
Proof.
  intros ps maps decl n Hm Hd. unfold cond_root. apply cond_val_total; [assumption | | unfold keys; rewrite map_length; lia].
  intros m body L. exact (lookup_forallb (wf_cond ps maps) m decl body Hd L).
Qed.
Print Assumptions C05_conditions_total.

(* the resolver renders every kind of leaf (bytes, dates, networks, numbers, booleans, null): no "Not supported type" *)
Theorem C05_leaf_total : forall (e : env) (v : value), is_leaf v = true ->
  resolve e v = Ok VNull \/ exists s, resolve e v = Ok (VStr s).
Proof. exact resolve_leaf_total. Qed.
Print Assumptions C05_leaf_total.

(* ---- expand_actions() ---- *)
(* without the C10 guard the walk succeeds exactly when every non-null Action / NotAction value is text or a list of text;
   with the guard it always succeeds *)
Theorem C05_expand_fails_iff : forall (guard : bool) (exp : bool -> list str -> list str) (v : value),
  is_ok (expand_tree guard exp v) = guard || actions_textual v.
Proof. exact expand_tree_ok_iff. Qed.
Print Assumptions C05_expand_fails_iff.
Theorem C05_expand_no_error : forall (exp : bool -> list str -> list str) (v : value),
  actions_textual v = true -> exists r, expand_tree false exp v = Ok r.
Proof. exact expand_tree_no_error. Qed.
Print Assumptions C05_expand_no_error.
Theorem C05_expand_guarded_total : forall (exp : bool -> list str -> list str) (v : value),
  exists r, expand_tree true exp v = Ok r.
Proof. exact expand_tree_guarded_total. Qed.
Print Assumptions C05_expand_guarded_total.
Theorem C05_expand_only_value_error : forall (guard : bool) (exp : bool -> list str -> list str) (v : value),
  clean (expand_tree guard exp v).
Proof. exact expand_tree_clean. Qed.
Print Assumptions C05_expand_only_value_error.

(* ---- cost of the modelled walk: linear in the number of nodes, a typed atom is one node ---- *)
Theorem C05_cost_same_result : forall (guard : bool) (exp : bool -> list str -> list str) (K : nat) (v : value),
  fst (expand_tree_c guard exp K v) = expand_tree guard exp v.
Proof. exact expand_tree_c_result. Qed.
Print Assumptions C05_cost_same_result.
Theorem C05_cost_linear : forall (guard : bool) (exp : bool -> list str -> list str) (K : nat) (v : value),
  (snd (expand_tree_c guard exp K v) <= (K + 1) * vsize v)%nat.
Proof. exact expand_tree_c_linear. Qed.
Print Assumptions C05_cost_linear.
Theorem C05_typed_atom_unit_cost : forall guard exp K (k : tkind) (text : str),
  snd (expand_tree_c guard exp K (VTyped k text)) = 1%nat /\ vsize (VTyped k text) = 1%nat.
Proof. intros. split; reflexivity. Qed.
Print Assumptions C05_typed_atom_unit_cost.

(* ---- cost of the modelled resolver (Robust/ResolveCost.v) ----
   [resolve_c w e v]: [resolve e v] with a step counter.  1 step per node visited (a number, date or IP network is ONE
   step), [vsize] of a parameter value / mapping leaf per Ref, Fn::ImportValue, Fn::FindInMap, Fn::Sub placeholder that
   copies it, 1 + the key's characters per entry that Fn::FindInMap's case-blind fallback scans when a key "true" / "false" is
   not in a mapping level as written (library `_mapping_get`, repair of F31; at most the keys of the two levels, so the bounds
   below stand unchanged), the length of an Fn::Sub text for its scan, and, times the weight [w], the size of the intermediate text
   that Fn::Join produces / Fn::Split consumes / Fn::Base64 encodes / an Fn::Sub variable inserts.
   [w = 1]: full cost.  [w = 0]: walk cost.  [tsize]: nodes + characters of the expression; [psize e]: nodes + characters
   of all parameter values and mappings; [refs v]: the places of v that can copy a parameter value. *)
Theorem C05_resolve_cost_same_result : forall (w : nat) (e : env) (v : value),
  fst (resolve_c w e v) = resolve e v.
Proof. exact resolve_c_result. Qed.
Print Assumptions C05_resolve_cost_same_result.
(* the charge of one Fn::FindInMap: the scan(s) of the fallback plus the copy of the leaf -- never more than the environment *)
Theorem C05_find_in_map_cost_le : forall (e : env) (m k1 k2 : value), (do_find_in_map_cost e m k1 k2 <= 1 + psize e)%nat.
Proof. exact do_find_in_map_cost_le. Qed.
Print Assumptions C05_find_in_map_cost_le.
(* Mappings {"M": {"a": {}, "True": {"k": "yes"}}}: the key "true" is not there as written, the scan visits "a" (2) and "True" (5) *)
Example C05_ex_find_in_map_scan_cost :
  let e := {| params := []; mappings := [([77], VDict [([97], VDict []); ([84;114;117;101], VDict [([107], VStr [121;101;115])])])];
              conds := fun _ => Ok false |} in
  do_find_in_map e (VStr [77]) (VStr S_true) (VStr [107]) = Ok (VStr [121;101;115]) /\
  do_find_in_map_cost e (VStr [77]) (VStr S_true) (VStr [107]) = 8%nat /\
  do_find_in_map_cost e (VStr [77]) (VStr [97]) (VStr [107]) = 1%nat /\ psize e = 16%nat.
Proof. cbv zeta. repeat split; vm_compute; reflexivity. Qed.
(* multiplicative because every Ref / placeholder may copy a whole parameter value (C05_example_cost_multiplicative) *)
Theorem C05_resolve_cost_bound : forall (w : nat) (e : env) (v : value),
  w = 0%nat \/ light v = true ->
  (snd (resolve_c w e v) <= tsize v * (1 + psize e))%nat.
Proof. exact resolve_c_bound. Qed.
Print Assumptions C05_resolve_cost_bound.
Theorem C05_resolve_cost_bound_refs : forall (w : nat) (e : env) (v : value),
  w = 0%nat \/ light v = true ->
  (snd (resolve_c w e v) <= tsize v + refs v * psize e)%nat.
Proof. exact resolve_c_bound_refs. Qed.
Print Assumptions C05_resolve_cost_bound_refs.
(* the two readings of the hypothesis *)
Theorem C05_resolve_walk_cost_bound : forall (e : env) (v : value),
  (snd (resolve_c 0 e v) <= tsize v * (1 + psize e))%nat.
Proof. exact resolve_c_walk_bound. Qed.
Print Assumptions C05_resolve_walk_cost_bound.
Theorem C05_resolve_full_cost_bound_light : forall (e : env) (v : value), light v = true ->
  (snd (resolve_c 1 e v) <= tsize v * (1 + psize e))%nat.
Proof. exact resolve_c_light_bound. Qed.
Print Assumptions C05_resolve_full_cost_bound_light.
Theorem C05_resolve_atom_unit_cost : forall (w : nat) (e : env) (k : tkind) (text : str) (z : Z),
  snd (resolve_c w e (VTyped k text)) = 1%nat /\ snd (resolve_c w e (VInt z)) = 1%nat.
Proof. intros. split; reflexivity. Qed.
Print Assumptions C05_resolve_atom_unit_cost.
(* the resources of a template: the sum *)
Theorem C05_resources_cost_same_result : forall (w : nat) (e : env) (resolved : list (str * bool)) (rs : list (str * value)),
  fst (resolve_resources_c w e resolved rs) = resolve_resources e resolved rs.
Proof. exact resolve_resources_c_result. Qed.
Print Assumptions C05_resources_cost_same_result.
Theorem C05_resources_cost_bound : forall (w : nat) (e : env) (resolved : list (str * bool)) (rs : list (str * value)),
  w = 0%nat \/ forallb (fun kv => light (snd kv)) rs = true ->
  (snd (resolve_resources_c w e resolved rs) <= tsize (VDict rs) * (1 + psize e))%nat.
Proof. exact resolve_resources_c_bound_sizes. Qed.
Print Assumptions C05_resources_cost_bound.
(* why the full cost of nested Fn::Join has NO polynomial bound: S = "ab", L = ["a","b","c"],
   jn 0 = {"Ref":"S"}, jn (d+1) = {"Fn::Join": [jn d, {"Ref":"L"}]}: 18 characters more per level, at least twice the steps *)
Theorem C05_resolve_full_cost_not_polynomial : forall d : nat,
  tsize (cx_jn d) = (7 + 18 * d)%nat /\ (2 ^ d <= snd (resolve_c 1 cx_env2 (cx_jn d)))%nat.
Proof. exact cx_join_blowup. Qed.
Print Assumptions C05_resolve_full_cost_not_polynomial.
(* a concrete expression (two Refs to a 20-element list, a /8 network, a number, an Fn::Sub with two placeholders):
   66 steps; bound 60 + 4 * 52 = 268 *)
Example C05_example_cost_not_vacuous :
  light (cx_expr cx_net8) = true /\ is_ok (fst (resolve_c 1 cx_env (cx_expr cx_net8))) = true /\
  snd (resolve_c 1 cx_env (cx_expr cx_net8)) = 66%nat /\
  tsize (cx_expr cx_net8) = 60%nat /\ refs (cx_expr cx_net8) = 4%nat /\ psize cx_env = 52%nat.
Proof. exact cx_bound_not_vacuous. Qed.
(* 10.0.0.0/8 (16 777 216 addresses) costs what 10.0.0.0/32 costs *)
Example C05_example_cost_network_width :
  snd (resolve_c 1 cx_env (cx_expr cx_net8)) = snd (resolve_c 1 cx_env (cx_expr cx_net32)).
Proof. exact cx_network_width_irrelevant. Qed.
(* ten Refs copy the list ten times: 231 steps > tsize + psize = 71 + 52; bound 71 + 10 * 52 *)
Example C05_example_cost_multiplicative :
  snd (resolve_c 1 cx_env cx_tenrefs) = 231%nat /\ tsize cx_tenrefs = 71%nat /\ refs cx_tenrefs = 10%nat /\
  light cx_tenrefs = true.
Proof. exact cx_multiplicative. Qed.
(* depth 8 of the nested Fn::Join: full cost above tsize * (1 + psize), walk cost 59 *)
Example C05_example_join_blowup :
  Nat.ltb (tsize (cx_jn 8) * (1 + psize cx_env2)) (snd (resolve_c 1 cx_env2 (cx_jn 8))) = true /\
  snd (resolve_c 0 cx_env2 (cx_jn 8)) = 59%nat.
Proof. exact cx_join_blowup_8. Qed.
Example C05_example_sub_blowup :
  Nat.ltb (tsize (cx_jdbl 12) * (1 + psize cx_env2)) (snd (resolve_c 1 cx_env2 (cx_jdbl 12))) = true /\
  snd (resolve_c 0 cx_env2 (cx_jdbl 12)) = 136%nat.
Proof. exact cx_sub_blowup_12. Qed.

(* ---- the hypotheses are satisfiable: the template of corpus/C05.json (see Robust/ExampleTemplate.v) ---- *)
Definition dict_of (v : value) : list (str * value) := match v with VDict d => d | _ => [] end.
Example C05_example_valid :
  valid_template (dict_of ex_pseudo) (dict_of ex_decls) (dict_of ex_extra) (dict_of ex_maps) (dict_of ex_conds) (dict_of ex_resources) = true.
Proof. vm_compute. reflexivity. Qed.
Example C05_example_resolves :
  is_ok (resolve_model (dict_of ex_pseudo) (dict_of ex_decls) (dict_of ex_extra) (dict_of ex_maps) (dict_of ex_conds) (dict_of ex_resources)) = true.
Proof. vm_compute. reflexivity. Qed.
(* typed atoms of the example: a /4 network resolves to its text like any other leaf *)
Example C05_example_wide_network :
  resolve {| params := []; mappings := []; conds := fun _ => Ok false |} (VTyped KNet4 [49; 48; 46; 48; 46; 48; 46; 48; 47; 52])
  = Ok (VStr [49; 48; 46; 48; 46; 48; 46; 48; 47; 52]).
Proof. reflexivity. Qed.
(* what the predicate rejects, and why it must: the resolver model fails on each *)
Definition e0 : env := {| params := []; mappings := []; conds := fun _ => Ok false |}.
Example C05_reject_join_of_object :
  wf_expr [] [] (VDict [(K_Join, VList [VStr []; VList [VDict []]])]) = false /\
  is_ok (resolve e0 (VDict [(K_Join, VList [VStr []; VList [VDict []]])])) = false.
Proof. split; reflexivity. Qed.
Example C05_reject_condition_object :
  wf_expr [] [] (VDict [(K_Condition, VDict [])]) = false /\ is_ok (resolve e0 (VDict [(K_Condition, VDict [])])) = false.
Proof. split; reflexivity. Qed.
Example C05_reject_split_empty_delimiter :
  wf_expr [] [] (VDict [(K_Split, VList [VStr []; VStr [97]])]) = false /\
  resolve e0 (VDict [(K_Split, VList [VStr []; VStr [97]])]) = Err EValue.
Proof. split; reflexivity. Qed.
Example C05_object_action :
  actions_textual (VDict [(K_Action, VDict [([66], VDict [])])]) = false /\
  expand_tree false (fun _ l => l) (VDict [(K_Action, VDict [([66], VDict [])])]) = Err EValue /\
  is_ok (expand_tree true (fun _ l => l) (VDict [(K_Action, VDict [([66], VDict [])])])) = true.
Proof. repeat split; reflexivity. Qed.
