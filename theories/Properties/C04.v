(* C04 -- Parameter binding precedence, list parameters, SSM references and NoEcho masking.
   Statements only; proofs are [exact] of lemmas in Resolver/ParamFacts.v, Creds.v, SubFacts.v. *)
From Coq Require Import List Bool NArith ZArith.
From PV Require Import Base.Str Base.Value Resolver.Consts Resolver.Text Resolver.Resolve Resolver.Spec Resolver.SubFacts
  Resolver.Template Resolver.ParamFacts Resolver.Creds.
Import ListNotations.
Local Open Scope N_scope.

(* supplied value, else Default, else the library's pseudo-parameter default, else nothing (then C01_ref_undefined gives
   UNDEFINED_PARAM_<name>): for declared, undeclared and pseudo names alike *)
Theorem C04_precedence : forall pseudo decls extra ps, bind_params pseudo decls extra = Ok ps -> NoDup (keys decls) ->
  forall k, lookup k ps =
    match lookup k decls with
    | None => match lookup k extra with Some v => Some v | None => lookup k pseudo end
    | Some d => match ref_value d (supplied k extra) with Ok (Some v) => Some v | _ => lookup k pseudo end
    end.
Proof. exact bind_params_precedence. Qed.
Print Assumptions C04_precedence.

(* scalar parameters: the supplied value wins over the Default, and the value is rendered as a string *)
Theorem C04_scalar : forall d provided, is_noecho d = false -> is_list_type d = false ->
  ref_value d provided =
  match (match provided with Some p => Some p | None => field K_Default d end) with
  | None => Ok None
  | Some v => s <- py_str v ;; Ok (Some (VStr s))
  end.
Proof. exact ref_value_scalar. Qed.
Print Assumptions C04_scalar.

(* List<Number> / CommaDelimitedList: the list of comma-separated items *)
Theorem C04_list_split : forall d provided, is_noecho d = false -> is_list_type d = true ->
  ref_value d provided =
  match (match provided with Some p => Some p | None => field K_Default d end) with
  | None => Ok None
  | Some (VList l) => Ok (Some (VList l))
  | Some v => s <- py_str v ;; Ok (Some (VList (map VStr (split S_COMMA s))))
  end.
Proof. exact ref_value_list. Qed.
Print Assumptions C04_list_split.

(* a declared parameter that has neither value nor default never makes resolution fail *)
Theorem C04_valueless_total : forall d, field K_Default d = None ->
  ref_value d None = Ok (if is_noecho d then Some (VStr S_NO_ECHO_NO_DEFAULT) else None).
Proof. exact ref_value_valueless. Qed.
Print Assumptions C04_valueless_total.

(* NoEcho: references yield only the three fixed markers, chosen by the PRESENCE of a value / default *)
Theorem C04_noecho_markers : forall d provided, is_noecho d = true ->
  ref_value d provided = Ok (Some (VStr (match provided, field K_Default d with
                                         | Some _, _ => S_NO_ECHO_WITH_VALUE
                                         | None, Some _ => S_NO_ECHO_WITH_DEFAULT
                                         | None, None => S_NO_ECHO_NO_DEFAULT
                                         end))).
Proof. exact ref_value_noecho. Qed.
Print Assumptions C04_noecho_markers.

Theorem C04_marker_iff : forall d provided, is_noecho d = true ->
  (ref_value d provided = Ok (Some (VStr S_NO_ECHO_NO_DEFAULT)) <-> provided = None /\ field K_Default d = None).
Proof. exact ref_value_marker_iff. Qed.
Print Assumptions C04_marker_iff.

(* the value supplied for a NoEcho parameter cannot influence the resolved model AT ALL (stronger than "does not appear") *)
Theorem C04_noecho_noninterference : forall pseudo decls extra maps cdecl rs s d v1 v2,
  lookup s decls = Some d -> is_noecho d = true -> v1 <> VNull -> v2 <> VNull -> NoDup (keys decls) ->
  resolve_model pseudo decls (with_secret s v1 extra) maps cdecl rs =
  resolve_model pseudo decls (with_secret s v2 extra) maps cdecl rs.
Proof. exact noecho_noninterference. Qed.
Print Assumptions C04_noecho_noninterference.

(* a {{resolve:ssm:name:version}} string resolves to the value supplied under name:version *)
Theorem C04_ssm : forall ps s key, ssm_key s = Some key ->
  render_str ps s = match lookup key ps with Some (VStr (c :: r)) => c :: r | _ => undefined_param key end.
Proof. intros ps s key H. unfold render_str. rewrite H. reflexivity. Qed.
Print Assumptions C04_ssm.

(* has_hardcoded_credentials is false exactly when every credential field of every authentication entry is absent or
   equals the NO_ECHO_NO_DEFAULT marker *)
Theorem C04_hc_iff : forall auths, (forall k a, In (k, a) auths -> exists d, a = VDict d) ->
  (any_bad auths = Ok false <->
   forall k a, In (k, a) auths -> exists d, a = VDict d /\
     cred_ok d K_accessKeyId = true /\ cred_ok d K_password = true /\ cred_ok d K_secretKey = true).
Proof. exact any_bad_false_iff. Qed.
Print Assumptions C04_hc_iff.

(* ---- witnesses ---- *)
Definition dNoEchoEmptyDefault : value := VDict [(K_Type, VStr [83]); (K_Default, VStr []); (K_NoEcho, VBool true)].
Example C04_ex_noecho_empty_default : ref_value dNoEchoEmptyDefault None = Ok (Some (VStr S_NO_ECHO_WITH_DEFAULT)).
Proof. vm_compute. reflexivity. Qed.
Definition dListNoDefault : value := VDict [(K_Type, VStr S_CommaDelimitedList)].
Example C04_ex_list_no_value : ref_value dListNoDefault None = Ok None
  /\ ref_value dListNoDefault (Some (VStr [97;44;98])) = Ok (Some (VList [VStr [97]; VStr [98]])).
Proof. split; vm_compute; reflexivity. Qed.
Example C04_ex_ssm : ssm_key (S_SSM_PREFIX ++ [47;112;58;49;125;125]) = Some [47;112;58;49].
Proof. vm_compute. reflexivity. Qed.
