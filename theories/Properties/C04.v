(* C04 -- Parameter binding precedence, list parameters, SSM references and NoEcho masking.
   Statements only; proofs are [exact] of lemmas in Resolver/ParamFacts.v, Creds.v, CredFacts.v, SubFacts.v. *)
From Coq Require Import List Bool NArith ZArith.
From PV Require Import Base.Str Base.Value Resolver.Consts Resolver.Text Resolver.Resolve Resolver.Spec Resolver.SubFacts
  Resolver.Template Resolver.ParamFacts Resolver.Creds Resolver.CredFacts Resolver.BindLaws.
Import ListNotations.
Local Open Scope N_scope.

(* supplied value, else Default, else the library's pseudo-parameter default, else nothing (then C01_ref_undefined gives
   UNDEFINED_PARAM_<name>): for declared, undeclared and pseudo names alike *)
Theorem C04_precedence : forall pseudo decls extra ps, bind_params pseudo decls extra = Ok ps -> NoDup (keys decls) ->
  forall k, lookup k ps =
    match lookup k decls with
    | None => match lookup k extra with Some v => Some v | None => lookup k pseudo end
    | Some d => match ref_value d (supplied k extra) with Ok (Some v) => Some v | _ => lookup k pseudo end
    end.
Proof. exact bind_params_precedence. Qed.
Print Assumptions C04_precedence.

(* scalar parameters: the supplied value wins over the Default, and the value is rendered as a string *)
Theorem C04_scalar : forall d provided, is_noecho d = false -> is_list_type d = false ->
  ref_value d provided =
  match (match provided with Some p => Some p | None => field K_Default d end) with
  | None => Ok None
  | Some v => s <- py_str v ;; Ok (Some (VStr s))
  end.
Proof. exact ref_value_scalar. Qed.
Print Assumptions C04_scalar.

(* List<Number> / CommaDelimitedList: the list of comma-separated items *)
Theorem C04_list_split : forall d provided, is_noecho d = false -> is_list_type d = true ->
  ref_value d provided =
  match (match provided with Some p => Some p | None => field K_Default d end) with
  | None => Ok None
  | Some (VList l) => Ok (Some (VList l))
  | Some v => s <- py_str v ;; Ok (Some (VList (map VStr (split S_COMMA s))))
  end.
Proof. exact ref_value_list. Qed.
Print Assumptions C04_list_split.

(* a declared parameter that has neither value nor default never makes resolution fail *)
Theorem C04_valueless_total : forall d, field K_Default d = None ->
  ref_value d None = Ok (if is_noecho d then Some (VStr S_NO_ECHO_NO_DEFAULT) else None).
Proof. exact ref_value_valueless. Qed.
Print Assumptions C04_valueless_total.

(* NoEcho: references yield only the three fixed markers, chosen by the PRESENCE of a value / default *)
Theorem C04_noecho_markers : forall d provided, is_noecho d = true ->
  ref_value d provided = Ok (Some (VStr (match provided, field K_Default d with
                                         | Some _, _ => S_NO_ECHO_WITH_VALUE
                                         | None, Some _ => S_NO_ECHO_WITH_DEFAULT
                                         | None, None => S_NO_ECHO_NO_DEFAULT
                                         end))).
Proof. exact ref_value_noecho. Qed.
Print Assumptions C04_noecho_markers.

Theorem C04_marker_iff : forall d provided, is_noecho d = true ->
  (ref_value d provided = Ok (Some (VStr S_NO_ECHO_NO_DEFAULT)) <-> provided = None /\ field K_Default d = None).
Proof. exact ref_value_marker_iff. Qed.
Print Assumptions C04_marker_iff.

(* the value supplied for a NoEcho parameter cannot influence the resolved model AT ALL (stronger than "does not appear") *)
Theorem C04_noecho_noninterference : forall pseudo decls extra maps cdecl rs s d v1 v2,
  lookup s decls = Some d -> is_noecho d = true -> v1 <> VNull -> v2 <> VNull -> NoDup (keys decls) ->
  resolve_model pseudo decls (with_secret s v1 extra) maps cdecl rs =
  resolve_model pseudo decls (with_secret s v2 extra) maps cdecl rs.
Proof. exact noecho_noninterference. Qed.
Print Assumptions C04_noecho_noninterference.

(* a {{resolve:ssm:name:version}} string resolves to the value supplied under name:version *)
Theorem C04_ssm : forall ps s key, ssm_key s = Some key ->
  render_str ps s = match lookup key ps with Some (VStr (c :: r)) => c :: r | _ => undefined_param key end.
Proof. intros ps s key H. unfold render_str. rewrite H. reflexivity. Qed.
Print Assumptions C04_ssm.

(* has_hardcoded_credentials is false exactly when every credential field of every authentication entry is absent or
   equals the NO_ECHO_NO_DEFAULT marker *)
Theorem C04_hc_iff : forall auths, (forall k a, In (k, a) auths -> exists d, a = VDict d) ->
  (any_bad auths = Ok false <->
   forall k a, In (k, a) auths -> exists d, a = VDict d /\
     cred_ok d K_accessKeyId = true /\ cred_ok d K_password = true /\ cred_ok d K_secretKey = true).
Proof. exact any_bad_false_iff. Qed.
Print Assumptions C04_hc_iff.

(* ---- NoEcho, the Default: only its PRESENCE is read ---- *)
(* what a reference to a declared NoEcho parameter is bound to after the whole merge {pseudo, declared, extra} *)
Theorem C04_noecho_binding : forall pseudo decls extra ps s d,
  bind_params pseudo decls extra = Ok ps -> NoDup (keys decls) -> lookup s decls = Some d -> is_noecho d = true ->
  lookup s ps = Some (VStr (match supplied s extra, field K_Default d with
                            | Some _, _ => S_NO_ECHO_WITH_VALUE
                            | None, Some _ => S_NO_ECHO_WITH_DEFAULT
                            | None, None => S_NO_ECHO_NO_DEFAULT
                            end)).
Proof. exact bind_params_noecho. Qed.
Print Assumptions C04_noecho_binding.

(* key lemma: two declaration lists that differ in the declaration of ONE name, the two declarations yielding the same
   reference value, give the same bindings; resolve_model reads the declarations through bind_params only *)
Theorem C04_same_binding : forall pseudo pre s d1 d2 post extra,
  ref_value d1 (supplied s extra) = ref_value d2 (supplied s extra) ->
  bind_params pseudo (pre ++ (s, d1) :: post) extra = bind_params pseudo (pre ++ (s, d2) :: post) extra.
Proof. exact bind_params_same_binding. Qed.
Print Assumptions C04_same_binding.

(* with no value supplied, S is bound to the WITH_DEFAULT marker whatever the (non-None) Default is: "" and 0 included *)
Theorem C04_noecho_default_binding : forall pseudo pre post extra ps s l v,
  bind_params pseudo (pre ++ (s, with_default v l) :: post) extra = Ok ps -> NoDup (keys (pre ++ (s, with_default v l) :: post)) ->
  is_noecho (VDict l) = true -> v <> VNull -> supplied s extra = None ->
  lookup s ps = Some (VStr S_NO_ECHO_WITH_DEFAULT).
Proof. exact with_default_binding. Qed.
Print Assumptions C04_noecho_default_binding.

(* the VALUE of a NoEcho parameter's Default cannot influence the resolved model AT ALL: two templates whose declarations of S
   differ only in that value ([with_default v l] is the declaration l with l["Default"] = v; v <> VNull: `is not None`, so a
   falsy Default is a Default) resolve to the same Conditions and Resources.  It holds for every [extra]; the case of the
   property is the one where no value is supplied for S (otherwise the Default is not even looked at). *)
Theorem C04_noecho_default_noninterference : forall pseudo pre post extra maps cdecl rs s l v1 v2,
  is_noecho (VDict l) = true -> v1 <> VNull -> v2 <> VNull ->
  resolve_model pseudo (pre ++ (s, with_default v1 l) :: post) extra maps cdecl rs =
  resolve_model pseudo (pre ++ (s, with_default v2 l) :: post) extra maps cdecl rs.
Proof. exact noecho_default_noninterference. Qed.
Print Assumptions C04_noecho_default_noninterference.

(* general form: ANY two NoEcho declarations of S (they may differ in Type, Description, ... as well) that agree on the
   presence of a Default are indistinguishable *)
Theorem C04_noecho_declaration_noninterference : forall pseudo pre post extra maps cdecl rs s d1 d2,
  is_noecho d1 = true -> is_noecho d2 = true -> (field K_Default d1 = None <-> field K_Default d2 = None) ->
  resolve_model pseudo (pre ++ (s, d1) :: post) extra maps cdecl rs =
  resolve_model pseudo (pre ++ (s, d2) :: post) extra maps cdecl rs.
Proof. exact noecho_default_noninterference_gen. Qed.
Print Assumptions C04_noecho_declaration_noninterference.

(* ---- has_hardcoded_credentials, the Metadata branch (Resource) ----
   [clean_field d f]: f is absent from d or holds the NO_ECHO_NO_DEFAULT marker; [clean_entry a]: a is a dictionary whose
   accessKeyId, password and secretKey are clean; [dirty_entry a]: a is a dictionary one of whose three fields holds something else;
   [md_auths md a]: a = the entries the check iterates over (none without Metadata / without a truthy authentication block) *)
Theorem C04_cred_field : forall d f, cred_ok d f = true <-> lookup f d = None \/ lookup f d = Some MARKER.
Proof. exact cred_ok_iff. Qed.
Print Assumptions C04_cred_field.

(* the loop over the entries, with no side condition (C04_hc_iff above is the special case "all entries are dictionaries") *)
Theorem C04_hc_entries_false_iff : forall auths,
  any_bad auths = Ok false <-> forall k a, In (k, a) auths -> clean_entry a.
Proof. exact any_bad_false_iff_all. Qed.
Print Assumptions C04_hc_entries_false_iff.

Theorem C04_hc_entries_true_iff : forall auths,
  any_bad auths = Ok true <->
  exists pre k a post, auths = pre ++ (k, a) :: post /\ (forall k' a', In (k', a') pre -> clean_entry a') /\ dirty_entry a.
Proof. exact any_bad_true_iff. Qed.
Print Assumptions C04_hc_entries_true_iff.

Theorem C04_hc_entries_true_iff_dicts : forall auths, (forall k a, In (k, a) auths -> exists d, a = VDict d) ->
  (any_bad auths = Ok true <-> exists k a, In (k, a) auths /\ dirty_entry a).
Proof. exact any_bad_true_iff_dicts. Qed.
Print Assumptions C04_hc_entries_true_iff_dicts.

(* AttributeError (`auth.get` on something that is not a dictionary) <-> the first entry that is not clean is not a dictionary *)
Theorem C04_hc_entries_err_iff : forall auths e,
  any_bad auths = Err e <->
  e = EAttr /\ exists pre k a post, auths = pre ++ (k, a) :: post /\ (forall k' a', In (k', a') pre -> clean_entry a') /\
                                    forall d, a <> VDict d.
Proof. exact any_bad_err_iff. Qed.
Print Assumptions C04_hc_entries_err_iff.

(* Resource.has_hardcoded_credentials() is False exactly when every one of accessKeyId / password / secretKey of every
   authentication entry is absent or equals the marker ... *)
Theorem C04_hc_resource_iff : forall md,
  has_hc md = Ok false <-> exists a, md_auths md a /\ forall k x, In (k, x) a -> clean_entry x.
Proof. exact has_hc_false_iff. Qed.
Print Assumptions C04_hc_resource_iff.

(* ... in particular: no Metadata, no "AWS::CloudFormation::Authentication" key, or a falsy value under it => False *)
Theorem C04_hc_resource_no_block : forall md, md_auths md [] -> has_hc md = Ok false.
Proof. exact has_hc_no_block. Qed.
Print Assumptions C04_hc_resource_no_block.

Theorem C04_hc_resource_true_iff : forall md,
  has_hc md = Ok true <-> exists m a, md = VDict m /\ lookup K_CFN_AUTH m = Some (VDict a) /\ any_bad a = Ok true.
Proof. exact has_hc_true_iff. Qed.
Print Assumptions C04_hc_resource_true_iff.

Theorem C04_hc_resource_ok_iff : forall md b, has_hc md = Ok b <-> exists a, md_auths md a /\ any_bad a = Ok b.
Proof. exact has_hc_ok_iff. Qed.
Print Assumptions C04_hc_resource_ok_iff.

(* the three ways the check fails: an entry that is not a dictionary; a truthy authentication block that is not a dictionary
   (`.values()`: AttributeError); Metadata that is neither None nor a dictionary (outside the model's domain) *)
Theorem C04_hc_resource_err_iff : forall md e,
  has_hc md = Err e <->
  (exists a, md_auths md a /\ any_bad a = Err e)
  \/ (e = EAttr /\ exists m v, md = VDict m /\ lookup K_CFN_AUTH m = Some v /\ truthy v = true /\ forall a, v <> VDict a)
  \/ (e = EUndefined /\ md <> VNull /\ forall m, md <> VDict m).
Proof. exact has_hc_err_iff. Qed.
Print Assumptions C04_hc_resource_err_iff.

(* ---- has_hardcoded_credentials, the LoginProfile branch (IAMUser) ----
   [login_wf login]: the LoginProfile is None or a dictionary; [counted_password login]: it has a Password that is TRUTHY (the
   code tests `login_profile.get("Password")`: an empty password is treated like an absent one) and is not the marker;
   [uncounted_password login]: no LoginProfile, no Password, a falsy Password, or the marker *)
Theorem C04_password_cases : forall login, login_wf login -> counted_password login \/ uncounted_password login.
Proof. exact password_cases. Qed.
Print Assumptions C04_password_cases.
Theorem C04_password_cases_exclusive : forall login, counted_password login -> ~ uncounted_password login.
Proof. exact counted_not_uncounted. Qed.
Print Assumptions C04_password_cases_exclusive.

(* the user has hard-coded credentials iff its password counts OR the Metadata authentication block has a bad entry *)
Theorem C04_hc_user_iff : forall login md, login_wf login ->
  (has_hc_user login md = Ok true <->
   counted_password login \/
   exists m a, md = VDict m /\ lookup K_CFN_AUTH m = Some (VDict a) /\ any_bad a = Ok true).
Proof. exact hc_user_true_iff. Qed.
Print Assumptions C04_hc_user_iff.

Theorem C04_hc_user_false_iff : forall login md, login_wf login ->
  (has_hc_user login md = Ok false <->
   uncounted_password login /\ exists a, md_auths md a /\ forall k x, In (k, x) a -> clean_entry x).
Proof. exact hc_user_false_iff. Qed.
Print Assumptions C04_hc_user_false_iff.

(* a counted password answers True before the Metadata is looked at (even Metadata on which the generic check would raise) *)
Theorem C04_hc_user_password : forall login md, counted_password login -> has_hc_user login md = Ok true.
Proof. exact hc_user_counted. Qed.
Print Assumptions C04_hc_user_password.

(* the password does NOT mask the Metadata: when it is absent, empty or the marker, the answer is exactly the verdict of the
   base class -- value or exception (seeded change C04-m2 returned the password verdict directly) *)
Theorem C04_hc_user_password_does_not_mask_metadata : forall login md,
  uncounted_password login -> has_hc_user login md = has_hc md.
Proof. exact hc_user_uncounted. Qed.
Print Assumptions C04_hc_user_password_does_not_mask_metadata.

Theorem C04_hc_user_err_iff : forall login md e, login_wf login ->
  (has_hc_user login md = Err e <-> uncounted_password login /\ has_hc md = Err e).
Proof. exact hc_user_err_iff. Qed.
Print Assumptions C04_hc_user_err_iff.

(* a LoginProfile that is neither None nor a dictionary is outside the model's domain (pydantic: Optional[Dict]) *)
Theorem C04_hc_user_illformed : forall login md, ~ login_wf login -> has_hc_user login md = Err EUndefined.
Proof. exact hc_user_illformed. Qed.
Print Assumptions C04_hc_user_illformed.

(* ---- parameters and credentials together: what {"Ref": S}, S a declared NoEcho parameter, puts into a credential field ---- *)
Theorem C04_ref_noecho : forall pseudo decls extra ps maps cf s d,
  bind_params pseudo decls extra = Ok ps -> NoDup (keys decls) -> lookup s decls = Some d -> is_noecho d = true ->
  do_ref {| params := ps; mappings := maps; conds := cf |} (VStr s) =
  Ok (VStr (match supplied s extra, field K_Default d with
            | Some _, _ => S_NO_ECHO_WITH_VALUE
            | None, Some _ => S_NO_ECHO_WITH_DEFAULT
            | None, None => S_NO_ECHO_NO_DEFAULT
            end)).
Proof. exact do_ref_noecho. Qed.
Print Assumptions C04_ref_noecho.

(* {"Ref": S} is do_ref of S for every name the leaf rules leave alone *)
Theorem C04_ref_is_do_ref : forall ps maps cf s, ssm_key s = None -> is_boolish s = false ->
  resolve {| params := ps; mappings := maps; conds := cf |} (VDict [(K_Ref, VStr s)]) =
  do_ref {| params := ps; mappings := maps; conds := cf |} (VStr s).
Proof. exact resolve_ref_noecho. Qed.
Print Assumptions C04_ref_is_do_ref.

(* the marker that has_hardcoded_credentials forgives arises from such a reference exactly when S has NEITHER a supplied
   value NOR a Default *)
Theorem C04_marker_only_from_unset_noecho : forall pseudo decls extra ps maps cf s d,
  bind_params pseudo decls extra = Ok ps -> NoDup (keys decls) -> lookup s decls = Some d -> is_noecho d = true ->
  (do_ref {| params := ps; mappings := maps; conds := cf |} (VStr s) = Ok MARKER <->
   supplied s extra = None /\ field K_Default d = None).
Proof. exact marker_only_from_unset_noecho. Qed.
Print Assumptions C04_marker_only_from_unset_noecho.

(* hence: a credential field that is Ref S, S unset, is NOT reported -- the field is clean, and as the user's password it
   leaves the verdict to the Metadata check *)
Theorem C04_unset_noecho_ref_not_reported : forall pseudo decls extra ps maps cf s d,
  bind_params pseudo decls extra = Ok ps -> NoDup (keys decls) -> lookup s decls = Some d -> is_noecho d = true ->
  forall v, do_ref {| params := ps; mappings := maps; conds := cf |} (VStr s) = Ok v ->
  supplied s extra = None /\ field K_Default d = None ->
  (forall a f, lookup f a = Some v -> clean_field a f) /\
  (forall lp md, lookup K_Password lp = Some v -> has_hc_user (VDict lp) md = has_hc md).
Proof. exact unset_noecho_ref_not_reported. Qed.
Print Assumptions C04_unset_noecho_ref_not_reported.

(* and a credential field that is Ref S, S with a Default or a supplied value, IS reported (it resolves to another marker): as
   the user's password, and as accessKeyId / password / secretKey of an authentication entry *)
Theorem C04_set_noecho_ref_reported : forall pseudo decls extra ps maps cf s d,
  bind_params pseudo decls extra = Ok ps -> NoDup (keys decls) -> lookup s decls = Some d -> is_noecho d = true ->
  forall v, do_ref {| params := ps; mappings := maps; conds := cf |} (VStr s) = Ok v ->
  ~ (supplied s extra = None /\ field K_Default d = None) ->
  (forall lp md, lookup K_Password lp = Some v -> has_hc_user (VDict lp) md = Ok true) /\
  (forall a f, In f CRED_FIELDS -> lookup f a = Some v -> dirty_entry (VDict a)) /\
  (forall auths k a f, (forall k' a', In (k', a') auths -> exists d', a' = VDict d') ->
     In (k, VDict a) auths -> In f CRED_FIELDS -> lookup f a = Some v -> any_bad auths = Ok true).
Proof. exact set_noecho_ref_reported. Qed.
Print Assumptions C04_set_noecho_ref_reported.

(* ---- witnesses ---- *)
Definition dNoEchoEmptyDefault : value := VDict [(K_Type, VStr [83]); (K_Default, VStr []); (K_NoEcho, VBool true)].
Example C04_ex_noecho_empty_default : ref_value dNoEchoEmptyDefault None = Ok (Some (VStr S_NO_ECHO_WITH_DEFAULT)).
Proof. vm_compute. reflexivity. Qed.
Definition dListNoDefault : value := VDict [(K_Type, VStr S_CommaDelimitedList)].
Example C04_ex_list_no_value : ref_value dListNoDefault None = Ok None
  /\ ref_value dListNoDefault (Some (VStr [97;44;98])) = Ok (Some (VList [VStr [97]; VStr [98]])).
Proof. split; vm_compute; reflexivity. Qed.
Example C04_ex_ssm : ssm_key (S_SSM_PREFIX ++ [47;112;58;49;125;125]) = Some [47;112;58;49].
Proof. vm_compute. reflexivity. Qed.

(* ---- witnesses: credentials ---- *)
Definition sHard : value := VStr [104;97;114;100;99;111;100;101;100].     (* "hardcoded" *)
Definition mdOf (auths : list (str * value)) : value := VDict [(K_CFN_AUTH, VDict auths)].
Definition loginOf (p : value) : value := VDict [(K_Password, p)].
(* C04-m2: the password is the marker, the Metadata holds a literal secretKey => reported *)
Example C04_ex_user_marker_password_literal_key :
  has_hc_user (loginOf MARKER) (mdOf [([97;49], VDict [(K_secretKey, sHard)])]) = Ok true
  /\ uncounted_password (loginOf MARKER).
Proof. split; [vm_compute; reflexivity|]. right. eexists. split; [reflexivity|]. right. exists MARKER. split; [reflexivity | right; reflexivity]. Qed.
(* truthiness: an empty password is treated like an absent one; a literal one counts; only marker-valued entries => clean *)
Example C04_ex_user_passwords :
  has_hc_user (loginOf (VStr [])) VNull = Ok false
  /\ has_hc_user (loginOf sHard) VNull = Ok true
  /\ has_hc_user (loginOf (VStr S_NO_ECHO_WITH_DEFAULT)) VNull = Ok true
  /\ has_hc_user VNull (mdOf [([97;49], VDict [(K_secretKey, MARKER); (K_Type, sHard)])]) = Ok false
  /\ has_hc_user (VDict []) (mdOf []) = Ok false.
Proof. repeat split; vm_compute; reflexivity. Qed.
Example C04_ex_counted : counted_password (loginOf sHard) /\ login_wf (loginOf sHard) /\ login_wf VNull.
Proof.
  split; [exists [(K_Password, sHard)], sHard; repeat split; try reflexivity; discriminate|].
  split; [right; eexists; reflexivity | left; reflexivity].
Qed.
(* the error cases: an entry that is not a dictionary, a block that is not a dictionary, an ill-formed LoginProfile; a counted
   password answers before any of the Metadata errors *)
Example C04_ex_hc_errors :
  has_hc (mdOf [([97;49], sHard)]) = Err EAttr
  /\ has_hc (VDict [(K_CFN_AUTH, sHard)]) = Err EAttr
  /\ has_hc (VDict [(K_CFN_AUTH, VStr [])]) = Ok false
  /\ has_hc_user (loginOf MARKER) (mdOf [([97;49], sHard)]) = Err EAttr
  /\ has_hc_user (loginOf sHard) (mdOf [([97;49], sHard)]) = Ok true
  /\ has_hc_user sHard VNull = Err EUndefined.
Proof. repeat split; vm_compute; reflexivity. Qed.
Example C04_ex_md_auths : md_auths VNull [] /\ md_auths (VDict []) [] /\ md_auths (VDict [(K_CFN_AUTH, VStr [])]) []
  /\ md_auths (mdOf [([97;49], VDict [])]) [([97;49], VDict [])].
Proof.
  split; [constructor|]. split; [apply MA_no_block; reflexivity|].
  split; [eapply MA_falsy_block; reflexivity | apply MA_block; reflexivity].
Qed.

(* ---- witnesses: a whole template (parse is the identity on these), resolve_model, then the check on Resources["R"] ---- *)
Definition nSecret : str := [83;101;99;114;101;116].     (* "Secret" *)
Definition nKeyed : str := [75;101;121;101;100].         (* "Keyed" *)
Definition declBody : list (str * value) := [(K_Type, VStr [83;116;114;105;110;103]); (K_NoEcho, VBool true)].
Definition refTo (n : str) : value := VDict [(K_Ref, VStr n)].
Definition userRes (pw : value) (auths : list (str * value)) : value :=
  VDict [(K_Type, VStr S_IAM_USER);
         (K_Properties, VDict [(K_LoginProfile, VDict [(K_Password, pw)])]);
         (K_Metadata, VDict [(K_CFN_AUTH, VDict auths)])].
Definition hcOf (decls extra : list (str * value)) (auths : list (str * value)) : res bool :=
  hc_resolved (resolve_model [] decls extra [] [] [([82], userRes (refTo nSecret) auths)]) [82].
Definition declsUnset : list (str * value) := [(nSecret, VDict declBody)].

(* hypotheses of C04_marker_only_from_unset_noecho are satisfiable, and both sides of its equivalence occur *)
Example C04_ex_marker_hyps :
  exists ps, bind_params [] declsUnset [] = Ok ps /\ NoDup (keys declsUnset) /\ lookup nSecret declsUnset = Some (VDict declBody)
    /\ is_noecho (VDict declBody) = true
    /\ do_ref {| params := ps; mappings := []; conds := fun _ => Ok false |} (VStr nSecret) = Ok MARKER
    /\ supplied nSecret [] = None /\ field K_Default (VDict declBody) = None
    /\ ssm_key nSecret = None /\ is_boolish nSecret = false.
Proof.
  eexists. split; [vm_compute; reflexivity|]. split; [repeat constructor; intros []|].
  repeat split; vm_compute; reflexivity.
Qed.
Example C04_ex_marker_set :
  exists ps, bind_params [] [(nSecret, with_default (VStr []) declBody)] [] = Ok ps
    /\ do_ref {| params := ps; mappings := []; conds := fun _ => Ok false |} (VStr nSecret) = Ok (VStr S_NO_ECHO_WITH_DEFAULT)
    /\ field K_Default (with_default (VStr []) declBody) <> None.
Proof. eexists. split; [vm_compute; reflexivity|]. split; [vm_compute; reflexivity | vm_compute; discriminate]. Qed.

(* LoginProfile.Password = Ref to the unset NoEcho parameter: alone it is not reported ... *)
Example C04_ex_tpl_password_only : hcOf declsUnset [] [] = Ok false.
Proof. vm_compute. reflexivity. Qed.
(* (a) ... but a literal secretKey in the same resource's Metadata is *)
Example C04_ex_tpl_literal_key : hcOf declsUnset [] [([97;49], VDict [(K_secretKey, sHard)])] = Ok true.
Proof. vm_compute. reflexivity. Qed.
(* (b) ... and so is a Ref to a NoEcho parameter WITH a default (even the falsy default "") *)
Example C04_ex_tpl_ref_with_default :
  hcOf [(nSecret, VDict declBody); (nKeyed, with_default (VStr []) declBody)] []
       [([97;49], VDict [(K_password, refTo nKeyed)])] = Ok true.
Proof. vm_compute. reflexivity. Qed.
(* (c) only marker-valued entries (a Ref to the unset parameter, the marker spelled out): not reported ... *)
Example C04_ex_tpl_marker_only :
  hcOf declsUnset [] [([97;49], VDict [(K_accessKeyId, refTo nSecret); (K_secretKey, MARKER)])] = Ok false.
Proof. vm_compute. reflexivity. Qed.
(* ... until a value is supplied for the parameter *)
Example C04_ex_tpl_marker_only_supplied :
  hcOf declsUnset [(nSecret, VStr [120])] [([97;49], VDict [(K_accessKeyId, refTo nSecret); (K_secretKey, MARKER)])] = Ok true.
Proof. vm_compute. reflexivity. Qed.

(* ---- witnesses: the Default of a NoEcho parameter ---- *)
Definition tplDefault (dv : value) : res value :=
  resolve_model [] ([] ++ (nSecret, with_default dv declBody) :: []) [] [] []
    [([82], userRes (refTo nSecret) [([97;49], VDict [(K_secretKey, refTo nSecret)])])].
(* "", 0 and a real secret are indistinguishable (and the resolution succeeds: the statement is not about two errors) ... *)
Example C04_ex_default_blind :
  tplDefault (VStr []) = tplDefault sHard /\ tplDefault (VInt 0) = tplDefault sHard /\ is_ok (tplDefault sHard) = true
  /\ is_noecho (VDict declBody) = true.
Proof. repeat split; vm_compute; reflexivity. Qed.
(* ... whereas Default: null is NO default (the hypothesis v <> VNull is needed): the marker, hence the whole result, differs *)
Example C04_ex_default_null_differs :
  tplDefault VNull <> tplDefault sHard /\ hc_resolved (tplDefault VNull) [82] = Ok false /\ hc_resolved (tplDefault sHard) [82] = Ok true.
Proof. split; [vm_compute; discriminate | split; vm_compute; reflexivity]. Qed.

(* ================================================================================================================ *)
(* ALGEBRAIC LAWS of parameter binding (Resolver/BindLaws.v).  Laws that FAIL carry the suffix _refuted and a witness.
   render_param d v marker  = how a PRESENT value v of the parameter declared by d is rendered (NoEcho: the marker; list types:
   a list is kept, a text is split at ","; otherwise str(v));  undeclared decls extra = the supplied keys that are not declared. *)
Definition dStrDefault : value := VDict [(K_Type, VStr [83]); (K_Default, VStr [100])].          (* Type S, Default "d" *)
Definition dNoEchoDefault : value := VDict [(K_Type, VStr [83]); (K_Default, VStr [100]); (K_NoEcho, VBool true)].

(* (a) LOCALITY: the binding of a name is a function of ITS declaration, the value supplied under ITS name and the library
   default of ITS name -- whatever else is declared or supplied *)
Theorem C04_binding_local : forall pseudo1 pseudo2 decls1 decls2 extra1 extra2 ps1 ps2 k,
  bind_params pseudo1 decls1 extra1 = Ok ps1 -> bind_params pseudo2 decls2 extra2 = Ok ps2 ->
  NoDup (keys decls1) -> NoDup (keys decls2) ->
  lookup k decls1 = lookup k decls2 -> lookup k extra1 = lookup k extra2 -> lookup k pseudo1 = lookup k pseudo2 ->
  lookup k ps1 = lookup k ps2.
Proof. exact binding_local. Qed.
Print Assumptions C04_binding_local.
Example C04_ex_binding_local :  (* P declared the same way in two templates with different neighbours and different other keys *)
  exists ps1 ps2,
    bind_params [] [([80], dStrDefault)] [([81], VStr [113])] = Ok ps1 /\
    bind_params [] [([82], dListNoDefault); ([80], dStrDefault)] [([82], VStr [97;44;98])] = Ok ps2 /\
    NoDup (keys [([80], dStrDefault)]) /\ NoDup (keys [([82], dListNoDefault); ([80], dStrDefault)]) /\
    lookup [80] ps1 = Some (VStr [100]) /\ lookup [80] ps2 = Some (VStr [100]) /\ ps1 <> ps2.
Proof.
  eexists. eexists. split; [vm_compute; reflexivity|]. split; [vm_compute; reflexivity|].
  split; [repeat constructor; intros []|]. split; [repeat constructor; [intros [H|[]]; discriminate H | intros []]|].
  split; [vm_compute; reflexivity|]. split; [vm_compute; reflexivity | discriminate].
Qed.

(* (b) supplying a value EQUAL to the Default changes no binding ... *)
Theorem C04_supply_default_value : forall d v, field K_Default d = Some v -> is_noecho d = false ->
  ref_value d (Some v) = ref_value d None.
Proof. exact supply_default_value. Qed.
Print Assumptions C04_supply_default_value.
Theorem C04_supply_default_binding : forall pseudo decls extra k d v, NoDup (keys decls) -> lookup k decls = Some d ->
  field K_Default d = Some v -> is_noecho d = false -> supplied k extra = None ->
  bind_params pseudo decls ((k, v) :: extra) = bind_params pseudo decls extra.
Proof. exact supply_default_binding. Qed.
Print Assumptions C04_supply_default_binding.
Theorem C04_supply_default_model : forall pseudo decls extra maps cdecl rs k d v, NoDup (keys decls) -> lookup k decls = Some d ->
  field K_Default d = Some v -> is_noecho d = false -> supplied k extra = None ->
  resolve_model pseudo decls ((k, v) :: extra) maps cdecl rs = resolve_model pseudo decls extra maps cdecl rs.
Proof. exact supply_default_model. Qed.
Print Assumptions C04_supply_default_model.
Example C04_ex_supply_default : NoDup (keys [([80], dStrDefault)]) /\ lookup [80] [([80], dStrDefault)] = Some dStrDefault /\
  field K_Default dStrDefault = Some (VStr [100]) /\ is_noecho dStrDefault = false /\ supplied [80] [] = None /\
  bind_params [] [([80], dStrDefault)] [([80], VStr [100])] = Ok [([80], VStr [100])].
Proof. split; [repeat constructor; intros []|]. repeat split; vm_compute; reflexivity. Qed.
(* ... EXCEPT for a NoEcho parameter: the marker says whether a value was supplied *)
Theorem C04_supply_default_noecho : forall d v, field K_Default d = Some v -> is_noecho d = true ->
  ref_value d (Some v) = Ok (Some (VStr S_NO_ECHO_WITH_VALUE)) /\ ref_value d None = Ok (Some (VStr S_NO_ECHO_WITH_DEFAULT)) /\
  S_NO_ECHO_WITH_VALUE <> S_NO_ECHO_WITH_DEFAULT.
Proof. exact supply_default_noecho. Qed.
Print Assumptions C04_supply_default_noecho.
Example C04_ex_supply_default_noecho : field K_Default dNoEchoDefault = Some (VStr [100]) /\ is_noecho dNoEchoDefault = true.
Proof. split; vm_compute; reflexivity. Qed.

(* (c) IDEMPOTENCE: a rendered value is a fixed point of the rendering, so supplying the visible bindings again (own bindings of
   the declared parameters + the undeclared supplied keys) reproduces exactly the same table -- when no parameter is NoEcho *)
Theorem C04_rendered_fixed_point : forall d p v, is_noecho d = false -> ref_value d p = Ok (Some v) -> ref_value d (Some v) = Ok (Some v).
Proof. exact ref_value_fixed. Qed.
Print Assumptions C04_rendered_fixed_point.
Theorem C04_bind_idempotent : forall pseudo decls extra declared, NoDup (keys decls) ->
  (forall k d, In (k, d) decls -> is_noecho d = false) -> bind_declared decls extra = Ok declared ->
  bind_params pseudo decls (undeclared decls extra ++ declared) = bind_params pseudo decls extra.
Proof. exact bind_idempotent. Qed.
Print Assumptions C04_bind_idempotent.
Example C04_ex_bind_idempotent :        (* a Number default 5 (rendered "5"), a list supplied as text, an undeclared key *)
  let decls := [([78], VDict [(K_Type, VStr [78]); (K_Default, VInt 5)]); ([76], dListNoDefault)] in
  let extra := [([76], VStr [97;44;98]); ([88], VInt 7)] in
  NoDup (keys decls) /\ (forall k d, In (k, d) decls -> is_noecho d = false) /\
  bind_declared decls extra = Ok [([78], VStr [53]); ([76], VList [VStr [97]; VStr [98]])] /\
  undeclared decls extra = [([88], VInt 7)].
Proof.
  cbv zeta. split; [repeat constructor; [intros [H|[]]; discriminate H | intros []]|].
  split; [intros k d [H|[H|[]]]; inversion H; subst; vm_compute; reflexivity|]. split; vm_compute; reflexivity.
Qed.
(* a NoEcho parameter breaks it: its marker, supplied again, is "a value" *)
Theorem C04_noecho_resupply : forall d m, is_noecho d = true -> ref_value d None = Ok (Some m) ->
  ref_value d (Some m) = Ok (Some (VStr S_NO_ECHO_WITH_VALUE)) /\ m <> VStr S_NO_ECHO_WITH_VALUE.
Proof. exact noecho_resupply. Qed.
Print Assumptions C04_noecho_resupply.
Theorem C04_bind_idempotent_noecho_refuted : exists decls extra declared k,
  NoDup (keys decls) /\ bind_declared decls extra = Ok declared /\
  (exists ps1 ps2, bind_params [] decls extra = Ok ps1 /\ bind_params [] decls (undeclared decls extra ++ declared) = Ok ps2 /\
     lookup k ps1 = Some (VStr S_NO_ECHO_NO_DEFAULT) /\ lookup k ps2 = Some (VStr S_NO_ECHO_WITH_VALUE)).
Proof. exact bind_idempotent_noecho_refuted. Qed.
Print Assumptions C04_bind_idempotent_noecho_refuted.
(* ... and the credential verdict of a whole template follows the marker: not reported, then reported *)
Example C04_ex_resupplied_marker_is_reported :
  hcOf declsUnset [] [] = Ok false /\ hcOf declsUnset [(nSecret, VStr S_NO_ECHO_NO_DEFAULT)] [] = Ok true /\
  is_noecho (VDict declBody) = true /\ ref_value (VDict declBody) None = Ok (Some (VStr S_NO_ECHO_NO_DEFAULT)).
Proof. repeat split; vm_compute; reflexivity. Qed.

(* (d) list-typed parameters: the text "a,b" and the list ["a","b"] bind to the same list *)
Theorem C04_list_text_vs_list : forall d s, is_noecho d = false -> is_list_type d = true ->
  ref_value d (Some (VStr s)) = ref_value d (Some (VList (map VStr (split S_COMMA s)))).
Proof. exact list_text_vs_list. Qed.
Print Assumptions C04_list_text_vs_list.
(* a bare text without a comma = the one-element list *)
Theorem C04_list_bare_text : forall d s, is_noecho d = false -> is_list_type d = true -> ~ In 44 s ->
  ref_value d (Some (VStr s)) = Ok (Some (VList [VStr s])) /\ ref_value d (Some (VList [VStr s])) = Ok (Some (VList [VStr s])).
Proof. exact list_bare_text. Qed.
Print Assumptions C04_list_bare_text.
(* the EMPTY text binds [""] (one empty item, Python's "".split(",")), the empty list binds [] *)
Theorem C04_list_empty_text : forall d, is_noecho d = false -> is_list_type d = true ->
  ref_value d (Some (VStr [])) = Ok (Some (VList [VStr []])) /\ ref_value d (Some (VList [])) = Ok (Some (VList [])).
Proof. exact list_empty_text. Qed.
Print Assumptions C04_list_empty_text.
Example C04_ex_list_hyps : is_noecho dListNoDefault = false /\ is_list_type dListNoDefault = true /\ ~ In 44 [97] /\
  split S_COMMA [97;44;98] = [[97]; [98]].
Proof. split; [reflexivity|]. split; [reflexivity|]. split; [intros [H|[]]; discriminate H | vm_compute; reflexivity]. Qed.
(* the members of a supplied LIST are bound as they are, those of a supplied text as text: "1,2" binds ["1","2"], [1,2] binds
   [1,2] (docstring: "the string version of each element"); a Ref renders the members, so the resolved model does not differ *)
Theorem C04_list_members_not_rendered_refuted :
  ref_value dNumList (Some (VStr [49; 44; 50])) = Ok (Some (VList [VStr [49]; VStr [50]])) /\
  ref_value dNumList (Some (VList [VInt 1; VInt 2])) = Ok (Some (VList [VInt 1; VInt 2])) /\
  normalize [] (VList [VInt 1; VInt 2]) = normalize [] (VList [VStr [49]; VStr [50]]).
Proof. exact list_members_not_rendered_refuted. Qed.
Print Assumptions C04_list_members_not_rendered_refuted.

(* (e) PRECEDENCE as ONE theorem.  Declared name: supplied value (rendered) > Default (rendered) > [NoEcho: the NO_DEFAULT
   marker] > library default of that name > unbound.  Undeclared name (pseudo parameters included): the supplied value AS IT IS
   > library default > unbound *)
Theorem C04_precedence_chain : forall pseudo decls extra ps, bind_params pseudo decls extra = Ok ps -> NoDup (keys decls) ->
  forall k,
  match lookup k decls with
  | Some d =>
      match supplied k extra, field K_Default d with
      | Some v, _ => exists r, render_param d v S_NO_ECHO_WITH_VALUE = Ok r /\ lookup k ps = Some r
      | None, Some v => exists r, render_param d v S_NO_ECHO_WITH_DEFAULT = Ok r /\ lookup k ps = Some r
      | None, None => lookup k ps = if is_noecho d then Some (VStr S_NO_ECHO_NO_DEFAULT) else lookup k pseudo
      end
  | None => lookup k ps = match lookup k extra with Some v => Some v | None => lookup k pseudo end
  end.
Proof. exact precedence_chain. Qed.
Print Assumptions C04_precedence_chain.
Definition nRegion : str := [65;87;83;58;58;82;101;103;105;111;110].          (* "AWS::Region" *)
Definition pseudoEx : list (str * value) := [(nRegion, VStr [101;117])].      (* library default "eu" *)
Example C04_ex_precedence_chain :       (* all five levels, for declared P (Default "d"), declared Q (no Default), pseudo, undeclared *)
  exists ps1 ps2, 
    bind_params pseudoEx [([80], dStrDefault); (nRegion, dListNoDefault)] [([80], VInt 7); ([88], VInt 7)] = Ok ps1 /\
    bind_params pseudoEx [([80], dStrDefault)] [(nRegion, VStr [117;115])] = Ok ps2 /\
    lookup [80] ps1 = Some (VStr [55]) /\              (* declared + supplied 7: rendered "7" *)
    lookup [80] ps2 = Some (VStr [100]) /\             (* declared, not supplied: Default *)
    lookup nRegion ps1 = Some (VStr [101;117]) /\      (* declared without Default, not supplied: the library default of the name *)
    lookup nRegion ps2 = Some (VStr [117;115]) /\      (* pseudo parameter supplied: overrides the library default *)
    lookup [88] ps1 = Some (VInt 7) /\                 (* undeclared ordinary name: bound as supplied (not rendered) *)
    lookup [89] ps1 = None.                            (* unbound *)
Proof. eexists. eexists. split; [vm_compute; reflexivity|]. split; [vm_compute; reflexivity|]. repeat split; vm_compute; reflexivity. Qed.
(* inside it: an explicit null means "not supplied" for a declared name, but is BOUND for an undeclared one (and then hides the
   library default of a pseudo parameter) *)
Theorem C04_null_supplied_asymmetry : forall pseudo decls extra ps k, bind_params pseudo decls extra = Ok ps -> NoDup (keys decls) ->
  lookup k extra = Some VNull ->
  match lookup k decls with
  | Some d => lookup k ps = match ref_value d None with Ok (Some v) => Some v | _ => lookup k pseudo end
  | None => lookup k ps = Some VNull
  end.
Proof. exact null_supplied_asymmetry. Qed.
Print Assumptions C04_null_supplied_asymmetry.
Example C04_ex_null_supplied : exists ps, bind_params pseudoEx [([80], dStrDefault)] [([80], VNull); (nRegion, VNull)] = Ok ps /\
  NoDup (keys [([80], dStrDefault)]) /\ lookup [80] ps = Some (VStr [100]) /\ lookup nRegion ps = Some VNull.
Proof. eexists. split; [vm_compute; reflexivity|]. split; [repeat constructor; intros []|]. split; vm_compute; reflexivity. Qed.

(* (f) has_hardcoded_credentials as a COMPLETE decision table.  A credential field comes from nothing (CAbsent), a literal
   (CLiteral s) or a reference to a NoEcho parameter (CRefNoEcho has_default supplied); cred_val is its value in the resolved
   model.  A field of an authentication entry counts unless it is absent or spells the NO_DEFAULT marker; the user's password
   counts under the same rule except that an EMPTY literal does not *)
Theorem C04_hc_resource_table : forall entries,
  has_hc (md_of entries) = Ok (existsb (fun ke => entry_reported (snd ke)) entries).
Proof. exact hc_resource_table. Qed.
Print Assumptions C04_hc_resource_table.
Theorem C04_hc_user_table : forall lp entries,
  has_hc_user (login_of lp) (md_of entries) = Ok (password_reported lp || existsb (fun ke => entry_reported (snd ke)) entries).
Proof. exact hc_user_table. Qed.
Print Assumptions C04_hc_user_table.
(* the rows, spelled out *)
Example C04_ex_hc_rows :
  field_reported CAbsent = false /\ field_reported (CLiteral [120]) = true /\ field_reported (CLiteral []) = true /\
  field_reported (CLiteral S_NO_ECHO_NO_DEFAULT) = false /\
  field_reported (CRefNoEcho false false) = false /\ field_reported (CRefNoEcho true false) = true /\
  field_reported (CRefNoEcho false true) = true /\ field_reported (CRefNoEcho true true) = true /\
  password_reported None = false /\ password_reported (Some CAbsent) = false /\ password_reported (Some (CLiteral [120])) = true /\
  password_reported (Some (CLiteral [])) = false /\ password_reported (Some (CLiteral S_NO_ECHO_NO_DEFAULT)) = false /\
  password_reported (Some (CRefNoEcho false false)) = false /\ password_reported (Some (CRefNoEcho true false)) = true /\
  password_reported (Some (CRefNoEcho false true)) = true.
Proof. repeat split; vm_compute; reflexivity. Qed.
(* the two places judge the same source differently for the empty literal only *)
Theorem C04_password_vs_field : forall c, password_reported (Some c) = field_reported c \/ c = CLiteral [].
Proof. exact password_vs_field. Qed.
Print Assumptions C04_password_vs_field.
(* CRefNoEcho is what a reference to a NoEcho parameter resolves to *)
Theorem C04_cred_val_is_ref : forall pseudo decls extra ps maps cf s d, bind_params pseudo decls extra = Ok ps -> NoDup (keys decls) ->
  lookup s decls = Some d -> is_noecho d = true ->
  do_ref {| params := ps; mappings := maps; conds := cf |} (VStr s) =
  match cred_val (CRefNoEcho (match field K_Default d with Some _ => true | None => false end)
                             (match supplied s extra with Some _ => true | None => false end)) with
  | Some v => Ok v | None => Err EUndefined end.
Proof. exact cred_val_is_ref. Qed.
Print Assumptions C04_cred_val_is_ref.
Example C04_ex_hc_table_template :      (* the table agrees with a whole template run through resolve_model *)
  hcOf declsUnset [] [([97;49], VDict [(K_secretKey, refTo nSecret)])] =
    has_hc_user (login_of (Some (CRefNoEcho false false))) (md_of [([97;49], (CAbsent, CAbsent, CRefNoEcho false false))]) /\
  hcOf declsUnset [(nSecret, VStr [120])] [([97;49], VDict [(K_secretKey, refTo nSecret)])] =
    has_hc_user (login_of (Some (CRefNoEcho false true))) (md_of [([97;49], (CAbsent, CAbsent, CRefNoEcho false true))]) /\
  hcOf declsUnset [(nSecret, VStr [120])] [] = Ok true /\ hcOf declsUnset [] [([97;49], VDict [(K_password, VStr [])])] = Ok true.
Proof. repeat split; vm_compute; reflexivity. Qed.
