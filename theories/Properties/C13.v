(* C13 -- Every embedded policy document is discoverable, exactly once.
   Statements only; proofs are [exact] of lemmas of Typed/Collect.v, Typed/TypedDocs.v, Typed/PdCheck.v.
   Model: [cast] (Typed/Cast.v, pycfmodel/model/generic.py), [collect] / [resource_docs] (resource.py
   policy_documents + obtain_policy_documents).  Spec: [embedded] = a FILTER over the flat enumeration [positions] of all
   positions of the input (object members, list members, positions inside decoded JSON strings), keeping a position whose
   node is recognised as a policy document / named wrapper and that has no accepted proper ancestor.
   The recogniser is a per-node oracle annotation (TypeAdapter(Properties) in isolation): the theorems hold for EVERY
   annotation and every configuration [c] of the casting algorithm. *)
From Coq Require Import List Bool NArith ZArith.
From PV Require Import Base.Str Base.Value Typed.GValue Typed.Cast Typed.Collect Typed.PdSpec Typed.TypedDocs Typed.PdCheck Typed.Witness.
From PVGen Require PdPaths.
Import ListNotations.

(* The faithful model of the code: cast-then-collect returns, as a LIST (each document once, in traversal order, nothing
   else), exactly the documents at the positions the code's reading enumerates -- a JSON-encoded string is entered only when
   its decoded top-level value is accepted by the union (known finding F16). *)
Theorem C13_exactly_once_impl :
  forall (c : cfg) (props : list (str * gvalue)), resource_docs c props = resource_embedded false c props.
Proof. exact resource_exactly_once_impl. Qed.
Print Assumptions C13_exactly_once_impl.

(* The property's reading (every JSON-encoded string is entered): equal to what the code returns whenever no JSON string
   hides a document below a decoded value the union rejects. *)
Theorem C13_exactly_once :
  forall (c : cfg) (props : list (str * gvalue)),
    forallb (fun kv => hidden_free c (snd kv)) props = true ->
    resource_docs c props = resource_embedded true c props.
Proof. exact resource_exactly_once_spec. Qed.
Print Assumptions C13_exactly_once.

Theorem C13_exactly_once_value :
  forall (c : cfg) (g : gvalue), hidden_free c g = true -> collect (cast c g) = embedded_spec c g.
Proof. exact exactly_once_spec. Qed.
Print Assumptions C13_exactly_once_value.

(* a document in a named wrapper carries its PolicyName; a bare document is unnamed; no other property model yields anything *)
Theorem C13_named :
  forall (c : cfg) (d : list (str * gvalue)) (r : recog) (n : str),
    choose c (GDict d (Some r)) = CProp r -> r_kind r = PkPolicy -> name_confirmed d r = true -> policy_name d = Some n ->
    collect (cast c (GDict d (Some r))) = [(Some n, r_doc r)].
Proof. exact named_wrapper. Qed.
Print Assumptions C13_named.
Theorem C13_unnamed :
  forall (c : cfg) (d : list (str * gvalue)) (r : recog),
    choose c (GDict d (Some r)) = CProp r -> r_kind r = PkPolicyDocument ->
    collect (cast c (GDict d (Some r))) = [(None, r_doc r)].
Proof. exact unnamed_document. Qed.
Print Assumptions C13_unnamed.
Theorem C13_nothing_else :
  forall (c : cfg) (d : list (str * gvalue)) (r : recog),
    choose c (GDict d (Some r)) = CProp r -> r_kind r <> PkPolicyDocument -> r_kind r <> PkPolicy ->
    collect (cast c (GDict d (Some r))) = [].
Proof. exact other_models_yield_nothing. Qed.
Print Assumptions C13_nothing_else.

(* all_statement_conditions = the Condition blocks of the statements of exactly those documents, in order,
   statements without a Condition skipped *)
Theorem C13_conditions :
  forall (c : cfg) (props : list (str * gvalue)),
    resource_conditions c props = flat_map (fun nd => doc_conditions (snd nd)) (resource_embedded false c props).
Proof. exact conditions_exact. Qed.
Print Assumptions C13_conditions.
Theorem C13_conditions_of_document :
  forall sts, doc_conditions (VList sts) = map the_condition (filter has_condition sts).
Proof. exact doc_conditions_filter. Qed.
Print Assumptions C13_conditions_of_document.

(* modelled classes: the document-typed paths of the LIVE schema (gen/PdPaths.v, regenerated each run) are exactly the
   known ones, and each is read by its class's accessor or by its dedicated accessor (IAM role trust policy) *)
Theorem C13_typed_paths :
  forall t ov paths, In (t, (ov, paths)) PdPaths.PD_TABLE ->
  exists r, In r SPEC_TABLE /\ c_type r = t /\ c_paths r = paths /\ ov = is_override (c_acc r) /\
            forallb (path_covered r) paths = true.
Proof. exact typed_paths. Qed.
Print Assumptions C13_typed_paths.
Theorem C13_typed_generic_field :
  forall (c : cfg) (d : list (str * gvalue)) (r : option recog), generic_obj c (GDict d r) = resource_embedded false c d.
Proof. exact typed_generic_field. Qed.
Print Assumptions C13_typed_generic_field.

(* ---- non-vacuity and witnesses ---- *)
From Coq Require Import String.
Local Open Scope string_scope.
Example C13_ex_found :
  forallb (fun kv => hidden_free SPEC (snd kv)) props_found = true
  /\ resource_docs SPEC props_found =
     [(None, stmts "s1"); (None, stmts "s2"); (None, stmts_c "s3" "{""Bool"": {""aws:SecureTransport"": true}}");
      (None, stmts "s4"); (Some (s "n1"), stmts "s5")]
  /\ resource_conditions SPEC props_found = [VStr (s "{""Bool"": {""aws:SecureTransport"": true}}")].
Proof. vm_compute. repeat split; reflexivity. Qed.
(* known finding F16 (not repaired): the property's reading finds the document, the code does not *)
Example C13_json_nested_refuted :
  exists props, resource_embedded true ORIG props <> resource_docs ORIG props.
Proof. exists props_hidden. vm_compute. discriminate. Qed.
Example C13_json_nested_witnesses :
  resource_docs ORIG props_hidden = [] /\ resource_embedded true ORIG props_hidden = [(None, stmts "s9")]
  /\ resource_docs SPEC props_hidden_list = [] /\ resource_embedded true SPEC props_hidden_list = [(None, stmts "s7")]
  /\ forallb (fun kv => hidden_free SPEC (snd kv)) props_hidden = false.
Proof. vm_compute. repeat split; reflexivity. Qed.
Example C13_ex_role_dedicated :
  exists r, find_row (s "AWS::IAM::Role") = Some r
  /\ typed_docs SPEC r [(s "AssumeRolePolicyDocument", doc_node "trust"); (s "Policies", GList [policy_node "p" "s1"])]
     = [(Some (s "p"), stmts "s1")]
  /\ dedicated_docs r [(s "AssumeRolePolicyDocument", doc_node "trust"); (s "Policies", GList [policy_node "p" "s1"])]
     = [(None, stmts "trust")].
Proof. eexists. vm_compute. repeat split; reflexivity. Qed.
