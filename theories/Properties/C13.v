(* C13 -- Every embedded policy document is discoverable, exactly once.
   Statements only; proofs are [exact] of lemmas of Typed/Collect.v, Typed/TypedDocs.v, Typed/PdCheck.v.
   Model: [cast] (Typed/Cast.v, pycfmodel/model/generic.py), [collect] / [resource_docs] (resource.py
   policy_documents + obtain_policy_documents).  Spec: [embedded] = a FILTER over the flat enumeration [positions] of all
   positions of the input (object members, list members, positions inside decoded JSON strings), keeping a position whose
   node is recognised as a policy document / named wrapper and that has no accepted proper ancestor.
   The recogniser is a per-node oracle annotation (TypeAdapter(Properties) in isolation): the theorems hold for EVERY
   annotation and every configuration [c] of the casting algorithm. *)
From Coq Require Import List Bool NArith ZArith.
From PV Require Import Base.Str Base.Value Typed.GValue Typed.Cast Typed.Collect Typed.PdSpec Typed.PdFull Typed.TypedDocs Typed.PdCheck Typed.Witness.
From PV Require Import Typed.CastShape Typed.CollectFacts.
From Coq Require Import Permutation Sorted.
From PVGen Require PdPaths.
Import ListNotations.

(* The faithful model of the code: cast-then-collect returns, as a LIST (each document once, in traversal order, nothing
   else), exactly the documents at the positions the code's reading enumerates -- a JSON-encoded string is entered only when
   its decoded top-level value is accepted by the union (known finding F16). *)
Theorem C13_exactly_once_impl :
  forall (c : cfg) (props : list (str * gvalue)), resource_docs c props = resource_embedded false c props.
Proof. exact resource_exactly_once_impl. Qed.
Print Assumptions C13_exactly_once_impl.

(* The property's reading (every JSON-encoded string is entered): equal to what the code returns whenever no JSON string
   hides a document below a decoded value the union rejects. *)
Theorem C13_exactly_once :
  forall (c : cfg) (props : list (str * gvalue)),
    forallb (fun kv => hidden_free c (snd kv)) props = true ->
    resource_docs c props = resource_embedded true c props.
Proof. exact resource_exactly_once_spec. Qed.
Print Assumptions C13_exactly_once.

Theorem C13_exactly_once_value :
  forall (c : cfg) (g : gvalue), hidden_free c g = true -> collect (cast c g) = embedded_spec c g.
Proof. exact exactly_once_spec. Qed.
Print Assumptions C13_exactly_once_value.

(* a document in a named wrapper carries its PolicyName; a bare document is unnamed; no other property model yields anything *)
Theorem C13_named :
  forall (c : cfg) (d : list (str * gvalue)) (r : recog) (n : str),
    choose c (GDict d (Some r)) = CProp r -> r_kind r = PkPolicy -> name_confirmed d r = true -> policy_name d = Some n ->
    collect (cast c (GDict d (Some r))) = [(Some n, r_doc r)].
Proof. exact named_wrapper. Qed.
Print Assumptions C13_named.
Theorem C13_unnamed :
  forall (c : cfg) (d : list (str * gvalue)) (r : recog),
    choose c (GDict d (Some r)) = CProp r -> r_kind r = PkPolicyDocument ->
    collect (cast c (GDict d (Some r))) = [(None, r_doc r)].
Proof. exact unnamed_document. Qed.
Print Assumptions C13_unnamed.
Theorem C13_nothing_else :
  forall (c : cfg) (d : list (str * gvalue)) (r : recog),
    choose c (GDict d (Some r)) = CProp r -> r_kind r <> PkPolicyDocument -> r_kind r <> PkPolicy ->
    collect (cast c (GDict d (Some r))) = [].
Proof. exact other_models_yield_nothing. Qed.
Print Assumptions C13_nothing_else.

(* all_statement_conditions = the Condition blocks of the statements of exactly those documents, in order,
   statements without a Condition skipped *)
Theorem C13_conditions :
  forall (c : cfg) (props : list (str * gvalue)),
    resource_conditions c props = flat_map (fun nd => doc_conditions (snd nd)) (resource_embedded false c props).
Proof. exact conditions_exact. Qed.
Print Assumptions C13_conditions.
Theorem C13_conditions_of_document :
  forall sts, doc_conditions (VList sts) = map the_condition (filter has_condition sts).
Proof. exact doc_conditions_filter. Qed.
Print Assumptions C13_conditions_of_document.

(* modelled classes: the document-typed paths of the LIVE schema (gen/PdPaths.v, regenerated each run) are exactly the
   known ones, and each is read by its class's accessor or by its dedicated accessor (IAM role trust policy) *)
Theorem C13_typed_paths :
  forall t ov paths, In (t, (ov, paths)) PdPaths.PD_TABLE ->
  exists r, In r FULL_TABLE /\ c_type r = t /\ c_paths r = paths /\ (ov = is_override (c_acc r) \/ paths = []) /\
            forallb (path_covered r) paths = true.
Proof. exact typed_paths. Qed.
Print Assumptions C13_typed_paths.
(* FULL_TABLE (Typed/PdFull.v): for a class with an accessor OVERRIDE the hand-written row of PdSpec.SPEC_TABLE -- its
   document-capable paths are pinned, a path the override does not read would hide documents; for a class read by the inherited WALK,
   known or modelled since, a walking row with the LIVE paths -- the walk visits every field, so a property added upstream is searched
   like the others.  For a class WITHOUT document-capable paths (the security groups) the override flag is immaterial: skipping the
   walk finds what the walk finds, nothing.  Every class this development was written against is still modelled. *)
Theorem C13_known_rows_unchanged : forall r, In r SPEC_TABLE -> exists ov paths, In (c_type r, (ov, paths)) PdPaths.PD_TABLE.
Proof. exact known_rows_unchanged. Qed.
Print Assumptions C13_known_rows_unchanged.
Theorem C13_override_rows_pinned :
  forall t ov paths r, In (t, (ov, paths)) PdPaths.PD_TABLE -> spec_row t = Some r -> c_acc r <> AWalk -> paths = c_paths r.
Proof. exact override_rows_pinned. Qed.
Print Assumptions C13_override_rows_pinned.
Theorem C13_typed_generic_field :
  forall (c : cfg) (d : list (str * gvalue)) (r : option recog), generic_obj c (GDict d r) = resource_embedded false c d.
Proof. exact typed_generic_field. Qed.
Print Assumptions C13_typed_generic_field.


(* ---- counting, path, order, locality and nesting forms (Typed/CollectFacts.v) ---- *)

(* EXACTLY ONCE as a count: as many documents are collected as there are positions -- at any depth, any width -- whose node
   the union recognises as a policy document / named wrapper and that have no accepted proper ancestor *)
Theorem C13_count :
  forall (c : cfg) (g : gvalue), length (collect (cast c g)) = count_pd_positions false c g.
Proof. exact count_exactly_once. Qed.
Print Assumptions C13_count.
Theorem C13_count_spec :
  forall (c : cfg) (g : gvalue), hidden_free c g = true -> length (collect (cast c g)) = count_pd_positions true c g.
Proof. exact count_exactly_once_spec. Qed.
Print Assumptions C13_count_spec.
Theorem C13_count_resource :
  forall (c : cfg) (props : list (str * gvalue)),
    length (resource_docs c props) = list_sum (map (fun kv => count_pd_positions false c (snd kv)) props).
Proof. exact resource_count. Qed.
Print Assumptions C13_count_resource.

(* EXACTLY ONCE as paths: the collected list is, document by document and in order, a list of documents found at pairwise
   DISTINCT paths of the input, each path leading to a node the union recognises as a document / named wrapper *)
Theorem C13_distinct_paths :
  forall (c : cfg) (g : gvalue),
  exists ps : list (path * pdoc),
    map snd ps = collect (cast c g) /\ NoDup (map fst ps) /\
    forall p d, In (p, d) ps -> exists x r, gat g p = Some x /\ node_choice c x = CProp r /\ In d (yields r).
Proof. exact collected_at_distinct_paths. Qed.
Print Assumptions C13_distinct_paths.
(* the enumeration of ALL positions lists every path once, and each path leads to the node it is listed with *)
Theorem C13_positions_distinct :
  forall (deep : bool) (c : cfg) (g : gvalue) (cut : bool), NoDup (map fst (positions_p deep c cut g)).
Proof. exact positions_p_NoDup. Qed.
Print Assumptions C13_positions_distinct.
Theorem C13_positions_are_paths :
  forall (deep : bool) (c : cfg) (g : gvalue) (cut : bool) (p : path) (y : bool * gvalue),
    In (p, y) (positions_p deep c cut g) -> gat g p = Some (snd y).
Proof. exact positions_p_gat. Qed.
Print Assumptions C13_positions_are_paths.
Theorem C13_positions_erase :
  forall (deep : bool) (c : cfg) (g : gvalue) (cut : bool), map snd (positions_p deep c cut g) = positions deep c cut g.
Proof. exact positions_p_erase. Qed.
Print Assumptions C13_positions_erase.
Theorem C13_embedded_paths_docs :
  forall (deep : bool) (c : cfg) (g : gvalue), map snd (embedded_p deep c g) = embedded deep c g.
Proof. exact embedded_p_docs. Qed.
Print Assumptions C13_embedded_paths_docs.

(* ORDER: documents come in document order -- what a list of properties / a plain object / an array yields is the
   concatenation, member by member, of what the members yield *)
Theorem C13_order_properties :
  forall (c : cfg) (p1 p2 : list (str * gvalue)), resource_docs c (p1 ++ p2) = resource_docs c p1 ++ resource_docs c p2.
Proof. exact resource_docs_app. Qed.
Print Assumptions C13_order_properties.
Theorem C13_order_object :
  forall (c : cfg) (d : list (str * gvalue)) (r : option recog),
    choose c (GDict d r) = CNone -> collect (cast c (GDict d r)) = resource_docs c d.
Proof. exact collect_object_members. Qed.
Print Assumptions C13_order_object.
Theorem C13_order_object_app :
  forall (c : cfg) (m1 m2 : list (str * gvalue)) (r : option recog),
    choose c (GDict (m1 ++ m2) r) = CNone ->
    collect (cast c (GDict (m1 ++ m2) r)) = resource_docs c m1 ++ resource_docs c m2.
Proof. exact collect_object_app. Qed.
Print Assumptions C13_order_object_app.
Theorem C13_order_generic_app :
  forall m1 m2 : list (str * tval), collect (TGeneric (m1 ++ m2)) = collect (TGeneric m1) ++ collect (TGeneric m2).
Proof. exact collect_generic_app. Qed.
Print Assumptions C13_order_generic_app.
Theorem C13_order_tlist_app :
  forall l1 l2 : list tval, collect (TList (l1 ++ l2)) = collect (TList l1) ++ collect (TList l2).
Proof. exact collect_tlist_app. Qed.
Print Assumptions C13_order_tlist_app.
(* arrays: a typed array holds no document, any other array yields what its members yield, in order ... *)
Theorem C13_order_list :
  forall (c : cfg) (l : list gvalue),
    collect (cast c (GList l)) = if accepted c (GList l) then [] else list_docs c l.
Proof. exact collect_list. Qed.
Print Assumptions C13_order_list.
(* ... unconditionally so when text that encodes a container is not also read as a boolean / number / date / network *)
Theorem C13_order_list_members :
  forall (c : cfg) (l : list gvalue),
    forallb container_text_coherent l = true -> collect (cast c (GList l)) = list_docs c l.
Proof. exact collect_list_members. Qed.
Print Assumptions C13_order_list_members.
Theorem C13_order_list_app :
  forall (c : cfg) (l1 l2 : list gvalue),
    forallb container_text_coherent (l1 ++ l2) = true ->
    collect (cast c (GList (l1 ++ l2))) = collect (cast c (GList l1)) ++ collect (cast c (GList l2)).
Proof. exact collect_list_app. Qed.
Print Assumptions C13_order_list_app.

(* ORDER on paths: positions are enumerated, and documents therefore collected, in DOCUMENT ORDER (a node before its members,
   members in the order written): the paths are strictly increasing in the pre-order [path_lt], a strict order *)
Theorem C13_positions_in_document_order :
  forall (deep : bool) (c : cfg) (g : gvalue) (cut : bool),
    Sorted.StronglySorted path_lt (map fst (positions_p deep c cut g)).
Proof. exact positions_p_sorted. Qed.
Print Assumptions C13_positions_in_document_order.
Theorem C13_collected_in_document_order :
  forall (c : cfg) (g : gvalue),
  exists ps : list (path * pdoc),
    map snd ps = collect (cast c g) /\ Sorted.StronglySorted path_lt (map fst ps) /\
    forall p d, In (p, d) ps -> exists x r, gat g p = Some x /\ node_choice c x = CProp r /\ In d (yields r).
Proof. exact collected_in_document_order. Qed.
Print Assumptions C13_collected_in_document_order.
Theorem C13_path_lt_irrefl : forall p : path, ~ path_lt p p.
Proof. exact path_lt_irrefl. Qed.
Print Assumptions C13_path_lt_irrefl.
Theorem C13_path_lt_trans : forall p q r : path, path_lt p q -> path_lt q r -> path_lt p r.
Proof. exact path_lt_trans. Qed.
Print Assumptions C13_path_lt_trans.

(* LOCALITY: what one property yields depends on that property's value only -- not on the other properties, not on any key,
   and (Python iterates a set of field names) the order of the properties only permutes the result *)
Theorem C13_locality :
  forall (c : cfg) (p1 : list (str * gvalue)) (k : str) (v : gvalue) (p2 : list (str * gvalue)),
    resource_docs c (p1 ++ (k, v) :: p2) = resource_docs c p1 ++ collect (cast c v) ++ resource_docs c p2.
Proof. exact resource_docs_middle. Qed.
Print Assumptions C13_locality.
Theorem C13_keys_irrelevant :
  forall (c : cfg) (p p' : list (str * gvalue)), map snd p = map snd p' -> resource_docs c p = resource_docs c p'.
Proof. exact resource_docs_keys_irrelevant. Qed.
Print Assumptions C13_keys_irrelevant.
Theorem C13_property_order :
  forall (c : cfg) (p p' : list (str * gvalue)), Permutation p p' -> Permutation (resource_docs c p) (resource_docs c p').
Proof. exact resource_docs_perm. Qed.
Print Assumptions C13_property_order.

(* NESTING: a node the union recognises as a property model is a LEAF of the search -- it yields its own document (or
   nothing) whatever its members hold; an object the recogniser rejects is searched member by member *)
Theorem C13_recognised_is_leaf :
  forall (c : cfg) (d : list (str * gvalue)) (r : option recog) (r' : recog),
    choose c (GDict d r) = CProp r' -> collect (cast c (GDict d r)) = yields r'.
Proof. exact recognised_is_leaf. Qed.
Print Assumptions C13_recognised_is_leaf.
Theorem C13_recognised_json_is_leaf :
  forall (c : cfg) (s : str) (j : gvalue) (a : sann) (r' : recog),
    choose c j = CProp r' -> collect (cast c (GStr s (Some j) a)) = yields r'.
Proof. exact recognised_json_is_leaf. Qed.
Print Assumptions C13_recognised_json_is_leaf.
Theorem C13_recognised_members_irrelevant :
  forall (c : cfg) (d d' : list (str * gvalue)) (r : option recog),
    map fst d = map fst d' -> is_cnone (choose c (GDict d r)) = false -> fnb c (GDict d r) = false ->
    collect (cast c (GDict d r)) = collect (cast c (GDict d' r)).
Proof. exact recognised_members_irrelevant. Qed.
Print Assumptions C13_recognised_members_irrelevant.
Theorem C13_lookalike_is_searched :
  forall (c : cfg) (d : list (str * gvalue)), fnb c (GDict d None) = false -> collect (cast c (GDict d None)) = resource_docs c d.
Proof. exact lookalike_is_searched. Qed.
Print Assumptions C13_lookalike_is_searched.

(* ---- non-vacuity and witnesses ---- *)
From Coq Require Import String.
Local Open Scope string_scope.
Example C13_ex_found :
  forallb (fun kv => hidden_free SPEC (snd kv)) props_found = true
  /\ resource_docs SPEC props_found =
     [(None, stmts "s1"); (None, stmts "s2"); (None, stmts_c "s3" "{""Bool"": {""aws:SecureTransport"": true}}");
      (None, stmts "s4"); (Some (s "n1"), stmts "s5")]
  /\ resource_conditions SPEC props_found = [VStr (s "{""Bool"": {""aws:SecureTransport"": true}}")].
Proof. vm_compute. repeat split; reflexivity. Qed.
(* known finding F16 (not repaired): the property's reading finds the document, the code does not *)
Example C13_json_nested_refuted :
  exists props, resource_embedded true ORIG props <> resource_docs ORIG props.
Proof. exists props_hidden. vm_compute. discriminate. Qed.
Example C13_json_nested_witnesses :
  resource_docs ORIG props_hidden = [] /\ resource_embedded true ORIG props_hidden = [(None, stmts "s9")]
  /\ resource_docs SPEC props_hidden_list = [] /\ resource_embedded true SPEC props_hidden_list = [(None, stmts "s7")]
  /\ forallb (fun kv => hidden_free SPEC (snd kv)) props_hidden = false.
Proof. vm_compute. repeat split; reflexivity. Qed.
Example C13_ex_role_dedicated :
  exists r, find_row (s "AWS::IAM::Role") = Some r
  /\ typed_docs SPEC r [(s "AssumeRolePolicyDocument", doc_node "trust"); (s "Policies", GList [policy_node "p" "s1"])]
     = [(Some (s "p"), stmts "s1")]
  /\ dedicated_docs r [(s "AssumeRolePolicyDocument", doc_node "trust"); (s "Policies", GList [policy_node "p" "s1"])]
     = [(None, stmts "trust")].
Proof. eexists. vm_compute. repeat split; reflexivity. Qed.

(* ---- Typed/CollectFacts.v: non-vacuity ---- *)
(* five documents at five distinct paths: $.A, $.B[0], $.B[1][0], $.C.D.E (JSON text), $.P[0]; 35 positions in all *)
Example C13_ex_count :
  map (fun kv => count_pd_positions false SPEC (snd kv)) props_found = [1; 2; 1; 1; 0; 0]%nat
  /\ List.length (resource_docs SPEC props_found) = 5%nat
  /\ List.length (positions false SPEC false (GDict props_found None)) = 35%nat
  /\ forallb (fun kv => hidden_free SPEC (snd kv)) props_found = true.
Proof. vm_compute. repeat split; reflexivity. Qed.
Example C13_ex_paths :
  map fst (embedded_p false SPEC (GDict props_found None)) =
  [[Mem 0 (s "A")]; [Mem 1 (s "B"); Idx 0]; [Mem 1 (s "B"); Idx 1; Idx 0]; [Mem 2 (s "C"); Mem 0 (s "D"); Mem 0 (s "E")];
   [Mem 3 (s "P"); Idx 0]]
  /\ map snd (embedded_p false SPEC (GDict props_found None)) = resource_docs SPEC props_found.
Proof. vm_compute. split; reflexivity. Qed.
Example C13_ex_document_order :
  path_lt [Mem 0 (s "A")] [Mem 1 (s "B"); Idx 0] /\ path_lt [Mem 1 (s "B"); Idx 0] [Mem 1 (s "B"); Idx 1; Idx 0]
  /\ path_lt [Mem 1 (s "B")] [Mem 1 (s "B"); Idx 0] /\ path_ltb [Mem 1 (s "B"); Idx 1; Idx 0] [Mem 1 (s "B"); Idx 0] = false.
Proof. vm_compute. repeat split; reflexivity. Qed.
(* F16 as a count: the property's reading counts one position, the code finds none *)
Example C13_ex_count_hidden :
  map (fun kv => count_pd_positions true SPEC (snd kv)) props_hidden = [1]%nat
  /\ map (fun kv => count_pd_positions false SPEC (snd kv)) props_hidden = [0]%nat
  /\ List.length (resource_docs SPEC props_hidden) = 0%nat.
Proof. vm_compute. repeat split; reflexivity. Qed.
(* hypotheses of the order / locality theorems *)
Example C13_ex_order_hyps :
  choose SPEC (GDict props_found None) = CNone
  /\ forallb container_text_coherent (map snd props_found) = true
  /\ accepted SPEC (GList [g_int_1; g_int_1]) = true /\ accepted SPEC (GList (map snd props_found)) = false
  /\ collect (cast SPEC (GList (map snd props_found))) = resource_docs SPEC props_found.
Proof. vm_compute. repeat split; reflexivity. Qed.
Example C13_ex_keys_perm :
  resource_docs SPEC [(s "X", doc_node "s1"); (s "Y", GList [doc_node "s2"])]
  = resource_docs SPEC [(s "Q", doc_node "s1"); (s "Q", GList [doc_node "s2"])]
  /\ Permutation [(s "X", doc_node "s1"); (s "Y", GList [doc_node "s2"])] [(s "Y", GList [doc_node "s2"]); (s "X", doc_node "s1")]
  /\ resource_docs SPEC [(s "Y", GList [doc_node "s2"]); (s "X", doc_node "s1")] = [(None, stmts "s2"); (None, stmts "s1")].
Proof. split; [vm_compute; reflexivity|]. split; [apply perm_swap|vm_compute; reflexivity]. Qed.

(* NESTING, as the code does it (each replayed on pycfmodel):
   a document under an extra key of a recognised document is NOT collected, the outer one is, once;
   a named wrapper yields its document once, under its name -- the PolicyDocument member is not reported a second time;
   a "document" whose statement carries a Condition value the schema rejects (here: an object, itself a document) is not a
   document for pydantic: it is searched like any object, the inner document is collected and the look-alike is not *)
Example C13_ex_nested :
  choose SPEC doc_with_extra = CProp {| r_kind := PkPolicyDocument; r_dump := s "doc outer"; r_name := None; r_doc := stmts "outer" |}
  /\ resource_docs SPEC [(s "A", doc_with_extra)] = [(None, stmts "outer")]
  /\ count_pd_positions false SPEC doc_with_extra = 1%nat
  /\ resource_docs SPEC [(s "A", policy_node "n" "s1")] = [(Some (s "n"), stmts "s1")]
  /\ count_pd_positions false SPEC (policy_node "n" "s1") = 1%nat
  /\ fnb SPEC doc_lookalike = false
  /\ resource_docs SPEC [(s "A", doc_lookalike)] = [(None, stmts "inner")]
  /\ map fst (embedded_p false SPEC doc_lookalike) = [[Mem 0 (s "Statement"); Idx 0; Mem 2 (s "Condition"); Mem 0 (s "StringEquals"); Mem 0 (s "aws:x")]].
Proof. vm_compute. repeat split; reflexivity. Qed.
