(* Theorems about the IPv6 text model (Net/IPv6.v). *)
From Coq Require Import List Bool NArith ZArith Lia.
From PV Require Import Base.Str Base.Value Net.Arith Net.NetText Net.IPv4 Net.IPv4Thm Net.IPv6.
Import ListNotations.
Local Open Scope N_scope.

Definition B16 : N := 65536.

(* ------------------------------------------------------------------------------------------------ *)
(* bounds: every accepted address is below 2^128 *)

Lemma hexdig_bound c d : hexdig c = Some d -> d < 16.
Proof.
  unfold hexdig.
  destruct ((48 <=? c) && (c <=? 57)) eqn:E1.
  { apply andb_true_iff in E1. rewrite !N.leb_le in E1. intros H. apply some_inj in H. lia. }
  destruct ((97 <=? c) && (c <=? 102)) eqn:E2.
  { apply andb_true_iff in E2. rewrite !N.leb_le in E2. intros H. apply some_inj in H. lia. }
  destruct ((65 <=? c) && (c <=? 70)) eqn:E3; [|discriminate].
  apply andb_true_iff in E3. rewrite !N.leb_le in E3. intros H. apply some_inj in H. lia.
Qed.

Lemma hex_go_bound s : forall acc v, hex_go acc s = Some v -> v < (acc + 1) * 16 ^ N.of_nat (length s).
Proof.
  induction s as [|c s IH]; intros acc v H.
  - cbn [hex_go] in H. apply some_inj in H. subst. cbn [length]. change (16 ^ N.of_nat 0) with 1. lia.
  - cbn [hex_go] in H. destruct (hexdig c) as [d|] eqn:Ed; [|discriminate]. apply hexdig_bound in Ed.
    apply IH in H. cbn [length]. rewrite Nat2N.inj_succ, N.pow_succ_r'.
    set (P := 16 ^ N.of_nat (length s)) in *.
    assert (L : (16 * acc + d + 1) * P <= (16 * acc + 16) * P) by (apply N.mul_le_mono_r; lia).
    lia.
Qed.

Lemma parse_hextet_bound s v : parse_hextet s = Some v -> v < B16.
Proof.
  unfold parse_hextet. destruct s as [|c s']; [discriminate|]. set (s := c :: s').
  destruct (Nat.leb (length s) 4) eqn:E; [|discriminate]. apply Nat.leb_le in E. intros H. apply hex_go_bound in H.
  assert (L : 16 ^ N.of_nat (length s) <= 16 ^ 4) by (apply N.pow_le_mono_r; lia).
  change (16 ^ 4) with 65536 in L. unfold B16. lia.
Qed.

Lemma groups_of_one v4 p : groups_of v4 [p] =
  if has_ch DOT p then
    if v4 then match parse_addr4 p with Some a => Some [a / 65536; a mod 65536] | None => None end else None
  else match parse_hextet p with Some v => Some [v] | None => None end.
Proof. reflexivity. Qed.
Lemma groups_of_cons v4 p q qs : groups_of v4 (p :: q :: qs) =
  match parse_hextet p, groups_of v4 (q :: qs) with Some v, Some vs => Some (v :: vs) | _, _ => None end.
Proof. reflexivity. Qed.

Lemma groups_of_bound v4 parts : forall gs, groups_of v4 parts = Some gs -> Forall (fun v => v < B16) gs.
Proof.
  induction parts as [|p ps IH]; intros gs H.
  - cbn [groups_of] in H. apply some_inj in H. subst. constructor.
  - destruct ps as [|q qs].
    + rewrite groups_of_one in H. destruct (has_ch DOT p).
      * destruct v4; [|discriminate]. destruct (parse_addr4 p) as [a|] eqn:Ea; [|discriminate].
        apply some_inj in H. subst gs. apply parse_addr4_spec in Ea. apply dotted_quad_bound in Ea.
        change (2 ^ 32) with 4294967296 in Ea. unfold B16.
        repeat constructor; [apply N.div_lt_upper_bound; lia | apply N.mod_lt; lia].
      * destruct (parse_hextet p) as [v|] eqn:Eh; [|discriminate]. apply some_inj in H. subst gs.
        repeat constructor. eapply parse_hextet_bound. exact Eh.
    + rewrite groups_of_cons in H. destruct (parse_hextet p) as [v|] eqn:Eh; [|discriminate].
      destruct (groups_of v4 (q :: qs)) as [vs|] eqn:Eg; [|discriminate]. apply some_inj in H. subst gs.
      constructor; [eapply parse_hextet_bound; exact Eh | apply IH; reflexivity].
Qed.
Lemma side_groups_bound v4 t gs : side_groups v4 t = Some gs -> Forall (fun v => v < B16) gs.
Proof.
  unfold side_groups. destruct t; [intros H; apply some_inj in H; subst; constructor | apply groups_of_bound].
Qed.

Lemma fold_groups_bound gs : forall acc, Forall (fun v => v < B16) gs ->
  fold_left (fun a v => a * 65536 + v) gs acc < (acc + 1) * B16 ^ N.of_nat (length gs).
Proof.
  induction gs as [|v gs IH]; intros acc HF.
  - cbn [fold_left length]. change (B16 ^ N.of_nat 0) with 1. lia.
  - inversion HF as [|? ? Hv HF']; subst. cbn [fold_left length]. specialize (IH (acc * 65536 + v) HF').
    rewrite Nat2N.inj_succ, N.pow_succ_r'. set (P := B16 ^ N.of_nat (length gs)) in *. unfold B16 in *.
    assert (L : (acc * 65536 + v + 1) * P <= (acc * 65536 + 65536) * P) by (apply N.mul_le_mono_r; lia).
    lia.
Qed.
Lemma addr_of_groups_bound gs : length gs = 8%nat -> Forall (fun v => v < B16) gs -> addr_of_groups gs < 2 ^ 128.
Proof.
  intros HL HF. unfold addr_of_groups. pose proof (fold_groups_bound gs 0 HF) as H. rewrite HL in H.
  change ((0 + 1) * B16 ^ N.of_nat 8) with (2 ^ 128) in H. exact H.
Qed.

Lemma parse_addr6_bound s x : parse_addr6 s = Some x -> x < 2 ^ 128.
Proof.
  unfold parse_addr6. destruct (cut_dcolon s) as [[l r]|].
  - destruct (side_groups false l) as [hi|] eqn:Eh; [|discriminate].
    destruct (side_groups true r) as [lo|] eqn:El; [|discriminate].
    destruct (Nat.leb (length hi + length lo) 7) eqn:E; [|discriminate]. apply Nat.leb_le in E.
    intros H. apply some_inj in H. subst x. apply addr_of_groups_bound.
    + rewrite !app_length, repeat_length. lia.
    + apply side_groups_bound in Eh. apply side_groups_bound in El.
      apply Forall_app. split; [exact Eh|]. apply Forall_app. split; [|exact El].
      apply Forall_forall. intros v Hv. apply repeat_spec in Hv. subst. unfold B16. lia.
  - destruct (side_groups true s) as [gs|] eqn:Eg; [|discriminate].
    destruct (Nat.eqb (length gs) 8) eqn:E; [|discriminate]. apply Nat.eqb_eq in E.
    intros H. apply some_inj in H. subst x. apply addr_of_groups_bound; [exact E | eapply side_groups_bound; exact Eg].
Qed.

Lemma written6_bounds s x l : written6 s = Some (x, l) -> x < 2 ^ 128 /\ l <= 128.
Proof.
  unfold written6. destruct (split_ch SLASH s) as [|a [|m [|p ps]]]; try discriminate.
  - destruct (parse_addr6 a) as [y|] eqn:Ea; [|discriminate]. intros H. apply some_inj in H.
    apply pair_equal_spec in H. destruct H as [-> <-]. split; [eapply parse_addr6_bound; exact Ea | lia].
  - destruct (parse_addr6 a) as [y|] eqn:Ea; [|discriminate]. destruct (parse_plen 128 m) as [k|] eqn:Em; [|discriminate].
    intros H. apply some_inj in H. apply pair_equal_spec in H. destruct H as [-> ->].
    split; [eapply parse_addr6_bound; exact Ea | apply parse_plen_spec in Em; apply Em].
Qed.

Lemma parse6_ok s n : parse6 s = Ok n <-> ~ In PERCENT s /\ exists x l, written6 s = Some (x, l) /\ n = mk_net W6 x l.
Proof.
  unfold parse6. destruct (has_ch PERCENT s) eqn:Ep.
  - split; [discriminate|]. intros [H _]. apply has_ch_In in Ep. contradiction.
  - apply has_ch_false in Ep. destruct (written6 s) as [[x l]|].
    + split.
      * intros H. inversion H; subst. split; [exact Ep | exists x, l; split; reflexivity].
      * intros (_ & y & k & E & ->). apply some_inj in E. apply pair_equal_spec in E. destruct E as [-> ->]. reflexivity.
    + split; [discriminate | intros (_ & y & k & E & _); discriminate].
Qed.

Theorem parse6_wf s n : parse6 s = Ok n -> wf W6 n.
Proof.
  intros H. apply parse6_ok in H. destruct H as (_ & x & l & E & ->). apply written6_bounds in E.
  apply mk_net_wf; apply E.
Qed.
Theorem parse6_masked s n : parse6 s = Ok n -> fst n mod 2 ^ (128 - snd n) = 0.
Proof. intros H. apply parse6_ok in H. destruct H as (_ & x & l & _ & ->). cbn [snd]. apply (mk_net_masked W6). Qed.
Theorem parse6_denotes s n : parse6 s = Ok n ->
  exists x l, written6 s = Some (x, l) /\ snd n = l /\ forall y, in_net W6 y n <-> same_prefix W6 l y x.
Proof.
  intros H. apply parse6_ok in H. destruct H as (_ & x & l & E & ->). exists x, l.
  split; [exact E | split; [reflexivity | intros y; apply mk_net_denotes]].
Qed.
(* host bits do not matter: same written length and same first l bits -> same stored network *)
Theorem parse6_same_range s1 s2 x1 x2 l : ~ In PERCENT s1 -> ~ In PERCENT s2 ->
  written6 s1 = Some (x1, l) -> written6 s2 = Some (x2, l) -> same_prefix W6 l x1 x2 -> parse6 s1 = parse6 s2.
Proof.
  intros P1 P2 H1 H2 Hp. unfold parse6. apply has_ch_false in P1. apply has_ch_false in P2. rewrite P1, P2, H1, H2.
  f_equal. apply mk_net_same_prefix. exact Hp.
Qed.

(* ------------------------------------------------------------------------------------------------ *)
(* the uncompressed printer parses back *)

Lemma hexchar_check : forallb (fun d => match hexdig (hexchar d) with Some e => e =? d | None => false end) (range 16) = true.
Proof. vm_compute. reflexivity. Qed.
Lemma hexdig_hexchar d : d < 16 -> hexdig (hexchar d) = Some d.
Proof.
  intros H. pose proof (forall_below _ 16 hexchar_check d H) as C. cbv beta in C.
  destruct (hexdig (hexchar d)); [apply N.eqb_eq in C; subst; reflexivity | discriminate].
Qed.
Lemma hexchar_range d : d < 16 -> 48 <= hexchar d <= 57 \/ 97 <= hexchar d <= 102.
Proof. intros H. unfold hexchar. destruct (N.ltb_spec d 10); lia. Qed.

Lemma hex4_digits v : v < B16 ->
  v / 4096 < 16 /\ v = ((v / 4096 * 16 + (v / 256) mod 16) * 16 + (v / 16) mod 16) * 16 + v mod 16.
Proof.
  unfold B16. intros Hv.
  assert (E1 : v / 256 = v / 16 / 16) by (rewrite N.div_div by lia; reflexivity).
  assert (E2 : v / 4096 = v / 16 / 16 / 16) by (rewrite !N.div_div by lia; reflexivity).
  pose proof (N.div_mod v 16) as D1. pose proof (N.div_mod (v / 16) 16) as D2. pose proof (N.div_mod (v / 16 / 16) 16) as D3.
  assert (H1 : v / 4096 < 16) by (apply N.div_lt_upper_bound; lia).
  split; [exact H1|]. rewrite E1, E2 in *. lia.
Qed.

Lemma parse_hextet_hex4 v : v < B16 -> parse_hextet (hex4 v) = Some v.
Proof.
  intros Hv. destruct (hex4_digits v Hv) as [H1 H2]. unfold parse_hextet, hex4. cbn [length Nat.leb hex_go].
  rewrite !hexdig_hexchar by (try exact H1; apply N.mod_lt; lia). f_equal. lia.
Qed.
Lemma hex4_no c v : v < B16 -> ~ (48 <= c <= 57) -> ~ (97 <= c <= 102) -> ~ In c (hex4 v).
Proof.
  intros Hv N1 N2. destruct (hex4_digits v Hv) as [H1 _]. unfold hex4. cbn [In].
  intros [E|[E|[E|[E|[]]]]]; subst c;
    match type of N1 with context [hexchar ?d] => assert (R : d < 16) by (try exact H1; apply N.mod_lt; lia); apply hexchar_range in R; lia end.
Qed.
Lemma hex4_nonnil v : hex4 v <> []. Proof. discriminate. Qed.

Lemma groups_of_hex4 v4 gs : gs <> [] -> Forall (fun v => v < B16) gs -> groups_of v4 (map hex4 gs) = Some gs.
Proof.
  induction gs as [|v gs IH]; [congruence|]. intros _ HF. inversion HF as [|? ? Hv HF']; subst.
  destruct gs as [|w gs'].
  - cbn [map]. rewrite groups_of_one.
    assert (E : has_ch DOT (hex4 v) = false) by (apply has_ch_false; apply hex4_no; [exact Hv | unfold DOT; lia | unfold DOT; lia]).
    rewrite E, parse_hextet_hex4 by exact Hv. reflexivity.
  - cbn [map]. rewrite groups_of_cons. rewrite parse_hextet_hex4 by exact Hv.
    change (hex4 w :: map hex4 gs') with (map hex4 (w :: gs')). rewrite IH; [reflexivity | discriminate | exact HF'].
Qed.

Lemma cut_dcolon_cons2 c d r : cut_dcolon (c :: d :: r) =
  if (c =? COLON) && (d =? COLON) then Some ([], r)
  else match cut_dcolon (d :: r) with Some (l, r') => Some (c :: l, r') | None => None end.
Proof. reflexivity. Qed.
Lemma cut_dcolon_skip c t : c <> COLON -> cut_dcolon t = None -> cut_dcolon (c :: t) = None.
Proof.
  intros Hc Ht. destruct t as [|d r]; [reflexivity|]. rewrite cut_dcolon_cons2.
  apply N.eqb_neq in Hc. rewrite Hc, Ht. reflexivity.
Qed.
Lemma cut_dcolon_colon d r : d <> COLON -> cut_dcolon (d :: r) = None -> cut_dcolon (COLON :: d :: r) = None.
Proof.
  intros Hd Ht. rewrite cut_dcolon_cons2. apply N.eqb_neq in Hd. rewrite Hd, Ht, andb_false_r. reflexivity.
Qed.
Lemma cut_dcolon_app p t : ~ In COLON p -> cut_dcolon t = None -> cut_dcolon (p ++ t) = None.
Proof.
  induction p as [|c p IH]; intros Hp Ht; [exact Ht|]. cbn [app]. apply cut_dcolon_skip.
  - intros E. apply Hp. left. exact E.
  - apply IH; [intros F; apply Hp; right; exact F | exact Ht].
Qed.

(* groups that are non-empty and colon-free, joined by single colons, contain no "::" *)
Lemma cut_dcolon_join parts : parts <> [] -> Forall (fun p => p <> [] /\ ~ In COLON p) parts ->
  cut_dcolon (join [COLON] parts) = None /\ exists d r, join [COLON] parts = d :: r /\ d <> COLON.
Proof.
  induction parts as [|p ps IH]; [congruence|]. intros _ HF. inversion HF as [|? ? [Hne Hnc] HF']; subst.
  assert (Hhead : forall t, exists d r, p ++ t = d :: r /\ d <> COLON).
  { intros t. destruct p as [|d p']; [congruence|]. exists d, (p' ++ t). split; [reflexivity|].
    intros E. apply Hnc. left. exact E. }
  destruct ps as [|q ps'].
  - cbn [join]. split.
    + rewrite <- (app_nil_r p). apply cut_dcolon_app; [exact Hnc | reflexivity].
    + destruct (Hhead []) as (d & r & E & Hd). rewrite app_nil_r in E. exists d, r. split; assumption.
  - change (join [COLON] (p :: q :: ps')) with (p ++ [COLON] ++ join [COLON] (q :: ps')).
    destruct (IH ltac:(discriminate) HF') as (Hcut & d & r & Ej & Hd).
    split; [|apply Hhead]. apply cut_dcolon_app; [exact Hnc|]. cbn [app]. rewrite Ej.
    apply cut_dcolon_colon; [exact Hd | rewrite <- Ej; exact Hcut].
Qed.

Lemma in_join c d parts : In c (join [d] parts) -> c = d \/ exists p, In p parts /\ In c p.
Proof.
  induction parts as [|p ps IH]; [intros []|]. destruct ps as [|q ps'].
  - cbn [join]. intros H. right. exists p. split; [left; reflexivity | exact H].
  - change (join [d] (p :: q :: ps')) with (p ++ [d] ++ join [d] (q :: ps')). intros H.
    apply in_app_or in H. destruct H as [H|H]; [right; exists p; split; [left; reflexivity | exact H]|].
    cbn [app] in H. destruct H as [H|H]; [left; symmetry; exact H|].
    destruct (IH H) as [E|(p' & Hp & Hc)]; [left; exact E | right; exists p'; split; [right; exact Hp | exact Hc]].
Qed.

Lemma groups6_value a : a < 2 ^ 128 -> Forall (fun v => v < B16) (groups6 a) /\ addr_of_groups (groups6 a) = a.
Proof.
  intros Ha. unfold groups6, addr_of_groups, B16. cbn [fold_left].
  set (q1 := a / 65536). set (q2 := q1 / 65536). set (q3 := q2 / 65536). set (q4 := q3 / 65536).
  set (q5 := q4 / 65536). set (q6 := q5 / 65536). set (q7 := q6 / 65536).
  assert (E2 : a / 65536 ^ 2 = q2) by (unfold q2, q1; rewrite N.div_div by lia; reflexivity).
  assert (E3 : a / 65536 ^ 3 = q3) by (unfold q3, q2, q1; rewrite !N.div_div by lia; reflexivity).
  assert (E4 : a / 65536 ^ 4 = q4) by (unfold q4, q3, q2, q1; rewrite !N.div_div by lia; reflexivity).
  assert (E5 : a / 65536 ^ 5 = q5) by (unfold q5, q4, q3, q2, q1; rewrite !N.div_div by lia; reflexivity).
  assert (E6 : a / 65536 ^ 6 = q6) by (unfold q6, q5, q4, q3, q2, q1; rewrite !N.div_div by lia; reflexivity).
  assert (E7 : a / 65536 ^ 7 = q7) by (unfold q7, q6, q5, q4, q3, q2, q1; rewrite !N.div_div by lia; reflexivity).
  assert (H7 : q7 < 65536).
  { rewrite <- E7. apply N.div_lt_upper_bound; [discriminate|]. change (65536 ^ 7 * 65536) with (2 ^ 128). exact Ha. }
  rewrite E2, E3, E4, E5, E6, E7. fold q1.
  pose proof (N.div_mod a 65536) as D0. pose proof (N.div_mod q1 65536) as D1. pose proof (N.div_mod q2 65536) as D2.
  pose proof (N.div_mod q3 65536) as D3. pose proof (N.div_mod q4 65536) as D4. pose proof (N.div_mod q5 65536) as D5.
  pose proof (N.div_mod q6 65536) as D6. fold q1 in D0. fold q2 in D1. fold q3 in D2. fold q4 in D3. fold q5 in D4.
  fold q6 in D5. fold q7 in D6.
  split.
  - repeat constructor; try exact H7; apply N.mod_lt; discriminate.
  - lia.
Qed.

Lemma print_addr6_full_no c a : a < 2 ^ 128 -> c <> COLON -> ~ (48 <= c <= 57) -> ~ (97 <= c <= 102) -> ~ In c (print_addr6_full a).
Proof.
  intros Ha Hc N1 N2 Hin. unfold print_addr6_full in Hin. apply in_join in Hin. destruct Hin as [E|(p & Hp & Hin)]; [congruence|].
  apply in_map_iff in Hp. destruct Hp as (v & <- & Hv). destruct (groups6_value a Ha) as [HF _].
  rewrite Forall_forall in HF. specialize (HF v Hv). exact (hex4_no c v HF N1 N2 Hin).
Qed.

Theorem parse_addr6_print a : a < 2 ^ 128 -> parse_addr6 (print_addr6_full a) = Some a.
Proof.
  intros Ha. destruct (groups6_value a Ha) as [HF Hval].
  assert (HP : Forall (fun p => p <> [] /\ ~ In COLON p) (map hex4 (groups6 a))).
  { apply Forall_forall. intros p Hp. apply in_map_iff in Hp. destruct Hp as (v & <- & Hv).
    rewrite Forall_forall in HF. split; [apply hex4_nonnil | apply hex4_no; [apply HF; exact Hv | unfold COLON; lia | unfold COLON; lia]]. }
  assert (Hne : map hex4 (groups6 a) <> []) by discriminate.
  destruct (cut_dcolon_join _ Hne HP) as (Hcut & d & r & Ej & _).
  unfold parse_addr6, print_addr6_full. rewrite Hcut. unfold side_groups. rewrite Ej. rewrite <- Ej.
  rewrite split_ch_join; [| exact Hne | eapply Forall_impl; [|exact HP]; intros p [_ H]; exact H].
  rewrite groups_of_hex4; [| discriminate | exact HF].
  cbn [groups6 length Nat.eqb]. f_equal. exact Hval.
Qed.

Theorem parse6_print6_full n : wf W6 n -> parse6 (print6_full n) = Ok n.
Proof.
  destruct n as [a l]. intros (Hl & Ha & Hm). unfold W6 in *. apply parse6_ok. unfold print6_full. cbn [fst snd].
  assert (NS : ~ In SLASH (print_addr6_full a)) by (apply print_addr6_full_no; [exact Ha | discriminate | unfold SLASH; lia | unfold SLASH; lia]).
  split.
  - intros Hin. apply in_app_or in Hin. destruct Hin as [Hin|[E|Hin]].
    + revert Hin. apply print_addr6_full_no; [exact Ha | discriminate | unfold PERCENT; lia | unfold PERCENT; lia].
    + discriminate.
    + revert Hin. apply print_small_no; [lia | unfold PERCENT; lia].
  - exists a, l. split.
    + unfold written6. rewrite split_ch_app by exact NS. rewrite split_ch_none by (apply print_small_no_slash; lia).
      rewrite parse_addr6_print by exact Ha.
      assert (E : parse_plen 128 (print_small l) = Some l) by (apply parse_plen_spec; split; [apply print_small_dec; lia | exact Hl]).
      rewrite E. reflexivity.
    + symmetry. apply mk_net_of_wf. repeat split; assumption.
Qed.

Theorem parse6_reparse s n : parse6 s = Ok n -> parse6 (print6_full n) = Ok n.
Proof. intros H. apply parse6_print6_full. eapply parse6_wf. exact H. Qed.
