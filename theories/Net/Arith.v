(* Networks as (address, prefix length) over a W-bit address space, arithmetic model (port of notes/probes/NetProbe.v
   to N).  IPv4 is the instance W = 32, IPv6 the instance W = 128: every theorem below is proved once for every width. *)
From Coq Require Import NArith Lia Bool List.
Import ListNotations.
Local Open Scope N_scope.

Definition net := (N * N)%type.          (* (network address, prefix length) *)
Definition net_eqb (n m : net) : bool := (fst n =? fst m) && (snd n =? snd m).
Lemma net_eqb_eq n m : net_eqb n m = true <-> n = m.
Proof.
  destruct n as [a l], m as [b k]. unfold net_eqb. cbn [fst snd]. rewrite andb_true_iff, !N.eqb_eq.
  split; [intros [-> ->]; reflexivity | intros H; inversion H; auto].
Qed.

Section Net.
Variable W : N.

Definition blk (l : N) : N := 2 ^ (W - l).                          (* number of addresses of a /l network *)
Definition mk_net (x l : N) : net := ((x / blk l) * blk l, l).      (* host bits masked off *)
Definition wf (n : net) : Prop := let '(a, l) := n in l <= W /\ a < 2 ^ W /\ a mod blk l = 0.
Definition wfb (n : net) : bool := let '(a, l) := n in (l <=? W) && (a <? 2 ^ W) && (a mod blk l =? 0).
Definition in_net (x : N) (n : net) : Prop := let '(a, l) := n in a <= x < a + blk l.
Definition in_netb (x : N) (n : net) : bool := let '(a, l) := n in (a <=? x) && (x <? a + blk l).
Definition slash_zero (n : net) : bool := let '(a, l) := n in (a =? 0) && (l =? 0).
(* Python's subnet_of: first and last address of n lie within m *)
Definition subnet_of (n m : net) : bool :=
  let '(a, l) := n in let '(b, k) := m in (b <=? a) && (a + blk l <=? b + blk k).
(* two addresses agree on their first l bits (the bits numbered W-1 down to W-l) *)
Definition same_prefix (l x y : N) : Prop := x / blk l = y / blk l.

Lemma wfb_wf n : wfb n = true <-> wf n.
Proof.
  destruct n as [a l]. unfold wfb, wf. rewrite !andb_true_iff, N.leb_le, N.ltb_lt, N.eqb_eq. tauto.
Qed.
Lemma in_netb_in x n : in_netb x n = true <-> in_net x n.
Proof. destruct n as [a l]. unfold in_netb, in_net. rewrite andb_true_iff, N.leb_le, N.ltb_lt. tauto. Qed.

Lemma blk_pos l : 0 < blk l.
Proof. unfold blk. apply N.neq_0_lt_0. apply N.pow_nonzero. discriminate. Qed.
Lemma blk_full : blk 0 = 2 ^ W.
Proof. unfold blk. rewrite N.sub_0_r. reflexivity. Qed.
Lemma blk_lt l : 0 < l -> l <= W -> blk l < 2 ^ W.
Proof. intros H1 H2. unfold blk. apply N.pow_lt_mono_r; lia. Qed.
Lemma blk_le l : blk l <= 2 ^ W.
Proof. unfold blk. apply N.pow_le_mono_r; lia. Qed.
Lemma blk_divides l : l <= W -> 2 ^ W = 2 ^ l * blk l.
Proof. intros H. unfold blk. rewrite <- N.pow_add_r. f_equal. lia. Qed.

Lemma same_prefix_bits l x y :
  same_prefix l x y <-> forall i, W - l <= i -> N.testbit x i = N.testbit y i.
Proof.
  unfold same_prefix, blk. rewrite <- !N.shiftr_div_pow2. split.
  - intros H i Hi. replace i with ((i - (W - l)) + (W - l)) by lia.
    rewrite <- !N.shiftr_spec by lia. rewrite H. reflexivity.
  - intros H. apply N.bits_inj. intros j. rewrite !N.shiftr_spec by lia. apply H. lia.
Qed.

Theorem mk_net_masked x l : fst (mk_net x l) mod blk l = 0.
Proof. unfold mk_net. cbn [fst]. apply N.mod_mul. pose proof (blk_pos l). lia. Qed.

Theorem mk_net_wf x l : l <= W -> x < 2 ^ W -> wf (mk_net x l).
Proof.
  intros Hl Hx. unfold wf, mk_net. pose proof (blk_pos l) as Hb.
  assert (Hle : blk l * (x / blk l) <= x) by (apply N.mul_div_le; lia).
  repeat split; [exact Hl | lia | apply N.mod_mul; lia].
Qed.

Theorem mk_net_denotes a l x : in_net x (mk_net a l) <-> same_prefix l x a.
Proof.
  unfold in_net, mk_net, same_prefix. pose proof (blk_pos l) as Hb.
  set (b := blk l) in *. set (q := a / b).
  split.
  - intros [H1 H2]. symmetry. apply (N.div_unique x b q (x - q * b)); lia.
  - intros H. subst q. rewrite <- H.
    assert (b * (x / b) <= x) by (apply N.mul_div_le; lia).
    assert (x < b * N.succ (x / b)) by (apply N.mul_succ_div_gt; lia). lia.
Qed.

Theorem mk_net_contains x l : in_net x (mk_net x l).
Proof. apply mk_net_denotes. reflexivity. Qed.

Theorem mk_net_of_wf a l : wf (a, l) -> mk_net a l = (a, l).
Proof.
  unfold wf, mk_net. intros (_ & _ & Hm). f_equal. pose proof (blk_pos l) as Hb.
  rewrite (N.div_mod a (blk l)) at 2 by lia. rewrite Hm. lia.
Qed.

Theorem mk_net_idem x l : mk_net (fst (mk_net x l)) l = mk_net x l.
Proof.
  unfold mk_net. cbn [fst]. f_equal. rewrite N.div_mul; [reflexivity|]. pose proof (blk_pos l). lia.
Qed.

(* any two addresses with the same first l bits give the same network *)
Theorem mk_net_same_prefix x y l : same_prefix l x y -> mk_net x l = mk_net y l.
Proof. unfold same_prefix, mk_net. intros ->. reflexivity. Qed.

(* "the network is the entire address space" *)
Theorem slash_zero_iff n : wf n ->
  (slash_zero n = true <-> forall x, x < 2 ^ W -> in_net x n).
Proof.
  destruct n as [a l]. unfold wf, slash_zero, in_net. intros (Hl & Ha & _). split.
  - rewrite andb_true_iff, !N.eqb_eq. intros [-> ->] x Hx. rewrite blk_full. lia.
  - intros H. rewrite andb_true_iff, !N.eqb_eq.
    assert (Hp : 0 < 2 ^ W) by (apply N.neq_0_lt_0; apply N.pow_nonzero; discriminate).
    assert (Ha0 : a = 0) by (specialize (H 0 Hp); lia).
    split; [exact Ha0|]. subst a.
    destruct (N.eq_dec l 0) as [E|Hne]; [exact E | exfalso].
    assert (Hlt : blk l < 2 ^ W) by (apply blk_lt; lia).
    specialize (H (2 ^ W - 1)). lia.
Qed.

Theorem slash_zero_false_witness n : wf n -> slash_zero n = false -> exists x, x < 2 ^ W /\ ~ in_net x n.
Proof.
  intros Hwf Hz. destruct n as [a l]. unfold wf in Hwf. destruct Hwf as (Hl & Ha & _).
  assert (Hp : 0 < 2 ^ W) by (apply N.neq_0_lt_0; apply N.pow_nonzero; discriminate).
  unfold slash_zero in Hz. apply andb_false_iff in Hz. unfold in_net.
  destruct (N.eq_dec a 0) as [->|Hne].
  - destruct Hz as [Hz|Hz]; [rewrite N.eqb_refl in Hz; discriminate|]. apply N.eqb_neq in Hz.
    exists (2 ^ W - 1). assert (blk l < 2 ^ W) by (apply blk_lt; lia). lia.
  - exists 0. lia.
Qed.

Theorem subnet_of_iff n m : wf n -> wf m ->
  (subnet_of n m = true <-> forall x, in_net x n -> in_net x m).
Proof.
  destruct n as [a l], m as [b k]. unfold wf, subnet_of, in_net. intros _ _.
  pose proof (blk_pos l). pose proof (blk_pos k).
  rewrite andb_true_iff, !N.leb_le. split.
  - intros [? ?] x ?. lia.
  - intros Hx. pose proof (Hx a). pose proof (Hx (a + blk l - 1)). lia.
Qed.

Lemma subnet_of_refl n : subnet_of n n = true.
Proof. destruct n as [a l]. unfold subnet_of. rewrite !N.leb_refl. reflexivity. Qed.

(* every member of a well-formed network is an address of the space *)
Lemma in_net_bound x n : wf n -> in_net x n -> x < 2 ^ W.
Proof.
  destruct n as [a l]. unfold wf, in_net. intros (Hl & Ha & Hm) [H1 H2].
  pose proof (blk_pos l) as Hb. pose proof (blk_divides l Hl) as Hd.
  assert (Hq : a = blk l * (a / blk l)) by (rewrite (N.div_mod a (blk l)) at 1 by lia; lia).
  assert (Hlt : a / blk l < 2 ^ l).
  { apply N.div_lt_upper_bound; [lia|]. rewrite N.mul_comm, <- Hd. exact Ha. }
  rewrite Hd. nia.
Qed.
End Net.

(* Python: int(addr) & int(netmask) with netmask = ALL_ONES ^ (ALL_ONES >> l) = l ones followed by W-l zeros *)
Definition netmask (W l : N) : N := N.shiftl (N.ones l) (W - l).
Lemma mk_net_land W x l : l <= W -> x < 2 ^ W -> fst (mk_net W x l) = N.land x (netmask W l).
Proof.
  intros Hl Hx. unfold mk_net, blk, netmask. cbn [fst].
  rewrite <- N.shiftr_div_pow2, <- N.shiftl_mul_pow2. apply N.bits_inj. intros i.
  rewrite N.land_spec. destruct (N.ltb_spec i (W - l)) as [Hi|Hi].
  - rewrite !N.shiftl_spec_low by exact Hi. rewrite andb_false_r. reflexivity.
  - rewrite !N.shiftl_spec_high' by exact Hi. rewrite N.shiftr_spec'. replace (i - (W - l) + (W - l)) with i by lia.
    destruct (N.ltb_spec (i - (W - l)) l) as [Hj|Hj].
    + rewrite N.ones_spec_low by exact Hj. rewrite andb_true_r. reflexivity.
    + rewrite N.ones_spec_high by exact Hj. rewrite andb_false_r.
      rewrite <- (N.mod_small x (2 ^ W)) by exact Hx. apply N.mod_pow2_bits_high. lia.
Qed.
Lemma netmask_xor W l : l <= W -> netmask W l = N.lxor (N.ones W) (N.shiftr (N.ones W) l).
Proof.
  intros Hl. unfold netmask. apply N.bits_inj. intros i. rewrite N.lxor_spec, N.shiftr_spec'.
  destruct (N.ltb_spec i (W - l)) as [Hi|Hi].
  - rewrite N.shiftl_spec_low by exact Hi. rewrite !N.ones_spec_low by lia. reflexivity.
  - rewrite N.shiftl_spec_high' by exact Hi. destruct (N.ltb_spec i W) as [Hw|Hw].
    + rewrite (N.ones_spec_low W i) by exact Hw. rewrite N.ones_spec_low by lia. rewrite N.ones_spec_high by lia. reflexivity.
    + rewrite !N.ones_spec_high by lia. reflexivity.
Qed.
(* the arithmetic masking of the model is ipaddress's bitwise one: packed & (ALL_ONES ^ (ALL_ONES >> prefixlen)) *)
Theorem mk_net_bitwise W x l : l <= W -> x < 2 ^ W ->
  fst (mk_net W x l) = N.land x (N.lxor (N.ones W) (N.shiftr (N.ones W) l)).
Proof. intros Hl Hx. rewrite <- netmask_xor by exact Hl. apply mk_net_land; assumption. Qed.
