(* IPv6 CIDR text -> network, as ipaddress.IPv6Network(text, strict=False) reads it (Python 3.12): full form,
   one "::" standing for one or more zero groups, optional embedded dotted-quad IPv4 tail, optional "/len" (decimal
   0..128, no netmask form).  Zone identifiers ("%eth0") are outside the model (EUndefined).
   Printing: the uncompressed ("exploded") form only; RFC 5952 compression (Python's str()) is NOT modelled -- the
   implementation's text is tied by parsing it back (see harness/props/c17.py).
   Executable definitions only; the theorems are in Net/IPv6Thm.v. *)
From Coq Require Import List Bool NArith ZArith Lia.
From PV Require Import Base.Str Base.Value Net.Arith Net.NetText Net.IPv4.
Import ListNotations.
Local Open Scope N_scope.

Definition W6 : N := 128.

Definition hexdig (c : N) : option N :=
  if (48 <=? c) && (c <=? 57) then Some (c - 48)
  else if (97 <=? c) && (c <=? 102) then Some (c - 87)
  else if (65 <=? c) && (c <=? 70) then Some (c - 55)
  else None.
Fixpoint hex_go (acc : N) (s : str) : option N :=
  match s with
  | [] => Some acc
  | c :: s' => match hexdig c with Some d => hex_go (16 * acc + d) s' | None => None end
  end.
(* one group: 1-4 hex digits of either case  (_BaseV6._parse_hextet) *)
Definition parse_hextet (s : str) : option N :=
  match s with
  | [] => None
  | _ => if Nat.leb (length s) 4 then hex_go 0 s else None
  end.

(* cut the text at its first "::" *)
Fixpoint cut_dcolon (s : str) : option (str * str) :=
  match s with
  | [] => None
  | c :: t =>
      match t with
      | [] => None
      | d :: r =>
          if (c =? COLON) && (d =? COLON) then Some ([], r)
          else match cut_dcolon t with Some (l, r') => Some (c :: l, r') | None => None end
      end
  end.

(* the groups of a run of ':'-separated pieces; only the very last piece may be a dotted quad (two groups), and only
   on the side of the text where [v4ok] *)
Fixpoint groups_of (v4ok : bool) (parts : list str) : option (list N) :=
  match parts with
  | [] => Some []
  | p :: ps =>
      match ps with
      | [] =>
          if has_ch DOT p then
            if v4ok then match parse_addr4 p with Some a => Some [a / 65536; a mod 65536] | None => None end
            else None
          else match parse_hextet p with Some v => Some [v] | None => None end
      | _ :: _ =>
          match parse_hextet p, groups_of v4ok ps with
          | Some v, Some vs => Some (v :: vs)
          | _, _ => None
          end
      end
  end.
Definition side_groups (v4ok : bool) (t : str) : option (list N) :=
  match t with [] => Some [] | _ => groups_of v4ok (split_ch COLON t) end.

Definition addr_of_groups (gs : list N) : N := fold_left (fun acc v => acc * 65536 + v) gs 0.

(* RFC 4291 2.2: eight groups, or hi "::" lo with at most seven groups written *)
Definition parse_addr6 (s : str) : option N :=
  match cut_dcolon s with
  | None =>
      match side_groups true s with
      | Some gs => if Nat.eqb (length gs) 8 then Some (addr_of_groups gs) else None
      | None => None
      end
  | Some (l, r) =>
      match side_groups false l, side_groups true r with
      | Some hi, Some lo =>
          if Nat.leb (length hi + length lo) 7
          then Some (addr_of_groups (hi ++ repeat 0 (8 - length hi - length lo) ++ lo))
          else None
      | _, _ => None
      end
  end.

Definition written6 (s : str) : option (N * N) :=
  match split_ch SLASH s with
  | [a] => match parse_addr6 a with Some x => Some (x, 128) | None => None end
  | [a; m] =>
      match parse_addr6 a, parse_plen 128 m with
      | Some x, Some l => Some (x, l)
      | _, _ => None
      end
  | _ => None
  end.

Definition parse6 (s : str) : res net :=
  if has_ch PERCENT s then Err EUndefined
  else match written6 s with
       | Some (x, l) => Ok (mk_net W6 x l)
       | None => Err EValue
       end.

(* uncompressed printer: eight groups of exactly four lower-case hex digits, "/", decimal length  (= .exploded) *)
Definition hexchar (d : N) : N := if d <? 10 then 48 + d else 87 + d.
Definition hex4 (v : N) : str := [hexchar (v / 4096); hexchar ((v / 256) mod 16); hexchar ((v / 16) mod 16); hexchar (v mod 16)].
Definition groups6 (a : N) : list N :=
  [ a / 65536 ^ 7; (a / 65536 ^ 6) mod 65536; (a / 65536 ^ 5) mod 65536; (a / 65536 ^ 4) mod 65536;
    (a / 65536 ^ 3) mod 65536; (a / 65536 ^ 2) mod 65536; (a / 65536) mod 65536; a mod 65536 ].
Definition print_addr6_full (a : N) : str := join [COLON] (map hex4 (groups6 a)).
Definition print6_full (n : net) : str := print_addr6_full (fst n) ++ SLASH :: print_small (snd n).
