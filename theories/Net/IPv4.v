(* IPv4 CIDR text <-> network, as ipaddress.IPv4Network(text, strict=False) and str(IPv4Network) do it (Python 3.12).
   Executable definitions only; the theorems are in Net/IPv4Thm.v. *)
From Coq Require Import List Bool NArith ZArith Lia.
From PV Require Import Base.Str Base.Value Net.Arith Net.NetText.
Import ListNotations.
Local Open Scope N_scope.

Definition W4 : N := 32.

(* one octet: 1-3 ASCII digits, no leading zero (except "0" itself), value <= 255  (_BaseV4._parse_octet) *)
Definition parse_octet (s : str) : option N :=
  match s with
  | [a] => dig a
  | [a; b] =>
      match dig a, dig b with
      | Some x, Some y => if x =? 0 then None else Some (10 * x + y)
      | _, _ => None
      end
  | [a; b; c] =>
      match dig a, dig b, dig c with
      | Some x, Some y, Some z =>
          if x =? 0 then None else let v := 100 * x + 10 * y + z in if v <=? 255 then Some v else None
      | _, _, _ => None
      end
  | _ => None
  end.

(* exactly four octets separated by '.', big endian  (_BaseV4._ip_int_from_string) *)
Definition parse_addr4 (s : str) : option N :=
  match split_ch DOT s with
  | [a; b; c; d] =>
      match parse_octet a, parse_octet b, parse_octet c, parse_octet d with
      | Some x, Some y, Some z, Some w => Some (((x * 256 + y) * 256 + z) * 256 + w)
      | _, _, _, _ => None
      end
  | _ => None
  end.

Definition octets4 (a : N) : list N := [a / 16777216; (a / 65536) mod 256; (a / 256) mod 256; a mod 256].
Definition print_addr4 (a : N) : str := join [DOT] (map print_small (octets4 a)).

(* the 33 netmasks (l ones then 32-l zeros) and the 33 hostmasks (their complements) *)
Definition netmask4 (l : N) : N := 2 ^ 32 - 2 ^ (32 - l).
Definition hostmask4 (l : N) : N := 2 ^ (32 - l) - 1.
(* _prefix_from_ip_string: a netmask if it is one, else a hostmask if it is one (0.0.0.0 and 255.255.255.255 are netmasks) *)
Definition mask_len (m : N) : option N :=
  match find (fun l => netmask4 l =? m) (range 33) with
  | Some l => Some l
  | None => find (fun l => hostmask4 l =? m) (range 33)
  end.

Definition parse_plen (maxl : N) (s : str) : option N :=
  match parse_dec s with Some l => if l <=? maxl then Some l else None | None => None end.

(* _BaseV4._make_netmask: decimal prefix length 0..32 (ASCII digits, leading zeros allowed), else dotted netmask / hostmask *)
Definition parse_mask4 (s : str) : option N :=
  match parse_plen 32 s with
  | Some l => Some l
  | None => match parse_addr4 s with Some m => mask_len m | None => None end
  end.

(* what is WRITTEN: the address and the prefix length, before any masking *)
Definition written4 (s : str) : option (N * N) :=
  match split_ch SLASH s with
  | [a] => match parse_addr4 a with Some x => Some (x, 32) | None => None end
  | [a; m] =>
      match parse_addr4 a, parse_mask4 m with
      | Some x, Some l => Some (x, l)
      | _, _ => None
      end
  | _ => None
  end.

(* IPv4Network(text, strict=False): the network that the written address belongs to *)
Definition parse4 (s : str) : res net :=
  match written4 s with
  | Some (x, l) => Ok (mk_net W4 x l)
  | None => Err EValue
  end.

(* str(IPv4Network) *)
Definition print4 (n : net) : str := print_addr4 (fst n) ++ SLASH :: print_small (snd n).
Definition print_mask4 (l : N) : str := print_addr4 (netmask4 l).
Definition print_hostmask4 (l : N) : str := print_addr4 (hostmask4 l).

(* what pycfmodel's field validator is given: JSON text, or a JSON integer (= that address, /32) *)
Definition parse4v (v : value) : res net :=
  match v with
  | VStr s => parse4 s
  | VInt z => if (0 <=? z)%Z && (z <? 4294967296)%Z then Ok (Z.to_N z, 32) else Err EValue
  | _ => Err EUndefined
  end.
