(* Algebraic laws of the network exposure predicates (C17): monotonicity in the range, independence of the spelling,
   boundaries of the private / reserved table, the inside / disjoint / straddling partition, IPv4-mapped IPv6 and the
   rule-level decision tables.  Laws that FAIL are stated as [..._refuted] with a concrete witness. *)
From Coq Require Import List Bool NArith ZArith Lia.
From PV Require Import Base.Str Base.Value Net.Arith Net.NetText Net.IPv4 Net.IPv4Thm Net.IPv6 Net.IPv6Thm Net.Public Net.PublicTable.
From PVGen Require Import PrivateNets.
Import ListNotations.
Local Open Scope N_scope.

(* ================================================================================================================ *)
(* A. network arithmetic, every width at once                                                                        *)
Section Laws.
Variable W : N.

Lemma mul_lt_cancel B u v : B * u < B * v -> u < v.
Proof. intros H. destruct (N.lt_ge_cases u v) as [Hlt|Hge]; [exact Hlt|]. exfalso. assert (B * v <= B * u) by (apply N.mul_le_mono_l; exact Hge). lia. Qed.

Lemma wf_multiple a l : wf W (a, l) -> a = blk W l * (a / blk W l).
Proof.
  intros (_ & _ & Hm). pose proof (blk_pos W l) as Hb.
  rewrite (N.div_mod a (blk W l)) at 1 by lia. rewrite Hm. lia.
Qed.

Lemma blk_split l k : l <= k -> k <= W -> blk W l = 2 ^ (k - l) * blk W k.
Proof. intros H1 H2. unfold blk. rewrite <- N.pow_add_r. f_equal. lia. Qed.
Lemma blk_mono l k : l <= k -> blk W k <= blk W l.
Proof. intros H. unfold blk. apply N.pow_le_mono_r; lia. Qed.
Lemma blk_strict l k : l < k -> k <= W -> 2 * blk W k <= blk W l.
Proof.
  intros H1 H2. rewrite (blk_split l k) by lia. apply N.mul_le_mono_r.
  change 2 with (2 ^ 1). apply N.pow_le_mono_r; lia.
Qed.
Lemma blk_inj l k : l <= W -> k <= W -> blk W l = blk W k -> l = k.
Proof. unfold blk. intros H1 H2 H. apply N.pow_inj_r in H; lia. Qed.

(* inclusion is transitive (no side condition) and is inclusion of address sets *)
Lemma subnet_of_trans a b c : subnet_of W a b = true -> subnet_of W b c = true -> subnet_of W a c = true.
Proof.
  destruct a as [a la], b as [b lb], c as [c lc]. unfold subnet_of.
  rewrite !andb_true_iff, !N.leb_le. lia.
Qed.
Lemma subnet_of_in n m x : subnet_of W n m = true -> in_net W x n -> in_net W x m.
Proof. destruct n as [a l], m as [b k]. unfold subnet_of, in_net. rewrite andb_true_iff, !N.leb_le. lia. Qed.
Lemma subnet_of_len n m : subnet_of W n m = true -> blk W (snd n) <= blk W (snd m).
Proof. destruct n as [a l], m as [b k]. unfold subnet_of. cbn [snd]. rewrite andb_true_iff, !N.leb_le. lia. Qed.
Lemma in_net_first n : in_net W (fst n) n.
Proof. destruct n as [a l]. unfold in_net. cbn [fst]. pose proof (blk_pos W l). lia. Qed.

(* CIDR blocks are LAMINAR: two blocks that share an address are nested, the one with the longer prefix inside *)
Theorem laminar n p x : wf W n -> wf W p -> in_net W x n -> in_net W x p -> snd p <= snd n -> subnet_of W n p = true.
Proof.
  destruct n as [a l], p as [b k]. cbn [snd]. intros Hn Hp Hxn Hxp Hkl.
  pose proof (wf_multiple a l Hn) as Ea. pose proof (wf_multiple b k Hp) as Eb.
  destruct Hn as (Hl & _ & _). pose proof (blk_split k l Hkl Hl) as Ek.
  set (B := blk W l) in *. set (m := 2 ^ (l - k)) in *. set (qa := a / B) in *. set (qb := b / blk W k) in *.
  unfold in_net in Hxn, Hxp. fold B in Hxn. rewrite Ek in Hxp, Eb.
  unfold subnet_of. fold B. rewrite Ek. rewrite andb_true_iff, !N.leb_le.
  assert (H1 : m * qb < qa + 1). { apply (mul_lt_cancel B). nia. }
  assert (H2 : qa < m * qb + m). { apply (mul_lt_cancel B). nia. }
  nia.
Qed.
Corollary nested_or_disjoint n p : wf W n -> wf W p ->
  subnet_of W n p = true \/ subnet_of W p n = true \/ (forall x, in_net W x n -> ~ in_net W x p).
Proof.
  intros Hn Hp. destruct (subnet_of W n p) eqn:E1; [left; reflexivity|]. destruct (subnet_of W p n) eqn:E2; [right; left; reflexivity|].
  right. right. intros x Hxn Hxp. destruct (N.le_ge_cases (snd p) (snd n)) as [H|H].
  - rewrite (laminar n p x Hn Hp Hxn Hxp H) in E1. discriminate.
  - rewrite (laminar p n x Hp Hn Hxp Hxn H) in E2. discriminate.
Qed.

(* a network IS its set of addresses: two well-formed networks with the same members are the same pair *)
Theorem wf_ext n m : wf W n -> wf W m -> (forall x, in_net W x n <-> in_net W x m) -> n = m.
Proof.
  intros Hn Hm H.
  assert (S1 : subnet_of W n m = true) by (apply subnet_of_iff; [assumption | assumption | intros x; apply H]).
  assert (S2 : subnet_of W m n = true) by (apply subnet_of_iff; [assumption | assumption | intros x; apply H]).
  pose proof (subnet_of_len _ _ S1) as L1. pose proof (subnet_of_len _ _ S2) as L2.
  destruct n as [a l], m as [b k]. cbn [snd] in *. destruct Hn as (Hl & _ & _). destruct Hm as (Hk & _ & _).
  assert (l = k) by (apply blk_inj; lia). subst k.
  unfold subnet_of in S1, S2. rewrite andb_true_iff, !N.leb_le in S1, S2. f_equal. lia.
Qed.

(* MONOTONICITY of "is the entire address space": upward closed *)
Theorem slash_zero_up n m : wf W m -> subnet_of W n m = true -> slash_zero n = true -> slash_zero m = true.
Proof.
  destruct n as [a l], m as [b k]. intros (Hk & Hb & _) Hs Hz. unfold slash_zero in *.
  rewrite andb_true_iff, !N.eqb_eq in Hz. destruct Hz as [-> ->]. unfold subnet_of in Hs.
  rewrite andb_true_iff, !N.leb_le, blk_full in Hs. rewrite andb_true_iff, !N.eqb_eq.
  assert (b = 0) by lia. subst b. split; [reflexivity|].
  destruct (N.eq_dec k 0) as [E|E]; [exact E | exfalso]. assert (blk W k < 2 ^ W) by (apply blk_lt; lia). lia.
Qed.

(* the /l network of an address x of p lies inside p exactly when l is at least p's prefix length: the predicate
   "inside p" flips exactly at l = snd p, for EVERY address of p (first and last included) *)
Theorem mk_net_inside_iff x l p : wf W p -> in_net W x p -> l <= W ->
  (subnet_of W (mk_net W x l) p = true <-> snd p <= l).
Proof.
  intros Hp Hx Hl. pose proof (in_net_bound W x p Hp Hx) as Hb. split.
  - intros Hs. apply subnet_of_len in Hs. cbn [snd mk_net] in Hs.
    destruct (N.le_gt_cases (snd p) l) as [H|H]; [exact H | exfalso].
    destruct p as [b k]. cbn [snd] in *. destruct Hp as (Hk & _ & _).
    pose proof (blk_strict l k H Hk). pose proof (blk_pos W k). lia.
  - intros H. apply (laminar (mk_net W x l) p x); [apply mk_net_wf; assumption | exact Hp | apply mk_net_contains | exact Hx | exact H].
Qed.

(* a host network (x, W) is inside p exactly when x is a member of p *)
Lemma blk_host : blk W W = 1.
Proof. unfold blk. rewrite N.sub_diag. reflexivity. Qed.
Lemma subnet_of_host x p : subnet_of W (x, W) p = in_netb W x p.
Proof.
  destruct p as [b k]. unfold subnet_of, in_netb. rewrite blk_host. f_equal.
  destruct (N.leb_spec (x + 1) (b + blk W k)), (N.ltb_spec x (b + blk W k)); try reflexivity; lia.
Qed.
Lemma host_wf x : x < 2 ^ W -> wf W (x, W).
Proof. intros H. unfold wf. rewrite blk_host. repeat split; [lia | exact H | apply N.mod_1_r]. Qed.
End Laws.

(* ================================================================================================================ *)
(* B. the predicates over an ARBITRARY table of reserved networks                                                    *)
Inductive cls := CInside | CStraddle | CDisjoint.

Section Table.
Variable SHARED : net.
Variable PRIV : list net.
Let TABLE : list net := SHARED :: PRIV.
Hypothesis TABLE_wf : Forall (wf W4) TABLE.

(* "not globally routable" = inside ONE entry of the table (shared network included) *)
Definition reserved (n : net) : bool := existsb (subnet_of W4 n) (SHARED :: PRIV).
Lemma is_global_reserved n : is_global SHARED PRIV n = negb (reserved n).
Proof. unfold is_global, is_private, reserved. cbn [existsb]. rewrite negb_orb. reflexivity. Qed.
Lemma reserved_iff n : reserved n = true <-> exists p, In p (SHARED :: PRIV) /\ subnet_of W4 n p = true.
Proof. unfold reserved. apply existsb_exists. Qed.
Lemma is_global_true_iff n : is_global SHARED PRIV n = true <-> forall p, In p (SHARED :: PRIV) -> subnet_of W4 n p = false.
Proof.
  rewrite is_global_reserved, negb_true_iff. unfold reserved. split.
  - intros H p Hp. destruct (subnet_of W4 n p) eqn:E; [|reflexivity].
    assert (X : existsb (subnet_of W4 n) (SHARED :: PRIV) = true) by (apply existsb_exists; exists p; split; assumption). congruence.
  - intros H. destruct (existsb (subnet_of W4 n) (SHARED :: PRIV)) eqn:E; [|reflexivity].
    apply existsb_exists in E. destruct E as (p & Hp & E). rewrite (H p Hp) in E. discriminate.
Qed.

(* ---- 1. MONOTONICITY in the range (a inside b) ---- *)
(* private is DOWNWARD closed *)
Theorem is_private_down a b : subnet_of W4 a b = true -> is_private PRIV b = true -> is_private PRIV a = true.
Proof.
  intros Hab Hb. unfold is_private in *. apply existsb_exists in Hb. destruct Hb as (p & Hp & Hb).
  apply existsb_exists. exists p. split; [exact Hp | eapply subnet_of_trans; eassumption].
Qed.
Theorem reserved_down a b : subnet_of W4 a b = true -> reserved b = true -> reserved a = true.
Proof.
  intros Hab Hb. apply reserved_iff in Hb. destruct Hb as (p & Hp & Hb).
  apply reserved_iff. exists p. split; [exact Hp | eapply subnet_of_trans; eassumption].
Qed.
(* globally routable is UPWARD closed *)
Theorem is_global_up a b : subnet_of W4 a b = true -> is_global SHARED PRIV a = true -> is_global SHARED PRIV b = true.
Proof.
  rewrite !is_global_reserved, !negb_true_iff. intros Hab Ha. destruct (reserved b) eqn:E; [|reflexivity].
  rewrite (reserved_down a b Hab E) in Ha. discriminate.
Qed.
(* ... and so is the verdict of is_public() on a rule with a CIDR, whatever the source groups of the two rules *)
Theorem is_public_up a b g g' : wf W4 b -> subnet_of W4 a b = true ->
  is_public SHARED PRIV (Some a) g = true -> is_public SHARED PRIV (Some b) g' = true.
Proof.
  intros Hb Hab. cbn [is_public]. rewrite !orb_true_iff, !net_eqb_zero. intros [Hz|Hg].
  - left. eapply slash_zero_up; eassumption.
  - right. eapply is_global_up; eassumption.
Qed.
(* contrapositive reading: every range inside a non-public range is non-public *)
Corollary not_public_down a b g g' : wf W4 b -> subnet_of W4 a b = true ->
  is_public SHARED PRIV (Some b) g' = false -> is_public SHARED PRIV (Some a) g = false.
Proof.
  intros Hb Hab Hf. destruct (is_public SHARED PRIV (Some a) g) eqn:E; [|reflexivity].
  rewrite (is_public_up a b g g' Hb Hab E) in Hf. discriminate.
Qed.

(* ---- single addresses ---- *)
Definition addr_global (x : N) : bool := is_global SHARED PRIV (x, W4).
Lemma addr_global_iff x : addr_global x = true <-> forall p, In p (SHARED :: PRIV) -> in_netb W4 x p = false.
Proof.
  unfold addr_global. rewrite is_global_true_iff. split; intros H p Hp; specialize (H p Hp); rewrite subnet_of_host in *; exact H.
Qed.
Lemma addr_reserved_iff x : addr_global x = false <-> exists p, In p (SHARED :: PRIV) /\ in_net W4 x p.
Proof.
  unfold addr_global. rewrite is_global_reserved, negb_false_iff, reserved_iff. split; intros (p & Hp & H); exists p; (split; [exact Hp|]).
  - rewrite subnet_of_host in H. apply in_netb_in. exact H.
  - rewrite subnet_of_host. apply in_netb_in. exact H.
Qed.

(* a range that contains ONE globally routable address is globally routable (no side condition) ... *)
Theorem contains_global_is_global n x : in_net W4 x n -> addr_global x = true -> is_global SHARED PRIV n = true.
Proof.
  intros Hx Hg. apply is_global_true_iff. intros p Hp. destruct (subnet_of W4 n p) eqn:E; [|reflexivity].
  pose proof (subnet_of_in W4 n p x E Hx) as Hin. apply in_netb_in in Hin.
  rewrite (proj1 (addr_global_iff x) Hg p Hp) in Hin. discriminate.
Qed.
(* ... and a reserved range contains none *)
Corollary reserved_all_reserved n x : reserved n = true -> in_net W4 x n -> addr_global x = false.
Proof.
  intros Hr Hx. destruct (addr_global x) eqn:E; [|reflexivity].
  pose proof (contains_global_is_global n x Hx E) as Hg. rewrite is_global_reserved, Hr in Hg. discriminate.
Qed.

(* the address just after the last address of p *)
Definition next_after (p : net) : N := fst p + blk W4 (snd p).
(* TABLE CONDITION (checked by computation on the generated table): the address after each entry, when there is one,
   lies in no entry -- no two entries are adjacent *)
Definition after_clean : bool :=
  forallb (fun p => (2 ^ W4 <=? next_after p) || forallb (fun q => negb (in_netb W4 (next_after p) q)) (SHARED :: PRIV)) (SHARED :: PRIV).

(* under it the converse holds: a range not inside one entry contains a globally routable address (it cannot be
   pieced together from several entries) *)
Theorem is_global_has_global n : after_clean = true -> wf W4 n -> is_global SHARED PRIV n = true ->
  exists x, in_net W4 x n /\ addr_global x = true.
Proof.
  intros Hac Hn Hg. destruct (addr_global (fst n)) eqn:Ea; [exists (fst n); split; [apply in_net_first | exact Ea]|].
  apply addr_reserved_iff in Ea. destruct Ea as (p & Hp & Hin).
  assert (Hpw : wf W4 p) by (rewrite Forall_forall in TABLE_wf; apply TABLE_wf; exact Hp).
  pose proof (proj1 (is_global_true_iff n) Hg p Hp) as Hnp.
  destruct (N.le_gt_cases (snd p) (snd n)) as [Hle|Hgt].
  { rewrite (laminar W4 n p (fst n) Hn Hpw (in_net_first W4 n) Hin Hle) in Hnp. discriminate. }
  assert (Hpn : subnet_of W4 p n = true).
  { apply (laminar W4 p n (fst n) Hpw Hn Hin (in_net_first W4 n)). lia. }
  exists (next_after p).
  assert (Hy : in_net W4 (next_after p) n).
  { destruct n as [a l], p as [b k]. cbn [fst snd] in *. unfold next_after. cbn [fst snd].
    unfold subnet_of in Hpn. rewrite andb_true_iff, !N.leb_le in Hpn. unfold in_net in *.
    destruct Hpw as (Hk & _ & _). pose proof (blk_strict W4 l k Hgt Hk). pose proof (blk_pos W4 k). lia. }
  split; [exact Hy|]. apply addr_global_iff. intros q Hq.
  unfold after_clean in Hac. rewrite forallb_forall in Hac. specialize (Hac p Hp). apply orb_true_iff in Hac.
  destruct Hac as [Hbig|Hcl].
  - apply N.leb_le in Hbig. pose proof (in_net_bound W4 _ n Hn Hy). lia.
  - rewrite forallb_forall in Hcl. specialize (Hcl q Hq). apply negb_true_iff in Hcl. exact Hcl.
Qed.

(* ---- 4. PARTITION: inside one entry / straddling (an entry strictly inside it) / disjoint from every entry ---- *)
Definition classify (n : net) : cls :=
  if reserved n then CInside
  else if existsb (fun p => subnet_of W4 p n) (SHARED :: PRIV) then CStraddle else CDisjoint.

Definition Inside (n : net) : Prop := exists p, In p (SHARED :: PRIV) /\ forall x, in_net W4 x n -> in_net W4 x p.
Definition Disjoint (n : net) : Prop := forall p x, In p (SHARED :: PRIV) -> in_net W4 x n -> ~ in_net W4 x p.
(* some entry lies wholly inside n, and n has an address outside that entry *)
Definition Straddles (n : net) : Prop :=
  ~ Inside n /\ exists p, In p (SHARED :: PRIV) /\ (forall x, in_net W4 x p -> in_net W4 x n).

Lemma Inside_iff n : wf W4 n -> (Inside n <-> reserved n = true).
Proof.
  intros Hn. rewrite reserved_iff. unfold Inside. split; intros (p & Hp & H); exists p; (split; [exact Hp|]);
    assert (Hpw : wf W4 p) by (rewrite Forall_forall in TABLE_wf; apply TABLE_wf; exact Hp).
  - apply subnet_of_iff; assumption.
  - apply subnet_of_iff; assumption.
Qed.

Theorem classify_inside n : wf W4 n -> (classify n = CInside <-> Inside n).
Proof.
  intros Hn. rewrite (Inside_iff n Hn). unfold classify. destruct (reserved n); [tauto|].
  destruct (existsb _ _); split; discriminate.
Qed.
Theorem classify_straddle n : wf W4 n -> (classify n = CStraddle <-> Straddles n).
Proof.
  intros Hn. unfold Straddles. rewrite (Inside_iff n Hn). unfold classify. destruct (reserved n) eqn:Er.
  - split; [discriminate | intros [H _]; exfalso; apply H; reflexivity].
  - destruct (existsb (fun p => subnet_of W4 p n) (SHARED :: PRIV)) eqn:E.
    + split; [intros _ | reflexivity]. split; [discriminate|]. apply existsb_exists in E. destruct E as (p & Hp & E).
      exists p. split; [exact Hp|]. intros x. apply subnet_of_in. exact E.
    + split; [discriminate|]. intros [_ (p & Hp & H)]. exfalso.
      assert (Hpw : wf W4 p) by (rewrite Forall_forall in TABLE_wf; apply TABLE_wf; exact Hp).
      assert (X : existsb (fun p => subnet_of W4 p n) (SHARED :: PRIV) = true).
      { apply existsb_exists. exists p. split; [exact Hp | apply subnet_of_iff; assumption]. }
      congruence.
Qed.
Theorem classify_disjoint n : wf W4 n -> (classify n = CDisjoint <-> Disjoint n).
Proof.
  intros Hn. unfold classify, Disjoint. destruct (reserved n) eqn:Er.
  - split; [discriminate|]. intros H. exfalso. apply reserved_iff in Er. destruct Er as (p & Hp & E).
    apply (H p (fst n) Hp (in_net_first W4 n)). eapply subnet_of_in; [exact E | apply in_net_first].
  - destruct (existsb (fun p => subnet_of W4 p n) (SHARED :: PRIV)) eqn:E.
    + split; [discriminate|]. intros H. exfalso. apply existsb_exists in E. destruct E as (p & Hp & E).
      apply (H p (fst p) Hp); [eapply subnet_of_in; [exact E | apply in_net_first] | apply in_net_first].
    + split; [intros _ | reflexivity]. intros p x Hp Hxn Hxp.
      assert (Hpw : wf W4 p) by (rewrite Forall_forall in TABLE_wf; apply TABLE_wf; exact Hp).
      destruct (nested_or_disjoint W4 n p Hn Hpw) as [H|[H|H]].
      * assert (X : reserved n = true) by (apply reserved_iff; exists p; split; assumption). congruence.
      * assert (X : existsb (fun p => subnet_of W4 p n) (SHARED :: PRIV) = true) by (apply existsb_exists; exists p; split; assumption).
        congruence.
      * exact (H x Hxn Hxp).
Qed.
(* the three classes are exhaustive and exclusive (classify is a function), and the predicate reads the class:
   ONLY a range inside one entry is not globally routable; a STRADDLING range is reported globally routable *)
Theorem partition n : wf W4 n ->
  (Inside n /\ ~ Straddles n /\ ~ Disjoint n /\ is_global SHARED PRIV n = false) \/
  (~ Inside n /\ Straddles n /\ ~ Disjoint n /\ is_global SHARED PRIV n = true) \/
  (~ Inside n /\ ~ Straddles n /\ Disjoint n /\ is_global SHARED PRIV n = true).
Proof.
  intros Hn. pose proof (classify_inside n Hn) as HI. pose proof (classify_straddle n Hn) as HS. pose proof (classify_disjoint n Hn) as HD.
  assert (Hg : is_global SHARED PRIV n = match classify n with CInside => false | _ => true end).
  { rewrite is_global_reserved. unfold classify. destruct (reserved n); [reflexivity|]. destruct (existsb _ _); reflexivity. }
  destruct (classify n) eqn:E.
  - left. split; [apply HI; reflexivity|]. split; [intros H; apply HS in H; discriminate|].
    split; [intros H; apply HD in H; discriminate | exact Hg].
  - right. left. split; [intros H; apply HI in H; discriminate|]. split; [apply HS; reflexivity|].
    split; [intros H; apply HD in H; discriminate | exact Hg].
  - right. right. split; [intros H; apply HI in H; discriminate|]. split; [intros H; apply HS in H; discriminate|].
    split; [apply HD; reflexivity | exact Hg].
Qed.

(* ---- 3. BOUNDARIES ---- *)
(* p is not inside another entry of the table *)
Definition outermost (p : net) : bool := forallb (fun q => net_eqb q p || negb (subnet_of W4 p q)) (SHARED :: PRIV).
(* TABLE CONDITION: the neighbours of an outermost entry (the address before its first, the address after its last, when
   they exist) lie in no entry *)
Definition edges_clean : bool :=
  forallb (fun p => negb (outermost p) ||
                    (((fst p =? 0) || addr_global (fst p - 1)) && ((2 ^ W4 <=? next_after p) || addr_global (next_after p))))
          (SHARED :: PRIV).
(* TABLE CONDITION: every strictly wider network around the first / the last address of an outermost entry is inside no entry *)
Definition widenings_clean : bool :=
  forallb (fun p => negb (outermost p) ||
                    forallb (fun l => negb (l <? snd p) ||
                                      (is_global SHARED PRIV (mk_net W4 (fst p) l) && is_global SHARED PRIV (mk_net W4 (next_after p - 1) l)))
                            (range 33))
          (SHARED :: PRIV).

(* every address of an entry is reserved; for an OUTERMOST entry the verdict flips exactly at its first and last address *)
Theorem boundaries p : edges_clean = true -> In p (SHARED :: PRIV) ->
  (forall x, fst p <= x < next_after p -> addr_global x = false) /\
  (outermost p = true -> 0 < fst p -> addr_global (fst p - 1) = true) /\
  (outermost p = true -> next_after p < 2 ^ W4 -> addr_global (next_after p) = true).
Proof.
  intros Hc Hp. unfold edges_clean in Hc. rewrite forallb_forall in Hc. specialize (Hc p Hp). split; [|split].
  - intros x Hx. apply addr_reserved_iff. exists p. split; [exact Hp|]. destruct p as [b k]. exact Hx.
  - intros Ho H0. rewrite Ho in Hc. cbn [negb orb] in Hc. apply andb_true_iff in Hc. destruct Hc as [Hc _].
    apply orb_true_iff in Hc. destruct Hc as [Hc|Hc]; [apply N.eqb_eq in Hc; lia | exact Hc].
  - intros Ho H1. rewrite Ho in Hc. cbn [negb orb] in Hc. apply andb_true_iff in Hc. destruct Hc as [_ Hc].
    apply orb_true_iff in Hc. destruct Hc as [Hc|Hc]; [apply N.leb_le in Hc; lia | exact Hc].
Qed.

(* ... and in the prefix-length direction: around ANY address x of an outermost entry p, the /l network is reserved exactly
   when l >= snd p -- stated for the first and the last address of p (the table condition covers those two) *)
Theorem boundary_lengths p l : widenings_clean = true -> In p (SHARED :: PRIV) -> outermost p = true -> l <= 32 ->
  is_global SHARED PRIV (mk_net W4 (fst p) l) = (l <? snd p) /\
  is_global SHARED PRIV (mk_net W4 (next_after p - 1) l) = (l <? snd p).
Proof.
  intros Hc Hp Ho Hl. assert (Hpw : wf W4 p) by (rewrite Forall_forall in TABLE_wf; apply TABLE_wf; exact Hp).
  assert (Hlast : in_net W4 (next_after p - 1) p).
  { destruct p as [b k]. unfold next_after, in_net. cbn [fst snd]. pose proof (blk_pos W4 k). lia. }
  destruct (N.ltb_spec l (snd p)) as [Hlt|Hge].
  - unfold widenings_clean in Hc. rewrite forallb_forall in Hc. specialize (Hc p Hp). rewrite Ho in Hc. cbn [negb orb] in Hc.
    rewrite forallb_forall in Hc. assert (Hin : In l (range 33)) by (apply range_In; lia). specialize (Hc l Hin).
    rewrite (proj2 (N.ltb_lt l (snd p)) Hlt) in Hc. cbn [negb orb] in Hc. apply andb_true_iff in Hc. exact Hc.
  - assert (HW : l <= W4) by (unfold W4; lia). split; rewrite is_global_reserved; apply negb_false_iff; apply reserved_iff; exists p; (split; [exact Hp|]).
    + apply (mk_net_inside_iff W4 (fst p) l p Hpw (in_net_first W4 p) HW). exact Hge.
    + apply (mk_net_inside_iff W4 (next_after p - 1) l p Hpw Hlast HW). exact Hge.
Qed.
End Table.

(* ================================================================================================================ *)
(* C. the table of the running Python                                                                               *)
Definition TABLE4 : list net := SHARED4 :: PRIVATE4.
Lemma TABLE4_wf : Forall (wf W4) TABLE4.
Proof. constructor; [exact SHARED4_wf | exact PRIVATE4_wf]. Qed.
Definition is_private4 : net -> bool := is_private PRIVATE4.
Definition reserved4 : net -> bool := reserved SHARED4 PRIVATE4.
Definition addr_global4 : N -> bool := addr_global SHARED4 PRIVATE4.
Definition classify4 : net -> cls := classify SHARED4 PRIVATE4.
Definition outermost4 : net -> bool := outermost SHARED4 PRIVATE4.

Lemma after_clean4 : after_clean SHARED4 PRIVATE4 = true.
Proof. vm_compute. reflexivity. Qed.
Lemma edges_clean4 : edges_clean SHARED4 PRIVATE4 = true.
Proof. vm_compute. reflexivity. Qed.
Lemma widenings_clean4 : widenings_clean SHARED4 PRIVATE4 = true.
Proof. vm_compute. reflexivity. Qed.
(* exactly one entry is nested in another one: 255.255.255.255/32 lies inside 240.0.0.0/4 *)
Lemma nested_entries4 : filter (fun p => negb (outermost4 p)) TABLE4 = [(4294967295, 32)].
Proof. vm_compute. reflexivity. Qed.

(* what "public" means for a CIDR: the range contains AT LEAST ONE address outside every reserved entry *)
Theorem is_global4_iff_contains n : wf W4 n ->
  (is_global4 n = true <-> exists x, in_net W4 x n /\ forall p, In p TABLE4 -> ~ in_net W4 x p).
Proof.
  intros Hn. split.
  - intros H. destruct (is_global_has_global SHARED4 PRIVATE4 TABLE4_wf n after_clean4 Hn H) as (x & Hx & Hg).
    exists x. split; [exact Hx|]. intros p Hp Hin. apply in_netb_in in Hin.
    rewrite (proj1 (addr_global_iff SHARED4 PRIVATE4 x) Hg p Hp) in Hin. discriminate.
  - intros (x & Hx & H). apply (contains_global_is_global SHARED4 PRIVATE4 n x Hx). apply addr_global_iff. intros p Hp.
    destruct (in_netb W4 x p) eqn:E; [|reflexivity]. exfalso. apply (H p Hp). apply in_netb_in. exact E.
Qed.
(* the 0.0.0.0/0 special case of is_public() is subsumed (it was a workaround for bpo-38655): same sentence *)
Theorem is_public4_iff_contains n g : wf W4 n ->
  (is_public4 (Some n) g = true <-> exists x, in_net W4 x n /\ forall p, In p TABLE4 -> ~ in_net W4 x p).
Proof.
  intros Hn. rewrite <- (is_global4_iff_contains n Hn). unfold is_public4. cbn [is_public]. rewrite orb_true_iff. split; [|tauto].
  intros [Hz|Hg]; [|exact Hg]. apply net_eqb_eq in Hz. subst n. vm_compute. reflexivity.
Qed.

(* the generic laws at the generated table *)
Theorem is_private4_down a b : subnet_of W4 a b = true -> is_private4 b = true -> is_private4 a = true.
Proof. exact (is_private_down PRIVATE4 a b). Qed.
Theorem is_global4_up a b : subnet_of W4 a b = true -> is_global4 a = true -> is_global4 b = true.
Proof. exact (is_global_up SHARED4 PRIVATE4 a b). Qed.
Theorem is_public4_up a b g g' : wf W4 b -> subnet_of W4 a b = true ->
  is_public4 (Some a) g = true -> is_public4 (Some b) g' = true.
Proof. exact (is_public_up SHARED4 PRIVATE4 a b g g'). Qed.
Theorem not_public4_down a b g g' : wf W4 b -> subnet_of W4 a b = true ->
  is_public4 (Some b) g' = false -> is_public4 (Some a) g = false.
Proof. exact (not_public_down SHARED4 PRIVATE4 a b g g'). Qed.

Theorem partition4 n : wf W4 n ->
  (Inside SHARED4 PRIVATE4 n /\ ~ Straddles SHARED4 PRIVATE4 n /\ ~ Disjoint SHARED4 PRIVATE4 n /\ is_global4 n = false) \/
  (~ Inside SHARED4 PRIVATE4 n /\ Straddles SHARED4 PRIVATE4 n /\ ~ Disjoint SHARED4 PRIVATE4 n /\ is_global4 n = true) \/
  (~ Inside SHARED4 PRIVATE4 n /\ ~ Straddles SHARED4 PRIVATE4 n /\ Disjoint SHARED4 PRIVATE4 n /\ is_global4 n = true).
Proof. exact (partition SHARED4 PRIVATE4 TABLE4_wf n). Qed.

Theorem boundaries4 p : In p TABLE4 ->
  (forall x, fst p <= x < next_after p -> addr_global4 x = false) /\
  (outermost4 p = true -> 0 < fst p -> addr_global4 (fst p - 1) = true) /\
  (outermost4 p = true -> next_after p < 2 ^ 32 -> addr_global4 (next_after p) = true).
Proof. exact (boundaries SHARED4 PRIVATE4 p edges_clean4). Qed.
Theorem boundary_lengths4 p l : In p TABLE4 -> outermost4 p = true -> l <= 32 ->
  is_global4 (mk_net W4 (fst p) l) = (l <? snd p) /\ is_global4 (mk_net W4 (next_after p - 1) l) = (l <? snd p).
Proof. exact (boundary_lengths SHARED4 PRIVATE4 TABLE4_wf p l widenings_clean4). Qed.

(* ---- laws that do NOT hold (witnesses by computation) ---- *)
(* private is not upward closed, public / globally routable not downward closed: 10.0.0.0/8 inside 8.0.0.0/6 *)
Theorem is_private4_up_refuted : exists a b, wf W4 a /\ wf W4 b /\ subnet_of W4 a b = true /\
  is_private4 a = true /\ is_private4 b = false /\ is_global4 b = true /\ is_global4 a = false /\
  is_public4 (Some b) false = true /\ is_public4 (Some a) false = false.
Proof. exists (167772160, 8), (134217728, 6). repeat split; vm_compute; try reflexivity; intros; discriminate. Qed.
(* slash-zero is not downward closed *)
Theorem slash_zero_down_refuted : exists a b, wf W4 a /\ wf W4 b /\ subnet_of W4 a b = true /\
  slash_zero_field (Some b) = true /\ slash_zero_field (Some a) = false.
Proof. exists (0, 1), (0, 0). repeat split; vm_compute; try reflexivity; intros; discriminate. Qed.
(* "not private" is not "globally routable": the shared address space 100.64.0.0/10 is neither *)
Theorem private_global_complement_refuted : exists n, wf W4 n /\ is_private4 n = false /\ is_global4 n = false /\
  is_public4 (Some n) false = false.
Proof. exists (1681915904, 10). repeat split; vm_compute; try reflexivity; intros; discriminate. Qed.
(* the boundary law needs "outermost": left of 255.255.255.255/32 lies 255.255.255.254, which is inside 240.0.0.0/4 *)
Theorem boundary_nested_refuted : exists p, In p TABLE4 /\ 0 < fst p /\ addr_global4 (fst p - 1) = false /\ outermost4 p = false.
Proof. exists (4294967295, 32). repeat split; vm_compute; try reflexivity; tauto. Qed.
(* two rules that together cover the whole space: neither is "slash zero" (the predicate speaks about ONE range) *)
Theorem cover_not_additive_refuted : exists a b, wf W4 a /\ wf W4 b /\
  (forall x, x < 2 ^ 32 -> in_net W4 x a \/ in_net W4 x b) /\
  slash_zero_field (Some a) = false /\ slash_zero_field (Some b) = false.
Proof.
  exists (0, 1), (2147483648, 1). split; [apply wfb_wf; vm_compute; reflexivity|]. split; [apply wfb_wf; vm_compute; reflexivity|].
  split; [|split; reflexivity]. intros x Hx. unfold in_net. change (blk W4 1) with 2147483648. change (2 ^ 32) with 4294967296 in Hx. lia.
Qed.

(* ================================================================================================================ *)
(* D. spellings: the predicates see the stored network only, and the stored network is the SET of addresses         *)
Theorem parse4_written x l : x < 2 ^ 32 -> l <= 32 ->
  parse4 (print_addr4 x ++ SLASH :: print_small l) = Ok (mk_net W4 x l).
Proof.
  intros Hx Hl. apply parse4_ok. exists x, l. split; [|reflexivity]. right. exists (print_addr4 x), (print_small l).
  repeat split; [apply print_addr4_quad; exact Hx | apply print_small_no_slash; lia|].
  left. split; [apply print_small_dec; lia | exact Hl].
Qed.
Theorem parse4_written_mask x l : x < 2 ^ 32 -> l <= 32 ->
  parse4 (print_addr4 x ++ SLASH :: print_mask4 l) = Ok (mk_net W4 x l).
Proof.
  intros Hx Hl. rewrite <- parse4_spellings; [apply parse4_written; assumption | | exact Hl].
  eapply dotted_quad_no_slash. apply print_addr4_quad. exact Hx.
Qed.
(* any address of the range may be written: the same network is stored *)
Corollary parse4_any_host_bits x y l : x < 2 ^ 32 -> y < 2 ^ 32 -> l <= 32 -> same_prefix W4 l x y ->
  parse4 (print_addr4 x ++ SLASH :: print_small l) = parse4 (print_addr4 y ++ SLASH :: print_mask4 l).
Proof.
  intros Hx Hy Hl Hp. rewrite parse4_written, parse4_written_mask by assumption. f_equal. apply mk_net_same_prefix. exact Hp.
Qed.

(* two accepted texts that denote the same SET of addresses store the same value, hence NO function of the stored value
   (ipv4_slash_zero, is_public, is_private, is_global, anything added later) can tell them apart *)
Theorem parse4_same_set s1 s2 n1 n2 : parse4 s1 = Ok n1 -> parse4 s2 = Ok n2 ->
  (forall x, in_net W4 x n1 <-> in_net W4 x n2) -> n1 = n2.
Proof. intros H1 H2. apply wf_ext; eapply parse4_wf; eassumption. Qed.
Theorem parse6_same_set s1 s2 n1 n2 : parse6 s1 = Ok n1 -> parse6 s2 = Ok n2 ->
  (forall x, in_net W6 x n1 <-> in_net W6 x n2) -> n1 = n2.
Proof. intros H1 H2. apply wf_ext; eapply parse6_wf; eassumption. Qed.
Corollary spelling_blind4 (A : Type) (P : net -> A) s1 s2 n1 n2 : parse4 s1 = Ok n1 -> parse4 s2 = Ok n2 ->
  (forall x, in_net W4 x n1 <-> in_net W4 x n2) -> P n1 = P n2.
Proof. intros H1 H2 H. rewrite (parse4_same_set s1 s2 n1 n2 H1 H2 H). reflexivity. Qed.
Corollary spelling_blind6 (A : Type) (P : net -> A) s1 s2 n1 n2 : parse6 s1 = Ok n1 -> parse6 s2 = Ok n2 ->
  (forall x, in_net W6 x n1 <-> in_net W6 x n2) -> P n1 = P n2.
Proof. intros H1 H2 H. rewrite (parse6_same_set s1 s2 n1 n2 H1 H2 H). reflexivity. Qed.

(* ================================================================================================================ *)
(* E. the two address families                                                                                      *)
Lemma cidr4_text_chars s x l : cidr4_text s x l -> Forall (fun c => 48 <= c <= 57 \/ c = DOT \/ c = SLASH) s.
Proof.
  assert (Q : forall t y, dotted_quad t y -> Forall (fun c => 48 <= c <= 57 \/ c = DOT \/ c = SLASH) t).
  { intros t y H. eapply Forall_impl; [|eapply dotted_quad_chars; exact H]. cbv beta. intros c [Hc|Hc]; tauto. }
  intros [[Hq _]|(a & m & -> & Hq & _ & Hm)]; [eapply Q; exact Hq|].
  apply Forall_app. split; [eapply Q; exact Hq|]. constructor; [right; right; reflexivity|].
  destruct Hm as [[Hd _]|(k & Hk & _)]; [|eapply Q; exact Hk].
  apply parse_dec_spec in Hd. apply parse_dec_digits in Hd. eapply Forall_impl; [|exact Hd]. cbv beta. intros c Hc. left. exact Hc.
Qed.
Lemma dotted_quad_no_colon a x : dotted_quad a x -> ~ In COLON a.
Proof.
  intros H Hin. apply dotted_quad_chars in H. rewrite Forall_forall in H. specialize (H _ Hin). unfold COLON, DOT in H. lia.
Qed.
(* a bare dotted quad is not an IPv6 address (it would be two groups out of eight) *)
Lemma parse_addr6_quad a x : dotted_quad a x -> parse_addr6 a = None.
Proof.
  intros Hq. pose proof (dotted_quad_no_colon a x Hq) as Hnc. pose proof (dotted_quad_has_dot a x Hq) as Hdot.
  assert (Hcut : cut_dcolon a = None).
  { rewrite <- (app_nil_r a). apply cut_dcolon_app; [exact Hnc | reflexivity]. }
  unfold parse_addr6. rewrite Hcut. unfold side_groups. destruct a as [|c a']; [destruct Hdot|].
  rewrite split_ch_none by exact Hnc. rewrite groups_of_one.
  rewrite (proj2 (has_ch_In DOT (c :: a')) Hdot). apply parse_addr4_spec in Hq. rewrite Hq. reflexivity.
Qed.
(* NO text is accepted by both CIDR fields: what CidrIp / CIDRIP accepts, CidrIpv6 rejects with ValueError *)
Theorem v4_text_not_v6 s n : parse4 s = Ok n -> parse6 s = Err EValue.
Proof.
  intros H. apply parse4_ok in H. destruct H as (x & l & Ht & _). pose proof (cidr4_text_chars s x l Ht) as Hc.
  assert (Hp : has_ch PERCENT s = false).
  { apply has_ch_false. intros Hin. rewrite Forall_forall in Hc. specialize (Hc _ Hin). unfold PERCENT, DOT, SLASH in Hc. lia. }
  unfold parse6. rewrite Hp. assert (Hw : written6 s = None); [|rewrite Hw; reflexivity].
  unfold written6. destruct Ht as [[Hq _]|(a & m & -> & Hq & Hm & _)].
  - rewrite split_ch_none by (eapply dotted_quad_no_slash; exact Hq). rewrite (parse_addr6_quad s x Hq). reflexivity.
  - rewrite split_ch_app by (eapply dotted_quad_no_slash; exact Hq). rewrite split_ch_none by exact Hm.
    rewrite (parse_addr6_quad a x Hq). reflexivity.
Qed.
Corollary v6_text_not_v4 s n : parse6 s = Ok n -> exists e, parse4 s = Err e.
Proof.
  intros H. destruct (parse4_err s) as [E|[m E]]; [exists EValue; exact E|].
  rewrite (v4_text_not_v6 s m E) in H. discriminate.
Qed.

(* ---- IPv4-mapped IPv6: ::ffff:a.b.c.d/(96+l) ---- *)
Definition MAPPED_PREFIX : str := [COLON; COLON; 102; 102; 102; 102; COLON].          (* "::ffff:" *)
Definition mapped_addr (x : N) : N := 65535 * 2 ^ 32 + x.
Definition mapped6 (n : net) : net := (mapped_addr (fst n), 96 + snd n).

Lemma blk_mapped l : blk W6 (96 + l) = blk W4 l.
Proof. unfold blk, W6, W4. f_equal. lia. Qed.
Lemma mapped_mod x l : l <= 32 -> mapped_addr x = x + (65535 * 2 ^ l) * blk W4 l.
Proof. intros Hl. unfold mapped_addr. change (2 ^ 32) with (2 ^ W4). rewrite (blk_divides W4 l) by exact Hl. lia. Qed.

Theorem mapped6_wf n : wf W4 n -> wf W6 (mapped6 n).
Proof.
  destruct n as [a l]. intros (Hl & Ha & Hm). unfold mapped6, wf. cbn [fst snd]. unfold W4, W6 in *. split; [lia|]. split.
  - unfold mapped_addr. change (2 ^ 32) with 4294967296 in *. change (2 ^ 128) with 340282366920938463463374607431768211456. lia.
  - rewrite blk_mapped. rewrite (mapped_mod a l Hl). pose proof (blk_pos W4 l). rewrite N.mod_add by lia. exact Hm.
Qed.
(* it denotes exactly the images of the IPv4 range *)
Theorem mapped6_in n x : in_net W6 (mapped_addr x) (mapped6 n) <-> in_net W4 x n.
Proof. destruct n as [a l]. unfold mapped6, in_net. cbn [fst snd]. rewrite blk_mapped. unfold mapped_addr. lia. Qed.
(* masking commutes with the embedding *)
Lemma mk_net_mapped x l : l <= 32 -> mk_net W6 (mapped_addr x) (96 + l) = mapped6 (mk_net W4 x l).
Proof.
  intros Hl. unfold mk_net, mapped6. cbn [fst snd]. f_equal. rewrite blk_mapped. pose proof (blk_pos W4 l) as Hb.
  rewrite (mapped_mod x l Hl). rewrite N.div_add by lia. rewrite (mapped_mod (x / blk W4 l * blk W4 l) l Hl). lia.
Qed.
(* ipv6_slash_zero() never flags an IPv4-mapped range -- not even ::ffff:0.0.0.0/96, the image of 0.0.0.0/0 *)
Theorem mapped6_not_slash_zero n : slash_zero_field (Some (mapped6 n)) = false.
Proof.
  cbn [slash_zero_field]. rewrite net_eqb_zero. destruct n as [a l]. unfold mapped6, slash_zero. cbn [fst snd].
  replace (96 + l =? 0) with false by (symmetry; apply N.eqb_neq; lia). apply andb_false_r.
Qed.

Lemma hextet_ffff : parse_hextet [102; 102; 102; 102] = Some 65535.
Proof. vm_compute. reflexivity. Qed.
Lemma parse_addr6_mapped x : x < 2 ^ 32 -> parse_addr6 (MAPPED_PREFIX ++ print_addr4 x) = Some (mapped_addr x).
Proof.
  intros Hx. pose proof (print_addr4_quad x Hx) as Hq. set (a := print_addr4 x) in *.
  pose proof (dotted_quad_no_colon a x Hq) as Hnc. pose proof (dotted_quad_has_dot a x Hq) as Hdot.
  unfold parse_addr6, MAPPED_PREFIX. cbn [app]. rewrite cut_dcolon_cons2, N.eqb_refl. cbn [andb].
  change (side_groups false []) with (Some (@nil N)).
  assert (Hs : side_groups true (102 :: 102 :: 102 :: 102 :: COLON :: a) = Some [65535; x / 65536; x mod 65536]).
  { unfold side_groups. change (102 :: 102 :: 102 :: 102 :: COLON :: a) with ([102; 102; 102; 102] ++ COLON :: a).
    rewrite split_ch_app by (unfold COLON; cbn [In]; intros H; repeat (destruct H as [H|H]; [discriminate|]); exact H).
    rewrite split_ch_none by exact Hnc. rewrite groups_of_cons, hextet_ffff, groups_of_one.
    rewrite (proj2 (has_ch_In DOT a) Hdot). apply parse_addr4_spec in Hq. rewrite Hq. reflexivity. }
  rewrite Hs. cbn [length Nat.add Nat.leb Nat.sub repeat app]. f_equal.
  unfold addr_of_groups. cbn [fold_left]. unfold mapped_addr. change (2 ^ 32) with 4294967296.
  pose proof (N.div_mod x 65536). lia.
Qed.
(* the text  ::ffff:a.b.c.d/(96+l)  is accepted by CidrIpv6 and stores the image of the IPv4 network a.b.c.d/l *)
Theorem parse6_mapped x l : x < 2 ^ 32 -> l <= 32 ->
  parse6 (MAPPED_PREFIX ++ print_addr4 x ++ SLASH :: print_small (96 + l)) = Ok (mapped6 (mk_net W4 x l)).
Proof.
  intros Hx Hl. pose proof (print_addr4_quad x Hx) as Hq.
  pose proof (dotted_quad_chars _ _ Hq) as Hac. assert (Hmd : Forall (fun c => 48 <= c <= 57) (print_small (96 + l))) by (apply print_small_digits; lia).
  assert (Hpre : forall c, In c MAPPED_PREFIX -> c = COLON \/ c = 102).
  { unfold MAPPED_PREFIX. cbn [In]. intros c H. repeat (destruct H as [H|H]; [subst c; tauto|]). destruct H. }
  assert (Hall : forall c, In c (MAPPED_PREFIX ++ print_addr4 x) -> c = COLON \/ c = 102 \/ 48 <= c <= 57 \/ c = DOT).
  { intros c H. apply in_app_or in H. destruct H as [H|H]; [destruct (Hpre c H); tauto|].
    rewrite Forall_forall in Hac. specialize (Hac c H). tauto. }
  apply parse6_ok. split.
  - intros Hin. rewrite app_assoc in Hin. apply in_app_or in Hin. destruct Hin as [Hin|[Hin|Hin]].
    + specialize (Hall _ Hin). unfold PERCENT, COLON, DOT in Hall. lia.
    + discriminate Hin.
    + rewrite Forall_forall in Hmd. specialize (Hmd _ Hin). unfold PERCENT in Hmd. lia.
  - exists (mapped_addr x), (96 + l). split; [|symmetry; apply mk_net_mapped; exact Hl].
    unfold written6. rewrite app_assoc. rewrite split_ch_app.
    + rewrite split_ch_none by (apply print_small_no_slash; lia). rewrite (parse_addr6_mapped x Hx).
      assert (Hpl : parse_plen 128 (print_small (96 + l)) = Some (96 + l)).
      { apply parse_plen_spec. split; [apply print_small_dec; lia | lia]. }
      rewrite Hpl. reflexivity.
    + intros Hin. specialize (Hall _ Hin). unfold SLASH, COLON, DOT in Hall. lia.
Qed.
(* together: the whole IPv4 space written as an IPv4-mapped IPv6 CIDR is stored, wf, and NOT reported by ipv6_slash_zero *)
Corollary mapped_whole_v4_space_not_flagged :
  parse6 (MAPPED_PREFIX ++ print_addr4 0 ++ SLASH :: print_small 96) = Ok (mapped6 ZERO) /\
  slash_zero_field (Some (mapped6 ZERO)) = false /\
  (forall x, x < 2 ^ 32 -> in_net W6 (mapped_addr x) (mapped6 ZERO)).
Proof.
  split; [exact (parse6_mapped 0 0 ltac:(reflexivity) ltac:(discriminate))|]. split; [apply mapped6_not_slash_zero|].
  intros x Hx. apply mapped6_in. unfold ZERO, in_net. rewrite (blk_full W4). unfold W4. lia.
Qed.

(* ================================================================================================================ *)
(* F. rule level                                                                                                    *)
(* an EC2 security-group rule (inline, or a stand-alone ingress / egress resource): the two CIDR fields after parsing, and
   whether a source / destination security group or a prefix list is named *)
Record ec2_rule := { r_cidr4 : option net; r_cidr6 : option net; r_group : option str; r_prefix_list : option str }.
Definition rule_v4_zero (r : ec2_rule) : bool := slash_zero_field (r_cidr4 r).
Definition rule_v6_zero (r : ec2_rule) : bool := slash_zero_field (r_cidr6 r).

(* COMPLETE decision table: each predicate reads its own field and nothing else *)
Theorem ec2_rule_table c4 c6 g pl :
  let r := {| r_cidr4 := c4; r_cidr6 := c6; r_group := g; r_prefix_list := pl |} in
  (rule_v4_zero r, rule_v6_zero r) =
  match c4, c6 with
  | None, None => (false, false)                                   (* neither: e.g. a source group or a prefix list only *)
  | Some n, None => (net_eqb n ZERO, false)
  | None, Some m => (false, net_eqb m ZERO)
  | Some n, Some m => (net_eqb n ZERO, net_eqb m ZERO)             (* both: answered independently *)
  end.
Proof. destruct c4, c6; reflexivity. Qed.
(* ... read as sets of addresses *)
Theorem ec2_rule_semantics r : (forall n, r_cidr4 r = Some n -> wf W4 n) -> (forall n, r_cidr6 r = Some n -> wf W6 n) ->
  (rule_v4_zero r = true <-> exists n, r_cidr4 r = Some n /\ forall x, x < 2 ^ 32 -> in_net W4 x n) /\
  (rule_v6_zero r = true <-> exists n, r_cidr6 r = Some n /\ forall x, x < 2 ^ 128 -> in_net W6 x n).
Proof.
  intros H4 H6. unfold rule_v4_zero, rule_v6_zero. split.
  - destruct (r_cidr4 r) as [n|].
    + rewrite (slash_zero_field_iff W4 n (H4 n eq_refl)). split; [intros H; exists n; split; [reflexivity | exact H]|].
      intros (m & E & H). inversion E; subst. exact H.
    + split; [discriminate | intros (m & E & _); discriminate].
  - destruct (r_cidr6 r) as [n|].
    + rewrite (slash_zero_field_iff W6 n (H6 n eq_refl)). split; [intros H; exists n; split; [reflexivity | exact H]|].
      intros (m & E & H). inversion E; subst. exact H.
    + split; [discriminate | intros (m & E & _); discriminate].
Qed.

(* the RDS rule: COMPLETE decision table of is_public().  With a CIDR the source groups are not consulted at all *)
Theorem rds_rule_table SH PR c gname gid :
  is_public_rule SH PR c gname gid =
  match c with
  | Some n => net_eqb n ZERO || is_global SH PR n
  | None => negb (truthy gname || truthy gid)
  end.
Proof. unfold is_public_rule. destruct c; [reflexivity|]. cbn [is_public]. destruct (truthy gname || truthy gid); reflexivity. Qed.
Corollary rds_group_irrelevant_with_cidr SH PR n gname gid gname' gid' :
  is_public_rule SH PR (Some n) gname gid = is_public_rule SH PR (Some n) gname' gid'.
Proof. rewrite !rds_rule_table. reflexivity. Qed.
(* naming a source group never makes a rule public *)
Corollary rds_group_monotone SH PR c gname gid :
  is_public_rule SH PR c gname gid = true -> is_public_rule SH PR c None None = true.
Proof. rewrite !rds_rule_table. destruct c; [tauto | reflexivity]. Qed.
(* a rule with neither CIDR nor source group is public; ADDING a reserved CIDR to it makes it not public: the verdict is not
   monotone in "what the rule lets in" across the absent / present divide *)
Theorem rds_absent_cidr_not_monotone_refuted : exists n, wf W4 n /\
  is_public_rule SHARED4 PRIVATE4 None None None = true /\ is_public_rule SHARED4 PRIVATE4 (Some n) None None = false.
Proof. exists (167772160, 8). split; [apply wfb_wf; vm_compute; reflexivity|]. split; vm_compute; reflexivity. Qed.
