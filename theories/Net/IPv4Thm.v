(* Theorems about the IPv4 text model (Net/IPv4.v). *)
From Coq Require Import List Bool NArith ZArith Lia.
From PV Require Import Base.Str Base.Value Net.Arith Net.NetText Net.IPv4.
Import ListNotations.
Local Open Scope N_scope.

(* ------------------------------------------------------------------------------------------------ *)
(* declarative grammar of the accepted spellings (what the parser is proved against)                 *)

(* "a.b.c.d": four canonical decimal numerals (no leading zeros) below 256 *)
Definition dotted_quad (s : str) (x : N) : Prop :=
  exists a b c d, a < 256 /\ b < 256 /\ c < 256 /\ d < 256 /\
    s = print_small a ++ [DOT] ++ print_small b ++ [DOT] ++ print_small c ++ [DOT] ++ print_small d /\
    x = a * 2 ^ 24 + b * 2 ^ 16 + c * 2 ^ 8 + d.

(* k is the netmask of /l, or (when it is no netmask at all) the hostmask of /l *)
Definition is_mask4 (k l : N) : Prop :=
  l <= 32 /\ (k = netmask4 l \/ (k = hostmask4 l /\ forall j, j <= 32 -> k <> netmask4 j)).

(* the part after '/': a decimal prefix length 0..32, or a dotted netmask / hostmask *)
Definition mask4_text (m : str) (l : N) : Prop :=
  (dec_text m l /\ l <= 32) \/ (exists k, dotted_quad m k /\ is_mask4 k l).

(* a CIDR spelling s writes address x with prefix length l *)
Definition cidr4_text (s : str) (x l : N) : Prop :=
  (dotted_quad s x /\ l = 32) \/
  (exists a m, s = a ++ SLASH :: m /\ dotted_quad a x /\ ~ In SLASH m /\ mask4_text m l).

(* ------------------------------------------------------------------------------------------------ *)
(* octets *)

Lemma some_inj {A} (a b : A) : Some a = Some b -> a = b.
Proof. congruence. Qed.
Lemma ltb_true a b : a < b -> (a <? b) = true. Proof. apply N.ltb_lt. Qed.
Lemma ltb_false a b : b <= a -> (a <? b) = false. Proof. apply N.ltb_ge. Qed.

Lemma parse_octet_sound s v : parse_octet s = Some v -> v < 256 /\ s = print_small v.
Proof.
  destruct s as [|a [|b [|c [|e s']]]]; cbv beta iota delta [parse_octet]; try discriminate.
  - intros H. apply dig_some in H. destruct H as [Hd ->]. split; [lia|].
    unfold print_small. rewrite ltb_true by lia. reflexivity.
  - destruct (dig a) as [x|] eqn:Ea; [|discriminate]. destruct (dig b) as [y|] eqn:Eb; [|discriminate].
    destruct (N.eqb_spec x 0) as [|Hx0]; [discriminate|]. intros H; apply some_inj in H; subst v.
    apply dig_some in Ea. apply dig_some in Eb. destruct Ea as [Hx ->]. destruct Eb as [Hy ->].
    split; [lia|]. unfold print_small. rewrite ltb_false by lia. rewrite ltb_true by lia.
    assert (E1 : (10 * x + y) / 10 = x) by (symmetry; apply N.div_unique with y; lia).
    assert (E2 : (10 * x + y) mod 10 = y) by (symmetry; apply N.mod_unique with x; lia).
    rewrite E1, E2. reflexivity.
  - destruct (dig a) as [x|] eqn:Ea; [|discriminate]. destruct (dig b) as [y|] eqn:Eb; [|discriminate].
    destruct (dig c) as [z|] eqn:Ec; [|discriminate].
    destruct (N.eqb_spec x 0) as [|Hx0]; [discriminate|]. cbv zeta.
    destruct (N.leb_spec (100 * x + 10 * y + z) 255) as [Hle|]; [|discriminate].
    intros H; apply some_inj in H; subst v.
    apply dig_some in Ea. apply dig_some in Eb. apply dig_some in Ec.
    destruct Ea as [Hx ->]. destruct Eb as [Hy ->]. destruct Ec as [Hz ->].
    split; [lia|]. unfold print_small. rewrite !ltb_false by lia.
    assert (E1 : (100 * x + 10 * y + z) / 100 = x) by (symmetry; apply N.div_unique with (10 * y + z); lia).
    assert (E2 : (100 * x + 10 * y + z) / 10 = 10 * x + y) by (symmetry; apply N.div_unique with z; lia).
    assert (E3 : (10 * x + y) mod 10 = y) by (symmetry; apply N.mod_unique with x; lia).
    assert (E4 : (100 * x + 10 * y + z) mod 10 = z) by (symmetry; apply N.mod_unique with (10 * x + y); lia).
    rewrite E1, E2, E3, E4. reflexivity.
Qed.

Lemma octet_roundtrip_check :
  forallb (fun v => match parse_octet (print_small v) with Some m => m =? v | None => false end) (range 256) = true.
Proof. vm_compute. reflexivity. Qed.
Lemma parse_octet_print v : v < 256 -> parse_octet (print_small v) = Some v.
Proof.
  intros H. pose proof (forall_below _ 256 octet_roundtrip_check v H) as C. cbv beta in C.
  destruct (parse_octet (print_small v)); [apply N.eqb_eq in C; subst; reflexivity | discriminate].
Qed.

(* the parser accepts exactly the canonical decimal numerals 0..255: no leading zeros, nothing above 255 *)
Theorem parse_octet_spec s v : parse_octet s = Some v <-> v < 256 /\ s = print_small v.
Proof. split; [apply parse_octet_sound | intros [H ->]; apply parse_octet_print; exact H]. Qed.

Lemma print_small_no_dot v : v < 256 -> ~ In DOT (print_small v).
Proof. intros H. apply print_small_no; [lia | unfold DOT; lia]. Qed.
Lemma print_small_no_slash v : v < 1000 -> ~ In SLASH (print_small v).
Proof. intros H. apply print_small_no; [lia | unfold SLASH; lia]. Qed.

(* ------------------------------------------------------------------------------------------------ *)
(* addresses *)

Lemma quad_value a b c d : ((a * 256 + b) * 256 + c) * 256 + d = a * 2 ^ 24 + b * 2 ^ 16 + c * 2 ^ 8 + d.
Proof. change (2 ^ 24) with 16777216. change (2 ^ 16) with 65536. change (2 ^ 8) with 256. lia. Qed.

Theorem parse_addr4_spec s x : parse_addr4 s = Some x <-> dotted_quad s x.
Proof.
  unfold parse_addr4, dotted_quad. split.
  - pose proof (split_ch_inv DOT s) as Hinv.
    destruct (split_ch DOT s) as [|p1 [|p2 [|p3 [|p4 [|p5 ps]]]]]; try discriminate.
    destruct (parse_octet p1) as [a|] eqn:E1; [|discriminate].
    destruct (parse_octet p2) as [b|] eqn:E2; [|discriminate].
    destruct (parse_octet p3) as [c|] eqn:E3; [|discriminate].
    destruct (parse_octet p4) as [d|] eqn:E4; [|discriminate].
    intros H; apply some_inj in H; subst x.
    apply parse_octet_sound in E1. apply parse_octet_sound in E2. apply parse_octet_sound in E3. apply parse_octet_sound in E4.
    destruct E1 as [Ha ->]. destruct E2 as [Hb ->]. destruct E3 as [Hc ->]. destruct E4 as [Hd ->].
    exists a, b, c, d. repeat split; try assumption.
    + rewrite <- Hinv. reflexivity.
    + apply quad_value.
  - intros (a & b & c & d & Ha & Hb & Hc & Hd & -> & ->).
    change (print_small a ++ [DOT] ++ print_small b ++ [DOT] ++ print_small c ++ [DOT] ++ print_small d)
      with (join [DOT] [print_small a; print_small b; print_small c; print_small d]).
    rewrite split_ch_join; [| discriminate | repeat constructor; apply print_small_no_dot; assumption].
    rewrite !parse_octet_print by assumption. f_equal. apply quad_value.
Qed.

Lemma dotted_quad_bound s x : dotted_quad s x -> x < 2 ^ 32.
Proof.
  intros (a & b & c & d & Ha & Hb & Hc & Hd & _ & ->).
  change (2 ^ 24) with 16777216. change (2 ^ 16) with 65536. change (2 ^ 8) with 256. change (2 ^ 32) with 4294967296. lia.
Qed.
Lemma dotted_quad_chars s x : dotted_quad s x -> Forall (fun c => 48 <= c <= 57 \/ c = DOT) s.
Proof.
  intros (a & b & c & d & Ha & Hb & Hc & Hd & -> & _).
  assert (P : forall v, v < 256 -> Forall (fun c => 48 <= c <= 57 \/ c = DOT) (print_small v)).
  { intros v Hv. eapply Forall_impl; [|apply print_small_digits; lia]. intros; left; assumption. }
  repeat (apply Forall_app; split); try (apply P; assumption); repeat constructor; right; reflexivity.
Qed.
Lemma dotted_quad_no_slash s x : dotted_quad s x -> ~ In SLASH s.
Proof.
  intros H Hin. apply dotted_quad_chars in H. rewrite Forall_forall in H. specialize (H _ Hin).
  unfold SLASH, DOT in H. lia.
Qed.
Lemma dotted_quad_has_dot s x : dotted_quad s x -> In DOT s.
Proof. intros (a & b & c & d & _ & _ & _ & _ & -> & _). apply in_or_app. right. left. reflexivity. Qed.
Lemma dotted_quad_fun s x y : dotted_quad s x -> dotted_quad s y -> x = y.
Proof. intros H1 H2. apply parse_addr4_spec in H1. apply parse_addr4_spec in H2. congruence. Qed.

Lemma octets4_value a : a < 4294967296 ->
  a / 16777216 < 256 /\
  a = (a / 16777216) * 2 ^ 24 + ((a / 65536) mod 256) * 2 ^ 16 + ((a / 256) mod 256) * 2 ^ 8 + a mod 256.
Proof.
  intros Ha.
  assert (E1 : a / 65536 = a / 256 / 256) by (rewrite N.div_div by lia; reflexivity).
  assert (E2 : a / 16777216 = a / 256 / 256 / 256) by (rewrite !N.div_div by lia; reflexivity).
  pose proof (N.div_mod a 256) as D1. pose proof (N.div_mod (a / 256) 256) as D2.
  pose proof (N.div_mod (a / 256 / 256) 256) as D3.
  assert (H1 : a / 16777216 < 256) by (apply N.div_lt_upper_bound; lia).
  split; [exact H1|]. rewrite E1, E2 in *.
  change (2 ^ 24) with 16777216. change (2 ^ 16) with 65536. change (2 ^ 8) with 256.
  lia.
Qed.

Theorem print_addr4_quad a : a < 2 ^ 32 -> dotted_quad (print_addr4 a) a.
Proof.
  change (2 ^ 32) with 4294967296. intros Ha. destruct (octets4_value a Ha) as [H1 H2].
  exists (a / 16777216), ((a / 65536) mod 256), ((a / 256) mod 256), (a mod 256).
  repeat split; try (apply N.mod_lt; lia); [exact H1 | exact H2].
Qed.

Theorem parse_addr4_print a : a < 2 ^ 32 -> parse_addr4 (print_addr4 a) = Some a.
Proof. intros H. apply parse_addr4_spec. apply print_addr4_quad. exact H. Qed.

(* ------------------------------------------------------------------------------------------------ *)
(* masks *)

Lemma mask_net_check : forallb (fun l => match mask_len (netmask4 l) with Some k => k =? l | None => false end) (range 33) = true.
Proof. vm_compute. reflexivity. Qed.
Lemma mask_len_netmask l : l <= 32 -> mask_len (netmask4 l) = Some l.
Proof.
  intros H. assert (Hl : l < N.of_nat 33) by lia. pose proof (forall_below _ 33 mask_net_check l Hl) as C. cbv beta in C.
  destruct (mask_len (netmask4 l)); [apply N.eqb_eq in C; subst; reflexivity | discriminate].
Qed.
Lemma mask_host_check :
  forallb (fun l => match find (fun k => hostmask4 k =? hostmask4 l) (range 33) with Some k => k =? l | None => false end) (range 33) = true.
Proof. vm_compute. reflexivity. Qed.

Lemma find_range_bound f k l : find f (range k) = Some l -> l < N.of_nat k /\ f l = true.
Proof. intros H. apply find_some in H. destruct H as [H1 H2]. split; [apply In_range; exact H1 | exact H2]. Qed.

Theorem mask_len_spec m l : mask_len m = Some l <-> is_mask4 m l.
Proof.
  unfold mask_len, is_mask4. split.
  - destruct (find (fun l0 => netmask4 l0 =? m) (range 33)) as [k|] eqn:E1.
    + intros H; inversion H; subst k. apply find_range_bound in E1. destruct E1 as [Hb He]. apply N.eqb_eq in He.
      split; [lia | left; congruence].
    + intros E2. apply find_range_bound in E2. destruct E2 as [Hb He]. apply N.eqb_eq in He.
      split; [lia | right]. split; [congruence|]. intros j Hj Hm.
      pose proof (find_none _ _ E1 j) as Hn. cbv beta in Hn. rewrite Hm, N.eqb_refl in Hn.
      assert (In j (range 33)) by (apply range_In; lia). specialize (Hn H). discriminate.
  - intros [Hl [->|[-> Hno]]].
    + pose proof (mask_len_netmask l Hl) as H. unfold mask_len in H. exact H.
    + destruct (find (fun l0 => netmask4 l0 =? hostmask4 l) (range 33)) as [k|] eqn:E1.
      * exfalso. apply find_range_bound in E1. destruct E1 as [Hb He]. apply N.eqb_eq in He.
        apply (Hno k); [lia | congruence].
      * assert (Hl' : l < N.of_nat 33) by lia. pose proof (forall_below _ 33 mask_host_check l Hl') as C. cbv beta in C.
        destruct (find (fun k => hostmask4 k =? hostmask4 l) (range 33)); [apply N.eqb_eq in C; subst; reflexivity | discriminate].
Qed.

Lemma mask_hostmask_check :
  forallb (fun l => (l =? 0) || match mask_len (hostmask4 l) with Some k => k =? l | None => false end)
          (range 32) = true.
Proof. vm_compute. reflexivity. Qed.
Lemma mask_len_hostmask l : 0 < l -> l < 32 -> mask_len (hostmask4 l) = Some l.
Proof.
  intros H0 H. assert (Hl : l < N.of_nat 32) by lia. pose proof (forall_below _ 32 mask_hostmask_check l Hl) as C. cbv beta in C.
  apply orb_true_iff in C. destruct C as [C|C]; [apply N.eqb_eq in C; lia|].
  destruct (mask_len (hostmask4 l)); [apply N.eqb_eq in C; subst; reflexivity | discriminate].
Qed.
Lemma mask_len_bound m l : mask_len m = Some l -> l <= 32.
Proof. intros H. apply mask_len_spec in H. destruct H as [H _]. exact H. Qed.
Lemma netmask4_bound l : netmask4 l < 2 ^ 32.
Proof. unfold netmask4. assert (0 < 2 ^ (32 - l)) by (apply N.neq_0_lt_0; apply N.pow_nonzero; discriminate). lia. Qed.
Lemma hostmask4_bound l : hostmask4 l < 2 ^ 32.
Proof. unfold hostmask4. assert (2 ^ (32 - l) <= 2 ^ 32) by (apply N.pow_le_mono_r; lia). assert (0 < 2 ^ (32 - l)) by (apply N.neq_0_lt_0; apply N.pow_nonzero; discriminate). lia. Qed.

Lemma parse_plen_spec maxl s l : parse_plen maxl s = Some l <-> dec_text s l /\ l <= maxl.
Proof.
  unfold parse_plen. split.
  - destruct (parse_dec s) as [v|] eqn:E; [|discriminate]. destruct (N.leb_spec v maxl) as [Hle|Hgt]; [|discriminate].
    intros Hs; apply some_inj in Hs; subst v. split; [apply parse_dec_spec; exact E | assumption].
  - intros [H1 H2]. apply parse_dec_spec in H1. rewrite H1. rewrite (proj2 (N.leb_le l maxl) H2). reflexivity.
Qed.

Theorem parse_mask4_spec m l : parse_mask4 m = Some l <-> mask4_text m l.
Proof.
  unfold parse_mask4, mask4_text. split.
  - destruct (parse_plen 32 m) as [k|] eqn:E.
    + intros H; inversion H; subst k. left. apply parse_plen_spec. exact E.
    + destruct (parse_addr4 m) as [k|] eqn:Ea; [|discriminate]. intros H. right. exists k.
      split; [apply parse_addr4_spec; exact Ea | apply mask_len_spec; exact H].
  - intros [H|(k & Hq & Hm)].
    + apply parse_plen_spec in H. rewrite H. reflexivity.
    + assert (E : parse_plen 32 m = None).
      { unfold parse_plen. rewrite (parse_dec_no DOT m); [reflexivity | eapply dotted_quad_has_dot; exact Hq | unfold DOT; lia]. }
      rewrite E. apply parse_addr4_spec in Hq. rewrite Hq. apply mask_len_spec. exact Hm.
Qed.
Lemma mask4_text_bound m l : mask4_text m l -> l <= 32.
Proof. intros [[_ H]|(k & _ & H & _)]; exact H. Qed.

(* ------------------------------------------------------------------------------------------------ *)
(* whole CIDR texts *)

Theorem written4_spec s x l : written4 s = Some (x, l) <-> cidr4_text s x l.
Proof.
  unfold written4, cidr4_text. split.
  - pose proof (split_ch_inv SLASH s) as Hinv. pose proof (split_ch_pieces SLASH s) as Hp.
    destruct (split_ch SLASH s) as [|a [|m [|p3 ps]]]; try discriminate.
    + destruct (parse_addr4 a) as [y|] eqn:Ea; [|discriminate]. intros Hs. apply some_inj in Hs.
      apply pair_equal_spec in Hs. destruct Hs as [-> <-].
      left. split; [|reflexivity]. cbn [join] in Hinv. rewrite <- Hinv. apply parse_addr4_spec. exact Ea.
    + destruct (parse_addr4 a) as [y|] eqn:Ea; [|discriminate]. destruct (parse_mask4 m) as [k|] eqn:Em; [|discriminate].
      intros Hs. apply some_inj in Hs. apply pair_equal_spec in Hs. destruct Hs as [-> ->]. right. exists a, m.
      apply Forall_inv_tail in Hp. apply Forall_inv in Hp.
      repeat split; [rewrite <- Hinv; reflexivity | apply parse_addr4_spec; exact Ea | exact Hp | apply parse_mask4_spec; exact Em].
  - intros [[Hq ->]|(a & m & -> & Hq & Hm & Ht)].
    + rewrite split_ch_none by (eapply dotted_quad_no_slash; exact Hq).
      apply parse_addr4_spec in Hq. rewrite Hq. reflexivity.
    + rewrite split_ch_app by (eapply dotted_quad_no_slash; exact Hq). rewrite split_ch_none by exact Hm.
      apply parse_addr4_spec in Hq. apply parse_mask4_spec in Ht. rewrite Hq, Ht. reflexivity.
Qed.

Lemma cidr4_text_bounds s x l : cidr4_text s x l -> x < 2 ^ 32 /\ l <= 32.
Proof.
  intros [[Hq ->]|(a & m & _ & Hq & _ & Ht)].
  - split; [eapply dotted_quad_bound; exact Hq | lia].
  - split; [eapply dotted_quad_bound; exact Hq | eapply mask4_text_bound; exact Ht].
Qed.

Lemma parse4_ok s n : parse4 s = Ok n <-> exists x l, cidr4_text s x l /\ n = mk_net W4 x l.
Proof.
  unfold parse4. split.
  - destruct (written4 s) as [[x l]|] eqn:E; [|discriminate]. intros H; inversion H; subst n.
    exists x, l. split; [apply written4_spec; exact E | reflexivity].
  - intros (x & l & Ht & ->). apply written4_spec in Ht. rewrite Ht. reflexivity.
Qed.
Lemma parse4_err s : parse4 s = Err EValue \/ exists n, parse4 s = Ok n.
Proof. unfold parse4. destruct (written4 s) as [[x l]|]; [right; eexists; reflexivity | left; reflexivity]. Qed.

Theorem parse4_wf s n : parse4 s = Ok n -> wf W4 n.
Proof.
  intros H. apply parse4_ok in H. destruct H as (x & l & Ht & ->). apply cidr4_text_bounds in Ht.
  apply mk_net_wf; [apply Ht | apply Ht].
Qed.

(* host bits are masked off *)
Theorem parse4_masked s n : parse4 s = Ok n -> fst n mod 2 ^ (32 - snd n) = 0.
Proof.
  intros H. apply parse4_ok in H. destruct H as (x & l & _ & ->). cbn [snd]. apply (mk_net_masked W4).
Qed.

(* the stored network is exactly the set of addresses that agree with the WRITTEN address on the first (written) l bits *)
Theorem parse4_denotes s n : parse4 s = Ok n ->
  exists x l, cidr4_text s x l /\ snd n = l /\
    forall y, in_net W4 y n <-> same_prefix W4 l y x.
Proof.
  intros H. apply parse4_ok in H. destruct H as (x & l & Ht & ->). exists x, l.
  split; [exact Ht | split; [reflexivity | intros y; apply mk_net_denotes]].
Qed.

(* every accepted spelling gives a network; two spellings that write addresses with the same first l bits and the
   same length give the SAME network *)
Theorem parse4_same_range s1 s2 x1 x2 l :
  cidr4_text s1 x1 l -> cidr4_text s2 x2 l -> same_prefix W4 l x1 x2 -> parse4 s1 = parse4 s2.
Proof.
  intros H1 H2 Hp. apply written4_spec in H1. apply written4_spec in H2. unfold parse4. rewrite H1, H2.
  f_equal. apply mk_net_same_prefix. exact Hp.
Qed.

Lemma print_small_dec l : l < 1000 -> dec_text (print_small l) l.
Proof. intros H. apply parse_dec_spec. apply parse_dec_print_small. exact H. Qed.

(* prefix-length spelling = netmask spelling (= hostmask spelling when 0 < l < 32), for any address text *)
Theorem parse4_spellings a l : ~ In SLASH a -> l <= 32 ->
  parse4 (a ++ SLASH :: print_small l) = parse4 (a ++ SLASH :: print_mask4 l).
Proof.
  intros Ha Hl. unfold parse4, written4.
  assert (Hm : ~ In SLASH (print_mask4 l)) by (eapply dotted_quad_no_slash; apply print_addr4_quad; apply netmask4_bound).
  rewrite !split_ch_app by exact Ha. rewrite split_ch_none by (apply print_small_no_slash; lia). rewrite split_ch_none by exact Hm.
  assert (E1 : parse_mask4 (print_small l) = Some l).
  { apply parse_mask4_spec. left. split; [apply print_small_dec; lia | exact Hl]. }
  assert (E2 : parse_mask4 (print_mask4 l) = Some l).
  { apply parse_mask4_spec. right. exists (netmask4 l). split; [apply print_addr4_quad; apply netmask4_bound|].
    split; [exact Hl | left; reflexivity]. }
  rewrite E1, E2. reflexivity.
Qed.

Theorem parse4_spellings_hostmask a l : ~ In SLASH a -> 0 < l -> l < 32 ->
  parse4 (a ++ SLASH :: print_small l) = parse4 (a ++ SLASH :: print_hostmask4 l).
Proof.
  intros Ha H0 Hl. unfold parse4, written4.
  assert (Hm : ~ In SLASH (print_hostmask4 l)) by (eapply dotted_quad_no_slash; apply print_addr4_quad; apply hostmask4_bound).
  rewrite !split_ch_app by exact Ha. rewrite split_ch_none by (apply print_small_no_slash; lia). rewrite split_ch_none by exact Hm.
  assert (E1 : parse_mask4 (print_small l) = Some l).
  { apply parse_mask4_spec. left. split; [apply print_small_dec; lia | lia]. }
  assert (E2 : parse_mask4 (print_hostmask4 l) = Some l).
  { apply parse_mask4_spec. right. exists (hostmask4 l). split; [apply print_addr4_quad; apply hostmask4_bound|].
    apply mask_len_spec. apply mask_len_hostmask; assumption. }
  rewrite E1, E2. reflexivity.
Qed.

(* no mask = /32 *)
Theorem parse4_bare a x : dotted_quad a x -> parse4 a = parse4 (a ++ SLASH :: print_small 32).
Proof.
  intros Hq. apply (parse4_same_range _ _ x x 32).
  - left. split; [exact Hq | reflexivity].
  - right. exists a, (print_small 32). repeat split; [exact Hq | apply print_small_no_slash; lia|].
    left. split; [apply print_small_dec; lia | lia].
  - reflexivity.
Qed.

(* str() of a network is one of its spellings and parses back to the same network: what resolve() + re-validation does *)
Theorem print4_text n : wf W4 n -> cidr4_text (print4 n) (fst n) (snd n).
Proof.
  destruct n as [a l]. intros (Hl & Ha & _). cbn [fst snd]. unfold print4. cbn [fst snd]. right.
  exists (print_addr4 a), (print_small l). unfold W4 in *.
  repeat split; [apply print_addr4_quad; exact Ha | apply print_small_no_slash; lia|].
  left. split; [apply print_small_dec; lia | exact Hl].
Qed.

Theorem parse4_print4 n : wf W4 n -> parse4 (print4 n) = Ok n.
Proof.
  intros H. apply parse4_ok. exists (fst n), (snd n). split; [apply print4_text; exact H|].
  destruct n as [a l]. cbn [fst snd]. symmetry. apply mk_net_of_wf. exact H.
Qed.

(* re-validation after resolve is the identity on what was stored *)
Theorem parse4_reparse s n : parse4 s = Ok n -> parse4 (print4 n) = Ok n.
Proof. intros H. apply parse4_print4. eapply parse4_wf. exact H. Qed.
