(* Facts about the GENERATED private-network table (gen/PrivateNets.v, rewritten from the running Python on every run),
   re-proved by computation each time, and the table-parametric theorems of Net/Public.v instantiated with it. *)
From Coq Require Import List Bool NArith ZArith Lia.
From PV Require Import Base.Str Base.Value Net.Arith Net.NetText Net.IPv4 Net.IPv6 Net.Public.
From PVGen Require Import PrivateNets.
Import ListNotations.
Local Open Scope N_scope.

(* every entry is a well-formed IPv4 network: prefix length <= 32, address < 2^32, host bits zero *)
Lemma table_wf_check : forallb (wfb W4) (SHARED4 :: PRIVATE4) = true.
Proof. vm_compute. reflexivity. Qed.
Lemma SHARED4_wf : wf W4 SHARED4.
Proof. apply wfb_wf. pose proof table_wf_check as H. cbn [forallb] in H. apply andb_true_iff in H. apply H. Qed.
Lemma PRIVATE4_wf : Forall (wf W4) PRIVATE4.
Proof.
  pose proof table_wf_check as H. cbn [forallb] in H. apply andb_true_iff in H. destruct H as [_ H].
  apply Forall_forall. intros p Hp. apply wfb_wf. rewrite forallb_forall in H. apply H. exact Hp.
Qed.

(* no entry is the whole address space *)
Lemma table_pos_check : forallb (fun q => 0 <? snd q) (SHARED4 :: PRIVATE4) = true.
Proof. vm_compute. reflexivity. Qed.
Lemma table_pos : Forall (fun q => 0 < snd q) (SHARED4 :: PRIVATE4).
Proof.
  apply Forall_forall. intros q Hq. pose proof table_pos_check as H. rewrite forallb_forall in H.
  apply N.ltb_lt. apply H. exact Hq.
Qed.

(* pycfmodel's two constants denote the all-zero /0 networks *)
Lemma zero4_text_check : parse4 ZERO4_TEXT = Ok ZERO.
Proof. vm_compute. reflexivity. Qed.
Lemma zero6_text_check : parse6 ZERO6_TEXT = Ok ZERO.
Proof. vm_compute. reflexivity. Qed.

Definition is_public4 : option net -> bool -> bool := is_public SHARED4 PRIVATE4.
Definition is_global4 : net -> bool := is_global SHARED4 PRIVATE4.

Theorem is_public4_iff cidr g : (forall n, cidr = Some n -> wf W4 n) ->
  (is_public4 cidr g = true <->
     (cidr = None /\ g = false) \/
     (exists n, cidr = Some n /\ (n = ZERO \/ ~ exists p, In p (SHARED4 :: PRIVATE4) /\ inside n p))).
Proof. exact (is_public_iff SHARED4 PRIVATE4 SHARED4_wf PRIVATE4_wf cidr g). Qed.

Theorem private_not_public4 n p g :
  wf W4 n -> In p (SHARED4 :: PRIVATE4) -> inside n p -> is_public4 (Some n) g = false.
Proof. exact (private_not_public' SHARED4 PRIVATE4 SHARED4_wf PRIVATE4_wf n p g table_pos). Qed.
