(* str(ipaddress.IPv6Network) -- the RFC 5952 compressed text, as CPython 3.12 prints it
   (ipaddress._BaseV6._string_from_ip_int + _compress_hextets), and the proof that the model's parser reads it back.

     hex_str = '%032x' % ip_int
     hextets = ['%x' % int(hex_str[x:x+4], 16) for x in range(0, 32, 4)]      -- groups6, hexnz
     hextets = cls._compress_hextets(hextets)                                 -- best_run, compress_hextets
     return ':'.join(hextets)
   and, for a network, '%s/%d' % (network_address, prefixlen).

   The scan for the run of zero hextets is CPython's loop, variable for variable (cstep); the list surgery that puts the
   empty strings in is CPython's too (compress_hextets).  Everything below the line "theorems" is proof. *)
From Coq Require Import List Bool NArith ZArith Lia PeanoNat.
From PV Require Import Base.Str Base.Value Net.Arith Net.NetText Net.IPv4 Net.IPv4Thm Net.IPv6 Net.IPv6Thm.
Import ListNotations.
Local Open Scope N_scope.

(* ------------------------------------------------------------------------------------------------ *)
(* model *)

(* '%x' % v for v < 65536: the four digits of '%04x' without their leading zeros (the last digit always stays) *)
Fixpoint strip0 (s : str) : str :=
  match s with
  | c :: (_ :: _) as t => if c =? 48 then strip0 t else s
  | _ => s
  end.
Definition hexnz (v : N) : str := strip0 (hex4 v).

(* the loop of _compress_hextets.  State = (best_doublecolon_start, best_doublecolon_len, doublecolon_start,
   doublecolon_len); Python's start -1 is None. *)
Definition cstate := (option nat * nat * option nat * nat)%type.
Definition cinit : cstate := (None, 0%nat, None, 0%nat).
Definition cstep (st : cstate) (index : nat) (hextet : N) : cstate :=
  let '(bs, bl, cs, cl) := st in
  if hextet =? 0 then
    let cl' := S cl in                                                    (* doublecolon_len += 1 *)
    let cs' := match cs with None => Some index | Some _ => cs end in     (* if doublecolon_start == -1: ... = index *)
    if Nat.ltb bl cl' then (cs', cl', cs', cl')                           (* if doublecolon_len > best_doublecolon_len *)
    else (bs, bl, cs', cl')
  else (bs, bl, None, 0%nat).
Fixpoint cscan (hextets : list N) (index : nat) (st : cstate) : cstate :=
  match hextets with
  | [] => st
  | h :: rest => cscan rest (S index) (cstep st index h)
  end.
(* (start, length) of the run that will be replaced; used only when the length exceeds 1 *)
Definition best_run (hextets : list N) : option nat * nat :=
  let '(bs, bl, _, _) := cscan hextets 0 cinit in (bs, bl).

(* the tail of _compress_hextets on the list of texts *)
Definition compress_hextets (hs : list str) (bs : option nat) (bl : nat) : list str :=
  match bs with
  | Some b =>
      if Nat.ltb 1 bl then                                                (* if best_doublecolon_len > 1 *)
        let e := (b + bl)%nat in
        let hs1 := if Nat.eqb e (length hs) then hs ++ [[]] else hs in    (* zeros at the end: hextets += [''] *)
        let hs2 := firstn b hs1 ++ [] :: skipn e hs1 in                   (* hextets[start:end] = [''] *)
        if Nat.eqb b 0 then [] :: hs2 else hs2                            (* zeros at the beginning: [''] + hextets *)
      else hs
  | None => hs
  end.

Definition print_groups6 (gs : list N) : str :=
  let '(bs, bl) := best_run gs in join [COLON] (compress_hextets (map hexnz gs) bs bl).
Definition print_addr6 (a : N) : str := print_groups6 (groups6 a).
(* '%s/%d' % (self.network_address, self.prefixlen) *)
Definition print6 (n : net) : str := print_addr6 (fst n) ++ SLASH :: print_small (snd n).

(* ------------------------------------------------------------------------------------------------ *)
(* theorems *)

(* ---- finite facts by computation, over N (no unary numbers) ---- *)
Definition all_below (P : N -> bool) (n : N) : bool := N.peano_rect (fun _ => bool) true (fun k acc => P k && acc) n.
Lemma all_below_spec P n : all_below P n = true -> forall k, k < n -> P k = true.
Proof.
  induction n as [|n IH] using N.peano_ind; intros H k Hk; [lia|].
  unfold all_below in H. rewrite N.peano_rect_succ in H. apply andb_true_iff in H. destruct H as [H1 H2].
  destruct (N.eq_dec k n) as [->|Hne]; [exact H1 | apply IH; [exact H2 | lia]].
Qed.

Definition is_lhex (c : N) : bool := ((48 <=? c) && (c <=? 57)) || ((97 <=? c) && (c <=? 102)).
Definition hexnz_ok (v : N) : bool :=
  match parse_hextet (hexnz v) with Some w => w =? v | None => false end
  && forallb is_lhex (hexnz v)
  && match hexnz v with [] => false | [_] => true | c :: _ => negb (c =? 48) end
  && Nat.leb (length (hexnz v)) 4.
Lemma hexnz_check : all_below hexnz_ok 65536 = true.
Proof. vm_compute. reflexivity. Qed.

Lemma hexnz_facts v : v < B16 -> hexnz_ok v = true.
Proof. intros H. exact (all_below_spec _ _ hexnz_check v H). Qed.

Lemma parse_hextet_hexnz v : v < B16 -> parse_hextet (hexnz v) = Some v.
Proof.
  intros H. pose proof (hexnz_facts v H) as C. unfold hexnz_ok in C. rewrite !andb_true_iff in C.
  destruct C as [[[C _] _] _]. destruct (parse_hextet (hexnz v)); [apply N.eqb_eq in C; subst; reflexivity | discriminate].
Qed.
Lemma hexnz_lhex v : v < B16 -> Forall (fun c => 48 <= c <= 57 \/ 97 <= c <= 102) (hexnz v).
Proof.
  intros H. pose proof (hexnz_facts v H) as C. unfold hexnz_ok in C. rewrite !andb_true_iff in C.
  destruct C as [[[_ C] _] _]. rewrite forallb_forall in C. apply Forall_forall. intros c Hc. specialize (C c Hc).
  unfold is_lhex in C. apply orb_true_iff in C. rewrite !andb_true_iff, !N.leb_le in C. tauto.
Qed.
Lemma hexnz_no c v : v < B16 -> ~ (48 <= c <= 57) -> ~ (97 <= c <= 102) -> ~ In c (hexnz v).
Proof.
  intros Hv N1 N2 Hin. pose proof (hexnz_lhex v Hv) as F. rewrite Forall_forall in F. specialize (F c Hin). tauto.
Qed.
Lemma hexnz_nonnil v : v < B16 -> hexnz v <> [].
Proof.
  intros H. pose proof (hexnz_facts v H) as C. unfold hexnz_ok in C. rewrite !andb_true_iff in C.
  destruct C as [[[_ _] C] _]. destruct (hexnz v); [discriminate C | discriminate].
Qed.
(* no hextet is printed with a leading zero: a text that starts with '0' is the single digit "0" *)
Lemma hexnz_no_leading_zero v : v < B16 -> forall t, hexnz v = 48 :: t -> t = [].
Proof.
  intros H t E. pose proof (hexnz_facts v H) as C. unfold hexnz_ok in C. rewrite !andb_true_iff in C.
  destruct C as [[[_ _] C] _]. rewrite E in C. destruct t as [|d t']; [reflexivity|]. discriminate C.
Qed.
Lemma hexnz_length v : v < B16 -> (1 <= length (hexnz v) <= 4)%nat.
Proof.
  intros H. pose proof (hexnz_nonnil v H) as Hn. pose proof (hexnz_facts v H) as C. unfold hexnz_ok in C.
  rewrite !andb_true_iff in C. destruct C as [_ C]. apply Nat.leb_le in C. destruct (hexnz v); [congruence | cbn [length] in *; lia].
Qed.
Lemma hexnz_zero v : v < B16 -> (hexnz v = [48] <-> v = 0).
Proof.
  intros H. split; [|intros ->; reflexivity]. intros E. pose proof (parse_hextet_hexnz v H) as P. rewrite E in P.
  vm_compute in P. apply some_inj in P. symmetry. exact P.
Qed.

Lemma hexnz_pieces gs : Forall (fun v => v < B16) gs -> Forall (fun p => p <> [] /\ ~ In COLON p) (map hexnz gs).
Proof.
  intros HF. apply Forall_forall. intros p Hp. apply in_map_iff in Hp. destruct Hp as (v & <- & Hv).
  rewrite Forall_forall in HF. specialize (HF v Hv).
  split; [apply hexnz_nonnil; exact HF | apply hexnz_no; [exact HF | unfold COLON; lia | unfold COLON; lia]].
Qed.

Lemma groups_of_hexnz v4 gs : gs <> [] -> Forall (fun v => v < B16) gs -> groups_of v4 (map hexnz gs) = Some gs.
Proof.
  induction gs as [|v gs IH]; [congruence|]. intros _ HF. inversion HF as [|? ? Hv HF']; subst.
  destruct gs as [|w gs'].
  - cbn [map]. rewrite groups_of_one.
    assert (E : has_ch DOT (hexnz v) = false) by (apply has_ch_false; apply hexnz_no; [exact Hv | unfold DOT; lia | unfold DOT; lia]).
    rewrite E, parse_hextet_hexnz by exact Hv. reflexivity.
  - cbn [map]. rewrite groups_of_cons. rewrite parse_hextet_hexnz by exact Hv.
    change (hexnz w :: map hexnz gs') with (map hexnz (w :: gs')). rewrite IH; [reflexivity | discriminate | exact HF'].
Qed.

Lemma side_groups_hexnz v4 gs : Forall (fun v => v < B16) gs -> side_groups v4 (join [COLON] (map hexnz gs)) = Some gs.
Proof.
  intros HF. destruct gs as [|v gs']; [reflexivity|]. set (gs := v :: gs') in *.
  assert (Hne : map hexnz gs <> []) by discriminate.
  pose proof (hexnz_pieces gs HF) as HP.
  destruct (cut_dcolon_join _ Hne HP) as (_ & d & r & Ej & _).
  unfold side_groups. rewrite Ej. rewrite <- Ej.
  rewrite split_ch_join; [| exact Hne | eapply Forall_impl; [|exact HP]; intros p [_ H]; exact H].
  apply groups_of_hexnz; [discriminate | exact HF].
Qed.

(* ---- cutting at the "::" that the printer wrote ---- *)
Lemma cut_dcolon_some_len t l r : cut_dcolon t = Some (l, r) -> exists c d u, t = c :: d :: u.
Proof.
  destruct t as [|c [|d u]]; [discriminate | discriminate |]. intros _. exists c, d, u. reflexivity.
Qed.
Lemma cut_dcolon_prefix p t l r : ~ In COLON p -> cut_dcolon t = Some (l, r) -> cut_dcolon (p ++ t) = Some (p ++ l, r).
Proof.
  induction p as [|c p IH]; intros Hp Ht; [exact Ht|].
  assert (IH' : cut_dcolon (p ++ t) = Some (p ++ l, r)) by (apply IH; [intros F; apply Hp; right; exact F | exact Ht]).
  destruct (cut_dcolon_some_len _ _ _ IH') as (d & d' & u & Eu). cbn [app]. rewrite Eu, cut_dcolon_cons2, <- Eu, IH'.
  assert (Hc : c =? COLON = false) by (apply N.eqb_neq; intros E; apply Hp; left; exact E).
  rewrite Hc. reflexivity.
Qed.
Lemma cut_dcolon_found parts r : Forall (fun p => p <> [] /\ ~ In COLON p) parts ->
  cut_dcolon (join [COLON] parts ++ COLON :: COLON :: r) = Some (join [COLON] parts, r).
Proof.
  induction parts as [|p ps IH]; intros HF; [reflexivity|]. inversion HF as [|? ? [Hne Hnc] HF']; subst.
  destruct ps as [|q ps'].
  - cbn [join]. rewrite (cut_dcolon_prefix p (COLON :: COLON :: r) [] r); [rewrite app_nil_r; reflexivity | exact Hnc | reflexivity].
  - change (join [COLON] (p :: q :: ps')) with (p ++ [COLON] ++ join [COLON] (q :: ps')).
    specialize (IH HF'). set (J := join [COLON] (q :: ps')) in *.
    assert (Hhead : exists d u, J ++ COLON :: COLON :: r = d :: u /\ d <> COLON).
    { destruct (cut_dcolon_join (q :: ps') ltac:(discriminate) HF') as (_ & d & u & Ej & Hd). fold J in Ej.
      exists d, (u ++ COLON :: COLON :: r). rewrite Ej. split; [reflexivity | exact Hd]. }
    destruct Hhead as (d & u & Eu & Hd).
    rewrite <- !app_assoc. apply cut_dcolon_prefix; [exact Hnc|]. cbn [app]. rewrite Eu, cut_dcolon_cons2, <- Eu, IH.
    apply N.eqb_neq in Hd. rewrite Hd, andb_false_r. reflexivity.
Qed.

(* ---- the two shapes of text parse back ---- *)
Lemma parse_addr6_plain gs : Forall (fun v => v < B16) gs -> length gs = 8%nat ->
  parse_addr6 (join [COLON] (map hexnz gs)) = Some (addr_of_groups gs).
Proof.
  intros HF HL. assert (Hne : map hexnz gs <> []) by (destruct gs; [discriminate HL | discriminate]).
  destruct (cut_dcolon_join _ Hne (hexnz_pieces gs HF)) as (Hcut & _).
  unfold parse_addr6. rewrite Hcut, side_groups_hexnz by exact HF. rewrite HL. reflexivity.
Qed.

Lemma parse_addr6_compressed hi k lo : Forall (fun v => v < B16) hi -> Forall (fun v => v < B16) lo ->
  (length hi + k + length lo = 8)%nat -> (1 <= k)%nat ->
  parse_addr6 (join [COLON] (map hexnz hi) ++ COLON :: COLON :: join [COLON] (map hexnz lo))
  = Some (addr_of_groups (hi ++ repeat 0 k ++ lo)).
Proof.
  intros Hh Hl HL Hk. unfold parse_addr6. rewrite cut_dcolon_found by (apply hexnz_pieces; exact Hh).
  rewrite !side_groups_hexnz by assumption.
  assert (E : Nat.leb (length hi + length lo) 7 = true) by (apply Nat.leb_le; lia). rewrite E.
  replace (8 - length hi - length lo)%nat with k by lia. reflexivity.
Qed.

(* ------------------------------------------------------------------------------------------------ *)
(* the scan: specification of best_run, for lists of any length *)

(* positions s .. s+k-1 of the list exist and hold zero hextets *)
Definition zero_run (gs : list N) (s k : nat) : Prop :=
  (s + k <= length gs)%nat /\ forall j, (s <= j < s + k)%nat -> nth j gs 1 = 0.

Lemma cscan_app l1 l2 : forall i st, cscan (l1 ++ l2) i st = cscan l2 (i + length l1)%nat (cscan l1 i st).
Proof.
  induction l1 as [|g l1 IH]; intros i st.
  - cbn [app cscan length]. rewrite Nat.add_0_r. reflexivity.
  - cbn [app cscan length]. rewrite IH. f_equal. lia.
Qed.

Lemma nth_snoc_old (gs : list N) g j : (j < length gs)%nat -> nth j (gs ++ [g]) 1 = nth j gs 1.
Proof. intros H. apply app_nth1. exact H. Qed.
Lemma nth_snoc_last (gs : list N) g : nth (length gs) (gs ++ [g]) 1 = g.
Proof. rewrite app_nth2 by lia. rewrite Nat.sub_diag. reflexivity. Qed.

Lemma zero_run_snoc_old gs g s k : zero_run (gs ++ [g]) s k -> (s + k <= length gs)%nat -> zero_run gs s k.
Proof.
  intros [_ H] HL. split; [exact HL|]. intros j Hj. rewrite <- (nth_snoc_old gs g j) by lia. apply H. exact Hj.
Qed.
Lemma zero_run_snoc_keep gs g s k : zero_run gs s k -> zero_run (gs ++ [g]) s k.
Proof.
  intros [HL H]. split; [rewrite app_length; cbn [length]; lia|]. intros j Hj. rewrite nth_snoc_old by lia. apply H. exact Hj.
Qed.
Lemma zero_run_snoc_last gs g s k : zero_run (gs ++ [g]) s k -> (s + k = S (length gs))%nat -> (0 < k)%nat -> g = 0.
Proof. intros [_ H] HL Hk. rewrite <- (nth_snoc_last gs g). apply H. lia. Qed.

Definition Inv (gs : list N) (st : cstate) : Prop :=
  let '(bs, bl, cs, cl) := st in
  (cl <= length gs)%nat /\ zero_run gs (length gs - cl) cl /\
  ((cl < length gs)%nat -> nth (length gs - cl - 1) gs 1 <> 0) /\
  cs = (if Nat.eqb cl 0 then None else Some (length gs - cl)%nat) /\
  (bl = 0%nat -> bs = None) /\
  ((0 < bl)%nat -> exists b, bs = Some b /\ zero_run gs b bl) /\
  (forall s k, zero_run gs s k -> (k <= bl)%nat /\ ((0 < k)%nat -> k = bl -> exists b, bs = Some b /\ (b <= s)%nat)).

Lemma Inv_init : Inv [] cinit.
Proof.
  unfold Inv, cinit. cbn [length Nat.eqb].
  split; [lia|]. split; [split; [cbn [length]; lia | intros j Hj; lia]|]. split; [intros F; lia|]. split; [reflexivity|].
  split; [reflexivity|]. split; [intros F; lia|].
  intros s k [H _]. cbn [length] in H. split; [lia | intros F; lia].
Qed.

Lemma Inv_step gs st g : Inv gs st -> Inv (gs ++ [g]) (cstep st (length gs) g).
Proof.
  destruct st as [[[bs bl] cs] cl]. unfold Inv. intros (Hcl & Hrun & Hstop & Hcs & Hb0 & Hb1 & Hbest).
  assert (HL : length (gs ++ [g]) = S (length gs)) by (rewrite app_length; cbn [length]; lia).
  set (n := length gs) in *. unfold cstep.
  destruct (N.eqb_spec g 0) as [Eg|Eg].
  - (* a zero hextet: the current run grows *)
    subst g.
    assert (Ecs : match cs with Some _ => cs | None => Some n end = Some (n - cl)%nat).
    { rewrite Hcs. destruct (Nat.eqb_spec cl 0) as [->|Hne]; [rewrite Nat.sub_0_r; reflexivity | reflexivity]. }
    rewrite Ecs.
    assert (Hrun' : zero_run (gs ++ [0]) (n - cl) (S cl)).
    { split; [rewrite HL; lia|]. intros j Hj. destruct (Nat.eq_dec j n) as [->|Hne]; [apply nth_snoc_last|].
      rewrite nth_snoc_old by (fold n; lia). apply Hrun. lia. }
    assert (Hstop' : (S cl < S n)%nat -> nth (S n - S cl - 1) (gs ++ [0]) 1 <> 0).
    { intros H. replace (S n - S cl - 1)%nat with (n - cl - 1)%nat by lia. rewrite nth_snoc_old by (fold n; lia). apply Hstop. lia. }
    (* a run of the longer list that reaches its end is no longer than the current run *)
    assert (Hend : forall s k, zero_run (gs ++ [0]) s k -> (s + k = S n)%nat -> (k <= S cl)%nat).
    { intros s k [_ Hz] Hsk. destruct (Nat.le_gt_cases k (S cl)) as [Hle|Hgt]; [exact Hle | exfalso].
      assert (Hcn : (cl < n)%nat) by lia. apply (Hstop Hcn). rewrite <- (nth_snoc_old gs 0) by (fold n; lia). apply Hz. lia. }
    destruct (Nat.ltb_spec bl (S cl)) as [Hlt|Hge]; rewrite HL.
    + (* new best *)
      replace (S n - S cl)%nat with (n - cl)%nat by lia.
      split; [lia|]. split; [exact Hrun'|]. split; [exact Hstop'|]. split; [reflexivity|].
      split; [intros F; lia|]. split; [intros _; exists (n - cl)%nat; split; [reflexivity | exact Hrun']|].
      intros s k Hz. destruct (Nat.le_gt_cases (s + k) n) as [Hold|Hnew].
      * apply zero_run_snoc_old in Hz; [|exact Hold]. destruct (Hbest s k Hz) as [Hk _]. split; [lia | intros; lia].
      * assert (Hsk : (s + k = S n)%nat) by (destruct Hz as [Hz _]; rewrite HL in Hz; lia).
        pose proof (Hend s k Hz Hsk) as Hk. split; [exact Hk|]. intros _ E. exists (n - cl)%nat. split; [reflexivity | lia].
    + (* the best run stays *)
      replace (S n - S cl)%nat with (n - cl)%nat by lia.
      split; [lia|]. split; [exact Hrun'|]. split; [exact Hstop'|]. split; [reflexivity|].
      split; [intros F; lia|].
      split; [intros Hp; destruct (Hb1 Hp) as (b & Eb & Hz); exists b; split; [exact Eb | apply zero_run_snoc_keep; exact Hz]|].
      intros s k Hz. destruct (Nat.le_gt_cases (s + k) n) as [Hold|Hnew].
      * apply zero_run_snoc_old in Hz; [|exact Hold]. exact (Hbest s k Hz).
      * assert (Hsk : (s + k = S n)%nat) by (destruct Hz as [Hz _]; rewrite HL in Hz; lia).
        pose proof (Hend s k Hz Hsk) as Hk. split; [lia|]. intros _ E.
        assert (Hp : (0 < bl)%nat) by lia. destruct (Hb1 Hp) as (b & Eb & [Hzb _]). exists b. split; [exact Eb | fold n in Hzb; lia].
  - (* a non-zero hextet: the current run ends *)
    rewrite HL. cbn [Nat.eqb]. rewrite Nat.sub_0_r.
    split; [lia|]. split; [split; [rewrite HL; lia | intros j Hj; lia]|].
    split; [intros _; match goal with |- nth ?i _ _ <> _ => replace i with (length gs) by (fold n; lia) end; rewrite nth_snoc_last; exact Eg|].
    split; [reflexivity|]. split; [exact Hb0|].
    split; [intros Hp; destruct (Hb1 Hp) as (b & Eb & Hz); exists b; split; [exact Eb | apply zero_run_snoc_keep; exact Hz]|].
    intros s k Hz. destruct k as [|k']; [split; [lia | intros F; lia]|].
    destruct (Nat.le_gt_cases (s + S k') n) as [Hold|Hnew].
    + apply zero_run_snoc_old in Hz; [|exact Hold]. exact (Hbest s (S k') Hz).
    + exfalso. apply Eg. apply (zero_run_snoc_last gs g s (S k') Hz); [destruct Hz as [Hz _]; rewrite HL in Hz; fold n; lia | lia].
Qed.

Lemma cscan_inv gs : Inv gs (cscan gs 0 cinit).
Proof.
  induction gs as [|g gs IH] using rev_ind; [exact Inv_init|].
  rewrite cscan_app. cbn [cscan Nat.add]. apply Inv_step. exact IH.
Qed.

(* what _compress_hextets finds: nothing when there is no zero hextet; otherwise a run of zeros that is the longest,
   and the leftmost of that length *)
Theorem best_run_spec gs :
  (best_run gs = (None, 0%nat) /\ forall s k, zero_run gs s k -> k = 0%nat) \/
  (exists b l, best_run gs = (Some b, l) /\ (0 < l)%nat /\ zero_run gs b l /\
     forall s k, zero_run gs s k -> (k <= l)%nat /\ (k = l -> (b <= s)%nat)).
Proof.
  pose proof (cscan_inv gs) as H. unfold best_run. destruct (cscan gs 0 cinit) as [[[bs bl] cs] cl].
  unfold Inv in H. destruct H as (_ & _ & _ & _ & Hb0 & Hb1 & Hbest).
  destruct bl as [|bl'].
  - left. rewrite Hb0 by reflexivity. split; [reflexivity|]. intros s k Hz. destruct (Hbest s k Hz) as [Hk _]. lia.
  - right. destruct (Hb1 ltac:(lia)) as (b & -> & Hz). exists b, (S bl'). split; [reflexivity|]. split; [lia|]. split; [exact Hz|].
    intros s k Hz'. destruct (Hbest s k Hz') as [Hk Hl]. split; [exact Hk|]. intros E.
    destruct (Hl ltac:(lia) E) as (b' & Eb & Hle). inversion Eb; subst. exact Hle.
Qed.

(* ------------------------------------------------------------------------------------------------ *)
(* a zero run cuts the list in three *)

Lemma zero_run_tail g gs s k : zero_run (g :: gs) (S s) k -> zero_run gs s k.
Proof.
  intros [HL H]. cbn [length] in HL. split; [lia|]. intros j Hj. specialize (H (S j) ltac:(lia)). exact H.
Qed.
Lemma zero_run_head g gs k : zero_run (g :: gs) 0 (S k) -> g = 0 /\ zero_run gs 0 k.
Proof.
  intros [HL H]. cbn [length] in HL. split; [exact (H 0%nat ltac:(lia))|]. split; [lia|].
  intros j Hj. exact (H (S j) ltac:(lia)).
Qed.
Lemma zero_run_split gs : forall s k, zero_run gs s k -> exists hi lo, gs = hi ++ repeat 0 k ++ lo /\ length hi = s.
Proof.
  induction gs as [|g gs IH]; intros s k Hz.
  - destruct Hz as [HL _]. cbn [length] in HL. assert (s = 0%nat) by lia. assert (k = 0%nat) by lia. subst.
    exists [], []. split; reflexivity.
  - destruct s as [|s'].
    + destruct k as [|k'].
      * exists [], (g :: gs). split; reflexivity.
      * apply zero_run_head in Hz. destruct Hz as [-> Hz]. destruct (IH 0%nat k' Hz) as (hi & lo & E & HL).
        destruct hi; [|discriminate HL]. exists [], lo. cbn [app] in *. split; [cbn [repeat app]; rewrite <- E; reflexivity | reflexivity].
    + apply zero_run_tail in Hz. destruct (IH s' k Hz) as (hi & lo & E & HL). exists (g :: hi), lo.
      split; [cbn [app]; rewrite <- E; reflexivity | cbn [length]; rewrite HL; reflexivity].
Qed.
Lemma zero_run_of_split (hi lo : list N) k : zero_run (hi ++ repeat 0 k ++ lo) (length hi) k.
Proof.
  split; [rewrite !app_length, repeat_length; lia|]. intros j Hj. rewrite app_nth2 by lia. rewrite app_nth1 by (rewrite repeat_length; lia).
  apply (repeat_spec k 0). apply nth_In. rewrite repeat_length. lia.
Qed.

(* ---- the list surgery of _compress_hextets, then ':'.join, is   hi "::" lo ---- *)
Lemma join_cons2 (d p q : str) ps : join d (p :: q :: ps) = p ++ d ++ join d (q :: ps).
Proof. reflexivity. Qed.
Lemma join_app (d : str) A B : A <> [] -> B <> [] -> join d (A ++ B) = join d A ++ d ++ join d B.
Proof.
  induction A as [|a A IH]; [congruence|]. intros _ HB. destruct A as [|a' A'].
  - destruct B as [|b B']; [congruence|]. reflexivity.
  - change ((a :: a' :: A') ++ B) with (a :: a' :: (A' ++ B)). rewrite !join_cons2.
    change (a' :: A' ++ B) with ((a' :: A') ++ B). rewrite IH by (try discriminate; exact HB). rewrite <- !app_assoc. reflexivity.
Qed.
Lemma firstn_exact {A} (H X : list A) : firstn (length H) (H ++ X) = H.
Proof. induction H as [|h H IH]; [destruct X; reflexivity | cbn [length app firstn]; rewrite IH; reflexivity]. Qed.
Lemma skipn_exact {A} (H X : list A) : skipn (length H) (H ++ X) = X.
Proof. induction H as [|h H IH]; [reflexivity | cbn [length app skipn]; exact IH]. Qed.

Lemma compress_join (H Z L : list str) : (1 < length Z)%nat ->
  join [COLON] (compress_hextets (H ++ Z ++ L) (Some (length H)) (length Z)) =
  join [COLON] H ++ COLON :: COLON :: join [COLON] L.
Proof.
  intros HZ. unfold compress_hextets. apply Nat.ltb_lt in HZ. rewrite HZ.
  set (X := match L with [] => [[]] | _ => L end : list str).
  assert (HX : X <> []) by (unfold X; destruct L; discriminate).
  assert (JX : join [COLON] X = join [COLON] L) by (unfold X; destruct L; reflexivity).
  assert (E1 : (if Nat.eqb (length H + length Z) (length (H ++ Z ++ L))
                then (H ++ Z ++ L) ++ [[]] else H ++ Z ++ L) = H ++ Z ++ X).
  { rewrite !app_length. unfold X. destruct L as [|l0 L'].
    - cbn [length]. rewrite Nat.add_0_r, Nat.eqb_refl. rewrite app_nil_r, <- app_assoc. reflexivity.
    - assert (E : Nat.eqb (length H + length Z) (length H + (length Z + length (l0 :: L'))) = false)
        by (apply Nat.eqb_neq; cbn [length]; lia).
      rewrite E. reflexivity. }
  rewrite E1. rewrite firstn_exact.
  assert (E2 : skipn (length H + length Z) (H ++ Z ++ X) = X).
  { rewrite app_assoc, <- app_length. apply skipn_exact. }
  rewrite E2. destruct H as [|h H'].
  - cbn [length Nat.eqb app]. destruct X as [|x X']; [congruence|]. rewrite !join_cons2. cbn [app join]. rewrite <- JX. reflexivity.
  - cbn [length Nat.eqb]. rewrite join_app by discriminate. destruct X as [|x X']; [congruence|]. rewrite join_cons2, <- JX. reflexivity.
Qed.

(* ---- the text of an address: no "::" when no two neighbouring hextets are zero; otherwise  hi "::" lo  where the run
        dropped is at least two hextets long, is the longest run of zero hextets, and the leftmost of that length ---- *)
Theorem print_groups6_shape gs :
  ((forall s k, zero_run gs s k -> (k <= 1)%nat) /\ print_groups6 gs = join [COLON] (map hexnz gs)) \/
  (exists hi k lo, gs = hi ++ repeat 0 k ++ lo /\ (2 <= k)%nat /\
     print_groups6 gs = join [COLON] (map hexnz hi) ++ COLON :: COLON :: join [COLON] (map hexnz lo) /\
     forall s k', zero_run gs s k' -> (k' <= k)%nat /\ (k' = k -> (length hi <= s)%nat)).
Proof.
  unfold print_groups6. destruct (best_run_spec gs) as [[E Hnone] | (b & l & E & Hl & Hz & Hbest)]; rewrite E.
  - left. split; [intros s k H; rewrite (Hnone s k H); lia | reflexivity].
  - destruct (Nat.le_gt_cases l 1) as [Hle|Hgt].
    + left. split; [intros s k H; destruct (Hbest s k H); lia|].
      unfold compress_hextets. assert (F : Nat.ltb 1 l = false) by (apply Nat.ltb_ge; exact Hle). rewrite F. reflexivity.
    + right. destruct (zero_run_split gs b l Hz) as (hi & lo & Egs & Hb). exists hi, l, lo.
      split; [exact Egs|]. split; [lia|]. split.
      * rewrite Egs at 1. rewrite !map_app. subst b.
        rewrite <- (map_length hexnz hi). rewrite <- (repeat_length 0 l) at 2. rewrite <- (map_length hexnz (repeat 0 l)).
        apply compress_join. rewrite map_length, repeat_length. lia.
      * subst b. exact Hbest.
Qed.

(* ------------------------------------------------------------------------------------------------ *)
(* the printed address parses back *)

Lemma Forall_app_inv {A} (P : A -> Prop) l1 l2 : Forall P (l1 ++ l2) -> Forall P l1 /\ Forall P l2.
Proof. intros H. apply Forall_app in H. exact H. Qed.

Theorem parse_addr6_print_groups6 gs : Forall (fun v => v < B16) gs -> length gs = 8%nat ->
  parse_addr6 (print_groups6 gs) = Some (addr_of_groups gs).
Proof.
  intros HF HL. destruct (print_groups6_shape gs) as [[_ E] | (hi & k & lo & Egs & Hk & E & _)]; rewrite E.
  - apply parse_addr6_plain; assumption.
  - rewrite Egs in HF, HL. apply Forall_app_inv in HF. destruct HF as [Hh HF]. apply Forall_app_inv in HF. destruct HF as [_ Hlo].
    rewrite !app_length, repeat_length in HL. rewrite Egs. apply parse_addr6_compressed; [exact Hh | exact Hlo | lia | lia].
Qed.

Theorem parse_addr6_print_addr6 a : a < 2 ^ 128 -> parse_addr6 (print_addr6 a) = Some a.
Proof.
  intros Ha. destruct (groups6_value a Ha) as [HF Hval]. unfold print_addr6.
  rewrite parse_addr6_print_groups6; [f_equal; exact Hval | exact HF | reflexivity].
Qed.

(* the characters of the text: ':' and lower-case hex digits *)
Lemma print_groups6_chars gs c : Forall (fun v => v < B16) gs -> In c (print_groups6 gs) ->
  c = COLON \/ 48 <= c <= 57 \/ 97 <= c <= 102.
Proof.
  intros HF Hin.
  assert (Hj : forall l, Forall (fun v => v < B16) l -> In c (join [COLON] (map hexnz l)) -> c = COLON \/ 48 <= c <= 57 \/ 97 <= c <= 102).
  { intros l Hl H. apply in_join in H. destruct H as [E|(p & Hp & Hc)]; [left; exact E | right].
    apply in_map_iff in Hp. destruct Hp as (v & <- & Hv). rewrite Forall_forall in Hl. specialize (Hl v Hv).
    pose proof (hexnz_lhex v Hl) as F. rewrite Forall_forall in F. exact (F c Hc). }
  destruct (print_groups6_shape gs) as [[_ E] | (hi & k & lo & Egs & _ & E & _)]; rewrite E in Hin.
  - exact (Hj gs HF Hin).
  - rewrite Egs in HF. apply Forall_app_inv in HF. destruct HF as [Hh HF]. apply Forall_app_inv in HF. destruct HF as [_ Hlo].
    apply in_app_or in Hin. destruct Hin as [Hin|[Hin|[Hin|Hin]]]; [exact (Hj hi Hh Hin) | left; symmetry; exact Hin | left; symmetry; exact Hin | exact (Hj lo Hlo Hin)].
Qed.
Lemma print_addr6_no c a : a < 2 ^ 128 -> c <> COLON -> ~ (48 <= c <= 57) -> ~ (97 <= c <= 102) -> ~ In c (print_addr6 a).
Proof.
  intros Ha Hc N1 N2 Hin. destruct (groups6_value a Ha) as [HF _]. destruct (print_groups6_chars _ c HF Hin) as [E|[E|E]]; tauto.
Qed.

(* the through-a-reference clause with the REAL text: str(IPv6Network) of every network reads back as that network *)
Theorem parse6_print6 n : wf W6 n -> parse6 (print6 n) = Ok n.
Proof.
  destruct n as [a l]. intros (Hl & Ha & Hm). unfold W6 in *. apply parse6_ok. unfold print6. cbn [fst snd].
  assert (NS : ~ In SLASH (print_addr6 a)) by (apply print_addr6_no; [exact Ha | discriminate | unfold SLASH; lia | unfold SLASH; lia]).
  split.
  - intros Hin. apply in_app_or in Hin. destruct Hin as [Hin|[E|Hin]].
    + revert Hin. apply print_addr6_no; [exact Ha | discriminate | unfold PERCENT; lia | unfold PERCENT; lia].
    + discriminate.
    + revert Hin. apply print_small_no; [lia | unfold PERCENT; lia].
  - exists a, l. split.
    + unfold written6. rewrite split_ch_app by exact NS. rewrite split_ch_none by (apply print_small_no_slash; lia).
      rewrite parse_addr6_print_addr6 by exact Ha.
      assert (E : parse_plen 128 (print_small l) = Some l) by (apply parse_plen_spec; split; [apply print_small_dec; lia | exact Hl]).
      rewrite E. reflexivity.
    + symmetry. apply mk_net_of_wf. repeat split; assumption.
Qed.

Theorem parse6_reparse_print6 s n : parse6 s = Ok n -> parse6 (print6 n) = Ok n.
Proof. intros H. apply parse6_print6. eapply parse6_wf. exact H. Qed.

(* the compressed and the uncompressed text of a network denote the same network *)
Theorem parse6_print6_print6_full n : wf W6 n -> parse6 (print6 n) = parse6 (print6_full n).
Proof. intros H. rewrite parse6_print6, parse6_print6_full by exact H. reflexivity. Qed.

(* ------------------------------------------------------------------------------------------------ *)
(* canonical form (RFC 5952 section 4) *)

(* 4.1 / 4.3: every hextet is written in lower case without leading zeros, and is the hextet *)
Theorem hexnz_canonical v : v < B16 ->
  parse_hextet (hexnz v) = Some v /\ (1 <= length (hexnz v) <= 4)%nat /\
  Forall (fun c => 48 <= c <= 57 \/ 97 <= c <= 102) (hexnz v) /\ (forall t, hexnz v = 48 :: t -> t = []).
Proof.
  intros H. split; [apply parse_hextet_hexnz; exact H|]. split; [apply hexnz_length; exact H|].
  split; [apply hexnz_lhex; exact H | apply hexnz_no_leading_zero; exact H].
Qed.

(* 4.2: the shape theorem for an address *)
Theorem print_addr6_shape a :
  let gs := groups6 a in
  ((forall s k, zero_run gs s k -> (k <= 1)%nat) /\ print_addr6 a = join [COLON] (map hexnz gs)) \/
  (exists hi k lo, gs = hi ++ repeat 0 k ++ lo /\ (2 <= k)%nat /\
     print_addr6 a = join [COLON] (map hexnz hi) ++ COLON :: COLON :: join [COLON] (map hexnz lo) /\
     forall s k', zero_run gs s k' -> (k' <= k)%nat /\ (k' = k -> (length hi <= s)%nat)).
Proof. exact (print_groups6_shape (groups6 a)). Qed.

Lemma cut_dcolon_present t r : cut_dcolon (t ++ COLON :: COLON :: r) <> None.
Proof.
  induction t as [|c t IH]; [discriminate|]. cbn [app].
  destruct (t ++ COLON :: COLON :: r) as [|d u] eqn:Et; [destruct t; discriminate Et|].
  rewrite cut_dcolon_cons2. destruct ((c =? COLON) && (d =? COLON)); [discriminate|].
  destruct (cut_dcolon (d :: u)) as [[l r']|]; [discriminate | congruence].
Qed.

(* at most one "::", and never ":::" -- on the text itself: what precedes the first "::" and what follows it hold no
   "::", what precedes does not end and what follows does not begin with ':' *)
Theorem print_addr6_one_dcolon a l r : a < 2 ^ 128 -> cut_dcolon (print_addr6 a) = Some (l, r) ->
  cut_dcolon l = None /\ cut_dcolon r = None /\ (forall t, r <> COLON :: t) /\ (forall t, l <> t ++ [COLON]) /\
  print_addr6 a = l ++ COLON :: COLON :: r.
Proof.
  intros Ha Hcut. destruct (groups6_value a Ha) as [HF _]. unfold print_addr6 in *.
  assert (Hside : forall gs, Forall (fun v => v < B16) gs ->
            cut_dcolon (join [COLON] (map hexnz gs)) = None /\ (forall t, join [COLON] (map hexnz gs) <> COLON :: t) /\
            (forall t, join [COLON] (map hexnz gs) <> t ++ [COLON])).
  { intros gs Hgs. destruct gs as [|v gs'].
    - cbn [map join]. split; [reflexivity|]. split; [discriminate | intros t E; destruct t; discriminate E].
    - assert (Hne : map hexnz (v :: gs') <> []) by discriminate.
      destruct (cut_dcolon_join _ Hne (hexnz_pieces _ Hgs)) as (Hc & d & u & Ej & Hd).
      split; [exact Hc|]. split; [intros t E; rewrite Ej in E; inversion E; congruence|].
      intros t E.
      (* a text ending in ':' followed by ":x" would hold "::" -- but pieces joined by single colons do not *)
      assert (Hgs2 : Forall (fun w => w < B16) ((v :: gs') ++ [0])) by (apply Forall_app; split; [exact Hgs | repeat constructor]).
      assert (Hne2 : map hexnz ((v :: gs') ++ [0]) <> []) by discriminate.
      destruct (cut_dcolon_join _ Hne2 (hexnz_pieces _ Hgs2)) as (Hc2 & _).
      rewrite map_app, join_app in Hc2 by discriminate. rewrite E in Hc2. cbn [map join] in Hc2.
      rewrite <- app_assoc in Hc2. cbn [app] in Hc2.
      exact (cut_dcolon_present _ _ Hc2). }
  destruct (print_groups6_shape (groups6 a)) as [[_ E] | (hi & k & lo & Egs & _ & E & _)]; rewrite E in *.
  - destruct (Hside _ HF) as (Hc & _). congruence.
  - rewrite Egs in HF. apply Forall_app_inv in HF. destruct HF as [Hh HF]. apply Forall_app_inv in HF. destruct HF as [_ Hlo].
    rewrite cut_dcolon_found in Hcut by (apply hexnz_pieces; exact Hh). inversion Hcut; subst l r.
    destruct (Hside hi Hh) as (H1 & _ & H3). destruct (Hside lo Hlo) as (H4 & H5 & _).
    split; [exact H1|]. split; [exact H4|]. split; [exact H5|]. split; [exact H3 | reflexivity].
Qed.

(* when there is no "::" in the text, the address has no two neighbouring zero hextets *)
Theorem print_addr6_no_dcolon a : cut_dcolon (print_addr6 a) = None ->
  forall s k, zero_run (groups6 a) s k -> (k <= 1)%nat.
Proof.
  intros Hcut. destruct (print_addr6_shape a) as [[H _] | (hi & k & lo & Egs & _ & E & _)]; [exact H|].
  exfalso. rewrite E in Hcut.
  exact (cut_dcolon_present _ _ Hcut).
Qed.

(* on the text itself: cut at the colons, every piece is empty (next to the "::") or a hextet without leading zeros *)
Lemma in_firstn {A} n (l : list A) x : In x (firstn n l) -> In x l.
Proof. revert l; induction n as [|n IH]; intros [|y l] H; try contradiction. cbn [firstn] in H. destruct H as [H|H]; [left; exact H | right; apply IH; exact H]. Qed.
Lemma in_skipn {A} n (l : list A) x : In x (skipn n l) -> In x l.
Proof. revert l; induction n as [|n IH]; intros [|y l] H; try contradiction; try exact H. right. apply IH. exact H. Qed.
Lemma compress_hextets_pieces hs bs bl p : In p (compress_hextets hs bs bl) -> p = [] \/ In p hs.
Proof.
  unfold compress_hextets. destruct bs as [b|]; [|intros H; right; exact H].
  destruct (Nat.ltb 1 bl); [|intros H; right; exact H].
  set (hs1 := if Nat.eqb (b + bl) (length hs) then hs ++ [[]] else hs).
  assert (H1 : forall q, In q hs1 -> q = [] \/ In q hs).
  { unfold hs1. destruct (Nat.eqb (b + bl) (length hs)); [|intros q H; right; exact H].
    intros q H. apply in_app_or in H. destruct H as [H|[H|[]]]; [right; exact H | left; symmetry; exact H]. }
  assert (H2 : In p (firstn b hs1 ++ [] :: skipn (b + bl) hs1) -> p = [] \/ In p hs).
  { intros H. apply in_app_or in H. destruct H as [H|[H|H]]; [apply H1; eapply in_firstn; exact H | left; symmetry; exact H | apply H1; eapply in_skipn; exact H]. }
  destruct (Nat.eqb b 0); [intros [H|H]; [left; symmetry; exact H | exact (H2 H)] | exact H2].
Qed.
Lemma compress_hextets_nonnil hs bs bl : hs <> [] -> compress_hextets hs bs bl <> [].
Proof.
  intros Hn. unfold compress_hextets. destruct bs as [b|]; [|exact Hn]. destruct (Nat.ltb 1 bl); [|exact Hn].
  destruct (Nat.eqb b 0); [discriminate|]. intros E. apply app_eq_nil in E. destruct E as [_ E]. discriminate E.
Qed.
Theorem print_addr6_pieces a : a < 2 ^ 128 ->
  Forall (fun p => p = [] \/ exists v, v < B16 /\ p = hexnz v) (split_ch COLON (print_addr6 a)).
Proof.
  intros Ha. destruct (groups6_value a Ha) as [HF _]. unfold print_addr6, print_groups6.
  destruct (best_run (groups6 a)) as [bs bl].
  assert (HP : Forall (fun p => p = [] \/ exists v, v < B16 /\ p = hexnz v) (compress_hextets (map hexnz (groups6 a)) bs bl)).
  { apply Forall_forall. intros p Hp. apply compress_hextets_pieces in Hp. destruct Hp as [E|Hp]; [left; exact E | right].
    apply in_map_iff in Hp. destruct Hp as (v & <- & Hv). rewrite Forall_forall in HF. exists v. split; [exact (HF v Hv) | reflexivity]. }
  rewrite split_ch_join; [exact HP | apply compress_hextets_nonnil; discriminate|].
  eapply Forall_impl; [|exact HP]. intros p [->|(v & Hv & ->)]; [intros [] | apply hexnz_no; [exact Hv | unfold COLON; lia | unfold COLON; lia]].
Qed.

(* distinct networks have distinct texts *)
Theorem print6_inj n m : wf W6 n -> wf W6 m -> print6 n = print6 m -> n = m.
Proof.
  intros Hn Hm E. pose proof (parse6_print6 n Hn) as P. rewrite E, (parse6_print6 m Hm) in P. inversion P. reflexivity.
Qed.
