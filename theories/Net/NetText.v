(* Text helpers shared by the IPv4 and IPv6 parsers: str.split on one character, ASCII decimal, finite-range checks. *)
From Coq Require Import List Bool NArith ZArith Lia.
From PV Require Import Base.Str.
Import ListNotations.
Local Open Scope N_scope.

Definition DOT : N := 46.
Definition SLASH : N := 47.
Definition COLON : N := 58.
Definition PERCENT : N := 37.

(* ---- Python's s.split(c) for a one-character separator: always at least one piece ---- *)
Fixpoint split_ch (c : N) (s : str) : list str :=
  match s with
  | [] => [[]]
  | x :: s' =>
      if x =? c then [] :: split_ch c s'
      else match split_ch c s' with h :: t => (x :: h) :: t | [] => [[x]] end
  end.

Definition has_ch (c : N) (s : str) : bool := existsb (N.eqb c) s.
Lemma has_ch_In c s : has_ch c s = true <-> In c s.
Proof.
  unfold has_ch. rewrite existsb_exists. split.
  - intros (x & Hx & E). apply N.eqb_eq in E. subst. exact Hx.
  - intros H. exists c. split; [exact H | apply N.eqb_refl].
Qed.
Lemma has_ch_false c s : has_ch c s = false <-> ~ In c s.
Proof. rewrite <- has_ch_In. destruct (has_ch c s); split; congruence. Qed.

Lemma split_ch_nonnil c s : split_ch c s <> [].
Proof. destruct s as [|x s]; simpl; [discriminate|]. destruct (x =? c); [discriminate|]. destruct (split_ch c s); discriminate. Qed.

Lemma split_ch_none c s : ~ In c s -> split_ch c s = [s].
Proof.
  induction s as [|x s IH]; simpl; intros H; [reflexivity|].
  destruct (N.eqb_spec x c) as [E|E]; [exfalso; apply H; left; exact E|].
  rewrite IH by tauto. reflexivity.
Qed.

Lemma split_ch_app c s1 s2 : ~ In c s1 -> split_ch c (s1 ++ c :: s2) = s1 :: split_ch c s2.
Proof.
  induction s1 as [|x s1 IH]; simpl; intros H.
  - rewrite N.eqb_refl. reflexivity.
  - destruct (N.eqb_spec x c) as [E|E]; [exfalso; apply H; left; exact E|].
    rewrite IH by tauto. reflexivity.
Qed.

Lemma split_ch_join c parts : parts <> [] -> Forall (fun p => ~ In c p) parts -> split_ch c (join [c] parts) = parts.
Proof.
  induction parts as [|p ps IH]; [congruence|]. intros _ HF. inversion HF as [|? ? Hp Hps]; subst.
  destruct ps as [|q ps'].
  - simpl. apply split_ch_none. exact Hp.
  - change (join [c] (p :: q :: ps')) with (p ++ [c] ++ join [c] (q :: ps')).
    simpl app. rewrite split_ch_app by exact Hp. f_equal. apply IH; [discriminate | exact Hps].
Qed.

(* splitting loses nothing: the pieces joined by the separator are the text, and no piece holds the separator *)
Lemma split_ch_inv c s : join [c] (split_ch c s) = s.
Proof.
  induction s as [|x s IH]; [reflexivity|]. simpl.
  destruct (N.eqb_spec x c) as [E|E].
  - subst x. pose proof (split_ch_nonnil c s) as Hn. destruct (split_ch c s) as [|h t] eqn:Es; [congruence|].
    change (join [c] ([] :: h :: t)) with ([] ++ [c] ++ join [c] (h :: t)). rewrite IH. reflexivity.
  - pose proof (split_ch_nonnil c s) as Hn. destruct (split_ch c s) as [|h t] eqn:Es; [congruence|].
    destruct t as [|h' t'].
    + simpl in *. subst. reflexivity.
    + change (join [c] ((x :: h) :: h' :: t')) with ((x :: h) ++ [c] ++ join [c] (h' :: t')).
      change (join [c] (h :: h' :: t')) with (h ++ [c] ++ join [c] (h' :: t')) in IH.
      rewrite <- IH. reflexivity.
Qed.
Lemma split_ch_pieces c s : Forall (fun p => ~ In c p) (split_ch c s).
Proof.
  induction s as [|x s IH]; simpl; [constructor; [tauto | constructor]|].
  destruct (N.eqb_spec x c) as [E|E]; [constructor; [tauto | exact IH]|].
  destruct (split_ch c s) as [|h t]; [constructor; [simpl; intros [F|[]]; congruence | constructor]|].
  inversion IH; subst. constructor; [simpl; intros [F|F]; [congruence | tauto] | assumption].
Qed.

(* ---- ASCII decimal ---- *)
Definition dig (c : N) : option N := if (48 <=? c) && (c <=? 57) then Some (c - 48) else None.
Lemma dig_some c d : dig c = Some d <-> d < 10 /\ c = 48 + d.
Proof.
  unfold dig. destruct ((48 <=? c) && (c <=? 57)) eqn:E.
  - apply andb_true_iff in E. destruct E as [E1 E2]. apply N.leb_le in E1. apply N.leb_le in E2.
    split; [intros H; inversion H; subst; lia | intros [H1 H2]; f_equal; lia].
  - apply andb_false_iff in E. split; [discriminate|]. intros [H1 H2]. exfalso.
    destruct E as [E|E]; [apply N.leb_gt in E | apply N.leb_gt in E]; lia.
Qed.
Lemma dig_of d : d < 10 -> dig (48 + d) = Some d.
Proof. intros H. apply dig_some. split; [exact H | reflexivity]. Qed.

Fixpoint dec_go (acc : N) (s : str) : option N :=
  match s with
  | [] => Some acc
  | c :: s' => match dig c with Some d => dec_go (10 * acc + d) s' | None => None end
  end.
(* str.isascii() and str.isdigit() and then int(s): non-empty, ASCII digits only, leading zeros allowed *)
Definition parse_dec (s : str) : option N := match s with [] => None | _ => dec_go 0 s end.

(* declarative reading of a decimal numeral (leading zeros allowed) *)
Inductive dec_text : str -> N -> Prop :=
| dec_one d : d < 10 -> dec_text [48 + d] d
| dec_snoc s v d : dec_text s v -> d < 10 -> dec_text (s ++ [48 + d]) (10 * v + d).

Lemma dec_go_app acc s c : dec_go acc (s ++ [c]) =
  match dec_go acc s with Some v => match dig c with Some d => Some (10 * v + d) | None => None end | None => None end.
Proof.
  revert acc; induction s as [|x s IH]; intros acc; simpl.
  - destruct (dig c); reflexivity.
  - destruct (dig x); [apply IH | reflexivity].
Qed.

Lemma parse_dec_snoc s c : parse_dec (s ++ [c]) = dec_go 0 (s ++ [c]).
Proof. destruct s; reflexivity. Qed.

Lemma parse_dec_spec s v : parse_dec s = Some v <-> dec_text s v.
Proof.
  split.
  - revert v. induction s as [|c s IH] using rev_ind; intros v H; [discriminate|].
    rewrite parse_dec_snoc, dec_go_app in H. destruct (dec_go 0 s) as [w|] eqn:Eg; [|discriminate].
    destruct (dig c) as [d|] eqn:Ed; [|discriminate]. inversion H; subst. apply dig_some in Ed. destruct Ed as [Hd ->].
    destruct s as [|y s'].
    + simpl in Eg. inversion Eg; subst. simpl. replace (10 * 0 + d) with d by lia. constructor. exact Hd.
    + constructor; [apply IH; unfold parse_dec; exact Eg | exact Hd].
  - induction 1 as [d Hd | s v d Hs IH Hd].
    + unfold parse_dec. cbn [dec_go]. rewrite dig_of by exact Hd. f_equal.
    + rewrite parse_dec_snoc, dec_go_app. assert (Eg : dec_go 0 s = Some v).
      { destruct s; [inversion Hs; match goal with H : _ ++ _ = [] |- _ => destruct (app_cons_not_nil _ _ _ (eq_sym H)) end | exact IH]. }
      rewrite Eg, dig_of by exact Hd. reflexivity.
Qed.

Lemma dec_go_digits acc s v : dec_go acc s = Some v -> Forall (fun c => 48 <= c <= 57) s.
Proof.
  revert acc; induction s as [|c s IH]; intros acc H; [constructor|]. simpl in H.
  destruct (dig c) as [d|] eqn:Ed; [|discriminate]. apply dig_some in Ed. constructor; [lia | eapply IH; exact H].
Qed.
Lemma parse_dec_digits s v : parse_dec s = Some v -> Forall (fun c => 48 <= c <= 57) s.
Proof. unfold parse_dec. destruct s; [discriminate|]. apply dec_go_digits. Qed.
Lemma parse_dec_no c s : In c s -> ~ (48 <= c <= 57) -> parse_dec s = None.
Proof.
  intros Hin Hc. destruct (parse_dec s) eqn:E; [|reflexivity]. exfalso.
  apply parse_dec_digits in E. rewrite Forall_forall in E. apply Hc. apply E. exact Hin.
Qed.

(* canonical decimal (no leading zeros) of a number below 1000 -- Python's str(int) on that range *)
Definition print_small (n : N) : str :=
  if n <? 10 then [48 + n]
  else if n <? 100 then [48 + n / 10; 48 + n mod 10]
  else [48 + n / 100; 48 + (n / 10) mod 10; 48 + n mod 10].

(* ---- finite ranges, for facts checked by computation ---- *)
Definition range (k : nat) : list N := map N.of_nat (seq 0 k).
Lemma range_In k n : n < N.of_nat k -> In n (range k).
Proof.
  intros H. unfold range. apply in_map_iff. exists (N.to_nat n). split; [apply N2Nat.id|].
  apply in_seq. lia.
Qed.
Lemma In_range k n : In n (range k) -> n < N.of_nat k.
Proof. unfold range. intros H. apply in_map_iff in H. destruct H as (m & <- & Hm). apply in_seq in Hm. lia. Qed.
Lemma forall_below (P : N -> bool) k : forallb P (range k) = true -> forall n, n < N.of_nat k -> P n = true.
Proof. intros H n Hn. rewrite forallb_forall in H. apply H. apply range_In. exact Hn. Qed.

Definition is_digit (c : N) : bool := (48 <=? c) && (c <=? 57).

Lemma small_roundtrip_check :
  forallb (fun n => match parse_dec (print_small n) with Some m => m =? n | None => false end) (range 1000) = true.
Proof. vm_compute. reflexivity. Qed.
Lemma parse_dec_print_small n : n < 1000 -> parse_dec (print_small n) = Some n.
Proof.
  intros H. pose proof (forall_below _ 1000 small_roundtrip_check n H) as C. cbv beta in C.
  destruct (parse_dec (print_small n)); [apply N.eqb_eq in C; subst; reflexivity | discriminate].
Qed.
Lemma small_digits_check : forallb (fun n => forallb is_digit (print_small n)) (range 1000) = true.
Proof. vm_compute. reflexivity. Qed.
Lemma print_small_digits n : n < 1000 -> Forall (fun c => 48 <= c <= 57) (print_small n).
Proof.
  intros H. pose proof (forall_below _ 1000 small_digits_check n H) as C. cbv beta in C.
  rewrite forallb_forall in C. apply Forall_forall. intros c Hc. specialize (C c Hc).
  unfold is_digit in C. apply andb_true_iff in C. rewrite !N.leb_le in C. exact C.
Qed.
Lemma print_small_no c n : n < 1000 -> ~ (48 <= c <= 57) -> ~ In c (print_small n).
Proof. intros H Hc Hin. pose proof (print_small_digits n H) as F. rewrite Forall_forall in F. apply Hc. apply F. exact Hin. Qed.
(* print_small is Python's str(int) as modelled in Base/Str.v *)
Lemma small_is_str_of_Z_check : forallb (fun n => str_eqb (print_small n) (str_of_Z (Z.of_N n))) (range 1000) = true.
Proof. vm_compute. reflexivity. Qed.
Lemma print_small_str_of_Z n : n < 1000 -> print_small n = str_of_Z (Z.of_N n).
Proof. intros H. apply str_eqb_spec. exact (forall_below _ 1000 small_is_str_of_Z_check n H). Qed.
