(* DBSecurityGroupIngressProp.is_public and the two slash-zero predicates, over an ARBITRARY table of
   private/shared networks (the table of the running Python is generated into gen/PrivateNets.v and instantiated in
   Net/PublicTable.v). *)
From Coq Require Import List Bool NArith ZArith Lia.
From PV Require Import Base.Str Base.Value Net.Arith Net.NetText Net.IPv4.
Import ListNotations.
Local Open Scope N_scope.

Definition ZERO : net := (0, 0).              (* 0.0.0.0/0 and ::/0 *)

(* ipv4_slash_zero / ipv6_slash_zero on an optional field: absent -> False, else equality with the /0 network *)
Definition slash_zero_field (cidr : option net) : bool :=
  match cidr with None => false | Some n => net_eqb n ZERO end.
Lemma net_eqb_zero n : net_eqb n ZERO = slash_zero n.
Proof. destruct n as [a l]. reflexivity. Qed.

(* true exactly when the stored network is the entire W-bit address space; false when the property is absent *)
Theorem slash_zero_field_iff W n : wf W n ->
  (slash_zero_field (Some n) = true <-> forall x, x < 2 ^ W -> in_net W x n).
Proof. intros H. cbn [slash_zero_field]. rewrite net_eqb_zero. apply slash_zero_iff. exact H. Qed.
Theorem slash_zero_field_absent : slash_zero_field None = false.
Proof. reflexivity. Qed.
(* ... and when it is false some address of the space is outside the network *)
Theorem slash_zero_field_false W n : wf W n -> slash_zero_field (Some n) = false -> exists x, x < 2 ^ W /\ ~ in_net W x n.
Proof. intros H. cbn [slash_zero_field]. rewrite net_eqb_zero. apply slash_zero_false_witness. exact H. Qed.

(* Python truthiness of an optional string: None and "" are falsy *)
Definition truthy (o : option str) : bool := match o with Some (_ :: _) => true | _ => false end.

Section Public.
Variable SHARED : net.            (* 100.64.0.0/10 in Python 3.12.1 *)
Variable PRIV : list net.         (* ipaddress._IPv4Constants._private_networks *)

(* _BaseNetwork.is_private: first and last address inside one and the same table entry *)
Definition is_private (n : net) : bool := existsb (subnet_of W4 n) PRIV.
(* IPv4Network.is_global *)
Definition is_global (n : net) : bool := negb (subnet_of W4 n SHARED) && negb (is_private n).

Definition is_public (cidr : option net) (has_group : bool) : bool :=
  match cidr with
  | None => if has_group then false else true
  | Some n => net_eqb n ZERO || is_global n
  end.
Definition is_public_rule (cidr : option net) (group_name group_id : option str) : bool :=
  is_public cidr (truthy group_name || truthy group_id).

(* "lies inside p": every address of n is an address of p *)
Definition inside (n p : net) : Prop := forall x, in_net W4 x n -> in_net W4 x p.

Hypothesis SHARED_wf : wf W4 SHARED.
Hypothesis PRIV_wf : Forall (wf W4) PRIV.

Lemma inside_iff n p : wf W4 n -> wf W4 p -> (subnet_of W4 n p = true <-> inside n p).
Proof. intros Hn Hp. unfold inside. apply subnet_of_iff; assumption. Qed.

Lemma table_wf p : In p (SHARED :: PRIV) -> wf W4 p.
Proof. intros [<-|H]; [exact SHARED_wf | rewrite Forall_forall in PRIV_wf; apply PRIV_wf; exact H]. Qed.

Lemma is_global_iff n : wf W4 n ->
  (is_global n = true <-> ~ exists p, In p (SHARED :: PRIV) /\ inside n p).
Proof.
  intros Hn. unfold is_global, is_private. rewrite andb_true_iff, !negb_true_iff. split.
  - intros [H1 H2] (p & [<-|Hp] & Hin).
    + apply (inside_iff n SHARED Hn SHARED_wf) in Hin. congruence.
    + assert (W : wf W4 p) by (apply table_wf; right; exact Hp).
      apply (inside_iff n p Hn W) in Hin.
      assert (E : existsb (subnet_of W4 n) PRIV = true) by (apply existsb_exists; exists p; split; assumption). congruence.
  - intros H. split.
    + destruct (subnet_of W4 n SHARED) eqn:E; [|reflexivity]. exfalso. apply H. exists SHARED.
      split; [left; reflexivity | apply (inside_iff n SHARED Hn SHARED_wf); exact E].
    + destruct (existsb (subnet_of W4 n) PRIV) eqn:E; [|reflexivity]. exfalso. apply H.
      apply existsb_exists in E. destruct E as (p & Hp & E). exists p. split; [right; exact Hp|].
      apply (inside_iff n p Hn); [apply table_wf; right; exact Hp | exact E].
Qed.

(* the property sentence, read off the model *)
Theorem is_public_iff cidr g : (forall n, cidr = Some n -> wf W4 n) ->
  (is_public cidr g = true <->
     (cidr = None /\ g = false) \/
     (exists n, cidr = Some n /\ (n = ZERO \/ ~ exists p, In p (SHARED :: PRIV) /\ inside n p))).
Proof.
  intros Hwf. destruct cidr as [n|]; cbn [is_public].
  - rewrite orb_true_iff, net_eqb_eq, (is_global_iff n (Hwf n eq_refl)). split.
    + intros H. right. exists n. split; [reflexivity | exact H].
    + intros [[H _]|(m & E & H)]; [discriminate | inversion E; subst; exact H].
  - split.
    + destruct g; [discriminate | intros _; left; split; reflexivity].
    + intros [[_ ->]|(m & E & _)]; [reflexivity | discriminate].
Qed.

Theorem private_not_public n p g : wf W4 n -> In p (SHARED :: PRIV) -> inside n p -> n <> ZERO ->
  is_public (Some n) g = false.
Proof.
  intros Hn Hp Hin Hz. destruct (is_public (Some n) g) eqn:E; [|reflexivity]. exfalso.
  apply (is_public_iff (Some n) g) in E; [|intros m Hm; inversion Hm; subst; exact Hn].
  destruct E as [[E _]|(m & E & [->|H])]; [discriminate | inversion E; subst; congruence|].
  inversion E; subst. apply H. exists p. split; assumption.
Qed.

(* when no table entry is the whole space, "inside a private range" alone excludes /0 *)
Theorem private_not_public' n p g : Forall (fun q => 0 < snd q) (SHARED :: PRIV) ->
  wf W4 n -> In p (SHARED :: PRIV) -> inside n p -> is_public (Some n) g = false.
Proof.
  intros Hpos Hn Hp Hin. apply (private_not_public n p g Hn Hp Hin). intros ->.
  rewrite Forall_forall in Hpos. specialize (Hpos p Hp). pose proof (table_wf p Hp) as W.
  destruct p as [b k]. cbn [snd] in Hpos. destruct W as (Hk & Hb & _).
  unfold inside, ZERO, in_net in Hin.
  assert (P : 0 < 2 ^ W4) by (apply N.neq_0_lt_0; apply N.pow_nonzero; discriminate).
  pose proof (blk_lt W4 k Hpos Hk) as Hlt. rewrite (blk_full W4) in Hin.
  pose proof (Hin 0) as H0. pose proof (Hin (2 ^ W4 - 1)) as H1. lia.
Qed.

Theorem public_when_no_cidr g : is_public None g = negb g.
Proof. destruct g; reflexivity. Qed.
End Public.
