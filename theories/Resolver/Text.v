(* Text-level pieces of the resolver: UTF-8 + base64 (Fn::Base64), the SSM dynamic-reference scanner,
   the Fn::Sub placeholder tokenizer, integer literals. *)
From Coq Require Import List Bool NArith ZArith Lia.
From PV Require Import Base.Str Resolver.Consts.
Import ListNotations.
Local Open Scope N_scope.

(* ---- UTF-8 (code points below the surrogate range / above it; the harness never sends surrogates) ---- *)
Definition utf8_cp (c : N) : list N :=
  if c <? 128 then [c]
  else if c <? 2048 then [192 + c / 64; 128 + c mod 64]
  else if c <? 65536 then [224 + c / 4096; 128 + (c / 64) mod 64; 128 + c mod 64]
  else [240 + c / 262144; 128 + (c / 4096) mod 64; 128 + (c / 64) mod 64; 128 + c mod 64].
Definition utf8 (s : str) : list N := flat_map utf8_cp s.

(* ---- base64 ---- *)
Definition b64_char (n : N) : N :=
  if n <? 26 then 65 + n else if n <? 52 then 97 + (n - 26) else if n <? 62 then 48 + (n - 52)
  else if n =? 62 then 43 else 47.
Fixpoint b64encode (bs : list N) : str :=
  match bs with
  | [] => []
  | [a] => [b64_char (a / 4); b64_char ((a mod 4) * 16); 61; 61]
  | [a; b] => [b64_char (a / 4); b64_char ((a mod 4) * 16 + b / 16); b64_char ((b mod 16) * 4); 61]
  | a :: b :: c :: rest =>
      b64_char (a / 4) :: b64_char ((a mod 4) * 16 + b / 16) :: b64_char ((b mod 16) * 4 + c / 64)
      :: b64_char (c mod 64) :: b64encode rest
  end.

(* ---- character classes ---- *)
Definition is_digit (c : N) : bool := (48 <=? c) && (c <=? 57).
Definition is_alpha (c : N) : bool := ((65 <=? c) && (c <=? 90)) || ((97 <=? c) && (c <=? 122)).
(* non-ASCII code points the harness may use together with their \w-ness (checked against `re` by the harness) *)
Definition WORD_EXTRA : list N := [233; 20013; 12354].   (* e-acute, CJK zhong, hiragana a *)
Definition is_word (c : N) : bool :=
  is_alpha c || is_digit c || (c =? 95) || existsb (N.eqb c) WORD_EXTRA.
Definition is_ssm_name_char (c : N) : bool :=
  is_alpha c || is_digit c || (c =? 95) || (c =? 46) || (c =? 47) || (c =? 45).

Fixpoint span (f : N -> bool) (s : str) : str * str :=
  match s with
  | [] => ([], [])
  | c :: r => if f c then let '(a, b) := span f r in (c :: a, b) else ([], s)
  end.
Lemma span_app f s : fst (span f s) ++ snd (span f s) = s.
Proof. induction s as [|c r IH]; simpl; [reflexivity|]. destruct (f c); [destruct (span f r); simpl in *; congruence | reflexivity]. Qed.
Lemma span_length f s : (length (snd (span f s)) <= length s)%nat.
Proof. induction s as [|c r IH]; simpl; [lia|]. destruct (f c); [destruct (span f r); simpl in *; lia | simpl; lia]. Qed.

Fixpoint strip_prefix (p s : str) : option str :=
  match p, s with
  | [], _ => Some s
  | x :: p', y :: s' => if x =? y then strip_prefix p' s' else None
  | _ :: _, [] => None
  end.

(* CONTAINS_SSM_PARAMETER.match: "{{resolve:ssm:" name ":" digits "}}" as a PREFIX of the string *)
Definition ssm_key (s : str) : option str :=
  match strip_prefix S_SSM_PREFIX s with
  | None => None
  | Some r =>
      let '(name, r1) := span is_ssm_name_char r in
      match name, r1 with
      | _ :: _, 58 :: r2 =>
          let '(ver, r3) := span is_digit r2 in
          match ver, r3 with
          | _ :: _, 125 :: 125 :: _ => Some (name ++ 58 :: ver)
          | _, _ => None
          end
      | _, _ => None
      end
  end.

(* ---- Fn::Sub placeholders:  ${name}  and  ${!name}  with name = one or more of [\w:] ---- *)
Inductive stok := TText (c : N) | TVar (name : str) | TBang (name : str).
Definition is_name_char (c : N) : bool := is_word c || (c =? 58).

Definition placeholder_at (s : str) : option (stok * str) :=
  match s with
  | c0 :: c1 :: r =>
      if (c0 =? 36) && (c1 =? 123) then
        let bang := match r with c2 :: _ => c2 =? 33 | [] => false end in
        let r0 := if bang then tl r else r in
        let '(name, r1) := span is_name_char r0 in
        match name, r1 with
        | _ :: _, c3 :: r2 => if c3 =? 125 then Some (if bang then TBang name else TVar name, r2) else None
        | _, _ => None
        end
      else None
  | _ => None
  end.

Fixpoint sub_tokens_go (fuel : nat) (s : str) : list stok :=
  match fuel with
  | O => map TText s
  | S f =>
      match s with
      | [] => []
      | c :: r =>
          match placeholder_at s with
          | Some (t, rest) => t :: sub_tokens_go f rest
          | None => TText c :: sub_tokens_go f r
          end
      end
  end.
Definition sub_tokens (s : str) : list stok := sub_tokens_go (length s) s.

(* ---- integer literals accepted for Fn::Select indices: optional sign, ASCII digits ---- *)
Fixpoint digits_val (acc : N) (s : str) : option N :=
  match s with
  | [] => Some acc
  | c :: r => if is_digit c then digits_val (acc * 10 + (c - 48)) r else None
  end.
Definition parse_int (s : str) : option Z :=
  match s with
  | 45 :: (_ :: _) => option_map (fun n => Z.opp (Z.of_N n)) (digits_val 0 (tl s))
  | 43 :: (_ :: _) => option_map Z.of_N (digits_val 0 (tl s))
  | _ :: _ => option_map Z.of_N (digits_val 0 s)
  | [] => None
  end.
