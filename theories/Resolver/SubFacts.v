(* Facts about Fn::Sub tokenisation / substitution and about the undefined-reference placeholders. *)
From Coq Require Import List Bool NArith ZArith Lia.
From PV Require Import Base.Str Base.Value Resolver.Consts Resolver.Text Resolver.Resolve Resolver.Spec.
Import ListNotations.
Local Open Scope N_scope.

(* the source text of a token *)
Definition tok_src (t : stok) : str :=
  match t with
  | TText c => [c]
  | TVar n => 36 :: 123 :: n ++ [125]
  | TBang n => 36 :: 123 :: 33 :: n ++ [125]
  end.

Lemma span_spec f s a b : span f s = (a, b) -> s = a ++ b /\ forallb f a = true /\ match b with [] => True | c :: _ => f c = false end.
Proof.
  revert a b; induction s as [|c r IH]; intros a b H; simpl in H.
  - inv H. repeat split; auto.
  - destruct (f c) eqn:Ec.
    + destruct (span f r) as [a' b'] eqn:Es. inv H. destruct (IH a' b eq_refl) as (E & F & G).
      subst r. repeat split; auto. simpl. rewrite Ec. exact F.
    + inv H. repeat split; auto.
Qed.

Lemma placeholder_at_src s t rest : placeholder_at s = Some (t, rest) -> s = tok_src t ++ rest.
Proof.
  unfold placeholder_at. destruct s as [|c0 [|c1 r]]; try discriminate.
  destruct ((c0 =? 36) && (c1 =? 123)) eqn:E01; [|discriminate].
  apply andb_true_iff in E01. destruct E01 as [E0 E1]. apply N.eqb_eq in E0, E1. subst c0 c1.
  cbv zeta.
  remember (match r with c2 :: _ => c2 =? 33 | [] => false end) as bang eqn:Hbang.
  match goal with |- context [span ?f ?x] => destruct (span f x) as [name r1] eqn:Es end.
  destruct name as [|n0 name]; [discriminate|].
  destruct r1 as [|c3 r2]; [discriminate|].
  destruct (c3 =? 125) eqn:E3; [|discriminate]. apply N.eqb_eq in E3. subst c3.
  intros H. inv H. apply span_spec in Es. destruct Es as (E & _ & _).
  destruct r as [|c2 r']; simpl in *.
  - discriminate E.
  - destruct (c2 =? 33) eqn:E2; simpl in *.
    + apply N.eqb_eq in E2. subst c2 r'. rewrite <- app_assoc. reflexivity.
    + rewrite E. simpl. rewrite <- app_assoc. reflexivity.
Qed.

(* tokenisation is a partition of the text: nothing is lost, duplicated or reordered *)
Lemma sub_tokens_go_partition fuel : forall s, concat (map tok_src (sub_tokens_go fuel s)) = s.
Proof.
  induction fuel as [|f IH]; intros s; simpl.
  - induction s as [|c r IHs]; simpl; [reflexivity | rewrite IHs; reflexivity].
  - destruct s as [|c r]; [reflexivity|].
    destruct (placeholder_at (c :: r)) as [[t rest]|] eqn:Ep.
    + simpl. rewrite IH. symmetry. apply placeholder_at_src. exact Ep.
    + simpl. rewrite IH. reflexivity.
Qed.
Theorem sub_tokens_partition text : concat (map tok_src (sub_tokens text)) = text.
Proof. apply sub_tokens_go_partition. Qed.

(* substitution = render every token once, left to right, and concatenate *)
Lemma render_toks_spec e custom ts r :
  render_toks e custom ts = Ok r <->
  exists pieces, Forall2 (fun t p => render_tok e custom t = Ok p) ts pieces /\ r = concat pieces.
Proof.
  revert r; induction ts as [|t ts IH]; intros r; simpl.
  - split.
    + intros H; inv H. exists []. split; [constructor | reflexivity].
    + intros (pieces & F & ->). inv F. reflexivity.
  - split.
    + intros H. bind_inv. inv H. destruct (proj1 (IH a0) eq_refl) as (ps & F & ->).
      exists (a :: ps). split; [constructor; assumption | reflexivity].
    + intros (pieces & F & ->). inv F. rewrite H1. simpl.
      rewrite (proj2 (IH (concat l')) (ex_intro _ l' (conj H3 eq_refl))). reflexivity.
Qed.

Theorem sub_once e text custom r :
  do_sub e text custom = Ok (VStr r) <->
  exists pieces, Forall2 (fun t p => render_tok e custom t = Ok p) (sub_tokens text) pieces /\ r = concat pieces.
Proof.
  unfold do_sub. rewrite <- render_toks_spec. split.
  - intros H. bind_inv. inv H. reflexivity.
  - intros ->. reflexivity.
Qed.

(* literal text is copied, ${!name} becomes ${name}, a bound ${name} becomes its rendered value, an unbound one stays *)
Lemma render_text e custom c : render_tok e custom (TText c) = Ok [c].
Proof. reflexivity. Qed.
Lemma render_bang e custom n : render_tok e custom (TBang n) = Ok (36 :: 123 :: n ++ [125]).
Proof. reflexivity. Qed.
Lemma render_unbound e custom n :
  lookup n custom = None -> lookup n (params e) = None -> render_tok e custom (TVar n) = Ok (36 :: 123 :: n ++ [125]).
Proof. intros H1 H2. simpl. unfold render_var. rewrite H1, H2. reflexivity. Qed.
(* the expression's own variable map wins over the parameters *)
Lemma render_local_first e custom n x :
  lookup n custom = Some x ->
  render_tok e custom (TVar n) = (x' <- normalize (params e) x ;; match x' with VStr s => Ok s | _ => Err EUndefined end).
Proof. intros H. simpl. unfold render_var. rewrite H. reflexivity. Qed.
Lemma render_param e custom n x :
  lookup n custom = None -> lookup n (params e) = Some x ->
  render_tok e custom (TVar n) = (x' <- normalize (params e) x ;; match x' with VStr s => Ok s | _ => Err EUndefined end).
Proof. intros H1 H2. simpl. unfold render_var. rewrite H1, H2. reflexivity. Qed.

(* a well-formed placeholder is recognised as exactly one token *)
Definition valid_name (n : str) : Prop := n <> [] /\ forallb is_name_char n = true.
Lemma span_all f a c r : forallb f a = true -> f c = false -> span f (a ++ c :: r) = (a, c :: r).
Proof.
  induction a as [|x a IH]; simpl; intros Ha Hc.
  - rewrite Hc. reflexivity.
  - apply andb_true_iff in Ha. destruct Ha as [Hx Ha]. rewrite Hx, (IH Ha Hc). reflexivity.
Qed.
Lemma placeholder_var n rest : valid_name n -> hd 0 n <> 33 ->
  placeholder_at (36 :: 123 :: n ++ 125 :: rest) = Some (TVar n, rest).
Proof.
  intros [Hne Hall] Hb. unfold placeholder_at.
  destruct n as [|c n]; [contradiction|]. simpl in Hb.
  replace ((36 =? 36) && (123 =? 123)) with true by reflexivity.
  cbn [app]. apply N.eqb_neq in Hb. rewrite Hb.
  change (c :: n ++ 125 :: rest) with ((c :: n) ++ 125 :: rest).
  rewrite (span_all is_name_char (c :: n) 125 rest Hall eq_refl). reflexivity.
Qed.

(* no re-scan: "${n}" alone resolves to the rendered value of n VERBATIM, whatever that value contains *)
Theorem sub_no_rescan e custom n s : valid_name n -> hd 0 n <> 33 ->
  render_var e custom n = Ok s -> do_sub e (36 :: 123 :: n ++ [125]) custom = Ok (VStr s).
Proof.
  intros Hv Hb Hr. unfold do_sub, sub_tokens.
  assert (Hl : length (36 :: 123 :: n ++ [125]) = S (S (length n + 1))) by (simpl; rewrite app_length; reflexivity).
  rewrite Hl. cbn [sub_tokens_go]. rewrite (placeholder_var n [] Hv Hb).
  destruct (length n + 1)%nat; simpl; rewrite Hr; simpl; rewrite app_nil_r; reflexivity.
Qed.

(* ---- undefined references give the stable placeholder text, never an error ---- *)
Theorem ref_undefined e body s :
  resolve e body = Ok (VStr s) -> lookup s (params e) = None ->
  resolve e (VDict [(K_Ref, body)]) = Ok (VStr (undefined_param s))
  /\ resolve e (VDict [(K_ImportValue, body)]) = Ok (VStr (undefined_param s)).
Proof. intros H1 H2. rewrite resolve_ref, resolve_import, H1. simpl. rewrite H2. split; reflexivity. Qed.

Theorem ref_defined e body s x :
  resolve e body = Ok (VStr s) -> lookup s (params e) = Some x ->
  resolve e (VDict [(K_Ref, body)]) = normalize (params e) x.
Proof. intros H1 H2. rewrite resolve_ref, H1. simpl. rewrite H2. reflexivity. Qed.

(* the map name exactly; the two keys by [lookup_bk] (exactly, else - for the texts "true" / "false" - by the first spelling) *)
Definition mapping_leaf (e : env) (m k1 k2 : str) : option value :=
  match lookup m (mappings e) with
  | Some (VDict top) => match lookup_bk k1 top with
                        | Some (VDict snd_) => match lookup_bk k2 snd_ with Some VNull => None | x => x end
                        | _ => None
                        end
  | _ => None
  end.
Definition mappings_wf (e : env) : Prop :=
  forall m v, lookup m (mappings e) = Some v ->
    exists top, v = VDict top /\ forall k1 w, lookup k1 top = Some w -> exists snd_, w = VDict snd_.

Theorem find_in_map_spec e m k1 k2 : mappings_wf e ->
  do_find_in_map e (VStr m) (VStr k1) (VStr k2) =
  Ok (match mapping_leaf e m k1 k2 with Some leaf => leaf | None => VStr (undefined_mapping m k1 k2) end).
Proof.
  intros Hwf. unfold do_find_in_map, mapping_leaf.
  destruct (lookup m (mappings e)) as [v|] eqn:E1; [|reflexivity].
  destruct (Hwf m v E1) as (top & -> & Htop).
  destruct (lookup_bk k1 top) as [w|] eqn:E2; [|reflexivity].
  destruct (lookup_bk_lookup k1 top w E2) as (k1' & E2' & _).
  destruct (Htop k1' w E2') as (snd_ & ->).
  destruct (lookup_bk k2 snd_) as [leaf|] eqn:E3; [|reflexivity].
  destruct leaf; reflexivity.
Qed.

Theorem select_spec s ls z : parse_int s = Some z ->
  do_select (VStr s) (VList ls) =
  Ok (if (0 <=? z)%Z && (z <? Z.of_nat (length ls))%Z then nth (Z.to_nat z) ls (VList []) else VList []).
Proof.
  intros Hp. unfold do_select. rewrite Hp.
  destruct (z <? 0)%Z eqn:E1; simpl.
  - replace (0 <=? z)%Z with false by (symmetry; apply Z.leb_gt; apply Z.ltb_lt; assumption). reflexivity.
  - replace (0 <=? z)%Z with true by (symmetry; apply Z.leb_le; apply Z.ltb_ge; assumption). simpl.
    destruct (Z.of_nat (length ls) <=? z)%Z eqn:E2.
    + replace (z <? Z.of_nat (length ls))%Z with false by (symmetry; apply Z.ltb_ge; apply Z.leb_le; assumption). reflexivity.
    + replace (z <? Z.of_nat (length ls))%Z with true by (symmetry; apply Z.ltb_lt; apply Z.leb_gt; assumption).
      apply Z.leb_gt in E2. apply Z.ltb_ge in E1.
      destruct (nth_error ls (Z.to_nat z)) as [x|] eqn:En.
      * rewrite (nth_error_nth _ _ _ En). reflexivity.
      * apply nth_error_None in En. lia.
Qed.
