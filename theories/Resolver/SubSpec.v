(* Declarative specification of the Fn::Sub tokeniser, and the proof that [sub_tokens] meets it.

   The library calls   SUB_PLACEHOLDER.sub(replace, text)   with
        SUB_PLACEHOLDER = re.compile(r"\$\{(!?)([\w:]+)\}")
   i.e. Python's [re.sub]: the text is scanned left to right; at the current position, if the pattern matches
   there the match is replaced and the scan goes on right AFTER the match (matches never overlap); otherwise the
   current character is copied and the scan goes on at the next position.  The pattern never matches the
   empty string, so no empty-match rule is needed.

   [sub_tokens_partition] (SubFacts.v) alone does not pin the tokeniser down: [map TText] is a partition too.
   What pins it down is [Scan] below: WHICH pieces of the text are placeholders.

   Code points:  $ = 36   { = 123   } = 125   ! = 33.     [\w:] = [is_name_char] (Text.v). *)
From Coq Require Import List Bool NArith ZArith Lia.
From PV Require Import Base.Str Base.Value Resolver.Consts Resolver.Text Resolver.Resolve Resolver.Spec Resolver.SubFacts.
Import ListNotations.
Local Open Scope N_scope.

(* ------------------------------------------------------------------------------------------------------------ *)
(* 1. The specification                                                                                         *)
(* ------------------------------------------------------------------------------------------------------------ *)

(* [Match s t rest]: the regex matches at the START of [s], the match is the source text of token [t], and
   [rest] is what follows the match.  One rule per value of the optional group (!?).
   [valid_name n] (SubFacts.v) is "[n] is one or more of [\w:]"  =  the group ([\w:]+).
   Nothing has to be said about greediness: the name is followed by "}" and "}" is not in [\w:], so the run of
   name characters that the regex can take is forced ([Match_deterministic] below). *)
Inductive Match : str -> stok -> str -> Prop :=
  (*                                             \$    \{   (!?)  ([\w:]+)  \}                                  *)
  | M_var  n rest : valid_name n -> Match (36 :: 123 ::        n ++ 125 :: rest) (TVar n)  rest
  | M_bang n rest : valid_name n -> Match (36 :: 123 :: 33 ::  n ++ 125 :: rest) (TBang n) rest.

Definition starts_placeholder (s : str) : Prop := exists t rest, Match s t rest.

(* [Scan text ts]: [ts] is what [re.sub] sees in [text], left to right. *)
Inductive Scan : str -> list stok -> Prop :=
  | Scan_nil : Scan [] []
  (* the pattern matches here: one placeholder token, go on after the match *)
  | Scan_match s t rest ts : Match s t rest -> Scan rest ts -> Scan s (t :: ts)
  (* the pattern does not match here: the character is literal text, go on at the next position *)
  | Scan_char c r ts : ~ starts_placeholder (c :: r) -> Scan r ts -> Scan (c :: r) (TText c :: ts).

(* the same thing without the inductive type, for readers of the Properties file *)
Lemma starts_placeholder_iff s :
  starts_placeholder s <->
  exists n rest, valid_name n /\ (s = 36 :: 123 :: n ++ 125 :: rest \/ s = 36 :: 123 :: 33 :: n ++ 125 :: rest).
Proof.
  split.
  - intros (t & rest & H). inv H; exists n, rest; auto.
  - intros (n & rest & Hv & [-> | ->]).
    + exists (TVar n), rest. constructor; assumption.
    + exists (TBang n), rest. constructor; assumption.
Qed.

(* ------------------------------------------------------------------------------------------------------------ *)
(* 2. [placeholder_at] decides [Match]; [sub_tokens] computes [Scan]                                            *)
(* ------------------------------------------------------------------------------------------------------------ *)

Lemma name_char_33 : is_name_char 33 = false.  Proof. reflexivity. Qed.
Lemma name_char_36 : is_name_char 36 = false.  Proof. reflexivity. Qed.
Lemma name_char_123 : is_name_char 123 = false. Proof. reflexivity. Qed.
Lemma name_char_125 : is_name_char 125 = false. Proof. reflexivity. Qed.

(* "!" is not a name character, so a valid name never starts with it: (!?) and ([\w:]+) cannot be confused *)
Lemma valid_name_no_bang n : valid_name n -> hd 0 n <> 33.
Proof.
  intros [Hne Hall] Hb. destruct n as [|c n]; [contradiction|]. simpl in Hb, Hall. subst c.
  rewrite name_char_33 in Hall. discriminate.
Qed.

Lemma placeholder_bang n rest : valid_name n ->
  placeholder_at (36 :: 123 :: 33 :: n ++ 125 :: rest) = Some (TBang n, rest).
Proof.
  intros [Hne Hall]. unfold placeholder_at.
  replace ((36 =? 36) && (123 =? 123)) with true by reflexivity.
  replace (33 =? 33) with true by reflexivity. cbn [tl].
  rewrite (span_all is_name_char n 125 rest Hall eq_refl).
  destruct n as [|c n]; [contradiction|]. reflexivity.
Qed.

Lemma Match_placeholder_at s t rest : Match s t rest -> placeholder_at s = Some (t, rest).
Proof.
  intros H. inv H.
  - apply placeholder_var; [assumption | apply valid_name_no_bang; assumption].
  - apply placeholder_bang; assumption.
Qed.

Lemma placeholder_at_Match s t rest : placeholder_at s = Some (t, rest) -> Match s t rest.
Proof.
  unfold placeholder_at. destruct s as [|c0 [|c1 r]]; try discriminate.
  destruct ((c0 =? 36) && (c1 =? 123)) eqn:E01; [|discriminate].
  apply andb_true_iff in E01. destruct E01 as [E0 E1]. apply N.eqb_eq in E0, E1. subst c0 c1.
  cbv zeta.
  remember (match r with c2 :: _ => c2 =? 33 | [] => false end) as bang eqn:Hbang.
  match goal with |- context [span ?f ?x] => destruct (span f x) as [name r1] eqn:Es end.
  destruct name as [|n0 name]; [discriminate|].
  destruct r1 as [|c3 r2]; [discriminate|].
  destruct (c3 =? 125) eqn:E3; [|discriminate]. apply N.eqb_eq in E3. subst c3.
  intros H. inv H. apply span_spec in Es. destruct Es as (E & Hall & _).
  assert (Hv : valid_name (n0 :: name)) by (split; [discriminate | exact Hall]).
  destruct r as [|c2 r']; simpl in *.
  - discriminate E.
  - destruct (c2 =? 33) eqn:E2; simpl in *.
    + apply N.eqb_eq in E2. subst c2 r'. apply (M_bang (n0 :: name) rest Hv).
    + rewrite E. apply (M_var (n0 :: name) rest Hv).
Qed.

Theorem placeholder_at_iff s t rest : placeholder_at s = Some (t, rest) <-> Match s t rest.
Proof. split; [apply placeholder_at_Match | apply Match_placeholder_at]. Qed.

Lemma placeholder_at_None s : placeholder_at s = None <-> ~ starts_placeholder s.
Proof.
  split.
  - intros H (t & rest & HM). apply Match_placeholder_at in HM. congruence.
  - intros H. destruct (placeholder_at s) as [[t rest]|] eqn:E; [|reflexivity].
    exfalso. apply H. exists t, rest. apply placeholder_at_Match. exact E.
Qed.

(* at one position the regex can match in one way only *)
Theorem Match_deterministic s t rest t' rest' : Match s t rest -> Match s t' rest' -> t = t' /\ rest = rest'.
Proof.
  intros H H'. apply Match_placeholder_at in H, H'. rewrite H in H'. inv H'. split; reflexivity.
Qed.

Lemma Match_src s t rest : Match s t rest -> s = tok_src t ++ rest.
Proof. intros H. apply placeholder_at_src. apply Match_placeholder_at. exact H. Qed.

Lemma tok_src_length t : (1 <= length (tok_src t))%nat.
Proof. destruct t; simpl; lia. Qed.

(* the fuel: every step consumes at least one character, so [length s] steps are enough *)
Lemma sub_tokens_go_scan fuel : forall s, (length s <= fuel)%nat -> Scan s (sub_tokens_go fuel s).
Proof.
  induction fuel as [|f IH]; intros s Hl.
  - destruct s; [constructor | simpl in Hl; lia].
  - cbn [sub_tokens_go]. destruct s as [|c r]; [constructor|].
    destruct (placeholder_at (c :: r)) as [[t rest]|] eqn:Ep.
    + apply Scan_match with rest; [apply placeholder_at_Match; exact Ep|].
      apply IH. apply placeholder_at_src in Ep. rewrite Ep, app_length in Hl.
      pose proof (tok_src_length t). lia.
    + apply Scan_char; [apply placeholder_at_None; exact Ep|]. apply IH. simpl in Hl. lia.
Qed.

Theorem sub_tokens_scan text : Scan text (sub_tokens text).
Proof. apply sub_tokens_go_scan. apply le_n. Qed.

Theorem Scan_deterministic text ts ts' : Scan text ts -> Scan text ts' -> ts = ts'.
Proof.
  intros H. revert ts'. induction H as [| s t rest ts HM HS IH | c r ts HN HS IH]; intros ts' H'.
  - inversion H' as [| s' t' rest' ts1 HM' HS' | ]; subst; [reflexivity|]. inversion HM'.
  - inversion H' as [| s' t' rest' ts1 HM' HS' | c' r' ts1 HN' HS']; subst.
    + inversion HM.
    + destruct (Match_deterministic _ _ _ _ _ HM HM') as [-> ->]. f_equal. apply IH. assumption.
    + exfalso. apply HN'. exists t, rest. exact HM.
  - inversion H' as [| s' t' rest' ts1 HM' HS' | c' r' ts1 HN' HS']; subst.
    + exfalso. apply HN. exists t', rest'. assumption.
    + f_equal. apply IH. assumption.
Qed.

(* the tokeniser IS the regex scan: sound, complete, unique *)
Theorem Scan_iff text ts : Scan text ts <-> ts = sub_tokens text.
Proof.
  split.
  - intros H. apply (Scan_deterministic text); [exact H | apply sub_tokens_scan].
  - intros ->. apply sub_tokens_scan.
Qed.

(* more fuel changes nothing *)
Corollary sub_tokens_go_fuel fuel s : (length s <= fuel)%nat -> sub_tokens_go fuel s = sub_tokens s.
Proof. intros H. apply Scan_iff. apply sub_tokens_go_scan. exact H. Qed.

Lemma Scan_partition s ts : Scan s ts -> concat (map tok_src ts) = s.
Proof. intros H. apply Scan_iff in H. subst ts. apply sub_tokens_partition. Qed.

(* ------------------------------------------------------------------------------------------------------------ *)
(* 3. No placeholder is missed, none is invented                                                                *)
(* ------------------------------------------------------------------------------------------------------------ *)

Lemma Scan_suffix ts1 : forall s ts2, Scan s (ts1 ++ ts2) ->
  Scan (concat (map tok_src ts2)) ts2 /\ s = concat (map tok_src ts1) ++ concat (map tok_src ts2).
Proof.
  induction ts1 as [|t1 ts1 IH]; intros s ts2 H; simpl in *.
  - rewrite (Scan_partition _ _ H). split; [exact H | reflexivity].
  - inversion H as [| s' t' rest' ts' HM' HS' | c' r' ts' HN' HS']; subst.
    + destruct (IH _ _ HS') as [HS E]. split; [exact HS|].
      rewrite (Match_src _ _ _ HM'), E, app_assoc. reflexivity.
    + destruct (IH _ _ HS') as [HS E]. split; [exact HS|]. simpl. rewrite E. reflexivity.
Qed.

(* Take ANY token [t] of the tokenisation; [before] / [here] are the source text before it / from it on.
   - a TVar / TBang token sits on a genuine regex match: its source is "${" n "}" / "${!" n "}" with [n] a
     non-empty run of [\w:]                                                            (nothing is invented);
   - a TText token sits at a position where the regex does NOT match                   (nothing is missed). *)
Theorem sub_misses_nothing text ts1 t ts2 : sub_tokens text = ts1 ++ t :: ts2 ->
  let before := concat (map tok_src ts1) in
  let here := tok_src t ++ concat (map tok_src ts2) in
  text = before ++ here /\
  match t with
  | TVar n => valid_name n
  | TBang n => valid_name n
  | TText c => ~ starts_placeholder here
  end.
Proof.
  intros E. cbv zeta. symmetry in E. apply Scan_iff in E. apply Scan_suffix in E. destruct E as [HS E].
  split; [exact E|]. simpl in HS.
  inversion HS as [| s' t' rest' ts' HM' HS' | c' r' ts' HN' HS']; subst.
  - inversion HM' as [n rest Hv | n rest Hv]; subst; exact Hv.
  - simpl. exact HN'.
Qed.

(* the all-text answer is right exactly for the texts in which the regex matches nowhere *)
Lemma concat_src_text r : concat (map tok_src (map TText r)) = r.
Proof. induction r as [|c r IH]; simpl; [reflexivity | rewrite IH; reflexivity]. Qed.

Theorem sub_all_text_iff text :
  sub_tokens text = map TText text <-> (forall a u, text = a ++ u -> ~ starts_placeholder u).
Proof.
  split.
  - intros E a u -> HP. destruct u as [|c r]; [destruct HP as (t & rest & HM); inv HM|].
    rewrite map_app in E. simpl in E. apply sub_misses_nothing in E. destruct E as [_ E].
    apply E. simpl. rewrite concat_src_text. exact HP.
  - intros H. symmetry. apply Scan_iff. induction text as [|c r IH]; simpl; [constructor|].
    apply Scan_char; [apply (H [] (c :: r)); reflexivity|].
    apply IH. intros a u -> . apply (H (c :: a) u). reflexivity.
Qed.

(* every match starts with "$": a text without "$" is all literal text *)
Lemma starts_placeholder_dollar s : starts_placeholder s -> hd 0 s = 36.
Proof. intros (t & rest & H). inv H; reflexivity. Qed.

Theorem sub_no_dollar text : ~ In 36 text -> sub_tokens text = map TText text.
Proof.
  intros H. apply sub_all_text_iff. intros a u -> HP. apply H. apply in_or_app. right.
  apply starts_placeholder_dollar in HP. destruct u as [|c r]; simpl in HP; [discriminate | left; assumption].
Qed.

(* ------------------------------------------------------------------------------------------------------------ *)
(* 4. Cutting the text: when is the scan of [pre ++ x] the scan of [pre] followed by the scan of [x] ?          *)
(* ------------------------------------------------------------------------------------------------------------ *)

Lemma Match_app s t rest x : Match s t rest -> Match (s ++ x) t (rest ++ x).
Proof.
  intros H. inv H; simpl; rewrite <- app_assoc; simpl; constructor; assumption.
Qed.

(* no match of [pre ++ x] that starts inside [pre] reaches into [x] *)
Definition no_straddle (pre x : str) : Prop :=
  forall a u, pre = a ++ u -> u <> [] -> starts_placeholder (u ++ x) -> starts_placeholder u.

Lemma Scan_app pre x ts tx : Scan pre ts -> no_straddle pre x -> Scan x tx -> Scan (pre ++ x) (ts ++ tx).
Proof.
  intros H. induction H as [| s t rest ts HM HS IH | c r ts HN HS IH]; intros Hns Hx; simpl.
  - exact Hx.
  - apply Scan_match with (rest ++ x); [apply Match_app; exact HM|].
    apply IH; [|exact Hx]. intros a u -> Hu HP.
    apply (Hns (tok_src t ++ a) u); [|exact Hu|exact HP].
    rewrite (Match_src _ _ _ HM), app_assoc. reflexivity.
  - apply Scan_char.
    + intros HP. apply HN. apply (Hns [] (c :: r)); [reflexivity | discriminate | exact HP].
    + apply IH; [|exact Hx]. intros a u -> Hu HP. apply (Hns (c :: a) u); [reflexivity | exact Hu | exact HP].
Qed.

Theorem sub_tokens_app pre x : no_straddle pre x -> sub_tokens (pre ++ x) = sub_tokens pre ++ sub_tokens x.
Proof.
  intros H. symmetry. apply Scan_iff. apply Scan_app; [apply sub_tokens_scan | exact H | apply sub_tokens_scan].
Qed.

(* [u] is the beginning of a placeholder that is still open:  "$",  "${" + name characters,  "${!" + name characters *)
Definition open_tail (u : str) : Prop :=
  u = [36] \/ exists m, forallb is_name_char m = true /\ (u = 36 :: 123 :: m \/ u = 36 :: 123 :: 33 :: m).
(* [c] can be the next character of an open placeholder *)
Definition continues (c : N) : Prop := c = 123 \/ c = 33 \/ c = 125 \/ is_name_char c = true.

(* where does the cut fall in   name "}" rest  ? *)
Lemma run_cut n : forall u y rest, u ++ y = n ++ 125 :: rest ->
  (exists rest', u = n ++ 125 :: rest' /\ rest = rest' ++ y) \/ (exists m, n = u ++ m /\ y = m ++ 125 :: rest).
Proof.
  induction n as [|a n IH]; intros u y rest E; simpl in E.
  - destruct u as [|z u]; simpl in E.
    + right. exists []. split; [reflexivity | exact E].
    + inv E. left. exists u. split; reflexivity.
  - destruct u as [|z u]; simpl in E.
    + right. exists (a :: n). split; [reflexivity | exact E].
    + inv E. destruct (IH _ _ _ H1) as [(rest' & -> & ->) | (m & -> & ->)].
      * left. exists rest'. split; reflexivity.
      * right. exists m. split; reflexivity.
Qed.

Lemma hd_continues m rest : forallb is_name_char m = true ->
  exists c y', m ++ 125 :: rest = c :: y' /\ continues c.
Proof.
  intros H. destruct m as [|c m]; simpl in *.
  - exists 125, rest. split; [reflexivity|]. right; right; left; reflexivity.
  - apply andb_true_iff in H. destruct H as [Hc _]. exists c, (m ++ 125 :: rest).
    split; [reflexivity|]. right; right; right; exact Hc.
Qed.

(* a match of [u ++ y] starting at the first character of a non-empty [u] either lies inside [u], or [u] is an
   open placeholder and [y] continues it *)
Lemma straddle_inv u y : u <> [] -> starts_placeholder (u ++ y) ->
  starts_placeholder u \/ (open_tail u /\ exists c y', y = c :: y' /\ continues c).
Proof.
  intros Hu (t & rest & HM). remember (u ++ y) as s eqn:Es. destruct HM as [n rest [Hne Hall] | n rest [Hne Hall]].
  - destruct u as [|u0 u]; [contradiction|]. simpl in Es. injection Es as E0 E1. subst u0.
    destruct u as [|u1 u]; simpl in E1.
    + right. split; [left; reflexivity|]. exists 123, (n ++ 125 :: rest). split; [auto | left; reflexivity].
    + injection E1 as E1 E2. subst u1. symmetry in E2.
      destruct (run_cut _ _ _ _ E2) as [(rest' & -> & ->) | (m & -> & ->)].
      * left. exists (TVar n), rest'. constructor. split; assumption.
      * right. rewrite forallb_app in Hall. apply andb_true_iff in Hall. destruct Hall as [Hu' Hm].
        split; [right; exists u; auto|]. apply hd_continues. exact Hm.
  - destruct u as [|u0 u]; [contradiction|]. simpl in Es. injection Es as E0 E1. subst u0.
    destruct u as [|u1 u]; simpl in E1.
    + right. split; [left; reflexivity|]. exists 123, (33 :: n ++ 125 :: rest). split; [auto | left; reflexivity].
    + injection E1 as E1 E2. subst u1. destruct u as [|u2 u]; simpl in E2.
      * right. split; [right; exists []; auto|]. exists 33, (n ++ 125 :: rest).
        split; [auto | right; left; reflexivity].
      * injection E2 as E2 E3. subst u2. symmetry in E3.
        destruct (run_cut _ _ _ _ E3) as [(rest' & -> & ->) | (m & -> & ->)].
        -- left. exists (TBang n), rest'. constructor. split; assumption.
        -- right. rewrite forallb_app in Hall. apply andb_true_iff in Hall. destruct Hall as [Hu' Hm].
           split; [right; exists u; auto|]. apply hd_continues. exact Hm.
Qed.

(* sufficient condition on [pre] alone: it leaves no placeholder open *)
Definition closed (pre : str) : Prop := forall a u, pre = a ++ u -> ~ open_tail u.

Lemma no_straddle_closed pre x : closed pre -> no_straddle pre x.
Proof.
  intros Hc a u E Hu HP. destruct (straddle_inv u x Hu HP) as [H | [H _]]; [exact H|].
  exfalso. exact (Hc a u E H).
Qed.

(* sufficient condition on [x] alone: it is empty or starts with a character that cannot continue a placeholder *)
Lemma no_straddle_head pre x : match x with [] => True | c :: _ => ~ continues c end -> no_straddle pre x.
Proof.
  intros Hx a u E Hu HP. destruct (straddle_inv u x Hu HP) as [H | [_ (c & y' & -> & Hc)]]; [exact H|].
  exfalso. exact (Hx Hc).
Qed.

Theorem sub_tokens_app_closed pre x : closed pre -> sub_tokens (pre ++ x) = sub_tokens pre ++ sub_tokens x.
Proof. intros H. apply sub_tokens_app. apply no_straddle_closed. exact H. Qed.

Lemma open_tail_dollar u : open_tail u -> hd 0 u = 36.
Proof. intros [-> | (m & _ & [-> | ->])]; reflexivity. Qed.

(* the simplest closed texts: no "$" at all ... *)
Lemma closed_no_dollar pre : ~ In 36 pre -> closed pre.
Proof.
  intros H a u -> Ho. apply H. apply in_or_app. right. apply open_tail_dollar in Ho.
  destruct u as [|c r]; simpl in Ho; [discriminate | left; assumption].
Qed.

(* ... or a last character that cannot be inside a placeholder (a blank, "}", "-", "/", ...) *)
Lemma forallb_last (f : N -> bool) m c : forallb f (m ++ [c]) = true -> f c = true.
Proof. rewrite forallb_app. simpl. intros H. apply andb_true_iff in H. destruct H as [_ H]. rewrite andb_true_r in H. exact H. Qed.

Lemma closed_last p c : c <> 36 -> ~ continues c -> closed (p ++ [c]).
Proof.
  intros H36 Hc a u E Ho.
  assert (Hu : u <> []) by (intros ->; apply open_tail_dollar in Ho; discriminate).
  destruct (exists_last Hu) as (u' & z & ->). rewrite app_assoc in E. apply app_inj_tail in E. destruct E as [_ <-].
  destruct Ho as [E | (m & Hm & [E | E])].
  - destruct u' as [|? [|? ?]]; inv E. congruence.
  - destruct u' as [|x0 [|x1 u']]; simpl in E; try (inv E; fail).
    + inv E. apply Hc. left; reflexivity.
    + inv E. apply Hc. right; right; right. apply (forallb_last _ u'). exact Hm.
  - destruct u' as [|x0 [|x1 [|x2 u']]]; simpl in E; try (inv E; fail).
    + inv E. apply Hc. right; left; reflexivity.
    + inv E. apply Hc. right; right; right. apply (forallb_last _ u'). exact Hm.
Qed.

(* ------------------------------------------------------------------------------------------------------------ *)
(* 5. Every placeholder is found, wherever it stands                                                            *)
(* ------------------------------------------------------------------------------------------------------------ *)

Lemma dollar_not_continues : ~ continues 36.
Proof. intros [H | [H | [H | H]]]; discriminate. Qed.

Lemma sub_tokens_var_head n post : valid_name n ->
  sub_tokens (36 :: 123 :: n ++ 125 :: post) = TVar n :: sub_tokens post.
Proof. intros Hv. symmetry. apply Scan_iff. apply Scan_match with post; [constructor; exact Hv | apply sub_tokens_scan]. Qed.
Lemma sub_tokens_bang_head n post : valid_name n ->
  sub_tokens (36 :: 123 :: 33 :: n ++ 125 :: post) = TBang n :: sub_tokens post.
Proof. intros Hv. symmetry. apply Scan_iff. apply Scan_match with post; [constructor; exact Hv | apply sub_tokens_scan]. Qed.

(* No side condition on [pre] is needed: a match that started inside [pre] cannot swallow the "$" of the
   placeholder, because "$" can only be the FIRST character of a match.   pre "${" n "}" post *)
Theorem sub_finds_placeholder pre n post : valid_name n ->
  sub_tokens (pre ++ 36 :: 123 :: n ++ 125 :: post) = sub_tokens pre ++ TVar n :: sub_tokens post.
Proof.
  intros Hv. rewrite sub_tokens_app by (apply no_straddle_head; exact dollar_not_continues).
  rewrite sub_tokens_var_head by exact Hv. reflexivity.
Qed.
(*                                                                          pre "${!" n "}" post *)
Theorem sub_finds_bang pre n post : valid_name n ->
  sub_tokens (pre ++ 36 :: 123 :: 33 :: n ++ 125 :: post) = sub_tokens pre ++ TBang n :: sub_tokens post.
Proof.
  intros Hv. rewrite sub_tokens_app by (apply no_straddle_head; exact dollar_not_continues).
  rewrite sub_tokens_bang_head by exact Hv. reflexivity.
Qed.

(* ------------------------------------------------------------------------------------------------------------ *)
(* 6. Why the partition property alone was too weak                                                             *)
(* ------------------------------------------------------------------------------------------------------------ *)

(* The tokeniser that finds nothing, [map TText], is a partition of every text, yet on "${A}" it is not the
   regex scan: the scan is the single token [TVar "A"]. *)
Theorem sub_all_text_refuted :
  (forall text, concat (map tok_src (map TText text)) = text)
  /\ ~ Scan [36;123;65;125] (map TText [36;123;65;125])
  /\ Scan [36;123;65;125] [TVar [65]].
Proof.
  split; [exact concat_src_text|]. split.
  - intros H. apply Scan_iff in H. vm_compute in H. discriminate H.
  - apply Scan_iff. vm_compute. reflexivity.
Qed.

(* ------------------------------------------------------------------------------------------------------------ *)
(* 7. End to end: [do_sub]                                                                                      *)
(* ------------------------------------------------------------------------------------------------------------ *)

Lemma do_sub_render e text custom r :
  do_sub e text custom = Ok (VStr r) <-> render_toks e custom (sub_tokens text) = Ok r.
Proof.
  unfold do_sub. split.
  - intros H. bind_inv. inv H. reflexivity.
  - intros ->. reflexivity.
Qed.

Lemma render_toks_app e custom ts1 : forall ts2 a b,
  render_toks e custom ts1 = Ok a -> render_toks e custom ts2 = Ok b ->
  render_toks e custom (ts1 ++ ts2) = Ok (a ++ b).
Proof.
  induction ts1 as [|t ts1 IH]; intros ts2 a b H1 H2; simpl in *.
  - inv H1. exact H2.
  - bind_inv. inv H1. rewrite (IH _ _ _ eq_refl H2). simpl. rewrite app_assoc. reflexivity.
Qed.

Lemma render_toks_text e custom r : render_toks e custom (map TText r) = Ok r.
Proof. induction r as [|c r IH]; simpl; [reflexivity | rewrite IH; reflexivity]. Qed.

(* a text without "$" is returned unchanged *)
Theorem do_sub_no_dollar e text custom : ~ In 36 text -> do_sub e text custom = Ok (VStr text).
Proof. intros H. apply do_sub_render. rewrite (sub_no_dollar _ H). apply render_toks_text. Qed.

(* pre "${" n "}" post   -->   (pre substituted) (value of n, once, verbatim) (post substituted) *)
Theorem do_sub_placeholder e custom pre n post a b c : valid_name n ->
  do_sub e pre custom = Ok (VStr a) -> render_var e custom n = Ok b -> do_sub e post custom = Ok (VStr c) ->
  do_sub e (pre ++ 36 :: 123 :: n ++ 125 :: post) custom = Ok (VStr (a ++ b ++ c)).
Proof.
  intros Hv Ha Hb Hc. apply do_sub_render in Ha, Hc. apply do_sub_render.
  rewrite (sub_finds_placeholder _ _ _ Hv). apply render_toks_app; [exact Ha|].
  simpl. rewrite Hb, Hc. reflexivity.
Qed.

(* pre "${!" n "}" post  -->   (pre substituted) "${" n "}" (post substituted) *)
Theorem do_sub_bang e custom pre n post a c : valid_name n ->
  do_sub e pre custom = Ok (VStr a) -> do_sub e post custom = Ok (VStr c) ->
  do_sub e (pre ++ 36 :: 123 :: 33 :: n ++ 125 :: post) custom = Ok (VStr (a ++ (36 :: 123 :: n ++ [125]) ++ c)).
Proof.
  intros Hv Ha Hc. apply do_sub_render in Ha, Hc. apply do_sub_render.
  rewrite (sub_finds_bang _ _ _ Hv). apply render_toks_app; [exact Ha|].
  simpl. rewrite Hc. reflexivity.
Qed.

(* "x${A}y${!A}z" with A = "1"  -->  "x1y${A}z" *)
Example do_sub_witness :
  do_sub {| params := [([65], VStr [49])]; mappings := []; conds := fun _ => Ok false |}
         [120;36;123;65;125;121;36;123;33;65;125;122] []
  = Ok (VStr [120;49;121;36;123;65;125;122]).
Proof. vm_compute. reflexivity. Qed.
