(* C01: ALGEBRAIC LAWS of the value functions -- each proved for all inputs where it is true of the model, refuted with a
   concrete witness (vm_compute) where it is not.  Every refutation was replayed on the library
   (pycfmodel.resolver.resolve(expr, params, mappings, {}), tree ea4be28); "lib:" gives its answer.

   1. Fn::Join / Fn::Split
      join_split                   Join d (Split d s) = s                               every d (also the empty one), every s
      split_join                   Split d (Join d l) = l                               l non-empty, no member contains the FIRST code point of d
      split_join_char              ... for a one-character d: no member contains d      (the law as asked)
      split_join_refuted           FALSE for longer d with "no member contains d":      d = "aa", l = ["a","x"]: "aaax" -> ["", "ax"]
                                                                                         lib: ['', 'ax'] (a fact about texts, CloudFormation alike)
      split_join_nil               Split d (Join d []) = [""]                           lib: ['']
      resolve_join_singleton / _nil / _scalars (booleans true/false, integers decimal)  lib: [1,true,false,"TRUE",-5] -> '1-true-false-true--5'
      resolve_join_nested_declined a list / object / null member: Err EUndefined        lib: "a-['b', 'c']", "a-{'k': 'v'}", 'a-None' (Python repr)
   2. Fn::Select
      resolve_select_nth / _out_of_range (negative, too large -> [])  / _index_number (1 and "1" alike; parse_int_str_of_Z)
      resolve_select_split_join    Select i (Split d (Join d l)) = nth i l
      resolve_select_non_numeric   NOT the empty list: Err EUndefined                   lib: ValueError (invalid literal for int())
      resolve_select_literal_refuted  Select 1 ["a","AWS::NoValue","c"] = "c": the list is resolved first and NoValue members are dropped
                                                                                         lib: 'c'
   3. Fn::Sub
      do_sub_no_placeholder        no "${" anywhere: the text AS IT IS (not even rendered: sub_text_not_rendered, lib: 'TRUE' vs 'true')
      resolve_sub_empty_map, do_sub_adjacent, do_sub_value_verbatim (exactly once), do_sub_bang_literal
      do_sub_unbound               an unbound ${N} stays "${N}" -- NOT UNDEFINED_PARAM_N (sub_unbound_is_not_undefined_param)
                                                                                         lib: '${N}' while {"Ref":"N"} is 'UNDEFINED_PARAM_N'
      render_var_scalar / _container_declined (lists, objects, null)                     lib: "['a', 'b']", "{'k': 'v'}", 'None'
      sub_is_ref                   {"Fn::Sub":"${n}"} = {"Ref":n} for a bound text parameter with a plain name
   4. Ref / Fn::ImportValue
      resolve_ref_literal          the NAME is a literal: it is rendered, then looked up; resolve_ref_plain, resolve_ref_list, resolve_import_is_ref,
      ref_supplied_overrides_pseudo
      ref_boolean_name_refuted     params {"True":"v"}: {"Ref":"True"} = UNDEFINED_PARAM_true  lib: 'UNDEFINED_PARAM_true' (and ${True} gives 'v')
   5. Fn::FindInMap
      resolve_find_in_map_leaf / _missing / do_find_in_map_leaf_verbatim / undefined_mapping_text
      (the map NAME is looked up exactly; the two KEYS by [lookup_bk]: exactly, else -- for the texts "true" / "false", which is how
       every boolean spelling reaches the lookup -- by the first entry whose key lower-cases to it: library `_mapping_get`, repair of F31)
      find_in_map_unrendered_refuted    leaf "True" / 0 / false returned as written (known finding F14b)   lib: 'True', 0, False
      do_find_in_map_boolean_key / resolve_find_in_map_boolean_key / _ref_key   a key written like a boolean ("True") in the Mappings is
                                        found, by the literal key and through a Ref whose value is that text -- provided it is the
                                        only spelling of that boolean at its level   (was find_in_map_literal_key_refuted, finding F31, until
                                        the library repair acd13a2: Mappings {"M":{"True":{"k":"yes"}}}, FindInMap ["M","True","k"] and
                                        ["M",{"Ref":"P"},"k"] with P = "True" gave UNDEFINED_MAPPING_M_true_k; now 'yes': ex_find_in_map_boolean_key)
      find_in_map_first_spelling_wins   with two spellings {"M":{"TRUE":{"k":"no"},"True":{"k":"yes"}}} the key "True" finds the FIRST
                                        one in dictionary order                                              lib: 'no' ('yes' with the entries swapped)
   6. Fn::Base64
      resolve_base64_text, resolve_base64_non_text (lib: AttributeError), b64_roundtrip (Validators.b64decode inverts Text.b64encode on
      byte strings), resolve_base64_roundtrip
   7. Composition
      resolve_congruence (Cong: any number of sub-expressions at evaluated positions replaced by equi-resolving ones),
      cong_resolved_value (C[f] = C[resolve f] when the value is rendered and function-free), resolve_in_place_refuted (F20),
      congruence_syntax_refuted (Fn::Sub text, Fn::Join argument list, Fn::If condition name are syntax; lib: TypeError / ValueError)
   8. Rendering
      render_str_cases / _boolean / _other, normalize_idempotent, render_idempotent_refuted (SSM value "TRUE"; lib: 'TRUE' then 'true'),
      render_identifications (1 ~ "1", true ~ "True" ~ "TRUE", 1 /~ true)
   9. resolve_join_over_text_declined / resolve_select_over_text_declined      lib: 'G,E,T,A,Z,S', 'G' for Fn::GetAZs *)
From Coq Require Import List Bool NArith ZArith Lia.
From PV Require Import Base.Str Base.Value Resolver.Consts Resolver.Text Resolver.Resolve Resolver.Spec Resolver.SubFacts Resolver.SubSpec
  Resolver.Template Resolver.ParamFacts Resolver.FixFacts Resolver.Rendered Robust.Validators.
Import ListNotations.
Local Open Scope N_scope.

(* ---- 1. join / split on texts ---- *)
Lemma split_go_nonempty fuel d : forall cur s, split_go fuel d cur s <> [].
Proof.
  induction fuel as [|f IH]; intros cur s; simpl; [discriminate|].
  destruct s as [|c s']; [discriminate|]. destruct (starts_with d (c :: s')); [discriminate | apply IH].
Qed.

Lemma join_cons_nonempty d x l : l <> [] -> join d (x :: l) = x ++ d ++ join d l.
Proof. destruct l as [|y l]; [congruence | reflexivity]. Qed.

Lemma skipn_length_app {A} (a b : list A) : skipn (length a) (a ++ b) = b.
Proof. induction a as [|x a IH]; simpl; [reflexivity | exact IH]. Qed.

Lemma join_split_go fuel d : forall cur s, join d (split_go fuel d cur s) = rev cur ++ s.
Proof.
  induction fuel as [|f IH]; intros cur s; simpl; [reflexivity|].
  destruct s as [|c s']; [simpl; rewrite app_nil_r; reflexivity|].
  destruct (starts_with d (c :: s')) eqn:Es.
  - apply starts_with_spec in Es. destruct Es as [r Er].
    rewrite join_cons_nonempty by apply split_go_nonempty.
    rewrite IH. rewrite Er, skipn_length_app. reflexivity.
  - rewrite IH. simpl. rewrite <- app_assoc. reflexivity.
Qed.

Theorem join_split d s : join d (split d s) = s.
Proof. unfold split. rewrite join_split_go. reflexivity. Qed.

Lemma starts_with_app d r : starts_with d (d ++ r) = true.
Proof. apply starts_with_spec. exists r. reflexivity. Qed.

(* scanning a member that does not contain the delimiter's first code point *)
Lemma split_go_member c d' x : ~ In c x -> forall fuel cur tl,
  split_go (length x + fuel) (c :: d') cur (x ++ tl) = split_go fuel (c :: d') (rev x ++ cur) tl.
Proof.
  induction x as [|a x IH]; intros Hn fuel cur tl; [reflexivity|].
  assert (Ha : a <> c) by (intros ->; apply Hn; left; reflexivity).
  assert (Hx : ~ In c x) by (intros H; apply Hn; right; exact H).
  cbn [length Nat.add app split_go starts_with].
  replace (c =? a) with false by (symmetry; apply N.eqb_neq; congruence). cbn [andb].
  rewrite (IH Hx). cbn [rev]. rewrite <- app_assoc. reflexivity.
Qed.

Lemma split_go_delim fuel d cur r : d <> [] ->
  split_go (S fuel) d cur (d ++ r) = rev cur :: split_go fuel d [] r.
Proof.
  intros Hd. destruct d as [|c d']; [congruence|]. cbn [split_go app].
  change (c :: d' ++ r) with ((c :: d') ++ r). rewrite starts_with_app, skipn_length_app. reflexivity.
Qed.

Lemma split_join_go c d' l : l <> [] -> Forall (fun x => ~ In c x) l ->
  forall fuel, (length (join (c :: d') l) < fuel)%nat -> split_go fuel (c :: d') [] (join (c :: d') l) = l.
Proof.
  induction l as [|x l IH]; intros Hne Hall fuel Hf; [congruence|].
  inversion Hall as [|x0 l0 Hx Hl]; subst.
  destruct l as [|y l].
  - cbn [join] in *.
    pose proof (split_go_member c d' x Hx (fuel - length x)%nat [] []) as HM. rewrite !app_nil_r in HM.
    replace (length x + (fuel - length x))%nat with fuel in HM by lia. rewrite HM.
    destruct (fuel - length x)%nat eqn:E; [lia|]. cbn [split_go]. rewrite rev_involutive. reflexivity.
  - rewrite join_cons_nonempty in * by discriminate.
    rewrite !app_length in Hf.
    pose proof (split_go_member c d' x Hx (fuel - length x)%nat [] ((c :: d') ++ join (c :: d') (y :: l))) as HM.
    rewrite app_nil_r in HM.
    replace (length x + (fuel - length x))%nat with fuel in HM by lia. rewrite HM.
    destruct (fuel - length x)%nat as [|f] eqn:E; [cbn [length] in Hf; lia|].
    rewrite split_go_delim by discriminate. rewrite rev_involutive. f_equal.
    apply IH; [discriminate | exact Hl |]. cbn [length] in Hf. lia.
Qed.

(* Split d (Join d l) = l : for a non-empty list none of whose members contains the FIRST code point of d *)
Theorem split_join c d' l : l <> [] -> Forall (fun x => ~ In c x) l ->
  split (c :: d') (join (c :: d') l) = l.
Proof. intros Hne Hall. unfold split. apply split_join_go; [exact Hne | exact Hall | lia]. Qed.

(* [occurs d s]: d is a substring of s *)
Fixpoint occurs (d s : str) : bool :=
  starts_with d s || match s with [] => false | _ :: r => occurs d r end.
Lemma occurs_spec d s : occurs d s = true <-> exists a b, s = a ++ d ++ b.
Proof.
  induction s as [|c s IH].
  - simpl. rewrite orb_false_r. rewrite starts_with_spec. split.
    + intros [r Hr]. exists [], r. exact Hr.
    + intros (a & b & H). destruct a; [exists b; exact H | discriminate].
  - cbn [occurs]. rewrite orb_true_iff, starts_with_spec, IH. split.
    + intros [[r Hr] | (a & b & H)]; [exists [], r; exact Hr | exists (c :: a), b; rewrite H; reflexivity].
    + intros (a & b & H). destruct a as [|x a]; [left; exists b; exact H | right].
      inversion H; subst. exists a, b. reflexivity.
Qed.
Lemma occurs_char c x : occurs [c] x = false <-> ~ In c x.
Proof.
  split.
  - intros H Hin. apply in_split in Hin. destruct Hin as (a & b & ->).
    assert (occurs [c] (a ++ c :: b) = true) by (apply occurs_spec; exists a, b; reflexivity). congruence.
  - intros H. destruct (occurs [c] x) eqn:E; [|reflexivity]. apply occurs_spec in E. destruct E as (a & b & ->).
    exfalso. apply H. apply in_or_app. right. left. reflexivity.
Qed.

(* ... for a ONE-character delimiter that is the law as asked: no member contains d *)
Corollary split_join_char c l : l <> [] -> Forall (fun x => occurs [c] x = false) l -> split [c] (join [c] l) = l.
Proof.
  intros Hne Hall. apply split_join; [exact Hne|].
  eapply Forall_impl; [|exact Hall]. intros x Hx. apply occurs_char. exact Hx.
Qed.

(* ... and FALSE for longer delimiters: d = "aa", l = ["a"; "x"]: "a"+"aa"+"x" = "aaax" splits as ["", "ax"] *)
Theorem split_join_refuted : exists d l, d <> [] /\ l <> [] /\ Forall (fun x => occurs d x = false) l /\ split d (join d l) <> l.
Proof.
  exists [97;97], [[97];[120]]. split; [discriminate|]. split; [discriminate|]. split.
  - repeat constructor.
  - vm_compute. discriminate.
Qed.
(* the empty list is not recovered either: Join d [] = "" and Split d "" = [""] *)
Theorem split_join_nil d : split d (join d []) = [[]].
Proof. reflexivity. Qed.
Lemma join_singleton d x : join d [x] = x. Proof. reflexivity. Qed.
Lemma join_nil d : join d [] = []. Proof. reflexivity. Qed.

(* ------------------------------------------------------------------------------------------------------------ *)
(* decimal text of an integer reads back as that integer                                                        *)
(* ------------------------------------------------------------------------------------------------------------ *)
Lemma digit_char m : is_digit (48 + m mod 10) = true /\ 48 + m mod 10 - 48 = m mod 10.
Proof.
  assert (H : m mod 10 < 10) by (apply N.mod_lt; discriminate).
  remember (m mod 10) as r eqn:Er. clear Er.
  unfold is_digit. split; [|lia]. apply andb_true_iff. split; apply N.leb_le; lia.
Qed.

Lemma digits_pos_go_val f : forall n acc a, n < 2 ^ N.of_nat f ->
  exists k, digits_val a (digits_pos_go f n acc) = digits_val (a * 10 ^ k + n) acc.
Proof.
  induction f as [|f IH]; intros n acc a Hn.
  - exists 0. cbn [digits_pos_go]. change (N.of_nat 0) with 0 in Hn. rewrite N.pow_0_r in Hn.
    assert (n = 0) by lia. subst n. f_equal. rewrite N.pow_0_r. lia.
  - cbn [digits_pos_go]. cbv zeta. destruct (digit_char n) as [Hd Hv].
    pose proof (N.div_mod n 10 ltac:(discriminate)) as Hdm.
    destruct (n / 10 =? 0) eqn:E.
    + apply N.eqb_eq in E. exists 1. cbn [digits_val]. rewrite Hd, Hv. f_equal. rewrite E in Hdm. lia.
    + assert (Hlt : n / 10 < 2 ^ N.of_nat f).
      { rewrite Nat2N.inj_succ, N.pow_succ_r' in Hn.
        apply N.div_lt_upper_bound; [discriminate|]. lia. }
      destruct (IH (n / 10) ((48 + n mod 10) :: acc) a Hlt) as [k Hk].
      exists (k + 1). rewrite Hk. cbn [digits_val]. rewrite Hd, Hv. f_equal.
      rewrite N.pow_add_r. lia.
Qed.

Lemma digits_N_val p : digits_val 0 (digits_N (Npos p)) = Some (Npos p).
Proof.
  unfold digits_N.
  destruct (digits_pos_go_val (S (N.to_nat (N.log2 (Npos p)))) (Npos p) [] 0) as [k Hk].
  - rewrite Nat2N.inj_succ, N2Nat.id. apply N.log2_spec. reflexivity.
  - rewrite Hk. simpl. reflexivity.
Qed.

Lemma digits_pos_go_head f n acc : exists m rest, digits_pos_go (S f) n acc = (48 + m mod 10) :: rest.
Proof.
  revert n acc. induction f as [|f IH]; intros n acc.
  - cbn [digits_pos_go]. cbv zeta. destruct (n / 10 =? 0); eexists; eexists; reflexivity.
  - change (digits_pos_go (S (S f)) n acc)
      with (let acc' := (48 + n mod 10) :: acc in if n / 10 =? 0 then acc' else digits_pos_go (S f) (n / 10) acc').
    cbv zeta. destruct (n / 10 =? 0); [eexists; eexists; reflexivity | apply IH].
Qed.

Lemma parse_int_digit_head c r : is_digit c = true -> parse_int (c :: r) = option_map Z.of_N (digits_val 0 (c :: r)).
Proof.
  intros H. unfold is_digit in H. apply andb_true_iff in H. destruct H as [H1 H2].
  apply N.leb_le in H1. apply N.leb_le in H2.
  assert (Hc : c = 48 \/ c = 49 \/ c = 50 \/ c = 51 \/ c = 52 \/ c = 53 \/ c = 54 \/ c = 55 \/ c = 56 \/ c = 57) by lia.
  repeat (destruct Hc as [-> | Hc]; [reflexivity|]). subst c. reflexivity.
Qed.

Theorem parse_int_str_of_Z z : parse_int (str_of_Z z) = Some z.
Proof.
  destruct z as [|p|p]; [reflexivity | |].
  - unfold str_of_Z. pose proof (digits_N_val p) as Hv. unfold digits_N in *.
    destruct (digits_pos_go_head (N.to_nat (N.log2 (Npos p))) (Npos p) []) as (m & rest & E).
    rewrite E in *. rewrite parse_int_digit_head by apply digit_char. rewrite Hv. reflexivity.
  - unfold str_of_Z. pose proof (digits_N_val p) as Hv. unfold digits_N in *.
    destruct (digits_pos_go_head (N.to_nat (N.log2 (Npos p))) (Npos p) []) as (m & rest & E).
    rewrite E in *. cbn [parse_int tl]. rewrite Hv. reflexivity.
Qed.

Lemma str_of_Z_not_novalue z : str_of_Z z <> S_NOVALUE.
Proof.
  destruct z as [|p|p]; [discriminate | | discriminate].
  unfold str_of_Z, digits_N.
  destruct (digits_pos_go_head (N.to_nat (N.log2 (Npos p))) (Npos p) []) as (m & rest & E). rewrite E.
  assert (H : m mod 10 < 10) by (apply N.mod_lt; discriminate).
  remember (m mod 10) as r eqn:Er. clear Er.
  intros C. assert (Hh : hd 0 (48 + r :: rest) = hd 0 S_NOVALUE) by (rewrite C; reflexivity).
  change (hd 0 S_NOVALUE) with 65 in Hh. cbn [hd] in Hh. lia.
Qed.
Lemma bool_text_not_novalue b : bool_text b <> S_NOVALUE.
Proof. destruct b; discriminate. Qed.

(* ------------------------------------------------------------------------------------------------------------ *)
(* the function objects, named                                                                                   *)
(* ------------------------------------------------------------------------------------------------------------ *)
Definition FRef (b : value) : value := VDict [(K_Ref, b)].
Definition FImport (b : value) : value := VDict [(K_ImportValue, b)].
Definition FJoin (d l : value) : value := VDict [(K_Join, VList [d; l])].
Definition FSplit (d s : value) : value := VDict [(K_Split, VList [d; s])].
Definition FSelect (i l : value) : value := VDict [(K_Select, VList [i; l])].
Definition FFindInMap (m k1 k2 : value) : value := VDict [(K_FindInMap, VList [m; k1; k2])].
Definition FSub (text : str) : value := VDict [(K_Sub, VStr text)].
Definition FSubV (text : str) (vars : value) : value := VDict [(K_Sub, VList [VStr text; vars])].
Definition FBase64 (b : value) : value := VDict [(K_Base64, b)].

Lemma as_strs_map ls : as_strs (map VStr ls) = Ok ls.
Proof. induction ls as [|s ls IH]; [reflexivity|]. simpl. rewrite IH. reflexivity. Qed.
Lemma as_strs_declines ls : (exists x, In x ls /\ forall s, x <> VStr s) -> as_strs ls = Err EUndefined.
Proof.
  induction ls as [|y ls IH]; intros (x & Hin & Hx); [destruct Hin|].
  destruct Hin as [-> | Hin].
  - destruct x; try reflexivity. exfalso. eapply Hx. reflexivity.
  - destruct y; try reflexivity. simpl. rewrite IH by (exists x; split; assumption). reflexivity.
Qed.

(* ---- 1. Fn::Join / Fn::Split ---- *)
Theorem resolve_split_join e dl l c d' ls :
  resolve e dl = Ok (VStr (c :: d')) -> resolve e l = Ok (VList (map VStr ls)) ->
  ls <> [] -> Forall (fun x => ~ In c x) ls ->
  resolve e (FSplit dl (FJoin dl l)) = Ok (VList (map VStr ls)).
Proof.
  intros Hd Hl Hne Hall. unfold FSplit, FJoin. rewrite resolve_split, Hd. cbn [bind].
  rewrite resolve_join, Hd, Hl. cbn [bind]. unfold do_join. rewrite as_strs_map. cbn [bind do_split].
  rewrite split_join by assumption. reflexivity.
Qed.

Theorem resolve_join_split e dl s ds ss :
  resolve e dl = Ok (VStr ds) -> ds <> [] -> resolve e s = Ok (VStr ss) ->
  resolve e (FJoin dl (FSplit dl s)) = Ok (VStr ss).
Proof.
  intros Hd Hne Hs. unfold FSplit, FJoin. rewrite resolve_join, Hd. cbn [bind].
  rewrite resolve_split, Hd, Hs. cbn [bind]. destruct ds as [|c r]; [congruence|]. cbn [do_split bind do_join].
  rewrite as_strs_map. cbn [bind]. rewrite join_split. reflexivity.
Qed.

(* an empty delimiter is Python's ValueError("empty separator") *)
Theorem resolve_split_empty_delimiter e dl s ss :
  resolve e dl = Ok (VStr []) -> resolve e s = Ok (VStr ss) -> resolve e (FSplit dl s) = Err EValue.
Proof. intros Hd Hs. unfold FSplit. rewrite resolve_split, Hd, Hs. reflexivity. Qed.

Theorem resolve_join_singleton e dl ds x s :
  resolve e dl = Ok (VStr ds) -> resolve e x = Ok (VStr s) ->
  resolve e (FJoin dl (VList [x])) = Ok (VStr (if str_eqb s S_NOVALUE then [] else s)).
Proof.
  intros Hd Hx. unfold FJoin. rewrite resolve_join, Hd. cbn [bind]. rewrite resolve_list. cbn [rlist].
  rewrite Hx. cbn [bind is_novalue]. destruct (str_eqb s S_NOVALUE); reflexivity.
Qed.

Theorem resolve_join_nil e dl ds : resolve e dl = Ok (VStr ds) -> resolve e (FJoin dl (VList [])) = Ok (VStr []).
Proof. intros Hd. unfold FJoin. rewrite resolve_join, Hd. reflexivity. Qed.

(* scalars are rendered as strings: booleans as true/false, integers in decimal, typed atoms as their text *)
Definition leaf_text (ps : list (str * value)) (v : value) : option str :=
  match v with
  | VBool b => Some (bool_text b)
  | VInt z => Some (str_of_Z z)
  | VStr s => Some (render_str ps s)
  | VTyped _ t => Some t
  | VBytes b => Some (b64encode b)
  | VNull | VList _ | VDict _ => None
  end.
Lemma resolve_leaf e v t : leaf_text (params e) v = Some t -> resolve e v = Ok (VStr t).
Proof. destruct v; simpl; intros H; inv H; reflexivity. Qed.

Lemma rlist_leaves e l ts :
  Forall2 (fun v t => leaf_text (params e) v = Some t /\ t <> S_NOVALUE) l ts -> rlist e l = Ok (map VStr ts).
Proof.
  induction 1 as [|v t l ts [Hv Hn] HF IH]; [reflexivity|].
  cbn [rlist]. fold (rlist e). rewrite (resolve_leaf e v t Hv). cbn [bind]. rewrite IH. cbn [bind is_novalue].
  apply str_eqb_neq in Hn. rewrite Hn. reflexivity.
Qed.

Theorem resolve_join_scalars e dl ds l ts :
  resolve e dl = Ok (VStr ds) ->
  Forall2 (fun v t => leaf_text (params e) v = Some t /\ t <> S_NOVALUE) l ts ->
  resolve e (FJoin dl (VList l)) = Ok (VStr (join ds ts)).
Proof.
  intros Hd HF. unfold FJoin. rewrite resolve_join, Hd. cbn [bind]. rewrite resolve_list, (rlist_leaves e l ts HF).
  cbn [bind do_join]. rewrite as_strs_map. reflexivity.
Qed.

(* a list, an object or null among the (resolved) members: the model declines to speak *)
Theorem resolve_join_nested_declined e dl ds l ls :
  resolve e dl = Ok (VStr ds) -> resolve e l = Ok (VList ls) -> (exists x, In x ls /\ forall s, x <> VStr s) ->
  resolve e (FJoin dl l) = Err EUndefined.
Proof.
  intros Hd Hl Hx. unfold FJoin. rewrite resolve_join, Hd, Hl. cbn [bind do_join].
  rewrite (as_strs_declines ls Hx). reflexivity.
Qed.

(* ---- 2. Fn::Select ---- *)
Theorem resolve_select_nth e i l s z ls :
  resolve e i = Ok (VStr s) -> parse_int s = Some z -> resolve e l = Ok (VList ls) ->
  (0 <= z < Z.of_nat (length ls))%Z ->
  resolve e (FSelect i l) = Ok (nth (Z.to_nat z) ls (VList [])).
Proof.
  intros Hi Hp Hl Hz. unfold FSelect. rewrite resolve_select, Hi, Hl. cbn [bind]. rewrite (select_spec s ls z Hp).
  replace (0 <=? z)%Z with true by (symmetry; apply Z.leb_le; lia).
  replace (z <? Z.of_nat (length ls))%Z with true by (symmetry; apply Z.ltb_lt; lia). reflexivity.
Qed.

Theorem resolve_select_out_of_range e i l s z ls :
  resolve e i = Ok (VStr s) -> parse_int s = Some z -> resolve e l = Ok (VList ls) ->
  (z < 0 \/ Z.of_nat (length ls) <= z)%Z ->
  resolve e (FSelect i l) = Ok (VList []).
Proof.
  intros Hi Hp Hl Hz. unfold FSelect. rewrite resolve_select, Hi, Hl. cbn [bind]. rewrite (select_spec s ls z Hp).
  destruct (0 <=? z)%Z eqn:E1; [|reflexivity]. apply Z.leb_le in E1.
  replace (z <? Z.of_nat (length ls))%Z with false by (symmetry; apply Z.ltb_ge; lia). reflexivity.
Qed.

(* a non-numeric index is NOT answered with the empty list: the model declines (the library raises ValueError) *)
Theorem resolve_select_non_numeric e i l s ls :
  resolve e i = Ok (VStr s) -> parse_int s = None -> resolve e l = Ok (VList ls) ->
  resolve e (FSelect i l) = Err EUndefined.
Proof. intros Hi Hp Hl. unfold FSelect. rewrite resolve_select, Hi, Hl. cbn [bind do_select]. rewrite Hp. reflexivity. Qed.

(* the index as a number and as its decimal text: the same *)
Lemma render_str_of_Z ps z : render_str ps (str_of_Z z) = str_of_Z z.
Proof. apply plain_text_fixed, plain_str_of_Z. Qed.
Theorem resolve_select_index_number e z l :
  resolve e (FSelect (VInt z) l) = resolve e (FSelect (VStr (str_of_Z z)) l).
Proof. unfold FSelect. rewrite !resolve_select. cbn [resolve]. rewrite render_str_of_Z. reflexivity. Qed.
Theorem resolve_select_int e z l ls : resolve e l = Ok (VList ls) ->
  resolve e (FSelect (VInt z) l) =
  Ok (if (0 <=? z)%Z && (z <? Z.of_nat (length ls))%Z then nth (Z.to_nat z) ls (VList []) else VList []).
Proof.
  intros Hl. unfold FSelect. rewrite resolve_select, Hl. cbn [resolve bind].
  apply select_spec. apply parse_int_str_of_Z.
Qed.

(* Select i (Split d (Join d l)) = the i-th text *)
Theorem resolve_select_split_join e i s z dl l c d' ls :
  resolve e i = Ok (VStr s) -> parse_int s = Some z -> (0 <= z < Z.of_nat (length ls))%Z ->
  resolve e dl = Ok (VStr (c :: d')) -> resolve e l = Ok (VList (map VStr ls)) -> Forall (fun x => ~ In c x) ls ->
  resolve e (FSelect i (FSplit dl (FJoin dl l))) = Ok (VStr (nth (Z.to_nat z) ls [])).
Proof.
  intros Hi Hp Hz Hd Hl Hall.
  assert (Hne : ls <> []) by (intros ->; simpl in Hz; lia).
  rewrite (resolve_select_nth e i _ s z (map VStr ls) Hi Hp (resolve_split_join e dl l c d' ls Hd Hl Hne Hall))
    by (rewrite map_length; exact Hz).
  f_equal. rewrite (nth_indep _ (VList []) (VStr [])) by (rewrite map_length; lia).
  apply (map_nth VStr).
Qed.

(* a literal list is resolved first, and resolution DROPS members equal to AWS::NoValue: the positions shift.
   Select 1 ["a"; "AWS::NoValue"; "c"] is "c", not the member written at position 1 *)
Theorem resolve_select_literal_refuted : exists e i x0 x1 x2 r1,
  resolve e x1 = Ok r1 /\ exists r, resolve e (FSelect i (VList [x0; x1; x2])) = Ok r /\ i = VInt 1 /\ r <> r1.
Proof.
  exists {| params := []; mappings := []; conds := fun _ => Ok false |}, (VInt 1), (VStr [97]), (VStr S_NOVALUE), (VStr [99]), (VStr S_NOVALUE).
  split; [vm_compute; reflexivity|]. exists (VStr [99]). split; [vm_compute; reflexivity|]. split; [reflexivity | discriminate].
Qed.

(* ------------------------------------------------------------------------------------------------------------ *)
(* 3. Fn::Sub                                                                                                    *)
(* ------------------------------------------------------------------------------------------------------------ *)
Definition ph (n : str) : str := 36 :: 123 :: n ++ [125].          (* "${" n "}" *)
Definition ph_bang (n : str) : str := 36 :: 123 :: 33 :: n ++ [125]. (* "${!" n "}" *)

(* a text in which "${" occurs nowhere is returned AS IT IS: the Fn::Sub text is not a literal of the template for the
   resolver -- no boolean spelling is lower-cased, no SSM reference is looked up *)
Theorem do_sub_no_placeholder e text custom :
  (forall a u, text <> a ++ 36 :: 123 :: u) -> do_sub e text custom = Ok (VStr text).
Proof.
  intros H. apply do_sub_render.
  assert (E : sub_tokens text = map TText text).
  { apply sub_all_text_iff. intros a u -> HP. apply starts_placeholder_iff in HP.
    destruct HP as (n & rest & _ & [-> | ->]); eapply H; reflexivity. }
  rewrite E. apply render_toks_text.
Qed.
Corollary resolve_sub_no_placeholder e text :
  (forall a u, text <> a ++ 36 :: 123 :: u) -> resolve e (FSub text) = Ok (VStr text).
Proof. intros H. unfold FSub. rewrite resolve_sub_text. apply do_sub_no_placeholder. exact H. Qed.

Definition e_nil : env := {| params := []; mappings := []; conds := fun _ => Ok false |}.
(* ... so  {"Fn::Sub": "TRUE"}  is "TRUE" while the literal "TRUE" is "true" *)
Theorem sub_text_not_rendered : exists text,
  (forall a u, text <> a ++ 36 :: 123 :: u) /\ resolve e_nil (FSub text) <> resolve e_nil (VStr text).
Proof.
  exists [84;82;85;69]. split.
  - intros a u H. assert (Hin : In 36 [84;82;85;69]) by (rewrite H; apply in_or_app; right; left; reflexivity).
    simpl in Hin. repeat (destruct Hin as [Hin | Hin]; [discriminate Hin|]). exact Hin.
  - vm_compute. discriminate.
Qed.

(* an empty variable map is the one-argument form *)
Theorem resolve_sub_empty_map e text : resolve e (FSubV text (VDict [])) = resolve e (FSub text).
Proof. reflexivity. Qed.

(* two adjacent placeholders *)
Theorem do_sub_adjacent e custom a b ra rb : valid_name a -> valid_name b ->
  render_var e custom a = Ok ra -> render_var e custom b = Ok rb ->
  do_sub e (ph a ++ ph b) custom = Ok (VStr (ra ++ rb)).
Proof.
  intros Ha Hb Hra Hrb.
  pose proof (do_sub_placeholder e custom [] a (ph b) [] ra rb Ha eq_refl Hra
                (sub_no_rescan e custom b rb Hb (valid_name_no_bang b Hb) Hrb)) as H.
  unfold ph. cbn [app] in *. rewrite <- app_assoc. exact H.
Qed.

(* exactly once: the value of a variable is inserted verbatim, "${...}" inside it is not looked at again *)
Theorem do_sub_value_verbatim e custom pre n post a s c : valid_name n ->
  do_sub e pre custom = Ok (VStr a) -> render_var e custom n = Ok s -> do_sub e post custom = Ok (VStr c) ->
  do_sub e (pre ++ ph n ++ post) custom = Ok (VStr (a ++ s ++ c)).
Proof.
  intros Hv Ha Hs Hc. unfold ph. cbn [app]. rewrite <- app_assoc. exact (do_sub_placeholder e custom pre n post a s c Hv Ha Hs Hc).
Qed.
Theorem do_sub_bang_literal e custom n : valid_name n -> do_sub e (ph_bang n) custom = Ok (VStr (ph n)).
Proof.
  intros Hv. pose proof (do_sub_bang e custom [] n [] [] [] Hv eq_refl eq_refl) as H.
  cbn [app] in H. rewrite app_nil_r in H. exact H.
Qed.

(* an UNBOUND variable is left as written -- it is not given the UNDEFINED_PARAM_ text that Ref gives *)
Theorem do_sub_unbound e custom n : valid_name n -> lookup n custom = None -> lookup n (params e) = None ->
  do_sub e (ph n) custom = Ok (VStr (ph n)).
Proof.
  intros Hv H1 H2. apply (sub_no_rescan e custom n (ph n) Hv (valid_name_no_bang n Hv)).
  unfold render_var. rewrite H1, H2. reflexivity.
Qed.
Theorem sub_unbound_is_not_undefined_param : exists n, valid_name n /\
  resolve e_nil (FRef (VStr n)) = Ok (VStr (undefined_param n)) /\
  resolve e_nil (FSub (ph n)) = Ok (VStr (ph n)) /\ ph n <> undefined_param n.
Proof.
  exists [78]. split; [split; [discriminate | reflexivity]|].
  split; [vm_compute; reflexivity|]. split; [vm_compute; reflexivity | discriminate].
Qed.

(* what a variable inserts: numbers in decimal, booleans as true/false, text rendered; lists, objects, null: declined *)
Definition var_value (e : env) (custom : list (str * value)) (n : str) : option value :=
  match lookup n custom with Some x => Some x | None => lookup n (params e) end.
Lemma render_var_value e custom n :
  render_var e custom n =
  match var_value e custom n with
  | Some x => x' <- normalize (params e) x ;; match x' with VStr s => Ok s | _ => Err EUndefined end
  | None => Ok (ph n)
  end.
Proof. unfold render_var, var_value. destruct (lookup n custom); [reflexivity|]. destruct (lookup n (params e)); reflexivity. Qed.
Lemma normalize_leaf ps v t : leaf_text ps v = Some t -> normalize ps v = Ok (VStr t).
Proof. destruct v; simpl; intros H; inv H; reflexivity. Qed.
Theorem render_var_scalar e custom n x t :
  var_value e custom n = Some x -> leaf_text (params e) x = Some t -> render_var e custom n = Ok t.
Proof. intros Hv Hl. rewrite render_var_value, Hv, (normalize_leaf _ _ _ Hl). reflexivity. Qed.
Theorem render_var_container_declined e custom n x :
  var_value e custom n = Some x -> leaf_text (params e) x = None -> is_ok (render_var e custom n) = false.
Proof.
  intros Hv Hl. rewrite render_var_value, Hv. destruct x; try discriminate Hl.
  - reflexivity.
  - cbn [normalize]. match goal with |- context [bind (bind ?g _) _] => destruct g end; reflexivity.
  - cbn [normalize]. destruct (is_fn_dict d); [reflexivity|].
    match goal with |- context [bind (bind ?g _) _] => destruct g end; reflexivity.
Qed.

(* ------------------------------------------------------------------------------------------------------------ *)
(* 4. Ref / Fn::ImportValue                                                                                      *)
(* ------------------------------------------------------------------------------------------------------------ *)
(* what IS true: the name is itself a literal and is rendered first; the rendered name is looked up *)
Theorem resolve_ref_literal e p :
  resolve e (FRef (VStr p)) =
  match lookup (render_str (params e) p) (params e) with
  | Some x => normalize (params e) x
  | None => Ok (VStr (undefined_param (render_str (params e) p)))
  end.
Proof. reflexivity. Qed.
Theorem resolve_import_is_ref e b : resolve e (FImport b) = resolve e (FRef b).
Proof. reflexivity. Qed.

(* for a name that rendering leaves alone: Ref p = the rendered value of p; UNDEFINED_PARAM_p when unbound *)
Theorem resolve_ref_plain e p : plain_text p = true ->
  resolve e (FRef (VStr p)) =
  match lookup p (params e) with Some x => normalize (params e) x | None => Ok (VStr (undefined_param p)) end.
Proof. intros Hp. rewrite resolve_ref_literal, (plain_text_fixed _ _ Hp). reflexivity. Qed.

(* a list-typed parameter gives the list, member by member rendered *)
Lemma normalize_leaves ps l ts :
  Forall2 (fun v t => leaf_text ps v = Some t /\ t <> S_NOVALUE) l ts -> normalize ps (VList l) = Ok (VList (map VStr ts)).
Proof.
  intros HF. cbn [normalize].
  match goal with |- bind ?g _ = _ => assert (Hg : g = Ok (map VStr ts)) end.
  { induction HF as [|v t l ts [Hv Hn] HF IH]; [reflexivity|].
    rewrite (normalize_leaf ps v t Hv). cbn [bind]. rewrite IH. cbn [bind is_novalue map].
    apply str_eqb_neq in Hn. rewrite Hn. reflexivity. }
  rewrite Hg. reflexivity.
Qed.
Theorem resolve_ref_list e p l ts : plain_text p = true -> lookup p (params e) = Some (VList l) ->
  Forall2 (fun v t => leaf_text (params e) v = Some t /\ t <> S_NOVALUE) l ts ->
  resolve e (FRef (VStr p)) = Ok (VList (map VStr ts)).
Proof. intros Hp Hl HF. rewrite (resolve_ref_plain e p Hp), Hl. apply normalize_leaves. exact HF. Qed.

(* REFUTED for names that rendering rewrites: a parameter called "True" is bound and yet Ref "True" is UNDEFINED_PARAM_true *)
Definition s_True : str := [84;114;117;101].
Definition e_True : env := {| params := [(s_True, VStr [118])]; mappings := []; conds := fun _ => Ok false |}.
Theorem ref_boolean_name_refuted :
  lookup s_True (params e_True) = Some (VStr [118]) /\
  resolve e_True (FRef (VStr s_True)) = Ok (VStr (undefined_param (lower s_True))) /\
  resolve e_True (FSub (ph s_True)) = Ok (VStr [118]).
Proof. repeat split; vm_compute; reflexivity. Qed.

(* ${n} in Fn::Sub is Ref n -- for a BOUND text-valued parameter whose name rendering leaves alone *)
Theorem sub_is_ref e n x s : valid_name n -> plain_text n = true ->
  lookup n (params e) = Some x -> normalize (params e) x = Ok (VStr s) ->
  resolve e (FSub (ph n)) = resolve e (FRef (VStr n)).
Proof.
  intros Hv Hp Hl Hn. rewrite (resolve_ref_plain e n Hp), Hl, Hn. unfold FSub. rewrite resolve_sub_text.
  apply (sub_no_rescan e [] n s Hv (valid_name_no_bang n Hv)). unfold render_var. cbn [lookup]. rewrite Hl, Hn. reflexivity.
Qed.

(* pseudo parameters are overridden by the values supplied to resolve (binding: C04_precedence) *)
Theorem ref_supplied_overrides_pseudo pseudo decls extra ps maps cs k v w :
  bind_params pseudo decls extra = Ok ps -> NoDup (keys decls) -> plain_text k = true ->
  lookup k decls = None -> lookup k pseudo = Some w -> lookup k extra = Some v ->
  resolve {| params := ps; mappings := maps; conds := cs |} (FRef (VStr k)) = normalize ps v.
Proof.
  intros Hb Hnd Hp Hd _ Hx. rewrite (resolve_ref_plain _ k Hp). cbn [params].
  rewrite (bind_params_precedence pseudo decls extra ps Hb Hnd k), Hd, Hx. reflexivity.
Qed.

(* ------------------------------------------------------------------------------------------------------------ *)
(* 5. Fn::FindInMap                                                                                              *)
(* ------------------------------------------------------------------------------------------------------------ *)
Theorem undefined_mapping_text m k1 k2 :
  undefined_mapping m k1 k2 = S_UNDEF_MAPPING ++ m ++ [95] ++ k1 ++ [95] ++ k2.
Proof. reflexivity. Qed.

(* keys given by nested functions are resolved first; the answer is the leaf AS WRITTEN in the mapping (not rendered, not resolved)
   or the placeholder text built from the RESOLVED map name and keys *)
Theorem resolve_find_in_map_leaf e m k1 k2 ms s1 s2 : mappings_wf e ->
  resolve e m = Ok (VStr ms) -> resolve e k1 = Ok (VStr s1) -> resolve e k2 = Ok (VStr s2) ->
  resolve e (FFindInMap m k1 k2) =
  Ok (match mapping_leaf e ms s1 s2 with Some leaf => leaf | None => VStr (undefined_mapping ms s1 s2) end).
Proof.
  intros Hwf Hm H1 H2. unfold FFindInMap. rewrite resolve_find_in_map, Hm, H1, H2. cbn [bind].
  apply find_in_map_spec. exact Hwf.
Qed.

(* any of the three levels missing (or a null leaf): no hypothesis on the shape of the other mappings.
   "Missing" for the two keys is [lookup_bk ... = None] ([lookup_bk_None]: the key is not there as written and, if it is the text
   "true" / "false", no key there lower-cases to it); with the exact [lookup] the statement is false since the repair of F31 *)
Theorem do_find_in_map_missing e ms s1 s2 :
  lookup ms (mappings e) = None
  \/ (exists top, lookup ms (mappings e) = Some (VDict top) /\
        (lookup_bk s1 top = None
         \/ exists snd_, lookup_bk s1 top = Some (VDict snd_) /\ (lookup_bk s2 snd_ = None \/ lookup_bk s2 snd_ = Some VNull))) ->
  do_find_in_map e (VStr ms) (VStr s1) (VStr s2) = Ok (VStr (undefined_mapping ms s1 s2)).
Proof.
  unfold do_find_in_map. intros [H | (top & Ht & [H | (snd_ & Hs & [H | H])])].
  - rewrite H. reflexivity.
  - rewrite Ht, H. reflexivity.
  - rewrite Ht, Hs, H. reflexivity.
  - rewrite Ht, Hs, H. reflexivity.
Qed.
Theorem resolve_find_in_map_missing e m k1 k2 ms s1 s2 :
  resolve e m = Ok (VStr ms) -> resolve e k1 = Ok (VStr s1) -> resolve e k2 = Ok (VStr s2) ->
  lookup ms (mappings e) = None
  \/ (exists top, lookup ms (mappings e) = Some (VDict top) /\
        (lookup_bk s1 top = None
         \/ exists snd_, lookup_bk s1 top = Some (VDict snd_) /\ (lookup_bk s2 snd_ = None \/ lookup_bk s2 snd_ = Some VNull))) ->
  resolve e (FFindInMap m k1 k2) = Ok (VStr (undefined_mapping ms s1 s2)).
Proof.
  intros Hm H1 H2 H. unfold FFindInMap. rewrite resolve_find_in_map, Hm, H1, H2. cbn [bind].
  apply do_find_in_map_missing. exact H.
Qed.
Theorem do_find_in_map_leaf_verbatim e ms s1 s2 top snd_ leaf :
  lookup ms (mappings e) = Some (VDict top) -> lookup s1 top = Some (VDict snd_) -> lookup s2 snd_ = Some leaf ->
  leaf <> VNull -> do_find_in_map e (VStr ms) (VStr s1) (VStr s2) = Ok leaf.
Proof.
  intros H1 H2 H3 Hn. unfold do_find_in_map. rewrite H1, (lookup_bk_exact _ _ _ H2), (lookup_bk_exact _ _ _ H3).
  destruct leaf; try reflexivity. congruence.
Qed.

(* a key written like a boolean.  [key_text s] is the text a key written [s] (not an SSM reference) reaches the lookup as: boolean
   spellings lower-cased.  The mapping's key [s] is found by it when it is the only spelling of that boolean at its level; a key that
   is not a boolean spelling is simply looked up as written. *)
Definition key_text (s : str) : str := if is_boolish s then lower s else s.
Definition only_spelling (k : str) (d : list (str * value)) : Prop := forall k', In k' (keys d) -> lower k' = lower k -> k' = k.
Lemma render_str_key_text ps s : ssm_key s = None -> render_str ps s = key_text s.
Proof. intros H. unfold render_str, key_text. rewrite H. reflexivity. Qed.
Lemma lookup_bk_key_text k d (v : value) :
  lookup k d = Some v -> (is_boolish k = true -> only_spelling k d) -> lookup_bk (key_text k) d = Some v.
Proof.
  intros Hl Hu. unfold key_text. destruct (is_boolish k) eqn:B.
  - apply lookup_bk_spelling; [exact B | exact Hl | exact (Hu eq_refl)].
  - apply lookup_bk_exact. exact Hl.
Qed.
Theorem do_find_in_map_boolean_key e ms s1 s2 top snd_ leaf :
  lookup ms (mappings e) = Some (VDict top) -> lookup s1 top = Some (VDict snd_) -> lookup s2 snd_ = Some leaf -> leaf <> VNull ->
  (is_boolish s1 = true -> only_spelling s1 top) -> (is_boolish s2 = true -> only_spelling s2 snd_) ->
  do_find_in_map e (VStr ms) (VStr (key_text s1)) (VStr (key_text s2)) = Ok leaf.
Proof.
  intros H1 H2 H3 Hn U1 U2. unfold do_find_in_map.
  rewrite H1, (lookup_bk_key_text _ _ _ H2 U1), (lookup_bk_key_text _ _ _ H3 U2). destruct leaf; try reflexivity. congruence.
Qed.
(* literal keys: looked up as written, boolean spelling or not *)
Theorem resolve_find_in_map_boolean_key e ms s1 s2 top snd_ leaf :
  plain_text ms = true -> ssm_key s1 = None -> ssm_key s2 = None ->
  lookup ms (mappings e) = Some (VDict top) -> lookup s1 top = Some (VDict snd_) -> lookup s2 snd_ = Some leaf -> leaf <> VNull ->
  (is_boolish s1 = true -> only_spelling s1 top) -> (is_boolish s2 = true -> only_spelling s2 snd_) ->
  resolve e (FFindInMap (VStr ms) (VStr s1) (VStr s2)) = Ok leaf.
Proof.
  intros Hm K1 K2 H1 H2 H3 Hn U1 U2. unfold FFindInMap. rewrite resolve_find_in_map. cbn [resolve bind].
  rewrite (plain_text_fixed _ _ Hm), (render_str_key_text _ _ K1), (render_str_key_text _ _ K2).
  apply (do_find_in_map_boolean_key e ms s1 s2 top snd_ leaf); assumption.
Qed.
(* the top-level key through a Ref to a parameter whose value is that text *)
Theorem resolve_find_in_map_ref_key e ms p s1 s2 top snd_ leaf :
  plain_text ms = true -> plain_text p = true -> lookup p (params e) = Some (VStr s1) -> ssm_key s1 = None -> ssm_key s2 = None ->
  lookup ms (mappings e) = Some (VDict top) -> lookup s1 top = Some (VDict snd_) -> lookup s2 snd_ = Some leaf -> leaf <> VNull ->
  (is_boolish s1 = true -> only_spelling s1 top) -> (is_boolish s2 = true -> only_spelling s2 snd_) ->
  resolve e (FFindInMap (VStr ms) (FRef (VStr p)) (VStr s2)) = Ok leaf.
Proof.
  intros Hm Hp Lp K1 K2 H1 H2 H3 Hn U1 U2. unfold FFindInMap. rewrite resolve_find_in_map, (resolve_ref_plain e p Hp), Lp.
  cbn [resolve normalize bind].
  rewrite (plain_text_fixed _ _ Hm), (render_str_key_text _ _ K1), (render_str_key_text _ _ K2).
  apply (do_find_in_map_boolean_key e ms s1 s2 top snd_ leaf); assumption.
Qed.

(* REFUTED: the result is rendered (F14b: a leaf "True" / 0 / false comes out as written).
   NO LONGER REFUTED (finding F31, repaired in the library by acd13a2 and here by [lookup_bk]): "a literal key is looked up as written" --
   the key "True" is still rendered to "true" first, but now finds the mapping's "True": [ex_find_in_map_boolean_key]. *)
Definition e_map : env :=
  {| params := [([80], VStr s_True)];
     mappings := [([77], VDict [(s_True, VDict [([107], VStr [121;101;115])]);
                                ([97], VDict [([84], VStr s_True); ([110], VInt 0); ([102], VBool false)])])];
     conds := fun _ => Ok false |}.
Theorem find_in_map_unrendered_refuted :
  resolve e_map (FFindInMap (VStr [77]) (VStr [97]) (VStr [84])) = Ok (VStr s_True) /\
  rendered (params e_map) (VStr s_True) = false /\
  resolve e_map (FFindInMap (VStr [77]) (VStr [97]) (VStr [110])) = Ok (VInt 0) /\
  resolve e_map (FFindInMap (VStr [77]) (VStr [97]) (VStr [102])) = Ok (VBool false).
Proof. repeat split; vm_compute; reflexivity. Qed.
(* Mappings {"M":{"True":{"k":"yes"}, "a": ...}}, P = "True": FindInMap ["M","True","k"] = FindInMap ["M",{"Ref":"P"},"k"] = "yes";
   the hypotheses of the two theorems above hold on it *)
Lemma e_map_only_spelling : only_spelling s_True [(s_True, VDict [([107], VStr [121;101;115])]);
                                                  ([97], VDict [([84], VStr s_True); ([110], VInt 0); ([102], VBool false)])].
Proof. intros k' [H|[H|[]]] Hl; [symmetry; exact H | subst k'; vm_compute in Hl; discriminate]. Qed.
Theorem ex_find_in_map_boolean_key :
  mapping_leaf e_map [77] (lower s_True) [107] = Some (VStr [121;101;115]) /\
  key_text s_True = lower s_True /\ is_boolish s_True = true /\ plain_text [77] = true /\ plain_text [80] = true /\
  ssm_key s_True = None /\ ssm_key [107] = None /\ is_boolish [107] = false /\
  resolve e_map (FFindInMap (VStr [77]) (VStr s_True) (VStr [107])) = Ok (VStr [121;101;115]) /\
  resolve e_map (FFindInMap (VStr [77]) (FRef (VStr [80])) (VStr [107])) = Ok (VStr [121;101;115]).
Proof. repeat split; vm_compute; reflexivity. Qed.
(* two spellings of one boolean at one level: the FIRST in dictionary order answers (so "looked up as written" needs [only_spelling]);
   a key present exactly as the lookup text ("true") always answers for itself *)
Definition maps_two (first second : str) : list (str * value) :=
  [([77], VDict [(first, VDict [([107], VStr [110;111])]); (second, VDict [([107], VStr [121;101;115])])])].
Theorem find_in_map_first_spelling_wins :
  let e12 := {| params := []; mappings := maps_two s_TRUE s_True; conds := fun _ => Ok false |} in
  let e21 := {| params := []; mappings := maps_two s_True s_TRUE; conds := fun _ => Ok false |} in
  let e3 := {| params := []; mappings := maps_two s_TRUE S_true; conds := fun _ => Ok false |} in
  resolve e12 (FFindInMap (VStr [77]) (VStr s_True) (VStr [107])) = Ok (VStr [110;111]) /\
  resolve e21 (FFindInMap (VStr [77]) (VStr s_True) (VStr [107])) = Ok (VStr [110;111]) /\
  resolve e21 (FFindInMap (VStr [77]) (VStr s_TRUE) (VStr [107])) = Ok (VStr [110;111]) /\
  resolve e3 (FFindInMap (VStr [77]) (VStr s_True) (VStr [107])) = Ok (VStr [121;101;115]).
Proof. cbv zeta. repeat split; vm_compute; reflexivity. Qed.

(* ------------------------------------------------------------------------------------------------------------ *)
(* 6. Fn::Base64                                                                                                 *)
(* ------------------------------------------------------------------------------------------------------------ *)
Theorem resolve_base64_text e b s : resolve e b = Ok (VStr s) -> resolve e (FBase64 b) = Ok (VStr (b64encode (utf8 s))).
Proof. intros H. unfold FBase64. rewrite resolve_base64, H. reflexivity. Qed.
(* a list, an object, null or a Python bool (from a condition function): declined (the library raises AttributeError) *)
Theorem resolve_base64_non_text e b r : resolve e b = Ok r -> (forall s, r <> VStr s) -> resolve e (FBase64 b) = Err EUndefined.
Proof.
  intros H Hn. unfold FBase64. rewrite resolve_base64, H. cbn [bind]. destruct r; try reflexivity. exfalso. eapply Hn. reflexivity.
Qed.

(* --- the encoder [b64encode] (Resolver/Text.v) is inverted by the model of Python's base64.b64decode (Robust/Validators.v) --- *)
Definition sextets : list N := map N.of_nat (seq 0 64).
Lemma sextet_in n : n < 64 -> In n sextets.
Proof.
  intros H. unfold sextets. apply in_map_iff. exists (N.to_nat n). split; [apply N2Nat.id|].
  apply in_seq. lia.
Qed.
Lemma b64_char_facts n : n < 64 ->
  b64_val (b64_char n) = Some n /\ (b64_char n =? 61) = false /\ (b64_char n <? 128) = true.
Proof.
  intros H.
  assert (A : forallb (fun n => match b64_val (b64_char n) with Some m => m =? n | None => false end
                               && negb (b64_char n =? 61) && (b64_char n <? 128)) sextets = true) by (vm_compute; reflexivity).
  rewrite forallb_forall in A. specialize (A n (sextet_in n H)).
  apply andb_true_iff in A. destruct A as [A A3]. apply andb_true_iff in A. destruct A as [A1 A2].
  destruct (b64_val (b64_char n)) as [m|]; [|discriminate]. apply N.eqb_eq in A1. subst m.
  apply negb_true_iff in A2. auto.
Qed.
Lemma b64_char_ascii n : (b64_char n <? 128) = true.
Proof.
  unfold b64_char. destruct (n <? 26) eqn:E1; [apply N.ltb_lt in E1; apply N.ltb_lt; lia|].
  destruct (n <? 52) eqn:E2; [apply N.ltb_lt in E2; apply N.ltb_lt; lia|].
  destruct (n <? 62) eqn:E3; [apply N.ltb_lt in E3; apply N.ltb_lt; lia|].
  destruct (n =? 62); reflexivity.
Qed.

Lemma dec_step n r qp pads left out : n < 64 ->
  b64dec_go (b64_char n :: r) qp pads left out =
  if qp =? 0 then b64dec_go r 1 0 n out
  else if qp =? 1 then b64dec_go r 2 0 (n mod 16) ((left * 4 + n / 16) :: out)
  else if qp =? 2 then b64dec_go r 3 0 (n mod 4) ((left * 16 + n / 4) :: out)
  else b64dec_go r 0 0 0 ((left * 64 + n) :: out).
Proof.
  intros H. destruct (b64_char_facts n H) as (Hv & Hp & _). cbn [b64dec_go]. rewrite Hp, Hv. reflexivity.
Qed.

(* the arithmetic of one group of three bytes *)
Lemma split_byte a k : k <> 0 -> a = k * (a / k) + a mod k /\ a mod k < k.
Proof. intros Hk. split; [apply N.div_mod; exact Hk | apply N.mod_lt; exact Hk]. Qed.
Lemma quot_lt a k m : k <> 0 -> a < k * m -> a / k < m.
Proof. intros Hk H. apply N.div_lt_upper_bound; assumption. Qed.
Lemma divmod_unique x k q r : r < k -> x = k * q + r -> x / k = q /\ x mod k = r.
Proof. intros Hr Hx. split; [symmetry; eapply N.div_unique; eauto | symmetry; eapply N.mod_unique; eauto]. Qed.

Lemma b64dec_encode bs : Forall (fun b => b < 256) bs -> forall out,
  b64dec_go (b64encode bs) 0 0 0 out = Some (rev out ++ bs).
Proof.
  remember (length bs) as n eqn:Hn. revert bs Hn.
  induction n as [n IH] using lt_wf_ind. intros bs Hn HF out.
  destruct bs as [|a [|b [|c rest]]]; cbn [b64encode].
  - cbn. rewrite app_nil_r. reflexivity.
  - inversion HF as [|? ? Ha _]; subst.
    destruct (split_byte a 4 ltac:(discriminate)) as [Ea Ra].
    assert (Qa : a / 4 < 64) by (apply quot_lt; [discriminate | lia]).
    remember (a / 4) as qa. remember (a mod 4) as ra.
    rewrite dec_step by exact Qa. cbn [N.eqb].
    rewrite dec_step by lia. cbn [N.eqb Pos.eqb].
    destruct (divmod_unique (ra * 16) 16 ra 0 ltac:(lia) ltac:(lia)) as [D1 M1]. rewrite D1, M1.
    cbn. f_equal. rewrite rev_involutive || idtac. f_equal. replace (qa * 4 + ra) with a by lia. reflexivity.
  - inversion HF as [|? ? Ha HF1]; subst. inversion HF1 as [|? ? Hb _]; subst.
    destruct (split_byte a 4 ltac:(discriminate)) as [Ea Ra].
    assert (Qa : a / 4 < 64) by (apply quot_lt; [discriminate | lia]).
    destruct (split_byte b 16 ltac:(discriminate)) as [Eb Rb].
    assert (Qb : b / 16 < 16) by (apply quot_lt; [discriminate | lia]).
    remember (a / 4) as qa. remember (a mod 4) as ra. remember (b / 16) as qb. remember (b mod 16) as rb.
    rewrite dec_step by exact Qa. cbn [N.eqb].
    rewrite dec_step by lia. cbn [N.eqb Pos.eqb].
    destruct (divmod_unique (ra * 16 + qb) 16 ra qb ltac:(lia) ltac:(lia)) as [D1 M1]. rewrite D1, M1.
    rewrite dec_step by lia. cbn [N.eqb Pos.eqb].
    destruct (divmod_unique (rb * 4) 4 rb 0 ltac:(lia) ltac:(lia)) as [D2 M2]. rewrite D2, M2.
    cbn. f_equal. replace (qa * 4 + ra) with a by lia. replace (qb * 16 + rb) with b by lia.
    rewrite <- !app_assoc. reflexivity.
  - inversion HF as [|? ? Ha HF1]; subst. inversion HF1 as [|? ? Hb HF2]; subst. inversion HF2 as [|? ? Hc HF3]; subst.
    destruct (split_byte a 4 ltac:(discriminate)) as [Ea Ra].
    assert (Qa : a / 4 < 64) by (apply quot_lt; [discriminate | lia]).
    destruct (split_byte b 16 ltac:(discriminate)) as [Eb Rb].
    assert (Qb : b / 16 < 16) by (apply quot_lt; [discriminate | lia]).
    destruct (split_byte c 64 ltac:(discriminate)) as [Ec Rc].
    assert (Qc : c / 64 < 4) by (apply quot_lt; [discriminate | lia]).
    remember (a / 4) as qa. remember (a mod 4) as ra. remember (b / 16) as qb. remember (b mod 16) as rb.
    remember (c / 64) as qc. remember (c mod 64) as rc.
    rewrite dec_step by exact Qa. cbn [N.eqb].
    rewrite dec_step by lia. cbn [N.eqb Pos.eqb].
    destruct (divmod_unique (ra * 16 + qb) 16 ra qb ltac:(lia) ltac:(lia)) as [D1 M1]. rewrite D1, M1.
    rewrite dec_step by lia. cbn [N.eqb Pos.eqb].
    destruct (divmod_unique (rb * 4 + qc) 4 rb qc ltac:(lia) ltac:(lia)) as [D2 M2]. rewrite D2, M2.
    rewrite dec_step by lia. cbn [N.eqb Pos.eqb].
    replace (qa * 4 + ra) with a by lia. replace (qb * 16 + rb) with b by lia. replace (qc * 64 + rc) with c by lia.
    rewrite (IH (length rest)) with (bs := rest); [| cbn [length]; lia | reflexivity | exact HF3].
    cbn [rev]. rewrite <- !app_assoc. reflexivity.
Qed.

Lemma b64encode_ascii bs : forallb (fun c => c <? 128) (b64encode bs) = true.
Proof.
  remember (length bs) as n eqn:Hn. revert bs Hn.
  induction n as [n IH] using lt_wf_ind. intros bs Hn.
  destruct bs as [|a [|b [|c rest]]]; cbn [b64encode forallb]; rewrite ?b64_char_ascii; try reflexivity.
  cbn [andb]. apply (IH (length rest)); [subst n; cbn [length]; lia | reflexivity].
Qed.

Theorem b64_roundtrip bs : Forall (fun b => b < 256) bs -> b64decode (b64encode bs) = Some bs.
Proof. intros H. unfold b64decode. rewrite b64encode_ascii. exact (b64dec_encode bs H []). Qed.

(* UTF-8 of Unicode code points is a byte string *)
Lemma utf8_bytes s : Forall (fun c => c < 1114112) s -> Forall (fun b => b < 256) (utf8 s).
Proof.
  induction 1 as [|c s Hc _ IH]; [constructor|]. unfold utf8. cbn [flat_map]. apply Forall_app. split; [|exact IH].
  unfold utf8_cp.
  assert (M64 : forall x, x mod 64 < 64) by (intros x; apply N.mod_lt; discriminate).
  destruct (c <? 128) eqn:E1; [apply N.ltb_lt in E1; repeat constructor; lia|]. apply N.ltb_ge in E1.
  destruct (c <? 2048) eqn:E2.
  { apply N.ltb_lt in E2. assert (c / 64 < 32) by (apply quot_lt; [discriminate | lia]).
    pose proof (M64 c). repeat constructor; lia. }
  apply N.ltb_ge in E2. destruct (c <? 65536) eqn:E3.
  { apply N.ltb_lt in E3. assert (c / 4096 < 16) by (apply quot_lt; [discriminate | lia]).
    pose proof (M64 c). pose proof (M64 (c / 64)). repeat constructor; lia. }
  assert (c / 262144 < 16) by (apply quot_lt; [discriminate | lia]).
  pose proof (M64 c). pose proof (M64 (c / 64)). pose proof (M64 (c / 4096)). repeat constructor; lia.
Qed.

Theorem resolve_base64_roundtrip e b s : Forall (fun c => c < 1114112) s -> resolve e b = Ok (VStr s) ->
  exists t, resolve e (FBase64 b) = Ok (VStr t) /\ b64decode t = Some (utf8 s).
Proof.
  intros Hs Hb. exists (b64encode (utf8 s)). split; [apply resolve_base64_text; exact Hb|].
  apply b64_roundtrip, utf8_bytes. exact Hs.
Qed.

(* ------------------------------------------------------------------------------------------------------------ *)
(* 7. Composition: [resolve] is a congruence for "has the same resolved value", at every EVALUATED position      *)
(* ------------------------------------------------------------------------------------------------------------ *)
(* [Cong e a b]: b is a with any number of sub-expressions replaced by expressions that resolve to the same thing.
   The positions are those whose value [resolve] obtains by resolving the sub-expression: members of lists and objects,
   the body of Ref / Fn::ImportValue / Fn::Base64, the arguments of Join / Split / Select / FindInMap / Equals, the variable
   map of Fn::Sub, the branches of Fn::If, the operands of And / Or / Not.  NOT the positions that are read as SYNTAX:
   the argument list itself, the text of Fn::Sub, a condition name ([congruence_syntax_refuted] below). *)
Inductive Cong (e : env) : value -> value -> Prop :=
| Cg_same a b : resolve e a = resolve e b -> Cong e a b
| Cg_list l l' : CongList e l l' -> Cong e (VList l) (VList l')
| Cg_dict d d' : is_fn_dict d = false -> CongDict e d d' -> Cong e (VDict d) (VDict d')
| Cg_body k b b' : k = K_Ref \/ k = K_ImportValue \/ k = K_Base64 -> Cong e b b' -> Cong e (VDict [(k, b)]) (VDict [(k, b')])
| Cg_join d d' l l' : Cong e d d' -> Cong e l l' -> Cong e (FJoin d l) (FJoin d' l')
| Cg_split d d' s s' : Cong e d d' -> Cong e s s' -> Cong e (FSplit d s) (FSplit d' s')
| Cg_select i i' l l' : Cong e i i' -> Cong e l l' -> Cong e (FSelect i l) (FSelect i' l')
| Cg_find_in_map m m' k1 k1' k2 k2' : Cong e m m' -> Cong e k1 k1' -> Cong e k2 k2' ->
    Cong e (FFindInMap m k1 k2) (FFindInMap m' k1' k2')
| Cg_sub text vars vars' : Cong e vars vars' -> Cong e (FSubV text vars) (FSubV text vars')
| Cg_if c t t' f f' : Cong e t t' -> Cong e f f' ->
    Cong e (VDict [(K_If, VList [VStr c; t; f])]) (VDict [(K_If, VList [VStr c; t'; f'])])
| Cg_and parts parts' : CongList e parts parts' -> Cong e (VDict [(K_And, VList parts)]) (VDict [(K_And, VList parts')])
| Cg_or parts parts' : CongList e parts parts' -> Cong e (VDict [(K_Or, VList parts)]) (VDict [(K_Or, VList parts')])
| Cg_not x x' rest rest' : Cong e x x' -> Cong e (VDict [(K_Not, VList (x :: rest))]) (VDict [(K_Not, VList (x' :: rest'))])
| Cg_equals a a' b b' : Cong e a a' -> Cong e b b' ->
    Cong e (VDict [(K_Equals, VList [a; b])]) (VDict [(K_Equals, VList [a'; b'])])
with CongList (e : env) : list value -> list value -> Prop :=
| CL_nil : CongList e [] []
| CL_cons x x' xs xs' : Cong e x x' -> CongList e xs xs' -> CongList e (x :: xs) (x' :: xs')
with CongDict (e : env) : list (str * value) -> list (str * value) -> Prop :=
| CD_nil : CongDict e [] []
| CD_cons k x x' xs xs' : Cong e x x' -> CongDict e xs xs' -> CongDict e ((k, x) :: xs) ((k, x') :: xs').

Scheme Cong_mut := Induction for Cong Sort Prop
  with CongList_mut := Induction for CongList Sort Prop
  with CongDict_mut := Induction for CongDict Sort Prop.
Combined Scheme Cong_mutind from Cong_mut, CongList_mut, CongDict_mut.

Lemma is_fn_dict_keys d d' : map fst d = map fst d' -> is_fn_dict d = is_fn_dict d'.
Proof.
  destruct d as [|[k x] [|kv d]], d' as [|[k' x'] [|kv' d']]; simpl; intros H; try discriminate; try reflexivity.
  inv H. reflexivity.
Qed.

Theorem cong_sound e :
  (forall a b, Cong e a b -> resolve e a = resolve e b) /\
  (forall l l', CongList e l l' -> rlist e l = rlist e l' /\ rall e l = rall e l' /\ rany e l = rany e l') /\
  (forall d d', CongDict e d d' -> rdict e d = rdict e d' /\ map fst d = map fst d').
Proof.
  apply Cong_mutind.
  - intros a b H. exact H.
  - intros l l' _ (H & _ & _). rewrite !resolve_list, H. reflexivity.
  - intros d d' Hf _ (H & Hk).
    rewrite (resolve_dict_generic e d Hf), (resolve_dict_generic e d') by (rewrite <- (is_fn_dict_keys d d' Hk); exact Hf).
    rewrite H. reflexivity.
  - intros k b b' Hk _ IH. destruct Hk as [-> | [-> | ->]].
    + rewrite !resolve_ref, IH. reflexivity.
    + rewrite !resolve_import, IH. reflexivity.
    + rewrite !resolve_base64, IH. reflexivity.
  - intros d d' l l' _ IH1 _ IH2. unfold FJoin. rewrite !resolve_join, IH1, IH2. reflexivity.
  - intros d d' s s' _ IH1 _ IH2. unfold FSplit. rewrite !resolve_split, IH1, IH2. reflexivity.
  - intros i i' l l' _ IH1 _ IH2. unfold FSelect. rewrite !resolve_select, IH1, IH2. reflexivity.
  - intros m m' k1 k1' k2 k2' _ IH1 _ IH2 _ IH3. unfold FFindInMap. rewrite !resolve_find_in_map, IH1, IH2, IH3. reflexivity.
  - intros text vars vars' _ IH. unfold FSubV. rewrite !resolve_sub_vars, IH. reflexivity.
  - intros c t t' f f' _ IH1 _ IH2. rewrite !resolve_if, IH1, IH2. reflexivity.
  - intros parts parts' _ (_ & H & _). rewrite !resolve_and, H. reflexivity.
  - intros parts parts' _ (_ & _ & H). rewrite !resolve_or, H. reflexivity.
  - intros x x' rest rest' _ IH. rewrite !resolve_not, IH. reflexivity.
  - intros a a' b b' _ IH1 _ IH2. rewrite !resolve_equals, IH1, IH2. reflexivity.
  - repeat split; reflexivity.
  - intros x x' xs xs' _ IH _ (H1 & H2 & H3). cbn [rlist rall rany]. fold (rlist e) (rall e) (rany e).
    rewrite IH, H1, H2, H3. repeat split; reflexivity.
  - split; reflexivity.
  - intros k x x' xs xs' _ IH _ (H1 & H2). cbn [rdict map fst]. fold (rdict e). rewrite IH, H1, H2. split; reflexivity.
Qed.

Corollary resolve_congruence e a b : Cong e a b -> resolve e a = resolve e b.
Proof. apply cong_sound. Qed.

Lemma cong_refl e v : Cong e v v. Proof. apply Cg_same. reflexivity. Qed.
Lemma conglist_refl e l : CongList e l l.
Proof. induction l as [|x l IH]; constructor; [apply cong_refl | exact IH]. Qed.
Lemma congdict_refl e d : CongDict e d d.
Proof. induction d as [|[k x] d IH]; constructor; [apply cong_refl | exact IH]. Qed.
(* one hole: a member of a list / of an object *)
Lemma conglist_at e pre a b post : Cong e a b -> CongList e (pre ++ a :: post) (pre ++ b :: post).
Proof. intros H. induction pre as [|x pre IH]; simpl; constructor; [exact H | apply conglist_refl | apply cong_refl | exact IH]. Qed.
Lemma congdict_at e pre k a b post : Cong e a b -> CongDict e (pre ++ (k, a) :: post) (pre ++ (k, b) :: post).
Proof.
  intros H. induction pre as [|[k0 x] pre IH]; simpl; constructor; [exact H | apply congdict_refl | apply cong_refl | exact IH].
Qed.

(* resolving in place: a sub-expression may be replaced by its own resolved value -- when that value is rendered and
   function-free (C03_fixed_point); then C[f] and C[resolve f] resolve alike, at any depth *)
Theorem cong_resolved_value e f r : resolve e f = Ok r -> no_fn_dict r = true -> rendered (params e) r = true -> Cong e f r.
Proof. intros Hf Hn Hr. apply Cg_same. rewrite Hf. symmetry. apply rendered_fixed_point; assumption. Qed.

(* REFUTED without "rendered": Join ["", ["TR","UE"]] resolves to "TRUE"; inside Join ["-", [_, "x"]] the expression gives
   "TRUE-x", its value written as a literal gives "true-x" (the literal is lower-cased; F20) *)
Theorem resolve_in_place_refuted : exists f r,
  resolve e_nil f = Ok r /\
  resolve e_nil (FJoin (VStr [45]) (VList [f; VStr [120]])) <> resolve e_nil (FJoin (VStr [45]) (VList [r; VStr [120]])).
Proof.
  exists (FJoin (VStr []) (VList [VStr [84;82]; VStr [85;69]])), (VStr [84;82;85;69]).
  split; [vm_compute; reflexivity | vm_compute; discriminate].
Qed.

(* REFUTED at the positions read as syntax: same resolved value, different result *)
Theorem congruence_syntax_refuted :
  (* the text of Fn::Sub *)
  (exists a b, resolve e_nil a = resolve e_nil b /\
     resolve e_nil (VDict [(K_Sub, VList [a; VDict []])]) <> resolve e_nil (VDict [(K_Sub, VList [b; VDict []])])) /\
  (* the argument list of Fn::Join as a whole *)
  (exists a b, resolve e_nil a = resolve e_nil b /\
     resolve e_nil (VDict [(K_Join, a)]) <> resolve e_nil (VDict [(K_Join, b)])) /\
  (* the condition name of Fn::If *)
  (exists a b, resolve e_nil a = resolve e_nil b /\
     resolve e_nil (VDict [(K_If, VList [a; VStr [116]; VStr [102]])]) <> resolve e_nil (VDict [(K_If, VList [b; VStr [116]; VStr [102]])])).
Proof.
  split; [|split].
  - exists (VStr [120]), (FJoin (VStr []) (VList [VStr [120]])). split; [vm_compute; reflexivity | vm_compute; discriminate].
  - exists (VList [VStr [45]; VList [VStr [120]; VStr [121]]]), (VList [VStr [45]; VList [VStr [120]; VStr [121]]; VStr S_NOVALUE]).
    split; [vm_compute; reflexivity | vm_compute; discriminate].
  - exists (VStr [99]), (FJoin (VStr []) (VList [VStr [99]])). split; [vm_compute; reflexivity | vm_compute; discriminate].
Qed.

(* ------------------------------------------------------------------------------------------------------------ *)
(* 8. Rendering ([render_str] on texts, [normalize] on parameter values)                                         *)
(* ------------------------------------------------------------------------------------------------------------ *)
(* a text is returned as it is, except: the boolean spellings (any capitalisation of true / false) are lower-cased, and a text
   that STARTS with an SSM reference {{resolve:ssm:NAME:VERSION}} is replaced by the parameter bound to NAME:VERSION *)
Theorem render_str_cases ps s :
  render_str ps s =
  match ssm_key s with
  | Some key => match lookup key ps with Some (VStr (c :: r)) => c :: r | _ => undefined_param key end
  | None => if str_eqb (lower s) S_true || str_eqb (lower s) S_false then lower s else s
  end.
Proof. reflexivity. Qed.
Theorem render_str_boolean ps s : ssm_key s = None -> lower s = S_true \/ lower s = S_false -> render_str ps s = lower s.
Proof.
  intros Hk Hb. unfold render_str, is_boolish. rewrite Hk.
  destruct Hb as [-> | ->]; reflexivity.
Qed.
Theorem render_str_other ps s : ssm_key s = None -> lower s <> S_true -> lower s <> S_false -> render_str ps s = s.
Proof.
  intros Hk H1 H2. unfold render_str, is_boolish. rewrite Hk.
  apply str_eqb_neq in H1, H2. rewrite H1, H2. reflexivity.
Qed.

(* idempotence of [normalize] *)
Lemma normalize_fixed ps r : no_fn_dict r = true -> rendered ps r = true -> normalize ps r = Ok r.
Proof.
  induction r using value_ind'; intros Hn Hr; simpl in Hr; try discriminate; try reflexivity.
  - simpl. apply str_eqb_spec in Hr. rewrite Hr. reflexivity.
  - cbn [normalize]. simpl in Hn.
    match goal with |- bind ?g _ = _ => assert (Hg : g = Ok l) end.
    { induction H as [|x xs Hx Hxs IH]; [reflexivity|]. simpl in Hn, Hr.
      apply andb_true_iff in Hn. destruct Hn as [Hn1 Hn2]. apply andb_true_iff in Hr. destruct Hr as [Hr1 Hr2].
      apply andb_true_iff in Hr1. destruct Hr1 as [Hr1 Hnv]. apply negb_true_iff in Hnv.
      rewrite (Hx Hn1 Hr1). cbn [bind]. rewrite (IH Hn2 Hr2). cbn [bind]. rewrite Hnv. reflexivity. }
    rewrite Hg. reflexivity.
  - cbn [normalize]. rewrite (no_fn_dict_not_fn_dict d Hn). simpl in Hn. apply andb_true_iff in Hn. destruct Hn as [_ Hn].
    match goal with |- bind ?g _ = _ => assert (Hg : g = Ok d) end.
    { induction H as [|[k x] xs Hx Hxs IH]; [reflexivity|]. simpl in Hn, Hr, Hx.
      apply andb_true_iff in Hn. destruct Hn as [Hn1 Hn2]. apply andb_true_iff in Hr. destruct Hr as [Hr1 Hr2].
      apply andb_true_iff in Hr1. destruct Hr1 as [Hr1 Hnv]. apply negb_true_iff in Hnv.
      rewrite (Hx Hn1 Hr1). cbn [bind]. rewrite (IH Hn2 Hr2). cbn [bind]. rewrite Hnv. reflexivity. }
    rewrite Hg. reflexivity.
Qed.

Theorem normalize_idempotent ps v r : ssm_values_fixed ps -> atoms_fixed ps v = true ->
  normalize ps v = Ok r -> no_fn_dict r = true -> normalize ps r = Ok r.
Proof. intros Hs Ha Hv Hn. apply normalize_fixed; [exact Hn | exact (normalize_rendered ps Hs v r Ha Hv)]. Qed.

(* REFUTED without the hypothesis on SSM values: "{{resolve:ssm:/p:1}}" with /p:1 = "TRUE" renders to "TRUE", which renders to "true" *)
Theorem render_idempotent_refuted : exists ps s,
  render_str ps (render_str ps s) <> render_str ps s /\
  exists r r2, normalize ps (VStr s) = Ok r /\ normalize ps r = Ok r2 /\ r2 <> r.
Proof.
  exists ps_ssm_TRUE, (S_SSM_PREFIX ++ [47;112;58;49;125;125]). split; [vm_compute; discriminate|].
  exists (VStr [84;82;85;69]), (VStr [116;114;117;101]). repeat split; try (vm_compute; reflexivity). discriminate.
Qed.

(* what rendering identifies and what it keeps apart: 1 and "1" alike, true / "True" / "TRUE" alike, 1 and true apart *)
Theorem render_identifications ps :
  normalize ps (VInt 1) = normalize ps (VStr [49]) /\
  normalize ps (VBool true) = normalize ps (VStr s_True) /\
  normalize ps (VBool true) = normalize ps (VStr [84;82;85;69]) /\
  normalize ps (VInt 1) <> normalize ps (VBool true) /\
  normalize ps (VInt 0) <> normalize ps (VBool false).
Proof. repeat split; try reflexivity; discriminate. Qed.

(* ------------------------------------------------------------------------------------------------------------ *)
(* 9. The boundary of sections 1-2: a TEXT where the list is expected                                            *)
(* ------------------------------------------------------------------------------------------------------------ *)
(* Ref to an unbound list parameter, Fn::GetAZs and Fn::GetAtt resolve to a placeholder TEXT; the model declines to say what
   Fn::Join / Fn::Select make of a text (the library treats it as the list of its characters: "G,E,T,A,Z,S", "G") *)
Theorem resolve_join_over_text_declined e dl ds l t :
  resolve e dl = Ok (VStr ds) -> resolve e l = Ok (VStr t) -> resolve e (FJoin dl l) = Err EUndefined.
Proof. intros Hd Hl. unfold FJoin. rewrite resolve_join, Hd, Hl. reflexivity. Qed.
Theorem resolve_select_over_text_declined e i s l t :
  resolve e i = Ok (VStr s) -> resolve e l = Ok (VStr t) -> resolve e (FSelect i l) = Err EUndefined.
Proof. intros Hi Hl. unfold FSelect. rewrite resolve_select, Hi, Hl. reflexivity. Qed.

(* ------------------------------------------------------------------------------------------------------------ *)
(* 10. The environment and the context used by the Examples of Properties/C01.v                                  *)
(* ------------------------------------------------------------------------------------------------------------ *)
(* A = "1", B = "${A}", L = ["a", "TRUE", 1, true], N = 7;  Mappings {M: {a: {b: "leaf"}}} *)
Definition e1 : env :=
  {| params := [([65], VStr [49]); ([66], VStr [36;123;65;125]);
                ([76], VList [VStr [97]; VStr [84;82;85;69]; VInt 1; VBool true]); ([78], VInt 7)];
     mappings := [([77], VDict [([97], VDict [([98], VStr [108;101;97;102])])])];
     conds := fun _ => Ok false |}.
Lemma e1_mappings_wf : mappings_wf e1.
Proof.
  intros m v H. simpl in H. destruct (str_eqb m [77]); inv H. eexists. split; [reflexivity|].
  intros k1 w H. simpl in H. destruct (str_eqb k1 [97]); inv H. eexists. reflexivity.
Qed.
(* {"k": [ {"Fn::Join": ["-", [ HOLE, "x"]]}, "y"]} *)
Definition ctx1 (h : value) : value := VDict [([107], VList [FJoin (VStr [45]) (VList [h; VStr [120]]); VStr [121]])].
Lemma ctx1_cong a b : Cong e1 a b -> Cong e1 (ctx1 a) (ctx1 b).
Proof.
  intros Hab. apply Cg_dict; [reflexivity|]. apply (congdict_at e1 [] [107] _ _ []). apply Cg_list.
  apply (conglist_at e1 [] _ _ [VStr [121]]). apply Cg_join; [apply cong_refl|]. apply Cg_list.
  apply (conglist_at e1 [] a b [VStr [120]]). exact Hab.
Qed.
