(* has_hardcoded_credentials characterised: the Metadata branch (Resource), the LoginProfile branch (IAMUser), their error
   cases, and the link with parameter binding: which references to NoEcho parameters are (not) reported. *)
From Coq Require Import List Bool NArith ZArith Lia.
From PV Require Import Base.Str Base.Value Resolver.Consts Resolver.Text Resolver.Resolve Resolver.Spec
  Resolver.Template Resolver.ParamFacts Resolver.Creds.
Import ListNotations.
Local Open Scope N_scope.

(* ---- one credential field ---- *)
Lemma veqb_marker v : veqb v MARKER = true <-> v = MARKER.
Proof.
  unfold MARKER. destruct v; cbn [veqb]; try (split; [discriminate | intros H; discriminate H]).
  rewrite str_eqb_spec. split; [intros ->; reflexivity | intros H; inv H; reflexivity].
Qed.
Lemma veqb_marker_false v : veqb v MARKER = false <-> v <> MARKER.
Proof.
  destruct (veqb v MARKER) eqn:E.
  - apply veqb_marker in E. split; [discriminate | intros H; contradiction].
  - split; [|reflexivity]. intros _ H. apply veqb_marker in H. congruence.
Qed.

(* the field is absent or holds the NO_ECHO_NO_DEFAULT marker *)
Definition clean_field (d : list (str * value)) (f : str) : Prop := lookup f d = None \/ lookup f d = Some MARKER.
Definition CRED_FIELDS : list str := [K_accessKeyId; K_password; K_secretKey].
(* an authentication entry none of whose credential fields is hard-coded / one that has a hard-coded credential field *)
Definition clean_entry (a : value) : Prop := exists d, a = VDict d /\ forall f, In f CRED_FIELDS -> clean_field d f.
Definition dirty_entry (a : value) : Prop :=
  exists d f v, a = VDict d /\ In f CRED_FIELDS /\ lookup f d = Some v /\ v <> MARKER.

Lemma cred_ok_iff d f : cred_ok d f = true <-> clean_field d f.
Proof.
  unfold cred_ok, clean_field. destruct (lookup f d) as [v|].
  - rewrite veqb_marker. split; [intros ->; right; reflexivity | intros [H|H]; [discriminate | inv H; reflexivity]].
  - split; [left; reflexivity | reflexivity].
Qed.
Lemma cred_ok_false_iff d f : cred_ok d f = false <-> exists v, lookup f d = Some v /\ v <> MARKER.
Proof.
  unfold cred_ok. destruct (lookup f d) as [v|].
  - rewrite veqb_marker_false. split; [intros H; exists v; auto | intros (v' & H & Hne); inv H; assumption].
  - split; [discriminate | intros (v' & H & _); discriminate].
Qed.

Lemma auth_ok_true_iff a : auth_ok a = Ok true <-> clean_entry a.
Proof.
  unfold clean_entry, CRED_FIELDS. destruct a as [ | ? | ? | ? | ? ? | ? | ? | l]; simpl; try (split; [discriminate | intros (d & H & _); discriminate]).
  split.
  - intros H. inv H. apply andb_true_iff in H1. destruct H1 as [H H3]. apply andb_true_iff in H. destruct H as [H1 H2].
    exists l. split; [reflexivity|]. intros f [<-|[<-|[<-|[]]]]; apply cred_ok_iff; assumption.
  - intros (d & Hd & H). inv Hd.
    rewrite (proj2 (cred_ok_iff d K_accessKeyId)), (proj2 (cred_ok_iff d K_password)), (proj2 (cred_ok_iff d K_secretKey));
      [reflexivity | apply H | apply H | apply H]; simpl; auto.
Qed.
Lemma auth_ok_false_iff a : auth_ok a = Ok false <-> dirty_entry a.
Proof.
  unfold dirty_entry, CRED_FIELDS. destruct a as [ | ? | ? | ? | ? ? | ? | ? | l]; simpl; try (split; [discriminate | intros (d & f & v & H & _); discriminate]).
  split.
  - intros H. inv H. exists l.
    destruct (cred_ok l K_accessKeyId) eqn:E1; [|apply cred_ok_false_iff in E1; destruct E1 as (v & E1 & Hv);
      exists K_accessKeyId, v; simpl; auto].
    destruct (cred_ok l K_password) eqn:E2; [|apply cred_ok_false_iff in E2; destruct E2 as (v & E2 & Hv);
      exists K_password, v; simpl; auto].
    destruct (cred_ok l K_secretKey) eqn:E3; [discriminate|apply cred_ok_false_iff in E3; destruct E3 as (v & E3 & Hv);
      exists K_secretKey, v; simpl; auto 6].
  - intros (d & f & v & Hd & Hf & Hl & Hv). inv Hd.
    assert (Hc : cred_ok d f = false) by (apply cred_ok_false_iff; exists v; auto).
    destruct Hf as [<-|[<-|[<-|[]]]]; rewrite Hc; [reflexivity | rewrite andb_false_r; reflexivity | rewrite andb_false_r; reflexivity].
Qed.
Lemma auth_ok_err_iff a e : auth_ok a = Err e <-> e = EAttr /\ forall d, a <> VDict d.
Proof.
  destruct a as [ | ? | ? | ? | ? ? | ? | ? | l]; simpl; try (split; [intros H; inv H; split; [reflexivity | intros d; discriminate] | intros [-> _]; reflexivity]).
  split; [discriminate | intros [_ H]; exfalso; apply (H l); reflexivity].
Qed.

(* ---- the loop over the authentication entries: all three outcomes, no side condition ---- *)
Theorem any_bad_false_iff_all auths : any_bad auths = Ok false <-> forall k a, In (k, a) auths -> clean_entry a.
Proof.
  induction auths as [|[k a] r IH]; simpl.
  - split; [intros _ k a [] | reflexivity].
  - destruct (auth_ok a) as [[|]|e] eqn:E; simpl.
    + apply auth_ok_true_iff in E. rewrite IH. split.
      * intros H k0 a0 [Heq|Hin]; [inv Heq; assumption | exact (H k0 a0 Hin)].
      * intros H k0 a0 Hin. apply (H k0 a0). right. assumption.
    + split; [discriminate|]. intros H. specialize (H k a (or_introl eq_refl)). apply auth_ok_true_iff in H. congruence.
    + split; [discriminate|]. intros H. specialize (H k a (or_introl eq_refl)). apply auth_ok_true_iff in H. congruence.
Qed.

(* reported <-> the FIRST entry that is not clean is a dictionary with a hard-coded credential field *)
Theorem any_bad_true_iff auths : any_bad auths = Ok true <->
  exists pre k a post, auths = pre ++ (k, a) :: post /\ (forall k' a', In (k', a') pre -> clean_entry a') /\ dirty_entry a.
Proof.
  induction auths as [|[k a] r IH]; simpl.
  - split; [discriminate | intros ([|x pre] & k & a & post & H & _); discriminate].
  - destruct (auth_ok a) as [[|]|e] eqn:E; simpl.
    + rewrite IH. pose proof (proj1 (auth_ok_true_iff a) E) as Hc. split.
      * intros (pre & k0 & a0 & post & -> & Hpre & Hd). exists ((k, a) :: pre), k0, a0, post. split; [reflexivity|]. split; [|assumption].
        intros k' a' [Heq|Hin]; [inv Heq; assumption | exact (Hpre k' a' Hin)].
      * intros ([|x pre] & k0 & a0 & post & Heq & Hpre & Hd); simpl in Heq; inv Heq.
        -- apply auth_ok_false_iff in Hd. congruence.
        -- exists pre, k0, a0, post. split; [reflexivity|]. split; [|assumption]. intros k' a' Hin. apply (Hpre k' a'). right. assumption.
    + split; [intros _|reflexivity]. exists [], k, a, r. split; [reflexivity|]. split; [intros k' a' []|]. apply auth_ok_false_iff. assumption.
    + split; [discriminate|]. intros ([|x pre] & k0 & a0 & post & Heq & Hpre & Hd); simpl in Heq; inv Heq.
      * apply auth_ok_false_iff in Hd. congruence.
      * specialize (Hpre k a (or_introl eq_refl)). apply auth_ok_true_iff in Hpre. congruence.
Qed.

(* AttributeError <-> the first entry that is not clean is not a dictionary at all *)
Theorem any_bad_err_iff auths e : any_bad auths = Err e <->
  e = EAttr /\ exists pre k a post, auths = pre ++ (k, a) :: post /\ (forall k' a', In (k', a') pre -> clean_entry a') /\
                                    forall d, a <> VDict d.
Proof.
  induction auths as [|[k a] r IH]; simpl.
  - split; [discriminate | intros (_ & [|x pre] & k & a & post & H & _); discriminate].
  - destruct (auth_ok a) as [[|]|e0] eqn:E; simpl.
    + rewrite IH. pose proof (proj1 (auth_ok_true_iff a) E) as Hc. split.
      * intros (-> & pre & k0 & a0 & post & -> & Hpre & Hd). split; [reflexivity|]. exists ((k, a) :: pre), k0, a0, post.
        split; [reflexivity|]. split; [|assumption]. intros k' a' [Heq|Hin]; [inv Heq; assumption | exact (Hpre k' a' Hin)].
      * intros (-> & [|x pre] & k0 & a0 & post & Heq & Hpre & Hd); simpl in Heq; inv Heq.
        -- destruct Hc as (d & -> & _). exfalso. apply (Hd d). reflexivity.
        -- split; [reflexivity|]. exists pre, k0, a0, post. split; [reflexivity|]. split; [|assumption].
           intros k' a' Hin. apply (Hpre k' a'). right. assumption.
    + split; [discriminate|]. intros (_ & [|x pre] & k0 & a0 & post & Heq & Hpre & Hd); simpl in Heq; inv Heq.
      * apply auth_ok_false_iff in E. destruct E as (d & _ & _ & -> & _). exfalso. apply (Hd d). reflexivity.
      * specialize (Hpre k a (or_introl eq_refl)). apply auth_ok_true_iff in Hpre. congruence.
    + apply auth_ok_err_iff in E. destruct E as [-> Hnd]. split.
      * intros H. inv H. split; [reflexivity|]. exists [], k, a, r. split; [reflexivity|]. split; [intros k' a' []|assumption].
      * intros (-> & _). reflexivity.
Qed.

(* when every entry is a dictionary (what CloudFormation requires): reported <-> SOME entry has a hard-coded credential field *)
Corollary any_bad_true_iff_dicts auths : (forall k a, In (k, a) auths -> exists d, a = VDict d) ->
  (any_bad auths = Ok true <-> exists k a, In (k, a) auths /\ dirty_entry a).
Proof.
  intros Hd. split.
  - intros H. apply any_bad_true_iff in H. destruct H as (pre & k & a & post & -> & _ & H). exists k, a. split; [|assumption].
    apply in_or_app. right. left. reflexivity.
  - intros (k & a & Hin & Hdirty). destruct (any_bad auths) as [[|]|e] eqn:E; [reflexivity | |].
    + exfalso. pose proof (proj1 (any_bad_false_iff_all auths) E k a Hin) as Hc. apply auth_ok_true_iff in Hc.
      apply auth_ok_false_iff in Hdirty. congruence.
    + exfalso. apply any_bad_err_iff in E. destruct E as (_ & pre & k0 & a0 & post & -> & _ & Hn).
      destruct (Hd k0 a0) as [d ->]; [apply in_or_app; right; left; reflexivity|]. apply (Hn d). reflexivity.
Qed.

(* ---- Resource.has_hardcoded_credentials ---- *)
(* [md_auths md a]: [a] are the authentication entries the check iterates over -- none when there is no Metadata, no
   "AWS::CloudFormation::Authentication" key, or a falsy value (None, {}, "", 0, []) under it *)
Inductive md_auths : value -> list (str * value) -> Prop :=
| MA_no_metadata : md_auths VNull []
| MA_no_block m : lookup K_CFN_AUTH m = None -> md_auths (VDict m) []
| MA_falsy_block m v : lookup K_CFN_AUTH m = Some v -> truthy v = false -> md_auths (VDict m) []
| MA_block m a : lookup K_CFN_AUTH m = Some (VDict a) -> md_auths (VDict m) a.

Theorem has_hc_ok_iff md b : has_hc md = Ok b <-> exists a, md_auths md a /\ any_bad a = Ok b.
Proof.
  split.
  - destruct md as [ | ? | ? | ? | ? ? | ? | ? | l]; simpl; try discriminate.
    + intros H. inv H. exists []. split; [constructor | reflexivity].
    + destruct (lookup K_CFN_AUTH l) as [v|] eqn:E.
      * destruct v as [ | ? | ? | ? | ? ? | ? | ? | l0]; try (destruct (truthy _) eqn:T; [discriminate|]; intros H; inv H; exists []; split;
                          [eapply MA_falsy_block; eauto | reflexivity]).
        intros H. exists l0. split; [apply MA_block; assumption | assumption].
      * intros H. inv H. exists []. split; [apply MA_no_block; assumption | reflexivity].
  - intros (a & Hm & Hb). inv Hm; simpl in *.
    + assumption.
    + rewrite H. assumption.
    + rewrite H. destruct v as [ | ? | ? | ? | ? ? | ? | ? | l0]; try (rewrite H0; assumption). destruct l0; [assumption | discriminate].
    + rewrite H. assumption.
Qed.

Theorem has_hc_err_iff md e : has_hc md = Err e <->
  (exists a, md_auths md a /\ any_bad a = Err e)
  \/ (e = EAttr /\ exists m v, md = VDict m /\ lookup K_CFN_AUTH m = Some v /\ truthy v = true /\ forall a, v <> VDict a)
  \/ (e = EUndefined /\ md <> VNull /\ forall m, md <> VDict m).
Proof.
  split.
  - destruct md as [ | ? | ? | ? | ? ? | ? | ? | l]; simpl; try discriminate;
      try (intros H; inv H; right; right; split; [reflexivity|]; split; [discriminate | intros m; discriminate]).
    destruct (lookup K_CFN_AUTH l) as [v|] eqn:E; [|discriminate].
    destruct v as [ | ? | ? | ? | ? ? | ? | ? | l0]; try (destruct (truthy _) eqn:T; [|discriminate]; intros H; inv H; right; left; split; [reflexivity|];
                     eexists; eexists; repeat split; eauto; intros a; discriminate).
    intros H. left. exists l0. split; [apply MA_block; assumption | assumption].
  - intros [(a & Hm & Hb) | [(-> & m & v & -> & Hl & Ht & Hn) | (-> & Hn & Hd)]].
    + inv Hm; simpl in *; try discriminate. rewrite H. assumption.
    + simpl. rewrite Hl. destruct v as [ | ? | ? | ? | ? ? | ? | ? | l0]; try (rewrite Ht; reflexivity). exfalso. apply (Hn l0). reflexivity.
    + destruct md as [ | ? | ? | ? | ? ? | ? | ? | l]; try reflexivity; [contradiction | exfalso; apply (Hd l); reflexivity].
Qed.

(* NOT reported <-> every credential field of every entry the check iterates over is absent or equals the marker *)
Theorem has_hc_false_iff md :
  has_hc md = Ok false <-> exists a, md_auths md a /\ forall k x, In (k, x) a -> clean_entry x.
Proof.
  rewrite has_hc_ok_iff. split; intros (a & Hm & H); exists a; (split; [assumption|]); apply any_bad_false_iff_all; assumption.
Qed.
Theorem has_hc_true_iff md :
  has_hc md = Ok true <-> exists m a, md = VDict m /\ lookup K_CFN_AUTH m = Some (VDict a) /\ any_bad a = Ok true.
Proof.
  rewrite has_hc_ok_iff. split.
  - intros (a & Hm & H). inv Hm; try discriminate. exists m, a. auto.
  - intros (m & a & -> & Hl & H). exists a. split; [apply MA_block; assumption | assumption].
Qed.
(* no Metadata, or Metadata without (or with an empty) authentication block: nothing to report *)
Corollary has_hc_no_block md : md_auths md [] -> has_hc md = Ok false.
Proof. intros H. apply has_hc_false_iff. exists []. split; [assumption | intros k x []]. Qed.

(* ---- IAMUser.has_hardcoded_credentials ---- *)
(* LoginProfile of the shape the model speaks about: absent (None) or a dictionary *)
Definition login_wf (login : value) : Prop := login = VNull \/ exists lp, login = VDict lp.
(* the LoginProfile has a Password that COUNTS: present, truthy (the code tests `login_profile.get("Password")`: an empty
   password is treated like an absent one) and different from the NO_ECHO_NO_DEFAULT marker *)
Definition counted_password (login : value) : Prop :=
  exists lp p, login = VDict lp /\ lookup K_Password lp = Some p /\ truthy p = true /\ p <> MARKER.
(* ... or does not: no LoginProfile, no Password, a falsy Password, or the marker *)
Definition uncounted_password (login : value) : Prop :=
  login = VNull \/
  exists lp, login = VDict lp /\
    (lookup K_Password lp = None \/ exists p, lookup K_Password lp = Some p /\ (truthy p = false \/ p = MARKER)).

Lemma password_cases login : login_wf login -> counted_password login \/ uncounted_password login.
Proof.
  intros [-> | [lp ->]]; [right; left; reflexivity|].
  destruct (lookup K_Password lp) as [p|] eqn:E; [|right; right; exists lp; auto].
  destruct (truthy p) eqn:T; [|right; right; exists lp; split; [reflexivity|]; right; exists p; auto].
  destruct (veqb p MARKER) eqn:M.
  - apply veqb_marker in M. right. right. exists lp. split; [reflexivity|]. right. exists p. auto.
  - apply veqb_marker_false in M. left. exists lp, p. auto.
Qed.
Lemma counted_not_uncounted login : counted_password login -> ~ uncounted_password login.
Proof.
  intros (lp & p & -> & Hl & Ht & Hm) Hu. destruct Hu as [H | Hu]; [discriminate|].
  destruct Hu as (lp' & H & Hu). inv H. destruct Hu as [Hn | (p' & Hl' & Hu)]; [congruence|].
  rewrite Hl in Hl'. inv Hl'. destruct Hu; congruence.
Qed.

Theorem hc_user_counted login md : counted_password login -> has_hc_user login md = Ok true.
Proof.
  intros (lp & p & -> & Hl & Ht & Hm). simpl. rewrite Hl, Ht. apply veqb_marker_false in Hm. rewrite Hm. reflexivity.
Qed.
(* the regression of C04-m2: the password verdict must not be the answer when the password does not count *)
Theorem hc_user_uncounted login md : uncounted_password login -> has_hc_user login md = has_hc md.
Proof.
  intros [-> | (lp & -> & [Hn | (p & Hl & [Hf | ->])])]; simpl; [reflexivity | rewrite Hn; reflexivity | rewrite Hl, Hf; reflexivity |].
  rewrite Hl. rewrite (proj2 (veqb_marker MARKER) eq_refl), andb_false_r. reflexivity.
Qed.
Theorem hc_user_illformed login md : ~ login_wf login -> has_hc_user login md = Err EUndefined.
Proof.
  intros H. destruct login as [ | ? | ? | ? | ? ? | ? | ? | l]; try reflexivity; exfalso; apply H; [left; reflexivity | right; exists l; reflexivity].
Qed.

Theorem hc_user_true_iff login md : login_wf login ->
  (has_hc_user login md = Ok true <->
   counted_password login \/
   exists m a, md = VDict m /\ lookup K_CFN_AUTH m = Some (VDict a) /\ any_bad a = Ok true).
Proof.
  intros Hwf. rewrite <- has_hc_true_iff. split.
  - intros H. destruct (password_cases login Hwf) as [Hc|Hu]; [left; assumption|].
    right. rewrite <- (hc_user_uncounted login md Hu). assumption.
  - intros [Hc|Hm]; [apply hc_user_counted; assumption|].
    destruct (password_cases login Hwf) as [Hc|Hu]; [apply hc_user_counted; assumption|].
    rewrite (hc_user_uncounted login md Hu). assumption.
Qed.
Theorem hc_user_false_iff login md : login_wf login ->
  (has_hc_user login md = Ok false <->
   uncounted_password login /\ exists a, md_auths md a /\ forall k x, In (k, x) a -> clean_entry x).
Proof.
  intros Hwf. rewrite <- has_hc_false_iff. split.
  - intros H. destruct (password_cases login Hwf) as [Hc|Hu].
    + rewrite (hc_user_counted login md Hc) in H. discriminate.
    + split; [assumption|]. rewrite <- (hc_user_uncounted login md Hu). assumption.
  - intros [Hu H]. rewrite (hc_user_uncounted login md Hu). assumption.
Qed.
Theorem hc_user_err_iff login md e : login_wf login ->
  (has_hc_user login md = Err e <-> uncounted_password login /\ has_hc md = Err e).
Proof.
  intros Hwf. split.
  - intros H. destruct (password_cases login Hwf) as [Hc|Hu].
    + rewrite (hc_user_counted login md Hc) in H. discriminate.
    + split; [assumption|]. rewrite <- (hc_user_uncounted login md Hu). assumption.
  - intros [Hu H]. rewrite (hc_user_uncounted login md Hu). assumption.
Qed.

(* ---- the link with parameter binding: what a Ref to a NoEcho parameter puts into a credential field ---- *)
Lemma render_marker_no_default ps : render_str ps S_NO_ECHO_NO_DEFAULT = S_NO_ECHO_NO_DEFAULT.
Proof. vm_compute. reflexivity. Qed.
Lemma render_marker_with_default ps : render_str ps S_NO_ECHO_WITH_DEFAULT = S_NO_ECHO_WITH_DEFAULT.
Proof. vm_compute. reflexivity. Qed.
Lemma render_marker_with_value ps : render_str ps S_NO_ECHO_WITH_VALUE = S_NO_ECHO_WITH_VALUE.
Proof. vm_compute. reflexivity. Qed.

Section NoEchoRef.
  Variables (pseudo decls extra ps maps : list (str * value)) (cf : str -> res bool) (s : str) (d : value).
  Hypothesis Hbind : bind_params pseudo decls extra = Ok ps.
  Hypothesis Hnodup : NoDup (keys decls).
  Hypothesis Hdecl : lookup s decls = Some d.
  Hypothesis Hnoecho : is_noecho d = true.
  Let e := {| params := ps; mappings := maps; conds := cf |}.
  (* S is "unset": no value supplied for it and no Default declared *)
  Let unset := supplied s extra = None /\ field K_Default d = None.

  Theorem do_ref_noecho :
    do_ref e (VStr s) = Ok (VStr (match supplied s extra, field K_Default d with
                                  | Some _, _ => S_NO_ECHO_WITH_VALUE
                                  | None, Some _ => S_NO_ECHO_WITH_DEFAULT
                                  | None, None => S_NO_ECHO_NO_DEFAULT
                                  end)).
  Proof.
    unfold do_ref, e. cbn [params]. rewrite (bind_params_noecho pseudo decls extra ps s d Hbind Hnodup Hdecl Hnoecho).
    cbn [normalize]. destruct (supplied s extra), (field K_Default d);
      rewrite ?render_marker_no_default, ?render_marker_with_default, ?render_marker_with_value; reflexivity.
  Qed.

  (* {"Ref": S} itself, for a name that the leaf rules leave alone (not an SSM reference, not a spelling of true/false) *)
  Theorem resolve_ref_noecho : ssm_key s = None -> is_boolish s = false ->
    resolve e (VDict [(K_Ref, VStr s)]) = do_ref e (VStr s).
  Proof.
    intros H1 H2. rewrite resolve_ref. cbn [resolve]. unfold render_str. rewrite H1, H2. reflexivity.
  Qed.

  Theorem marker_only_from_unset_noecho : do_ref e (VStr s) = Ok MARKER <-> unset.
  Proof.
    rewrite do_ref_noecho. unfold unset, MARKER. destruct (supplied s extra), (field K_Default d); split;
      try (intros [? ?]; discriminate); try (intros Hx; exfalso; inversion Hx; fail); auto.
  Qed.

  Lemma do_ref_noecho_set v : do_ref e (VStr s) = Ok v -> ~ unset -> truthy v = true /\ v <> MARKER.
  Proof.
    intros Hv Hset. rewrite do_ref_noecho in Hv. unfold unset in Hset.
    destruct (supplied s extra), (field K_Default d); inv Hv; try (split; [reflexivity | discriminate]).
    exfalso. apply Hset. auto.
  Qed.

  (* a credential field holding Ref S, S unset: the field is clean; as the user's password it does not count, so the verdict is
     that of the Metadata check *)
  Theorem unset_noecho_ref_not_reported v : do_ref e (VStr s) = Ok v -> unset ->
    (forall a f, lookup f a = Some v -> clean_field a f) /\
    (forall lp md, lookup K_Password lp = Some v -> has_hc_user (VDict lp) md = has_hc md).
  Proof.
    intros Hv Hu. apply marker_only_from_unset_noecho in Hu. rewrite Hu in Hv. inv Hv. split.
    - intros a f Hl. right. assumption.
    - intros lp md Hl. apply hc_user_uncounted. right. exists lp. split; [reflexivity|]. right. exists MARKER. auto.
  Qed.

  (* S has a Default or a supplied value: Ref S is one of the OTHER markers, which is reported like any literal -- as the
     user's password, and as accessKeyId / password / secretKey of an authentication entry *)
  Theorem set_noecho_ref_reported v : do_ref e (VStr s) = Ok v -> ~ unset ->
    (forall lp md, lookup K_Password lp = Some v -> has_hc_user (VDict lp) md = Ok true) /\
    (forall a f, In f CRED_FIELDS -> lookup f a = Some v -> dirty_entry (VDict a)) /\
    (forall auths k a f, (forall k' a', In (k', a') auths -> exists d', a' = VDict d') ->
       In (k, VDict a) auths -> In f CRED_FIELDS -> lookup f a = Some v -> any_bad auths = Ok true).
  Proof.
    intros Hv Hset. destruct (do_ref_noecho_set v Hv Hset) as [Ht Hm]. split; [|split].
    - intros lp md Hl. apply hc_user_counted. exists lp, v. auto.
    - intros a f Hf Hl. exists a, f, v. auto.
    - intros auths k a f Hd Hin Hf Hl. apply any_bad_true_iff_dicts; [assumption|]. exists k, (VDict a). split; [assumption|].
      exists a, f, v. auto.
  Qed.
End NoEchoRef.

(* ---- reading the verdict off a resolved model, as the harness does (Resources[rid]; AWS::IAM::User -> the user check) ---- *)
Definition K_Properties : str := [80;114;111;112;101;114;116;105;101;115]%N.
Definition K_LoginProfile : str := [76;111;103;105;110;80;114;111;102;105;108;101]%N.
Definition K_Metadata : str := [77;101;116;97;100;97;116;97]%N.
Definition S_IAM_USER : str := [65;87;83;58;58;73;65;77;58;58;85;115;101;114]%N.
Definition vget (k : str) (v : value) : value :=
  match v with VDict d => match lookup k d with Some x => x | None => VNull end | _ => VNull end.
Definition hc_resolved (model : res value) (rid : str) : res bool :=
  m <- model ;;
  let r := vget rid (vget K_Resources m) in
  if veqb (vget K_Type r) (VStr S_IAM_USER)
  then has_hc_user (vget K_LoginProfile (vget K_Properties r)) (vget K_Metadata r)
  else has_hc (vget K_Metadata r).
