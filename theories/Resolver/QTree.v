(* resolve as a query tree: the same function as [Resolve.resolve], written against the tree monad of Memo.v, so that
   the only way it can learn the value of a condition is an explicit [QAsk].  [resolve_t_run] shows that running the
   tree against any oracle is [resolve] with that oracle as its condition environment: every body the resolver can
   evaluate IS a query tree, which is what ties the memoising condition resolver (Memo.v) to [cond_val]. *)
From Coq Require Import List Bool NArith ZArith Lia.
From PV Require Import Base.Str Base.Value Resolver.Consts Resolver.Text Resolver.Resolve Resolver.Spec Resolver.Memo.
Import ListNotations.
Local Open Scope N_scope.

Notation "x <~ t ;; k" := (qbind t (fun x => k)) (at level 61, t at next level, right associativity).
Definition ret {A} (a : A) : qtree A := QRet (Ok a).
Definition lift {A} (r : res A) : qtree A := QRet r.
Definition ask (n : str) : qtree bool := QAsk n (fun b => QRet (Ok b)).

Lemma render_var_params e e' custom n : params e = params e' -> render_var e custom n = render_var e' custom n.
Proof. intros H. unfold render_var. rewrite H. reflexivity. Qed.
Lemma do_sub_params e e' text custom : params e = params e' -> do_sub e text custom = do_sub e' text custom.
Proof.
  intros H. unfold do_sub. f_equal. induction (sub_tokens text) as [|t ts IH]; [reflexivity|].
  simpl. rewrite IH. destruct t; simpl; try reflexivity. rewrite (render_var_params e e' custom name H). reflexivity.
Qed.

Section T.
Variables ps maps : list (str * value).
(* the pure helpers (do_ref, do_sub, do_find_in_map) read parameters and mappings only *)
Definition penv : env := {| params := ps; mappings := maps; conds := fun _ => Err EUndefined |}.

Fixpoint resolve_t (v : value) {struct v} : qtree value :=
  match v with
  | VList l =>
      l' <~ (fix go (l : list value) : qtree (list value) :=
               match l with
               | [] => ret []
               | x :: xs => x' <~ resolve_t x ;; xs' <~ go xs ;;
                            ret (if is_novalue x' then xs' else x' :: xs')
               end) l ;;
      ret (VList l')
  | VDict d =>
      let generic := fun _ : unit =>
        d' <~ (fix go (d : list (str * value)) : qtree (list (str * value)) :=
                 match d with
                 | [] => ret []
                 | (k, x) :: xs => x' <~ resolve_t x ;; xs' <~ go xs ;;
                                   ret (if is_novalue x' then xs' else (k, x') :: xs')
                 end) d ;;
        ret (VDict d') in
      match d with
      | [(k, body)] =>
          if str_eqb k K_Ref || str_eqb k K_ImportValue then
            b <~ resolve_t body ;; lift (do_ref penv b)
          else if str_eqb k K_Join then
            match body with
            | VList [dl; l] => d' <~ resolve_t dl ;; l' <~ resolve_t l ;; lift (do_join d' l')
            | VList _ => lift (Err EValue)
            | _ => lift (Err EUndefined)
            end
          else if str_eqb k K_Split then
            match body with
            | VList [dl; s] => d' <~ resolve_t dl ;; s' <~ resolve_t s ;; lift (do_split d' s')
            | VList _ => lift (Err EValue)
            | _ => lift (Err EUndefined)
            end
          else if str_eqb k K_Select then
            match body with
            | VList [i; l] => i' <~ resolve_t i ;; l' <~ resolve_t l ;; lift (do_select i' l')
            | VList _ => lift (Err EValue)
            | _ => lift (Err EUndefined)
            end
          else if str_eqb k K_FindInMap then
            match body with
            | VList [m; k1; k2] =>
                m' <~ resolve_t m ;; k1' <~ resolve_t k1 ;; k2' <~ resolve_t k2 ;; lift (do_find_in_map penv m' k1' k2')
            | VList _ => lift (Err EValue)
            | _ => lift (Err EUndefined)
            end
          else if str_eqb k K_Sub then
            match body with
            | VStr text => lift (do_sub penv text [])
            | VList [VStr text; vars] =>
                cv <~ resolve_t vars ;;
                match cv with VDict custom => lift (do_sub penv text custom) | _ => lift (Err EUndefined) end
            | VList [_; _] => lift (Err EUndefined)
            | VList _ => lift (Err EValue)
            | _ => lift (Err EUndefined)
            end
          else if str_eqb k K_Base64 then
            b <~ resolve_t body ;; lift (do_base64 b)
          else if str_eqb k K_GetAtt then ret (VStr S_GETATT)
          else if str_eqb k K_GetAZs then ret (VStr S_GETAZS)
          else if str_eqb k K_Condition then
            match body with
            | VStr name => b <~ ask name ;; ret (VBool b)
            | _ => lift (Err EUndefined)
            end
          else if str_eqb k K_If then
            match body with
            | VList [VStr c; t; f] => b <~ ask c ;; if b then resolve_t t else resolve_t f
            | VList [_; _; _] => lift (Err EUndefined)
            | VList _ => lift (Err EValue)
            | _ => lift (Err EUndefined)
            end
          else if str_eqb k K_And then
            match body with
            | VList parts =>
                b <~ (fix all_go (l : list value) : qtree bool :=
                        match l with
                        | [] => ret true
                        | x :: xs => r <~ resolve_t x ;; b <~ lift (ext_bool r) ;; if b then all_go xs else ret false
                        end) parts ;;
                ret (VBool b)
            | _ => lift (Err EUndefined)
            end
          else if str_eqb k K_Or then
            match body with
            | VList parts =>
                b <~ (fix any_go (l : list value) : qtree bool :=
                        match l with
                        | [] => ret false
                        | x :: xs => r <~ resolve_t x ;; b <~ lift (ext_bool r) ;; if b then ret true else any_go xs
                        end) parts ;;
                ret (VBool b)
            | _ => lift (Err EUndefined)
            end
          else if str_eqb k K_Not then
            match body with
            | VList (x :: _) => r <~ resolve_t x ;; b <~ lift (ext_bool r) ;; ret (VBool (negb b))
            | VList [] => lift (Err EIndex)
            | _ => lift (Err EUndefined)
            end
          else if str_eqb k K_Equals then
            match body with
            | VList [a; b] => a' <~ resolve_t a ;; b' <~ resolve_t b ;; r <~ lift (py_eq a' b') ;; ret (VBool r)
            | VList _ => lift (Err EValue)
            | _ => lift (Err EUndefined)
            end
          else generic tt
      | _ => generic tt
      end
  | VNull => ret VNull
  | VBool b => ret (VStr (bool_text b))
  | VInt z => ret (VStr (str_of_Z z))
  | VStr s => ret (VStr (render_str ps s))
  | VTyped _ t => ret (VStr t)
  | VBytes b => ret (VStr (b64encode b))
  end.

(* the body of a declared condition: resolve it, then pydantic's lenient bool *)
Definition body_tree (body : value) : qtree bool := r <~ resolve_t body ;; lift (ext_bool r).

(* ---- named inner loops and unfolding equations ---- *)
Definition tlist : list value -> qtree (list value) :=
  fix go (l : list value) : qtree (list value) :=
    match l with
    | [] => ret []
    | x :: xs => x' <~ resolve_t x ;; xs' <~ go xs ;; ret (if is_novalue x' then xs' else x' :: xs')
    end.
Definition tdict : list (str * value) -> qtree (list (str * value)) :=
  fix go (d : list (str * value)) : qtree (list (str * value)) :=
    match d with
    | [] => ret []
    | (k, x) :: xs => x' <~ resolve_t x ;; xs' <~ go xs ;; ret (if is_novalue x' then xs' else (k, x') :: xs')
    end.
Definition tall : list value -> qtree bool :=
  fix all_go (l : list value) : qtree bool :=
    match l with
    | [] => ret true
    | x :: xs => r <~ resolve_t x ;; b <~ lift (ext_bool r) ;; if b then all_go xs else ret false
    end.
Definition tany : list value -> qtree bool :=
  fix any_go (l : list value) : qtree bool :=
    match l with
    | [] => ret false
    | x :: xs => r <~ resolve_t x ;; b <~ lift (ext_bool r) ;; if b then ret true else any_go xs
    end.

Lemma resolve_t_list l : resolve_t (VList l) = (l' <~ tlist l ;; ret (VList l')).
Proof. reflexivity. Qed.
Lemma resolve_t_dict_generic d : is_fn_dict d = false -> resolve_t (VDict d) = (d' <~ tdict d ;; ret (VDict d')).
Proof.
  intros H. destruct d as [|[k body] [|kv2 rest]]; try reflexivity.
  simpl in H. unfold is_fn, MODEL_FUNCTIONS, mem_str in H. cbn [existsb] in H.
  repeat (apply orb_false_elim in H; destruct H as [?H H]).
  cbn [resolve_t].
  repeat match goal with Hk : str_eqb k ?K = false |- _ => rewrite Hk; clear Hk end.
  reflexivity.
Qed.

Section Run.
Variable c : str -> res bool.
Definition cenv : env := {| params := ps; mappings := maps; conds := c |}.
Definition RunAt (v : value) : Prop := qrun c (resolve_t v) = resolve cenv v.

Lemma tlist_run l : Forall RunAt l -> qrun c (tlist l) = rlist cenv l.
Proof.
  induction 1 as [|x xs Hx Hxs IH]; [reflexivity|]. simpl. rewrite qrun_bind, Hx.
  destruct (resolve cenv x) as [x'|]; simpl; [|reflexivity]. rewrite qrun_bind, IH.
  destruct (rlist cenv xs); reflexivity.
Qed.
Lemma tdict_run d : Forall (fun kv => RunAt (snd kv)) d -> qrun c (tdict d) = rdict cenv d.
Proof.
  induction 1 as [|[k x] xs Hx Hxs IH]; [reflexivity|]. simpl in *. rewrite qrun_bind, Hx.
  destruct (resolve cenv x) as [x'|]; simpl; [|reflexivity]. rewrite qrun_bind, IH.
  destruct (rdict cenv xs); reflexivity.
Qed.
Lemma tall_run l : Forall RunAt l -> qrun c (tall l) = rall cenv l.
Proof.
  induction 1 as [|x xs Hx Hxs IH]; [reflexivity|]. simpl. rewrite qrun_bind, Hx.
  destruct (resolve cenv x) as [r|]; simpl; [|reflexivity].
  destruct (ext_bool r) as [[|]|]; simpl; [apply IH | reflexivity | reflexivity].
Qed.
Lemma tany_run l : Forall RunAt l -> qrun c (tany l) = rany cenv l.
Proof.
  induction 1 as [|x xs Hx Hxs IH]; [reflexivity|]. simpl. rewrite qrun_bind, Hx.
  destruct (resolve cenv x) as [r|]; simpl; [|reflexivity].
  destruct (ext_bool r) as [[|]|]; simpl; [reflexivity | apply IH | reflexivity].
Qed.

Ltac step x := rewrite qrun_bind; rewrite x; destruct (resolve cenv _); simpl; [|reflexivity].

Theorem resolve_t_run_n : forall n v, (vsize v < n)%nat -> qrun c (resolve_t v) = resolve cenv v.
Proof.
  induction n as [|n IH]; intros v Hs; [lia|].
  destruct v as [| b | z | s | k t | bs | l | d]; try reflexivity.
  - rewrite resolve_t_list, resolve_list, qrun_bind. rewrite (tlist_run l).
    + destruct (rlist cenv l); reflexivity.
    + apply Forall_forall. intros x Hx. apply IH. pose proof (vsize_in_list x l Hx). lia.
  - assert (Hsub : forall k x, In (k, x) d -> qrun c (resolve_t x) = resolve cenv x).
    { intros k x Hx. apply IH. pose proof (vsize_in_dict k x d Hx). lia. }
    assert (Hgen : is_fn_dict d = false -> qrun c (resolve_t (VDict d)) = resolve cenv (VDict d)).
    { intros Hf. rewrite resolve_t_dict_generic, resolve_dict_generic by assumption. rewrite qrun_bind, (tdict_run d).
      - destruct (rdict cenv d); reflexivity.
      - apply Forall_forall. intros [k0 x0] Hin. simpl. eapply Hsub; eauto. }
    destruct d as [|[k body] [|kv2 rest]]; [apply Hgen; reflexivity | | apply Hgen; reflexivity].
    assert (Hbody : qrun c (resolve_t body) = resolve cenv body) by (eapply Hsub; left; reflexivity).
    assert (Hdeep : forall x, (vsize x < vsize body)%nat -> qrun c (resolve_t x) = resolve cenv x).
    { intros x Hx. apply IH. simpl in Hs. lia. }
    key_case k K_Ref.
    { rewrite resolve_ref. change (resolve_t (VDict [(K_Ref, body)])) with (b <~ resolve_t body ;; lift (do_ref penv b)).
      rewrite qrun_bind, Hbody. destruct (resolve cenv body); reflexivity. }
    key_case k K_ImportValue.
    { rewrite resolve_import. change (resolve_t (VDict [(K_ImportValue, body)])) with (b <~ resolve_t body ;; lift (do_ref penv b)).
      rewrite qrun_bind, Hbody. destruct (resolve cenv body); reflexivity. }
    key_case k K_Join.
    { destruct body as [| | | | | | l |]; try reflexivity. destruct l as [|dl [|l [|? ?]]]; try reflexivity.
      rewrite resolve_join.
      change (resolve_t (VDict [(K_Join, VList [dl; l])])) with (d' <~ resolve_t dl ;; l' <~ resolve_t l ;; lift (do_join d' l')).
      rewrite qrun_bind, (Hdeep dl) by (simpl; lia). destruct (resolve cenv dl); simpl; [|reflexivity].
      rewrite qrun_bind, (Hdeep l) by (simpl; lia). destruct (resolve cenv l); reflexivity. }
    key_case k K_Split.
    { destruct body as [| | | | | | l |]; try reflexivity. destruct l as [|dl [|l [|? ?]]]; try reflexivity.
      rewrite resolve_split.
      change (resolve_t (VDict [(K_Split, VList [dl; l])])) with (d' <~ resolve_t dl ;; l' <~ resolve_t l ;; lift (do_split d' l')).
      rewrite qrun_bind, (Hdeep dl) by (simpl; lia). destruct (resolve cenv dl); simpl; [|reflexivity].
      rewrite qrun_bind, (Hdeep l) by (simpl; lia). destruct (resolve cenv l); reflexivity. }
    key_case k K_Select.
    { destruct body as [| | | | | | l |]; try reflexivity. destruct l as [|dl [|l [|? ?]]]; try reflexivity.
      rewrite resolve_select.
      change (resolve_t (VDict [(K_Select, VList [dl; l])])) with (d' <~ resolve_t dl ;; l' <~ resolve_t l ;; lift (do_select d' l')).
      rewrite qrun_bind, (Hdeep dl) by (simpl; lia). destruct (resolve cenv dl); simpl; [|reflexivity].
      rewrite qrun_bind, (Hdeep l) by (simpl; lia). destruct (resolve cenv l); reflexivity. }
    key_case k K_FindInMap.
    { destruct body as [| | | | | | l |]; try reflexivity. destruct l as [|m [|k1 [|k2 [|? ?]]]]; try reflexivity.
      rewrite resolve_find_in_map.
      change (resolve_t (VDict [(K_FindInMap, VList [m; k1; k2])]))
        with (m' <~ resolve_t m ;; k1' <~ resolve_t k1 ;; k2' <~ resolve_t k2 ;; lift (do_find_in_map penv m' k1' k2')).
      rewrite qrun_bind, (Hdeep m) by (simpl; lia). destruct (resolve cenv m); simpl; [|reflexivity].
      rewrite qrun_bind, (Hdeep k1) by (simpl; lia). destruct (resolve cenv k1); simpl; [|reflexivity].
      rewrite qrun_bind, (Hdeep k2) by (simpl; lia). destruct (resolve cenv k2); reflexivity. }
    key_case k K_Sub.
    { destruct body as [| | | text | | | l |]; try reflexivity.
      { rewrite resolve_sub_text. change (resolve_t (VDict [(K_Sub, VStr text)])) with (lift (do_sub penv text [])).
        simpl. apply do_sub_params. reflexivity. }
      destruct l as [|t0 [|vars [|? ?]]]; try reflexivity; destruct t0 as [| | | text | | | |]; try reflexivity.
      rewrite resolve_sub_vars.
      change (resolve_t (VDict [(K_Sub, VList [VStr text; vars])]))
        with (cv <~ resolve_t vars ;; match cv with VDict custom => lift (do_sub penv text custom) | _ => lift (Err EUndefined) end).
      rewrite qrun_bind, (Hdeep vars) by (simpl; lia). destruct (resolve cenv vars) as [cv|]; simpl; [|reflexivity].
      destruct cv; try reflexivity. simpl. apply do_sub_params. reflexivity. }
    key_case k K_Base64.
    { rewrite resolve_base64. change (resolve_t (VDict [(K_Base64, body)])) with (b <~ resolve_t body ;; lift (do_base64 b)).
      rewrite qrun_bind, Hbody. destruct (resolve cenv body); reflexivity. }
    key_case k K_GetAtt. { reflexivity. }
    key_case k K_GetAZs. { reflexivity. }
    key_case k K_Condition.
    { destruct body; reflexivity. }
    key_case k K_If.
    { destruct body as [| | | | | | l |]; try reflexivity.
      destruct l as [|c0 [|t [|f [|? ?]]]]; try reflexivity; try (destruct c0; reflexivity).
      destruct c0 as [| | | c0 | | | |]; try reflexivity.
      rewrite resolve_if.
      change (resolve_t (VDict [(K_If, VList [VStr c0; t; f])])) with (b <~ ask c0 ;; if b then resolve_t t else resolve_t f).
      simpl. destruct (c c0) as [[|]|]; simpl; [apply Hdeep; simpl; lia | apply Hdeep; simpl; lia | reflexivity]. }
    key_case k K_And.
    { destruct body as [| | | | | | parts |]; try reflexivity. rewrite resolve_and.
      change (resolve_t (VDict [(K_And, VList parts)])) with (b <~ tall parts ;; ret (VBool b)).
      rewrite qrun_bind, (tall_run parts).
      - destruct (rall cenv parts); reflexivity.
      - apply Forall_forall. intros x Hx. apply Hdeep. apply vsize_in_list. assumption. }
    key_case k K_Or.
    { destruct body as [| | | | | | parts |]; try reflexivity. rewrite resolve_or.
      change (resolve_t (VDict [(K_Or, VList parts)])) with (b <~ tany parts ;; ret (VBool b)).
      rewrite qrun_bind, (tany_run parts).
      - destruct (rany cenv parts); reflexivity.
      - apply Forall_forall. intros x Hx. apply Hdeep. apply vsize_in_list. assumption. }
    key_case k K_Not.
    { destruct body as [| | | | | | l |]; try reflexivity. destruct l as [|x rest]; try reflexivity.
      rewrite resolve_not.
      change (resolve_t (VDict [(K_Not, VList (x :: rest))])) with (r <~ resolve_t x ;; b <~ lift (ext_bool r) ;; ret (VBool (negb b))).
      rewrite qrun_bind, (Hdeep x) by (simpl; lia). destruct (resolve cenv x) as [r|]; simpl; [|reflexivity].
      destruct (ext_bool r); reflexivity. }
    key_case k K_Equals.
    { destruct body as [| | | | | | l |]; try reflexivity. destruct l as [|a [|b [|? ?]]]; try reflexivity.
      rewrite resolve_equals.
      change (resolve_t (VDict [(K_Equals, VList [a; b])]))
        with (a' <~ resolve_t a ;; b' <~ resolve_t b ;; r <~ lift (py_eq a' b') ;; ret (VBool r)).
      rewrite qrun_bind, (Hdeep a) by (simpl; lia). destruct (resolve cenv a) as [a'|]; simpl; [|reflexivity].
      rewrite qrun_bind, (Hdeep b) by (simpl; lia). destruct (resolve cenv b) as [b'|]; simpl; [|reflexivity].
      destruct (py_eq a' b'); reflexivity. }
    apply Hgen. rewrite is_fn_dict_single. unfold is_fn, MODEL_FUNCTIONS, mem_str. cbn [existsb].
    rewrite Ek, Ek0, Ek1, Ek2, Ek3, Ek4, Ek5, Ek6, Ek7, Ek8, Ek9, Ek10, Ek11, Ek12, Ek13, Ek14. reflexivity.
Qed.

Theorem resolve_t_run v : qrun c (resolve_t v) = resolve cenv v.
Proof. apply (resolve_t_run_n (S (vsize v))). lia. Qed.

Corollary body_tree_run body : qrun c (body_tree body) = (r <- resolve cenv body ;; ext_bool r).
Proof. unfold body_tree. rewrite qrun_bind, resolve_t_run. destruct (resolve cenv body); reflexivity. Qed.
End Run.
End T.
