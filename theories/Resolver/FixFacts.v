(* C03: after resolution no function object is left, and a rendered, function-free value is a fixed point. *)
From Coq Require Import List Bool NArith ZArith Lia.
From PV Require Import Base.Str Base.Value Resolver.Consts Resolver.Text Resolver.Resolve Resolver.Spec Resolver.SubFacts.
Import ListNotations.
Local Open Scope N_scope.

(* no function object (an object whose only key is a function name) anywhere *)
Fixpoint no_fn_dict (v : value) : bool :=
  match v with
  | VList l => forallb no_fn_dict l
  | VDict d => negb (is_fn_dict d) && forallb (fun kv => no_fn_dict (snd kv)) d
  | _ => true
  end.
(* no object at all: parameter values and mapping leaves are strings or lists of strings in CloudFormation *)
Fixpoint nodict (v : value) : bool :=
  match v with
  | VList l => forallb nodict l
  | VDict _ => false
  | _ => true
  end.

(* input side.  In a non-function object no key is a function name, except that "Condition" (a resource attribute and an
   IAM statement element) may occur next to an ANCHOR: another member that is null or a boolean and therefore survives
   resolution, so that the object can never shrink to a lone {"Condition": ...} *)
Definition is_fn_strict (k : str) : bool := is_fn k && negb (str_eqb k K_Condition).
Definition is_anchor (v : value) : bool := match v with VNull | VBool _ => true | _ => false end.
Definition dict_safe (d : list (str * value)) : bool :=
  forallb (fun kv => negb (is_fn_strict (fst kv))) d
  && (negb (mem_str K_Condition (keys d))
      || existsb (fun kv => negb (str_eqb (fst kv) K_Condition) && is_anchor (snd kv)) d).
Fixpoint fn_keys_alone (v : value) : bool :=
  match v with
  | VList l => forallb fn_keys_alone l
  | VDict d => (is_fn_dict d || dict_safe d) && forallb (fun kv => fn_keys_alone (snd kv)) d
  | _ => true
  end.

Definition params_plain (e : env) : Prop := forall k v, lookup k (params e) = Some v -> nodict v = true.
Definition maps_plain (e : env) : Prop :=
  forall m top k1 snd_ k2 leaf, lookup m (mappings e) = Some (VDict top) -> lookup k1 top = Some (VDict snd_) ->
    lookup k2 snd_ = Some leaf -> nodict leaf = true.

Lemma nodict_no_fn v : nodict v = true -> no_fn_dict v = true.
Proof.
  induction v using value_ind'; simpl; intros Hn; try reflexivity; [|discriminate].
  induction H as [|x xs Hx Hxs IH]; [reflexivity|]. simpl in *. apply andb_true_iff in Hn. destruct Hn. rewrite Hx, IH; auto.
Qed.

Lemma normalize_nodict ps v : forall r, nodict v = true -> normalize ps v = Ok r -> nodict r = true.
Proof.
  induction v using value_ind'; intros r Hn Hr; try (simpl in Hr; inv Hr; reflexivity); [|discriminate].
  simpl in Hr. bind_inv. inv Hr. simpl in Hn. simpl. clear -H Hn E.
  revert a Hn E. induction H as [|x xs Hx Hxs IH]; intros a Hn E; simpl in E.
  - inv E. reflexivity.
  - simpl in Hn. apply andb_true_iff in Hn. destruct Hn as [Hn1 Hn2].
    destruct (normalize ps x) as [x'|] eqn:Ex; simpl in E; [|discriminate].
    match type of E with context [bind ?g _] => destruct g as [xs'|] eqn:Exs end; simpl in E; [|discriminate]. inv E.
    specialize (IH xs' Hn2 eq_refl). destruct (is_novalue x'); [exact IH|]. simpl. rewrite (Hx x' Hn1 eq_refl). exact IH.
Qed.

Lemma do_ref_nofn e b r : params_plain e -> do_ref e b = Ok r -> no_fn_dict r = true.
Proof.
  intros Hp H. unfold do_ref in H. destruct b; try discriminate.
  destruct (lookup s (params e)) as [x|] eqn:El.
  - apply nodict_no_fn. eapply normalize_nodict; [eapply Hp; eassumption | eassumption].
  - inv H. reflexivity.
Qed.
Lemma do_join_nofn d l r : do_join d l = Ok r -> no_fn_dict r = true.
Proof. unfold do_join. destruct d, l; try discriminate. intros H. bind_inv. inv H. reflexivity. Qed.
Lemma map_vstr_nofn l : forallb no_fn_dict (map VStr l) = true.
Proof. induction l; simpl; auto. Qed.
Lemma do_split_nofn d s r : do_split d s = Ok r -> no_fn_dict r = true.
Proof.
  unfold do_split. destruct d as [| | | ds | | | |]; try discriminate. destruct s; try (destruct ds; discriminate).
  destruct ds; [discriminate|]. intros H. inv H. simpl. apply map_vstr_nofn.
Qed.
Lemma nth_error_forallb {A} (f : A -> bool) l n x : forallb f l = true -> nth_error l n = Some x -> f x = true.
Proof.
  revert n; induction l as [|y l IH]; intros n Hf Hn; [destruct n; discriminate|].
  simpl in Hf. apply andb_true_iff in Hf. destruct Hf. destruct n; simpl in Hn; [inv Hn; assumption | eauto].
Qed.
Lemma do_select_nofn i l r : no_fn_dict l = true -> do_select i l = Ok r -> no_fn_dict r = true.
Proof.
  unfold do_select. destruct i; try discriminate. destruct l; try discriminate. intros Hl H.
  destruct (parse_int s); [|discriminate].
  destruct ((z <? 0)%Z || (Z.of_nat (length l) <=? z)%Z); [inv H; reflexivity|].
  destruct (nth_error l (Z.to_nat z)) eqn:En; inv H; [|reflexivity]. simpl in Hl. eapply nth_error_forallb; eauto.
Qed.
Lemma do_find_in_map_nofn e m k1 k2 r : maps_plain e -> do_find_in_map e m k1 k2 = Ok r -> no_fn_dict r = true.
Proof.
  intros Hm. unfold do_find_in_map. destruct m, k1, k2; try discriminate.
  destruct (lookup s (mappings e)) as [v|] eqn:E1; [|intros H; inv H; reflexivity].
  destruct v; try discriminate. destruct (lookup_bk s0 d) as [w|] eqn:E2; [|intros H; inv H; reflexivity].
  destruct w; try discriminate. destruct (lookup_bk s1 d0) as [leaf|] eqn:E3; [|intros H; inv H; reflexivity].
  destruct (lookup_bk_lookup _ _ _ E2) as (s0' & E2' & _). destruct (lookup_bk_lookup _ _ _ E3) as (s1' & E3' & _).
  intros H. destruct leaf; inv H; try reflexivity; apply nodict_no_fn; eapply Hm; eauto.
Qed.
Lemma do_sub_nofn e t c r : do_sub e t c = Ok r -> no_fn_dict r = true.
Proof. unfold do_sub. intros H. bind_inv. inv H. reflexivity. Qed.
Lemma do_base64_nofn b r : do_base64 b = Ok r -> no_fn_dict r = true.
Proof. unfold do_base64. destruct b; try discriminate. intros H. inv H. reflexivity. Qed.

Lemma fka_single k body : is_fn k = true -> fn_keys_alone (VDict [(k, body)]) = fn_keys_alone body.
Proof. intros H. simpl. rewrite H. simpl. apply andb_true_r. Qed.
Lemma is_fn_consts :
  is_fn K_Ref = true /\ is_fn K_ImportValue = true /\ is_fn K_Join = true /\ is_fn K_Split = true /\ is_fn K_Select = true /\
  is_fn K_FindInMap = true /\ is_fn K_Sub = true /\ is_fn K_Base64 = true /\ is_fn K_If = true.
Proof. repeat split; vm_compute; reflexivity. Qed.

(* what pruning can and cannot do to an object: keys are never invented, anchors are never lost *)
Lemma evaldict_keys e d d' : EvalDict e d d' -> forall k x', In (k, x') d' -> In k (keys d).
Proof.
  induction 1 as [| k x x' xs xs' Hx Hn Hxs IH | k x x' xs xs' Hx Hn Hxs IH]; intros k0 y Hin.
  - destruct Hin.
  - destruct Hin as [Heq|Hin]; [inv Heq; left; reflexivity | right; eapply IH; eauto].
  - right. eapply IH; eauto.
Qed.
Lemma eval_anchor e x x' : Eval e x x' -> is_anchor x = true -> is_novalue x' = false.
Proof. intros H Ha. destruct x; try discriminate; inv H; [reflexivity | destruct b; reflexivity]. Qed.
Lemma evaldict_anchor e d d' : EvalDict e d d' -> forall k x, In (k, x) d -> is_anchor x = true -> exists x', In (k, x') d'.
Proof.
  induction 1 as [| k x x' xs xs' Hx Hn Hxs IH | k x x' xs xs' Hx Hn Hxs IH]; intros k0 y Hin Ha.
  - destruct Hin.
  - destruct Hin as [Heq|Hin]; [inv Heq; exists x'; left; reflexivity|].
    destruct (IH k0 y Hin Ha) as [y' Hy']. exists y'. right. exact Hy'.
  - destruct Hin as [Heq|Hin].
    + inv Heq. rewrite (eval_anchor e y x' Hx Ha) in Hn. discriminate.
    + eapply IH; eauto.
Qed.

Lemma pruned_not_fn_dict e d d' : EvalDict e d d' -> dict_safe d = true -> is_fn_dict d' = false.
Proof.
  intros He Hs. destruct d' as [|[k v] [|? ?]]; try reflexivity. simpl.
  destruct (is_fn k) eqn:Ef; [|reflexivity]. exfalso.
  unfold dict_safe in Hs. apply andb_true_iff in Hs. destruct Hs as [Hk Hc].
  assert (Hin : In k (keys d)) by (eapply evaldict_keys; [exact He | left; reflexivity]).
  assert (Hcond : k = K_Condition).
  { unfold keys in Hin. apply in_map_iff in Hin. destruct Hin as ([k0 x0] & Heq & Hin). simpl in Heq. subst k0.
    rewrite forallb_forall in Hk. specialize (Hk _ Hin). simpl in Hk. unfold is_fn_strict in Hk. rewrite Ef in Hk. simpl in Hk.
    apply negb_true_iff in Hk. apply negb_false_iff in Hk. apply str_eqb_spec in Hk. exact Hk. }
  subst k. apply orb_true_iff in Hc. destruct Hc as [Hc|Hc].
  - apply negb_true_iff in Hc. apply mem_str_In in Hin. congruence.
  - apply existsb_exists in Hc. destruct Hc as ([k2 a] & Hin2 & Hc). simpl in Hc.
    apply andb_true_iff in Hc. destruct Hc as [Hne Ha]. apply negb_true_iff in Hne.
    destruct (evaldict_anchor e d _ He k2 a Hin2 Ha) as [a' Ha']. destruct Ha' as [Heq|[]]. inv Heq.
    rewrite str_eqb_refl in Hne. discriminate.
Qed.

Theorem no_function_left e : params_plain e -> maps_plain e ->
  (forall v r, Eval e v r -> fn_keys_alone v = true -> no_fn_dict r = true) /\
  (forall l l', EvalList e l l' -> forallb fn_keys_alone l = true -> forallb no_fn_dict l' = true) /\
  (forall d d', EvalDict e d d' -> forallb (fun kv => fn_keys_alone (snd kv)) d = true ->
                forallb (fun kv => no_fn_dict (snd kv)) d' = true) /\
  (forall l b, EvalAll e l b -> True) /\
  (forall l b, EvalAny e l b -> True).
Proof.
  intros Hp Hm. destruct is_fn_consts as (F1 & F2 & F3 & F4 & F5 & F6 & F7 & F8 & F9).
  apply Eval_mutind; intros; try reflexivity; try exact I.
  - (* list *) simpl in *. auto.
  - (* dict *) simpl in H0. rewrite e0 in H0. simpl in H0. apply andb_true_iff in H0. destruct H0 as [Hs Hv].
    simpl. rewrite (pruned_not_fn_dict _ _ _ e1 Hs). simpl. auto.
  - (* ref *) eapply do_ref_nofn; eauto.
  - eapply do_join_nofn; eauto.
  - eapply do_split_nofn; eauto.
  - (* select *) rewrite (fka_single _ _ F5) in H1. simpl in H1. rewrite andb_true_r in H1.
    apply andb_true_iff in H1. destruct H1 as [Hi Hl]. eapply do_select_nofn; [apply H0; exact Hl | eassumption].
  - eapply do_find_in_map_nofn; eauto.
  - eapply do_sub_nofn; eauto.
  - eapply do_sub_nofn; eauto.
  - eapply do_base64_nofn; eauto.
  - (* if true *) rewrite (fka_single _ _ F9) in H0. simpl in H0. rewrite !andb_true_r in H0.
    apply andb_true_iff in H0. destruct H0 as [Ht Hf]. apply H. exact Ht.
  - (* if false *) rewrite (fka_single _ _ F9) in H0. simpl in H0. rewrite !andb_true_r in H0.
    apply andb_true_iff in H0. destruct H0 as [Ht Hf]. apply H. exact Hf.
  - (* EL_keep *) simpl in H1. apply andb_true_iff in H1. destruct H1. simpl. rewrite H by assumption. simpl. auto.
  - (* EL_drop *) simpl in H1. apply andb_true_iff in H1. destruct H1. auto.
  - (* ED_keep *) simpl in H1. apply andb_true_iff in H1. destruct H1. simpl. rewrite H by assumption. simpl. auto.
  - (* ED_drop *) simpl in H1. apply andb_true_iff in H1. destruct H1. auto.
Qed.

(* ---- rendered values are fixed points ---- *)
Fixpoint rendered (ps : list (str * value)) (v : value) : bool :=
  match v with
  | VNull => true
  | VStr s => str_eqb (render_str ps s) s
  | VList l => forallb (fun x => rendered ps x && negb (is_novalue x)) l
  | VDict d => forallb (fun kv => rendered ps (snd kv) && negb (is_novalue (snd kv))) d
  | _ => false
  end.

Lemma no_fn_dict_not_fn_dict d : no_fn_dict (VDict d) = true -> is_fn_dict d = false.
Proof. simpl. intros H. apply andb_true_iff in H. destruct H as [H _]. apply negb_true_iff in H. exact H. Qed.

Theorem rendered_fixed_point e v : no_fn_dict v = true -> rendered (params e) v = true -> resolve e v = Ok v.
Proof.
  induction v using value_ind'; intros Hn Hr; simpl in Hr; try discriminate; try reflexivity.
  - simpl. apply str_eqb_spec in Hr. rewrite Hr. reflexivity.
  - rewrite resolve_list. simpl in Hn.
    assert (Hl : rlist e l = Ok l).
    { induction H as [|x xs Hx Hxs IH]; [reflexivity|]. simpl in Hn, Hr.
      apply andb_true_iff in Hn. destruct Hn as [Hn1 Hn2]. apply andb_true_iff in Hr. destruct Hr as [Hr1 Hr2].
      apply andb_true_iff in Hr1. destruct Hr1 as [Hr1 Hnv]. apply negb_true_iff in Hnv.
      simpl. rewrite (Hx Hn1 Hr1). simpl. rewrite (IH Hn2 Hr2). simpl. rewrite Hnv. reflexivity. }
    rewrite Hl. reflexivity.
  - rewrite resolve_dict_generic by (apply no_fn_dict_not_fn_dict; assumption). simpl in Hn. apply andb_true_iff in Hn. destruct Hn as [_ Hn].
    assert (Hd : rdict e d = Ok d).
    { induction H as [|[k x] xs Hx Hxs IH]; [reflexivity|]. simpl in Hn, Hr, Hx.
      apply andb_true_iff in Hn. destruct Hn as [Hn1 Hn2].
      apply andb_true_iff in Hr. destruct Hr as [Hr1 Hr2].
      apply andb_true_iff in Hr1. destruct Hr1 as [Hr1 Hnv]. apply negb_true_iff in Hnv.
      simpl. rewrite (Hx Hn1 Hr1). simpl. rewrite (IH Hn2 Hr2). simpl. rewrite Hnv. reflexivity. }
    rewrite Hd. reflexivity.
Qed.

(* the general claim "resolving twice = resolving once" is FALSE of the faithful model (and of the code): text built by
   Fn::Join can be something a second resolution normalises again.  Known finding F20. *)
Definition e_empty : env := {| params := []; mappings := []; conds := fun _ => Ok false |}.
Definition join_TR_UE : value := VDict [(K_Join, VList [VStr []; VList [VStr [84;82]; VStr [85;69]]])].
Example fixed_point_refuted :
  exists v r r2, resolve e_empty v = Ok r /\ resolve e_empty r = Ok r2 /\ r2 <> r.
Proof.
  exists join_TR_UE, (VStr [84;82;85;69]), (VStr [116;114;117;101]).
  split; [vm_compute; reflexivity|]. split; [vm_compute; reflexivity|]. discriminate.
Qed.
