(* The on-demand condition resolver of CFModel.resolve (_ConditionResolver: depth-first evaluation with a list of names in
   progress, a cache, and a "tainted" flag that keeps values computed under a cut cycle out of the cache), as a
   state-passing Gallina function, and the proof that it computes the un-memoised specification [cvt] (= [cond_val]).

   Condition bodies are *query trees*: a deterministic sequential computation whose only interaction with its
   surroundings is asking for the value of a named condition.  [Resolver/Tree.v] shows that every body the resolver
   can evaluate is such a tree. *)
From Coq Require Import List Bool NArith Lia.
From PV Require Import Base.Str Base.Value.
Import ListNotations.

Inductive qtree (A : Type) : Type :=
| QRet (r : res A)
| QAsk (n : str) (k : bool -> qtree A).
Arguments QRet {A} r.
Arguments QAsk {A} n k.

(* run against a pure oracle *)
Fixpoint qrun {A} (c : str -> res bool) (t : qtree A) : res A :=
  match t with
  | QRet r => r
  | QAsk n k => b <- c n ;; qrun c (k b)
  end.

Fixpoint qbind {A B} (t : qtree A) (f : A -> qtree B) : qtree B :=
  match t with
  | QRet (Ok a) => f a
  | QRet (Err e) => QRet (Err e)
  | QAsk n k => QAsk n (fun b => qbind (k b) f)
  end.

Lemma qrun_bind {A B} c (t : qtree A) (f : A -> qtree B) : qrun c (qbind t f) = (a <- qrun c t ;; qrun c (f a)).
Proof.
  induction t as [[a|e]|n k IH]; simpl; try reflexivity.
  destruct (c n) as [b|e]; simpl; [apply IH | reflexivity].
Qed.

Lemma qrun_ext {A} c c' (t : qtree A) : (forall n, c n = c' n) -> qrun c t = qrun c' t.
Proof.
  intros H. induction t as [r|n k IH]; simpl; [reflexivity|].
  rewrite (H n). destruct (c' n) as [b|e]; simpl; [apply IH | reflexivity].
Qed.

(* an oracle that answers more questions, and the same way, gives the same successful run *)
Lemma qrun_mono {A} c1 c2 (t : qtree A) a :
  (forall m b, c1 m = Ok b -> c2 m = Ok b) -> qrun c1 t = Ok a -> qrun c2 t = Ok a.
Proof.
  intros H. induction t as [r|n k IH]; simpl; intros Hr; [assumption|].
  destruct (c1 n) as [b|e] eqn:E; simpl in Hr; [|discriminate].
  rewrite (H n b E). simpl. apply IH. assumption.
Qed.

(* run against a stateful oracle *)
Fixpoint qrun_st {A S} (g : str -> S -> res (bool * S)) (t : qtree A) (s : S) : res (A * S) :=
  match t with
  | QRet r => a <- r ;; Ok (a, s)
  | QAsk n k => bs <- g n s ;; qrun_st g (k (fst bs)) (snd bs)
  end.

Definition remove_name (n : str) (l : list str) : list str := filter (fun x => negb (str_eqb n x)) l.

Section Memo.
Variable bodies : list (str * qtree bool).      (* the declared conditions *)

Definition declared (n : str) : bool := match lookup n bodies with Some _ => true | None => false end.

(* ---- specification: depth-first, [rem] = declared names not being resolved; no cache ---- *)
Fixpoint cvt (fuel : nat) (rem : list str) (n : str) : res bool :=
  match fuel with
  | O => Err ERecursion
  | S f =>
      if mem_str n rem then
        match lookup n bodies with
        | Some t => qrun (cvt f (remove_name n rem)) t
        | None => Ok false
        end
      else Ok false
  end.

(* ---- the implementation: _ConditionResolver.get ---- *)
Record mstate := { cache : list (str * bool); tainted : bool }.

Fixpoint mget (fuel : nat) (prog : list str) (n : str) (s : mstate) : res (bool * mstate) :=
  match fuel with
  | O => Err ERecursion
  | S f =>
      match lookup n (cache s) with
      | Some b => Ok (b, s)                                            (* if key in self: return self[key] *)
      | None =>
          match lookup n bodies with
          | None => Ok (false, s)                                      (* not declared: the default *)
          | Some t =>
              if mem_str n prog then Ok (false, {| cache := cache s; tainted := true |})     (* a cycle *)
              else
                r <- qrun_st (mget f (n :: prog)) t {| cache := cache s; tainted := false |} ;;
                Ok (fst r, {| cache := if tainted (snd r) then cache (snd r) else (n, fst r) :: cache (snd r);
                              tainted := tainted (snd r) || tainted s |})
          end
      end
  end.

(* resolve_all: every declared name in turn, the flag reset before each *)
Fixpoint mall (fuel : nat) (names : list str) (s : mstate) : res (list (str * bool) * mstate) :=
  match names with
  | [] => Ok ([], s)
  | n :: r =>
      x <- mget fuel [] n {| cache := cache s; tainted := false |} ;;
      y <- mall fuel r (snd x) ;;
      Ok ((n, fst x) :: fst y, snd y)
  end.
Fixpoint cvt_all (fuel : nat) (rem names : list str) : res (list (str * bool)) :=
  match names with
  | [] => Ok []
  | n :: r => b <- cvt fuel rem n ;; l <- cvt_all fuel rem r ;; Ok ((n, b) :: l)
  end.

(* ---- facts about the specification ---- *)
Definition same_mem (a b : list str) : Prop := forall x, mem_str x a = mem_str x b.

Lemma mem_remove_name x n l : mem_str x (remove_name n l) = mem_str x l && negb (str_eqb n x).
Proof.
  unfold remove_name, mem_str. induction l as [|y l IH]; simpl; [reflexivity|].
  destruct (str_eqb n y) eqn:E1; simpl.
  - rewrite IH. apply str_eqb_spec in E1; subst y. destruct (str_eqb x n) eqn:E2; simpl; [|reflexivity].
    apply str_eqb_spec in E2; subst. rewrite str_eqb_refl. simpl. rewrite andb_false_r. reflexivity.
  - rewrite IH. destruct (str_eqb x y) eqn:E2; simpl; [|reflexivity].
    apply str_eqb_spec in E2; subst. rewrite E1. reflexivity.
Qed.
Lemma filter_len {A} (f : A -> bool) l : length (filter f l) <= length l.
Proof. induction l as [|x l IH]; simpl; [lia|]. destruct (f x); simpl; lia. Qed.
Lemma remove_name_length n l : mem_str n l = true -> length (remove_name n l) < length l.
Proof.
  unfold remove_name, mem_str. induction l as [|y l IH]; simpl; [discriminate|].
  destruct (str_eqb n y) eqn:E; simpl.
  - intros _. pose proof (filter_len (fun x => negb (str_eqb n x)) l). lia.
  - intros H. specialize (IH H). lia.
Qed.

Lemma cvt_undeclared fuel rem n : lookup n bodies = None -> cvt (S fuel) rem n = Ok false.
Proof. intros H. simpl. rewrite H. destruct (mem_str n rem); reflexivity. Qed.
Lemma cvt_not_in fuel rem n : mem_str n rem = false -> cvt (S fuel) rem n = Ok false.
Proof. intros H. simpl. rewrite H. reflexivity. Qed.

Lemma cvt_same_mem : forall fuel rem rem' n, same_mem rem rem' -> cvt fuel rem n = cvt fuel rem' n.
Proof.
  induction fuel as [|f IH]; intros rem rem' n H; [reflexivity|].
  simpl. rewrite <- (H n). destruct (mem_str n rem); [|reflexivity].
  destruct (lookup n bodies) as [t|]; [|reflexivity].
  apply qrun_ext. intros m. apply IH. intros x. rewrite !mem_remove_name, (H x). reflexivity.
Qed.

(* ---- the cache invariant: entries in insertion order (newest first); each was computed from the entries
        that were there before it (and from undeclared names, which are false) ---- *)
Definition oracle (C : list (str * bool)) (m : str) : res bool :=
  match lookup m C with
  | Some b => Ok b
  | None => if declared m then Err EUndefined else Ok false
  end.

Inductive cache_ok : list (str * bool) -> Prop :=
| co_nil : cache_ok []
| co_cons n b t C : cache_ok C -> lookup n C = None -> lookup n bodies = Some t ->
    qrun (oracle C) t = Ok b -> cache_ok ((n, b) :: C).

Lemma cache_ok_declared C : cache_ok C -> forall m b, lookup m C = Some b -> declared m = true.
Proof.
  induction 1 as [|n b t C HC IH Hn Ht Hq]; intros m b' H; simpl in H; [discriminate|].
  destruct (str_eqb m n) eqn:E.
  - apply str_eqb_spec in E. subst m. unfold declared. rewrite Ht. reflexivity.
  - eapply IH; eauto.
Qed.

(* a cached value is the specified value, whatever is in progress, as long as no cached name is in progress *)
Theorem cache_sound C : cache_ok C ->
  forall fuel rem, (forall m b, lookup m C = Some b -> mem_str m rem = true) -> length rem < fuel ->
  forall m b, lookup m C = Some b -> cvt fuel rem m = Ok b.
Proof.
  induction 1 as [|n b t C HC IH Hn Ht Hq]; intros fuel rem Hin Hf m b' Hm; [discriminate|].
  simpl in Hm. destruct (str_eqb m n) eqn:E.
  - apply str_eqb_spec in E. subst m. inv Hm.
    assert (Hnr : mem_str n rem = true) by (apply (Hin n b'); simpl; rewrite str_eqb_refl; reflexivity).
    destruct fuel as [|f]; [lia|]. simpl. rewrite Hnr, Ht.
    pose proof (remove_name_length n rem Hnr) as Hlen.
    apply (qrun_mono (oracle C)); [|assumption].
    intros x bx Hx. unfold oracle in Hx. destruct (lookup x C) as [b0|] eqn:Ex.
    + inv Hx. apply (IH f (remove_name n rem)); [| lia | assumption].
      intros y by_ Hy. rewrite mem_remove_name. apply andb_true_intro. split.
      * apply (Hin y by_). simpl. destruct (str_eqb y n) eqn:Eyn; [|assumption].
        apply str_eqb_spec in Eyn. subst y. congruence.
      * apply negb_true_iff. apply str_eqb_neq. intros ->. congruence.
    + unfold declared in Hx. destruct (lookup x bodies) eqn:Eb; [discriminate|]. inv Hx.
      destruct f as [|f']; [lia|]. apply cvt_undeclared. assumption.
  - apply (IH fuel rem); [| assumption | assumption].
    intros y by_ Hy. apply (Hin y by_). simpl. destruct (str_eqb y n) eqn:Eyn; [|assumption].
    apply str_eqb_spec in Eyn. subst y. congruence.
Qed.

(* ---- caches only grow, and what they answered they keep answering ---- *)
Definition extends (C C' : list (str * bool)) : Prop := exists C2, C' = C2 ++ C.
Lemma extends_refl C : extends C C.
Proof. exists []. reflexivity. Qed.
Lemma extends_trans A B C : extends A B -> extends B C -> extends A C.
Proof. intros [x ->] [y ->]. exists (y ++ x). rewrite app_assoc. reflexivity. Qed.
Lemma extends_cons C C' kv : extends C C' -> extends C (kv :: C').
Proof. intros [x ->]. exists (kv :: x). reflexivity. Qed.

Lemma lookup_extends C2 : forall C, cache_ok (C2 ++ C) -> forall m b, lookup m C = Some b -> lookup m (C2 ++ C) = Some b.
Proof.
  induction C2 as [|[n bn] C2 IH]; intros C H m b Hm; [assumption|].
  simpl in *. inversion H as [|n' b' t' C' Hok' Hn' Ht' Hq']; subst. specialize (IH C Hok' m b Hm).
  destruct (str_eqb m n) eqn:E; [|assumption].
  apply str_eqb_spec in E. subst m. congruence.
Qed.
Lemma oracle_extends C C' m b : extends C C' -> cache_ok C' -> oracle C m = Ok b -> oracle C' m = Ok b.
Proof.
  intros [C2 ->] Hok H. unfold oracle in *. destruct (lookup m C) as [b0|] eqn:E.
  - inv H. rewrite (lookup_extends C2 C Hok m b E). reflexivity.
  - destruct (declared m) eqn:Ed; [discriminate|]. inv H.
    destruct (lookup m (C2 ++ C)) as [b1|] eqn:E1; [|reflexivity].
    rewrite (cache_ok_declared _ Hok m b1 E1) in Ed. discriminate.
Qed.

(* ---- names in progress ---- *)
Definition rem_of (prog : list str) : list str := filter (fun x => negb (mem_str x prog)) (keys bodies).
Lemma mem_filter x (f : str -> bool) l : mem_str x (filter f l) = mem_str x l && f x.
Proof.
  unfold mem_str. induction l as [|y l IH]; simpl; [reflexivity|].
  destruct (f y) eqn:Ey; simpl; rewrite IH; destruct (str_eqb x y) eqn:E; simpl; try reflexivity.
  - apply str_eqb_spec in E. subst y. rewrite Ey. reflexivity.
  - apply str_eqb_spec in E. subst y. rewrite Ey. apply andb_false_r.
Qed.
Lemma mem_keys_declared x : mem_str x (keys bodies) = declared x.
Proof.
  unfold declared, keys, mem_str. induction bodies as [|[k t] l IH]; simpl; [reflexivity|].
  destruct (str_eqb x k); [reflexivity | apply IH].
Qed.
Lemma mem_rem_of x prog : mem_str x (rem_of prog) = declared x && negb (mem_str x prog).
Proof. unfold rem_of. rewrite mem_filter, mem_keys_declared. reflexivity. Qed.
Lemma rem_of_cons n prog : remove_name n (rem_of prog) = rem_of (n :: prog).
Proof.
  unfold remove_name, rem_of. induction (keys bodies) as [|y l IH]; simpl; [reflexivity|].
  rewrite (str_eqb_sym y n). destruct (mem_str y prog) eqn:Ey; simpl.
  - rewrite orb_true_r. simpl. apply IH.
  - rewrite orb_false_r. destruct (str_eqb n y); simpl; rewrite IH; reflexivity.
Qed.
Lemma rem_of_nil : rem_of [] = keys bodies.
Proof. unfold rem_of. induction (keys bodies) as [|y l IH]; [reflexivity|]. simpl. f_equal. exact IH. Qed.

(* the state a call may start from: a sound cache that holds no name in progress *)
Definition good (C : list (str * bool)) (prog : list str) : Prop :=
  cache_ok C /\ forall m, mem_str m prog = true -> lookup m C = None.

(* what a call establishes *)
Definition post (prog : list str) (n : str) (b : bool) (s s' : mstate) : Prop :=
  good (cache s') prog /\ extends (cache s) (cache s') /\
  (tainted s = true -> tainted s' = true) /\
  (tainted s' = false -> oracle (cache s') n = Ok b).

Definition get_spec (fuel : nat) (prog : list str) : Prop :=
  forall n s, good (cache s) prog ->
    match cvt fuel (rem_of prog) n with
    | Err e => mget fuel prog n s = Err e
    | Ok b => exists s', mget fuel prog n s = Ok (b, s') /\ post prog n b s s'
    end.

(* the body of a condition, run against the memoising resolver, sees the specified values *)
Lemma body_run f prog : get_spec f prog ->
  forall (t : qtree bool) s0, good (cache s0) prog ->
    match qrun (cvt f (rem_of prog)) t with
    | Err e => qrun_st (mget f prog) t s0 = Err e
    | Ok v => exists s1, qrun_st (mget f prog) t s0 = Ok (v, s1) /\
                good (cache s1) prog /\ extends (cache s0) (cache s1) /\
                (tainted s0 = true -> tainted s1 = true) /\
                (tainted s1 = false -> qrun (oracle (cache s1)) t = Ok v)
    end.
Proof.
  intros Hget. induction t as [r|m k IH]; intros s0 Hg; simpl.
  - destruct r as [v|e]; simpl; [|reflexivity].
    exists s0. repeat split; try (apply extends_refl); try (apply Hg); auto.
  - specialize (Hget m s0 Hg). destruct (cvt f (rem_of prog) m) as [b|e]; simpl.
    + destruct Hget as (s' & Hm & (Hg' & Hext & Ht & Ho)). rewrite Hm. simpl.
      specialize (IH b s' Hg'). destruct (qrun (cvt f (rem_of prog)) (k b)) as [v|e].
      * destruct IH as (s1 & Hr & Hg1 & Hext1 & Ht1 & Ho1). exists s1. split; [assumption|].
        split; [assumption|]. split; [eapply extends_trans; eauto|]. split; [auto|].
        intros Hf. assert (Hts' : tainted s' = false) by (destruct (tainted s'); [rewrite Ht1 in Hf; [discriminate | reflexivity] | reflexivity]).
        rewrite (oracle_extends (cache s') (cache s1) m b Hext1 (proj1 Hg1) (Ho Hts')). simpl. apply Ho1. assumption.
      * assumption.
    + rewrite Hget. reflexivity.
Qed.

Theorem mget_correct : forall fuel prog, length (rem_of prog) < fuel -> get_spec fuel prog.
Proof.
  induction fuel as [|f IHf]; intros prog Hlen n s Hg; [lia|].
  destruct Hg as [Hok Hprog].
  cbn [mget]. destruct (lookup n (cache s)) as [b|] eqn:Ec.
  - (* cached *)
    rewrite (cache_sound (cache s) Hok (S f) (rem_of prog)) with (b := b); try assumption.
    + exists s. split; [reflexivity|]. repeat split; auto using extends_refl.
      intros _. unfold oracle. rewrite Ec. reflexivity.
    + intros m bm Hm. rewrite mem_rem_of. rewrite (cache_ok_declared _ Hok m bm Hm). simpl.
      destruct (mem_str m prog) eqn:Ep; [|reflexivity]. rewrite (Hprog m Ep) in Hm. discriminate.
  - destruct (lookup n bodies) as [t|] eqn:Eb.
    + destruct (mem_str n prog) eqn:Ep.
      * (* in progress: false, and the evaluation is tainted *)
        rewrite cvt_not_in by (rewrite mem_rem_of, Ep; apply andb_false_r).
        eexists. split; [reflexivity|]. repeat split; simpl; auto using extends_refl. discriminate.
      * (* evaluate the body with n in progress *)
        assert (Hn : mem_str n (rem_of prog) = true).
        { rewrite mem_rem_of. unfold declared. rewrite Eb, Ep. reflexivity. }
        cbn [cvt]. rewrite Hn, Eb, rem_of_cons.
        assert (Hlen' : length (rem_of (n :: prog)) < f).
        { rewrite <- rem_of_cons. pose proof (remove_name_length n (rem_of prog) Hn). lia. }
        pose proof (body_run f (n :: prog) (IHf (n :: prog) Hlen') t {| cache := cache s; tainted := false |}) as Hrun.
        assert (Hg0 : good (cache s) (n :: prog)).
        { split; [assumption|]. intros m Hm. simpl in Hm. destruct (str_eqb m n) eqn:E.
          - apply str_eqb_spec in E. subst m. assumption.
          - apply Hprog. assumption. }
        specialize (Hrun Hg0). destruct (qrun (cvt f (rem_of (n :: prog))) t) as [v|e].
        -- destruct Hrun as (s1 & Hr & (Hok1 & Hprog1) & Hext1 & _ & Ho1). simpl in Hext1. rewrite Hr. simpl.
           eexists. split; [reflexivity|].
           assert (Hn1 : lookup n (cache s1) = None) by (apply Hprog1; simpl; rewrite str_eqb_refl; reflexivity).
           assert (Hp1 : forall m, mem_str m prog = true -> lookup m (cache s1) = None).
           { intros m Hm. apply Hprog1. simpl. rewrite Hm. apply orb_true_r. }
           unfold post. cbn [cache tainted]. destruct (tainted s1) eqn:Et1.
           ++ repeat split; auto. simpl. discriminate.
           ++ repeat split.
              ** eapply co_cons; eauto.
              ** intros m Hm. simpl. destruct (str_eqb m n) eqn:E; [|auto].
                 apply str_eqb_spec in E. subst m. congruence.
              ** apply extends_cons. assumption.
              ** simpl. auto.
              ** intros _. unfold oracle. simpl. rewrite str_eqb_refl. reflexivity.
        -- rewrite Hrun. reflexivity.
    + (* not declared *)
      rewrite cvt_undeclared by assumption.
      exists s. split; [reflexivity|]. repeat split; auto using extends_refl.
      intros _. unfold oracle, declared. rewrite Ec, Eb. reflexivity.
Qed.

(* resolve_all returns exactly the specified values, in declaration order; the cache left behind is sound *)
Theorem mall_correct fuel : length (keys bodies) < fuel ->
  forall names s, cache_ok (cache s) ->
    match cvt_all fuel (keys bodies) names with
    | Err e => mall fuel names s = Err e
    | Ok l => exists s', mall fuel names s = Ok (l, s') /\ cache_ok (cache s')
    end.
Proof.
  intros Hf. induction names as [|n r IH]; intros s Hok; simpl.
  - exists s. split; [reflexivity | assumption].
  - assert (Hlen : length (rem_of []) < fuel) by (rewrite rem_of_nil; assumption).
    pose proof (mget_correct fuel [] Hlen n {| cache := cache s; tainted := false |}) as Hget.
    rewrite rem_of_nil in Hget.
    assert (Hg : good (cache s) []) by (split; [assumption | intros m Hm; discriminate]).
    specialize (Hget Hg). destruct (cvt fuel (keys bodies) n) as [b|e]; simpl.
    + destruct Hget as (s' & Hm & (Hg' & _)). rewrite Hm. simpl.
      specialize (IH s' (proj1 Hg')). destruct (cvt_all fuel (keys bodies) r) as [l|e]; simpl.
      * destruct IH as (s'' & Hr & Hok''). rewrite Hr. simpl. exists s''. split; [reflexivity | assumption].
      * rewrite IH. reflexivity.
    + rewrite Hget. reflexivity.
Qed.
End Memo.
