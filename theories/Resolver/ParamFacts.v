(* Parameter binding: precedence, rendering, list splitting, totality, NoEcho masking and non-interference. *)
From Coq Require Import List Bool NArith ZArith Lia.
From PV Require Import Base.Str Base.Value Resolver.Consts Resolver.Text Resolver.Resolve Resolver.Template.
Import ListNotations.
Local Open Scope N_scope.

Lemma lookup_app {A} k (a b : list (str * A)) :
  lookup k (a ++ b) = match lookup k a with Some v => Some v | None => lookup k b end.
Proof. induction a as [|[k' v] a IH]; simpl; [reflexivity|]. destruct (str_eqb k k'); [reflexivity | exact IH]. Qed.
Lemma lookup_filter_keys {A} k (l : list (str * A)) (f : str -> bool) :
  lookup k (filter (fun kv => f (fst kv)) l) = if f k then lookup k l else None.
Proof.
  induction l as [|[k' v] l IH]; simpl; [destruct (f k); reflexivity|].
  destruct (f k') eqn:Ef; simpl.
  - destruct (str_eqb k k') eqn:E; [apply str_eqb_spec in E; subst; rewrite Ef; reflexivity | exact IH].
  - destruct (str_eqb k k') eqn:E; [apply str_eqb_spec in E; subst; rewrite Ef in *; rewrite IH; reflexivity | exact IH].
Qed.

Lemma bind_declared_lookup decls extra ps : bind_declared decls extra = Ok ps -> NoDup (keys decls) ->
  forall k, lookup k ps = match lookup k decls with
                          | None => None
                          | Some d => match ref_value d (supplied k extra) with Ok (Some v) => Some v | _ => None end
                          end.
Proof.
  revert ps; induction decls as [|[k0 d0] r IH]; intros ps H Hnd k; simpl in H.
  - inv H. reflexivity.
  - inv Hnd. bind_inv. inv H. simpl. destruct (str_eqb k k0) eqn:Ek.
    + apply str_eqb_spec in Ek. subst k0. rewrite E. destruct a as [v|]; simpl.
      * rewrite str_eqb_refl. reflexivity.
      * rewrite (IH a0 eq_refl H3 k). destruct (lookup k r) eqn:El; [|reflexivity].
        exfalso. apply H2. apply lookup_In in El. unfold keys. apply in_map_iff. exists (k, v). split; [reflexivity | assumption].
    + destruct a as [v|]; simpl; [rewrite Ek|]; apply (IH a0 eq_refl H3 k).
Qed.

(* caller-supplied value, else template Default, else library (pseudo) default, else nothing (-> UNDEFINED_PARAM_) *)
Theorem bind_params_precedence pseudo decls extra ps : bind_params pseudo decls extra = Ok ps -> NoDup (keys decls) ->
  forall k, lookup k ps =
    match lookup k decls with
    | None => match lookup k extra with Some v => Some v | None => lookup k pseudo end
    | Some d => match ref_value d (supplied k extra) with Ok (Some v) => Some v | _ => lookup k pseudo end
    end.
Proof.
  unfold bind_params. intros H Hnd k. bind_inv. inv H.
  rewrite !lookup_app.
  rewrite (lookup_filter_keys k extra (fun x => negb (mem_str x (keys decls)))).
  rewrite (bind_declared_lookup decls extra a E Hnd k).
  destruct (lookup k decls) as [d|] eqn:Ed.
  - assert (Hm : mem_str k (keys decls) = true).
    { apply mem_str_In. apply lookup_In in Ed. unfold keys. apply in_map_iff. exists (k, d). split; [reflexivity | assumption]. }
    rewrite Hm. simpl. destruct (ref_value d (supplied k extra)) as [[v|]|]; reflexivity.
  - assert (Hm : mem_str k (keys decls) = false).
    { destruct (mem_str k (keys decls)) eqn:E2; [|reflexivity]. apply mem_str_In in E2. apply lookup_None in Ed. contradiction. }
    rewrite Hm. simpl. destruct (lookup k extra); reflexivity.
Qed.

(* supplied wins over Default; scalars are rendered as strings *)
Theorem ref_value_scalar d provided : is_noecho d = false -> is_list_type d = false ->
  ref_value d provided =
  match (match provided with Some p => Some p | None => field K_Default d end) with
  | None => Ok None
  | Some v => s <- py_str v ;; Ok (Some (VStr s))
  end.
Proof. intros H1 H2. unfold ref_value. rewrite H1, H2. reflexivity. Qed.

(* list-typed parameters: the list of comma separated items *)
Theorem ref_value_list d provided : is_noecho d = false -> is_list_type d = true ->
  ref_value d provided =
  match (match provided with Some p => Some p | None => field K_Default d end) with
  | None => Ok None
  | Some (VList l) => Ok (Some (VList l))
  | Some v => s <- py_str v ;; Ok (Some (VList (map VStr (split S_COMMA s))))
  end.
Proof. intros H1 H2. unfold ref_value. rewrite H1, H2. reflexivity. Qed.

(* a declared parameter with neither value nor default never makes resolution fail *)
Theorem ref_value_valueless d : field K_Default d = None ->
  ref_value d None = Ok (if is_noecho d then Some (VStr S_NO_ECHO_NO_DEFAULT) else None).
Proof. intros H. unfold ref_value. rewrite H. destruct (is_noecho d); [reflexivity|]. destruct (is_list_type d); reflexivity. Qed.

(* NoEcho: a reference yields one of three fixed markers, chosen by PRESENCE only *)
Theorem ref_value_noecho d provided : is_noecho d = true ->
  ref_value d provided = Ok (Some (VStr (match provided, field K_Default d with
                                         | Some _, _ => S_NO_ECHO_WITH_VALUE
                                         | None, Some _ => S_NO_ECHO_WITH_DEFAULT
                                         | None, None => S_NO_ECHO_NO_DEFAULT
                                         end))).
Proof. intros H. unfold ref_value. rewrite H. reflexivity. Qed.
Corollary ref_value_noecho_blind d p1 p2 : is_noecho d = true -> ref_value d (Some p1) = ref_value d (Some p2).
Proof. intros H. rewrite !ref_value_noecho by assumption. reflexivity. Qed.
(* the NO_DEFAULT marker arises exactly when there is neither a supplied value nor a default *)
Corollary ref_value_marker_iff d provided : is_noecho d = true ->
  (ref_value d provided = Ok (Some (VStr S_NO_ECHO_NO_DEFAULT)) <-> provided = None /\ field K_Default d = None).
Proof.
  intros H. rewrite ref_value_noecho by assumption. destruct provided as [p|], (field K_Default d) as [v|]; split;
    try (intros [? ?]; discriminate); try (intros Hx; exfalso; inversion Hx; fail); auto.
Qed.

(* ---- non-interference: the value supplied for a NoEcho parameter cannot influence the resolved model at all ---- *)
Definition with_secret (s : str) (v : value) (extra : list (str * value)) : list (str * value) := (s, v) :: extra.

Lemma supplied_with_secret_other s v extra k : str_eqb k s = false -> supplied k (with_secret s v extra) = supplied k extra.
Proof. intros H. unfold supplied, with_secret. simpl. rewrite H. reflexivity. Qed.

Lemma bind_declared_secret decls extra s d v1 v2 :
  lookup s decls = Some d -> is_noecho d = true -> v1 <> VNull -> v2 <> VNull -> NoDup (keys decls) ->
  bind_declared decls (with_secret s v1 extra) = bind_declared decls (with_secret s v2 extra).
Proof.
  intros Hl Hn H1 H2. induction decls as [|[k0 d0] r IH]; intros Hnd; [reflexivity|].
  simpl in *. inv Hnd. destruct (str_eqb s k0) eqn:Ek.
  - apply str_eqb_spec in Ek. subst k0. inv Hl.
    assert (Hr : bind_declared r (with_secret s v1 extra) = bind_declared r (with_secret s v2 extra)).
    { clear IH. induction r as [|[k1 d1] r IHr]; [reflexivity|]. simpl. inv H4.
      assert (Hne : str_eqb k1 s = false).
      { apply str_eqb_neq. intros ->. apply H3. left. reflexivity. }
      rewrite !supplied_with_secret_other by assumption. rewrite IHr; [reflexivity | | assumption].
      intros Hin. apply H3. right. assumption. }
    rewrite Hr.
    assert (Hs1 : supplied s (with_secret s v1 extra) = Some v1).
    { unfold supplied, with_secret. simpl. rewrite str_eqb_refl. destruct v1; try reflexivity. contradiction. }
    assert (Hs2 : supplied s (with_secret s v2 extra) = Some v2).
    { unfold supplied, with_secret. simpl. rewrite str_eqb_refl. destruct v2; try reflexivity. contradiction. }
    rewrite Hs1, Hs2, (ref_value_noecho_blind d v1 v2 Hn). reflexivity.
  - rewrite (IH Hl H4). rewrite !supplied_with_secret_other; [reflexivity | |]; rewrite str_eqb_sym; assumption.
Qed.

Theorem noecho_noninterference pseudo decls extra maps cdecl rs s d v1 v2 :
  lookup s decls = Some d -> is_noecho d = true -> v1 <> VNull -> v2 <> VNull -> NoDup (keys decls) ->
  resolve_model pseudo decls (with_secret s v1 extra) maps cdecl rs =
  resolve_model pseudo decls (with_secret s v2 extra) maps cdecl rs.
Proof.
  intros Hl Hn H1 H2 Hnd. unfold resolve_model, bind_params.
  rewrite (bind_declared_secret decls extra s d v1 v2 Hl Hn H1 H2 Hnd).
  assert (Hm : mem_str s (keys decls) = true).
  { apply mem_str_In. apply lookup_In in Hl. unfold keys. apply in_map_iff. exists (s, d). split; [reflexivity | assumption]. }
  unfold with_secret. simpl. rewrite Hm. simpl. reflexivity.
Qed.

(* ---- what a reference to a NoEcho parameter is bound to, through the whole merge ---- *)
Theorem bind_params_noecho pseudo decls extra ps s d :
  bind_params pseudo decls extra = Ok ps -> NoDup (keys decls) -> lookup s decls = Some d -> is_noecho d = true ->
  lookup s ps = Some (VStr (match supplied s extra, field K_Default d with
                            | Some _, _ => S_NO_ECHO_WITH_VALUE
                            | None, Some _ => S_NO_ECHO_WITH_DEFAULT
                            | None, None => S_NO_ECHO_NO_DEFAULT
                            end)).
Proof.
  intros Hb Hnd Hl Hn. rewrite (bind_params_precedence pseudo decls extra ps Hb Hnd s), Hl.
  rewrite (ref_value_noecho d (supplied s extra) Hn). reflexivity.
Qed.

(* ---- non-interference (2): the VALUE of a NoEcho parameter's Default cannot influence the resolved model ---- *)
(* only the PRESENCE of a Default is read *)
Lemma ref_value_noecho_presence d1 d2 provided : is_noecho d1 = true -> is_noecho d2 = true ->
  (field K_Default d1 = None <-> field K_Default d2 = None) ->
  ref_value d1 provided = ref_value d2 provided.
Proof.
  intros H1 H2 Hd. rewrite !ref_value_noecho by assumption.
  destruct provided as [p|]; [reflexivity|].
  destruct (field K_Default d1) as [x|], (field K_Default d2) as [y|]; try reflexivity.
  - destruct Hd as [_ Hd]. discriminate (Hd eq_refl).
  - destruct Hd as [Hd _]. discriminate (Hd eq_refl).
Qed.

Lemma keys_replace_decl {A} (pre post : list (str * A)) s d1 d2 :
  keys (pre ++ (s, d1) :: post) = keys (pre ++ (s, d2) :: post).
Proof. unfold keys. rewrite !map_app. reflexivity. Qed.

Lemma bind_declared_same_binding pre s d1 d2 post extra :
  ref_value d1 (supplied s extra) = ref_value d2 (supplied s extra) ->
  bind_declared (pre ++ (s, d1) :: post) extra = bind_declared (pre ++ (s, d2) :: post) extra.
Proof.
  intros H. induction pre as [|[k d] pre IH]; simpl; [rewrite H; reflexivity | rewrite IH; reflexivity].
Qed.

(* KEY LEMMA: two declaration lists that differ in ONE declaration which yields the same reference value give the same bindings *)
Lemma bind_params_same_binding pseudo pre s d1 d2 post extra :
  ref_value d1 (supplied s extra) = ref_value d2 (supplied s extra) ->
  bind_params pseudo (pre ++ (s, d1) :: post) extra = bind_params pseudo (pre ++ (s, d2) :: post) extra.
Proof.
  intros H. unfold bind_params.
  rewrite (bind_declared_same_binding pre s d1 d2 post extra H), (keys_replace_decl pre post s d1 d2). reflexivity.
Qed.

(* resolve_model reads the declarations only through bind_params *)
Lemma resolve_model_bindings pseudo decls1 decls2 extra maps cdecl rs :
  bind_params pseudo decls1 extra = bind_params pseudo decls2 extra ->
  resolve_model pseudo decls1 extra maps cdecl rs = resolve_model pseudo decls2 extra maps cdecl rs.
Proof. intros H. unfold resolve_model. rewrite H. reflexivity. Qed.

(* general form: two NoEcho declarations of S (whatever else they say: Type, Description, ...) that agree on the PRESENCE of a
   Default are indistinguishable, whether or not a value is supplied for S *)
Theorem noecho_default_noninterference_gen pseudo pre post extra maps cdecl rs s d1 d2 :
  is_noecho d1 = true -> is_noecho d2 = true -> (field K_Default d1 = None <-> field K_Default d2 = None) ->
  resolve_model pseudo (pre ++ (s, d1) :: post) extra maps cdecl rs =
  resolve_model pseudo (pre ++ (s, d2) :: post) extra maps cdecl rs.
Proof.
  intros H1 H2 Hd. apply resolve_model_bindings, bind_params_same_binding, ref_value_noecho_presence; assumption.
Qed.

(* the declaration [VDict l] with its Default set to v (d["Default"] = v) *)
Definition with_default (v : value) (l : list (str * value)) : value := VDict (set_key K_Default v l).

Lemma lookup_set_key_eq k v d : lookup k (set_key k v d) = Some v.
Proof.
  induction d as [|[k' x] r IH]; simpl; [rewrite str_eqb_refl; reflexivity|].
  destruct (str_eqb k k') eqn:E; simpl; rewrite E; [reflexivity | exact IH].
Qed.
Lemma lookup_set_key_neq k k' v d : str_eqb k k' = false -> lookup k (set_key k' v d) = lookup k d.
Proof.
  intros Hne. induction d as [|[k2 x] r IH]; simpl; [rewrite Hne; reflexivity|].
  destruct (str_eqb k' k2) eqn:E; simpl.
  - apply str_eqb_spec in E. subst k2. rewrite Hne. reflexivity.
  - destruct (str_eqb k k2); [reflexivity | exact IH].
Qed.

Lemma with_default_noecho v l : is_noecho (with_default v l) = is_noecho (VDict l).
Proof. unfold is_noecho, with_default, field. rewrite lookup_set_key_neq by reflexivity. reflexivity. Qed.
Lemma with_default_type v l : is_list_type (with_default v l) = is_list_type (VDict l).
Proof. unfold is_list_type, with_default, field. rewrite lookup_set_key_neq by reflexivity. reflexivity. Qed.
(* a Default is present as soon as it is not None: "" and 0 ARE defaults *)
Lemma with_default_field v l : v <> VNull -> field K_Default (with_default v l) = Some v.
Proof. intros H. unfold with_default, field. rewrite lookup_set_key_eq. destruct v; try reflexivity. contradiction. Qed.

(* both declarations bind S to the same thing: the WITH_DEFAULT marker when no value is supplied (the WITH_VALUE one otherwise) *)
Lemma with_default_binding pseudo pre post extra ps s l v :
  bind_params pseudo (pre ++ (s, with_default v l) :: post) extra = Ok ps -> NoDup (keys (pre ++ (s, with_default v l) :: post)) ->
  is_noecho (VDict l) = true -> v <> VNull -> supplied s extra = None ->
  lookup s ps = Some (VStr S_NO_ECHO_WITH_DEFAULT).
Proof.
  intros Hb Hnd Hn Hv Hs.
  assert (Hl : lookup s (pre ++ (s, with_default v l) :: post) = Some (with_default v l)).
  { clear Hb. induction pre as [|[k d] pre IH]; simpl in *; [rewrite str_eqb_refl; reflexivity|].
    inv Hnd. destruct (str_eqb s k) eqn:E; [|apply IH; assumption].
    apply str_eqb_spec in E. subst k. exfalso. apply H1. unfold keys. rewrite map_app. apply in_or_app. right. left. reflexivity. }
  rewrite (bind_params_noecho pseudo _ extra ps s _ Hb Hnd Hl) by (rewrite with_default_noecho; assumption).
  rewrite Hs, (with_default_field v l Hv). reflexivity.
Qed.

(* two declarations that differ ONLY in the value of S's Default (both present; falsy values such as "" and 0 included) *)
Theorem noecho_default_noninterference pseudo pre post extra maps cdecl rs s l v1 v2 :
  is_noecho (VDict l) = true -> v1 <> VNull -> v2 <> VNull ->
  resolve_model pseudo (pre ++ (s, with_default v1 l) :: post) extra maps cdecl rs =
  resolve_model pseudo (pre ++ (s, with_default v2 l) :: post) extra maps cdecl rs.
Proof.
  intros Hn H1 H2. apply noecho_default_noninterference_gen; try (rewrite with_default_noecho; assumption).
  rewrite !with_default_field by assumption. split; discriminate.
Qed.
