(* Declarative big-step semantics of intrinsic-function resolution (one rule per construct, written from the
   CloudFormation function reference and the property text) and the proof that the executable model
   [resolve] computes exactly this relation. *)
From Coq Require Import List Bool NArith ZArith Lia.
From PV Require Import Base.Str Base.Value Resolver.Consts Resolver.Text Resolver.Resolve.
Import ListNotations.
Local Open Scope N_scope.

Inductive Eval (e : env) : value -> value -> Prop :=
(* scalars are rendered as strings *)
| E_null : Eval e VNull VNull
| E_bool b : Eval e (VBool b) (VStr (bool_text b))
| E_int z : Eval e (VInt z) (VStr (str_of_Z z))
| E_str s : Eval e (VStr s) (VStr (render_str (params e) s))
| E_typed k t : Eval e (VTyped k t) (VStr t)
| E_bytes b : Eval e (VBytes b) (VStr (b64encode b))
(* containers: members resolved in place, AWS::NoValue members removed *)
| E_list l l' : EvalList e l l' -> Eval e (VList l) (VList l')
| E_dict d d' : is_fn_dict d = false -> EvalDict e d d' -> Eval e (VDict d) (VDict d')
(* value functions *)
| E_ref k body b r : k = K_Ref \/ k = K_ImportValue ->
    Eval e body b -> do_ref e b = Ok r -> Eval e (VDict [(k, body)]) r
| E_join dl l d' l' r : Eval e dl d' -> Eval e l l' -> do_join d' l' = Ok r ->
    Eval e (VDict [(K_Join, VList [dl; l])]) r
| E_split dl s d' s' r : Eval e dl d' -> Eval e s s' -> do_split d' s' = Ok r ->
    Eval e (VDict [(K_Split, VList [dl; s])]) r
| E_select i l i' l' r : Eval e i i' -> Eval e l l' -> do_select i' l' = Ok r ->
    Eval e (VDict [(K_Select, VList [i; l])]) r
| E_find_in_map m k1 k2 m' k1' k2' r : Eval e m m' -> Eval e k1 k1' -> Eval e k2 k2' ->
    do_find_in_map e m' k1' k2' = Ok r -> Eval e (VDict [(K_FindInMap, VList [m; k1; k2])]) r
| E_sub_text text r : do_sub e text [] = Ok r -> Eval e (VDict [(K_Sub, VStr text)]) r
| E_sub_vars text vars custom r : Eval e vars (VDict custom) -> do_sub e text custom = Ok r ->
    Eval e (VDict [(K_Sub, VList [VStr text; vars])]) r
| E_base64 body b r : Eval e body b -> do_base64 b = Ok r -> Eval e (VDict [(K_Base64, body)]) r
| E_getatt body : Eval e (VDict [(K_GetAtt, body)]) (VStr S_GETATT)
| E_getazs body : Eval e (VDict [(K_GetAZs, body)]) (VStr S_GETAZS)
(* condition functions *)
| E_condition name b : conds e name = Ok b -> Eval e (VDict [(K_Condition, VStr name)]) (VBool b)
| E_if_true c t f r : conds e c = Ok true -> Eval e t r -> Eval e (VDict [(K_If, VList [VStr c; t; f])]) r
| E_if_false c t f r : conds e c = Ok false -> Eval e f r -> Eval e (VDict [(K_If, VList [VStr c; t; f])]) r
| E_and parts b : EvalAll e parts b -> Eval e (VDict [(K_And, VList parts)]) (VBool b)
| E_or parts b : EvalAny e parts b -> Eval e (VDict [(K_Or, VList parts)]) (VBool b)
| E_not x rest r b : Eval e x r -> ext_bool r = Ok b -> Eval e (VDict [(K_Not, VList (x :: rest))]) (VBool (negb b))
| E_equals a b a' b' r : Eval e a a' -> Eval e b b' -> py_eq a' b' = Ok r ->
    Eval e (VDict [(K_Equals, VList [a; b])]) (VBool r)
with EvalList (e : env) : list value -> list value -> Prop :=
| EL_nil : EvalList e [] []
| EL_keep x x' xs xs' : Eval e x x' -> is_novalue x' = false -> EvalList e xs xs' -> EvalList e (x :: xs) (x' :: xs')
| EL_drop x x' xs xs' : Eval e x x' -> is_novalue x' = true -> EvalList e xs xs' -> EvalList e (x :: xs) xs'
with EvalDict (e : env) : list (str * value) -> list (str * value) -> Prop :=
| ED_nil : EvalDict e [] []
| ED_keep k x x' xs xs' : Eval e x x' -> is_novalue x' = false -> EvalDict e xs xs' ->
    EvalDict e ((k, x) :: xs) ((k, x') :: xs')
| ED_drop k x x' xs xs' : Eval e x x' -> is_novalue x' = true -> EvalDict e xs xs' -> EvalDict e ((k, x) :: xs) xs'
(* Fn::And = all, Fn::Or = any, left to right, later operands not evaluated once decided *)
with EvalAll (e : env) : list value -> bool -> Prop :=
| EA_nil : EvalAll e [] true
| EA_false x r xs : Eval e x r -> ext_bool r = Ok false -> EvalAll e (x :: xs) false
| EA_true x r xs b : Eval e x r -> ext_bool r = Ok true -> EvalAll e xs b -> EvalAll e (x :: xs) b
with EvalAny (e : env) : list value -> bool -> Prop :=
| EO_nil : EvalAny e [] false
| EO_true x r xs : Eval e x r -> ext_bool r = Ok true -> EvalAny e (x :: xs) true
| EO_false x r xs b : Eval e x r -> ext_bool r = Ok false -> EvalAny e xs b -> EvalAny e (x :: xs) b.

Scheme Eval_mut := Induction for Eval Sort Prop
  with EvalList_mut := Induction for EvalList Sort Prop
  with EvalDict_mut := Induction for EvalDict Sort Prop
  with EvalAll_mut := Induction for EvalAll Sort Prop
  with EvalAny_mut := Induction for EvalAny Sort Prop.
Combined Scheme Eval_mutind from Eval_mut, EvalList_mut, EvalDict_mut, EvalAll_mut, EvalAny_mut.

(* ---- the inner loops of [resolve], named ---- *)
Definition rlist (e : env) : list value -> res (list value) :=
  fix go (l : list value) : res (list value) :=
    match l with
    | [] => Ok []
    | x :: xs => x' <- resolve e x ;; xs' <- go xs ;; Ok (if is_novalue x' then xs' else x' :: xs')
    end.
Definition rdict (e : env) : list (str * value) -> res (list (str * value)) :=
  fix go (d : list (str * value)) : res (list (str * value)) :=
    match d with
    | [] => Ok []
    | (k, x) :: xs => x' <- resolve e x ;; xs' <- go xs ;; Ok (if is_novalue x' then xs' else (k, x') :: xs')
    end.
Definition rall (e : env) : list value -> res bool :=
  fix all_go (l : list value) : res bool :=
    match l with
    | [] => Ok true
    | x :: xs => r <- resolve e x ;; b <- ext_bool r ;; if b then all_go xs else Ok false
    end.
Definition rany (e : env) : list value -> res bool :=
  fix any_go (l : list value) : res bool :=
    match l with
    | [] => Ok false
    | x :: xs => r <- resolve e x ;; b <- ext_bool r ;; if b then Ok true else any_go xs
    end.

Lemma resolve_list e l : resolve e (VList l) = (l' <- rlist e l ;; Ok (VList l')).
Proof. reflexivity. Qed.
Lemma resolve_dict_generic e d : is_fn_dict d = false -> resolve e (VDict d) = (d' <- rdict e d ;; Ok (VDict d')).
Proof.
  intros H. destruct d as [|[k body] [|kv2 rest]]; try reflexivity.
  simpl in H. unfold is_fn, MODEL_FUNCTIONS, mem_str in H. cbn [existsb] in H.
  repeat (apply orb_false_elim in H; destruct H as [?H H]).
  cbn [resolve].
  repeat match goal with Hk : str_eqb k ?K = false |- _ => rewrite Hk; clear Hk end.
  reflexivity.
Qed.

(* ---- unfolding equations, one per function ---- *)
Ltac keyneq := vm_compute; reflexivity.
Lemma resolve_ref e body : resolve e (VDict [(K_Ref, body)]) = (b <- resolve e body ;; do_ref e b).
Proof. reflexivity. Qed.
Lemma resolve_import e body : resolve e (VDict [(K_ImportValue, body)]) = (b <- resolve e body ;; do_ref e b).
Proof. reflexivity. Qed.
Lemma resolve_join e dl l : resolve e (VDict [(K_Join, VList [dl; l])]) = (d' <- resolve e dl ;; l' <- resolve e l ;; do_join d' l').
Proof. reflexivity. Qed.
Lemma resolve_split e dl s : resolve e (VDict [(K_Split, VList [dl; s])]) = (d' <- resolve e dl ;; s' <- resolve e s ;; do_split d' s').
Proof. reflexivity. Qed.
Lemma resolve_select e i l : resolve e (VDict [(K_Select, VList [i; l])]) = (i' <- resolve e i ;; l' <- resolve e l ;; do_select i' l').
Proof. reflexivity. Qed.
Lemma resolve_find_in_map e m k1 k2 : resolve e (VDict [(K_FindInMap, VList [m; k1; k2])]) =
  (m' <- resolve e m ;; k1' <- resolve e k1 ;; k2' <- resolve e k2 ;; do_find_in_map e m' k1' k2').
Proof. reflexivity. Qed.
Lemma resolve_sub_text e text : resolve e (VDict [(K_Sub, VStr text)]) = do_sub e text [].
Proof. reflexivity. Qed.
Lemma resolve_sub_vars e text vars : resolve e (VDict [(K_Sub, VList [VStr text; vars])]) =
  (cv <- resolve e vars ;; match cv with VDict custom => do_sub e text custom | _ => Err EUndefined end).
Proof. reflexivity. Qed.
Lemma resolve_base64 e body : resolve e (VDict [(K_Base64, body)]) = (b <- resolve e body ;; do_base64 b).
Proof. reflexivity. Qed.
Lemma resolve_getatt e body : resolve e (VDict [(K_GetAtt, body)]) = Ok (VStr S_GETATT).
Proof. reflexivity. Qed.
Lemma resolve_getazs e body : resolve e (VDict [(K_GetAZs, body)]) = Ok (VStr S_GETAZS).
Proof. reflexivity. Qed.
Lemma resolve_condition e name : resolve e (VDict [(K_Condition, VStr name)]) = (b <- conds e name ;; Ok (VBool b)).
Proof. reflexivity. Qed.
Lemma resolve_if e c t f : resolve e (VDict [(K_If, VList [VStr c; t; f])]) =
  (b <- conds e c ;; if b then resolve e t else resolve e f).
Proof. reflexivity. Qed.
Lemma resolve_and e parts : resolve e (VDict [(K_And, VList parts)]) = (b <- rall e parts ;; Ok (VBool b)).
Proof. reflexivity. Qed.
Lemma resolve_or e parts : resolve e (VDict [(K_Or, VList parts)]) = (b <- rany e parts ;; Ok (VBool b)).
Proof. reflexivity. Qed.
Lemma resolve_not e x rest : resolve e (VDict [(K_Not, VList (x :: rest))]) =
  (r <- resolve e x ;; b <- ext_bool r ;; Ok (VBool (negb b))).
Proof. reflexivity. Qed.
Lemma resolve_equals e a b : resolve e (VDict [(K_Equals, VList [a; b])]) =
  (a' <- resolve e a ;; b' <- resolve e b ;; r <- py_eq a' b' ;; Ok (VBool r)).
Proof. reflexivity. Qed.

(* ---- completeness: every derivation is computed ---- *)
Lemma bind_ok {A B} (r : res A) (f : A -> res B) a : r = Ok a -> bind r f = f a.
Proof. intros ->. reflexivity. Qed.

Theorem eval_complete e :
  (forall v r, Eval e v r -> resolve e v = Ok r) /\
  (forall l l', EvalList e l l' -> rlist e l = Ok l') /\
  (forall d d', EvalDict e d d' -> rdict e d = Ok d') /\
  (forall l b, EvalAll e l b -> rall e l = Ok b) /\
  (forall l b, EvalAny e l b -> rany e l = Ok b).
Proof.
  apply Eval_mutind; intros; try reflexivity.
  - rewrite resolve_list, H. reflexivity.
  - rewrite resolve_dict_generic by assumption. rewrite H. reflexivity.
  - destruct o as [-> | ->]; [rewrite resolve_ref | rewrite resolve_import]; rewrite H; simpl; assumption.
  - rewrite resolve_join, H, H0. simpl. assumption.
  - rewrite resolve_split, H, H0. simpl. assumption.
  - rewrite resolve_select, H, H0. simpl. assumption.
  - rewrite resolve_find_in_map, H, H0, H1. simpl. assumption.
  - rewrite resolve_sub_text. assumption.
  - rewrite resolve_sub_vars, H. simpl. assumption.
  - rewrite resolve_base64, H. simpl. assumption.
  - rewrite resolve_condition, e0. reflexivity.
  - rewrite resolve_if, e0. simpl. assumption.
  - rewrite resolve_if, e0. simpl. assumption.
  - rewrite resolve_and, H. reflexivity.
  - rewrite resolve_or, H. reflexivity.
  - rewrite resolve_not, H. simpl. rewrite e1. reflexivity.
  - rewrite resolve_equals, H, H0. simpl. rewrite e2. reflexivity.
  - simpl. rewrite H. simpl. rewrite H0. simpl. rewrite e1. reflexivity.
  - simpl. rewrite H. simpl. rewrite H0. simpl. rewrite e1. reflexivity.
  - simpl. rewrite H. simpl. rewrite H0. simpl. rewrite e1. reflexivity.
  - simpl. rewrite H. simpl. rewrite H0. simpl. rewrite e1. reflexivity.
  - simpl. rewrite H. simpl. rewrite e1. reflexivity.
  - simpl. rewrite H. simpl. rewrite e1. simpl. assumption.
  - simpl. rewrite H. simpl. rewrite e1. reflexivity.
  - simpl. rewrite H. simpl. rewrite e1. simpl. assumption.
Qed.

(* ---- soundness: whatever [resolve] returns is derivable ---- *)
Section Sound.
Variable e : env.
Definition SoundAt (v : value) : Prop := forall r, resolve e v = Ok r -> Eval e v r.

Lemma rlist_sound l : Forall SoundAt l -> forall l', rlist e l = Ok l' -> EvalList e l l'.
Proof.
  induction 1 as [|x xs Hx Hxs IH]; intros l' H; simpl in H.
  - inv H. constructor.
  - bind_inv. inv H. destruct (is_novalue a) eqn:En.
    + eapply EL_drop; eauto.
    + eapply EL_keep; eauto.
Qed.
Lemma rdict_sound d : Forall (fun kv => SoundAt (snd kv)) d -> forall d', rdict e d = Ok d' -> EvalDict e d d'.
Proof.
  induction 1 as [|[k x] xs Hx Hxs IH]; intros d' H; simpl in H.
  - inv H. constructor.
  - bind_inv. inv H. simpl in Hx. destruct (is_novalue a) eqn:En.
    + eapply ED_drop; eauto.
    + eapply ED_keep; eauto.
Qed.
Lemma rall_sound l : Forall SoundAt l -> forall b, rall e l = Ok b -> EvalAll e l b.
Proof.
  induction 1 as [|x xs Hx Hxs IH]; intros b H; simpl in H.
  - inv H. constructor.
  - bind_inv. destruct a0.
    + eapply EA_true; eauto.
    + inv H. eapply EA_false; eauto.
Qed.
Lemma rany_sound l : Forall SoundAt l -> forall b, rany e l = Ok b -> EvalAny e l b.
Proof.
  induction 1 as [|x xs Hx Hxs IH]; intros b H; simpl in H.
  - inv H. constructor.
  - bind_inv. destruct a0.
    + inv H. eapply EO_true; eauto.
    + eapply EO_false; eauto.
Qed.
End Sound.

Lemma is_fn_dict_single k body : is_fn_dict [(k, body)] = is_fn k.
Proof. reflexivity. Qed.

Ltac key_case k K :=
  let E := fresh "Ek" in
  destruct (str_eqb k K) eqn:E; [apply str_eqb_spec in E; subst k | ].

Theorem eval_sound e : forall n v, (vsize v < n)%nat -> forall r, resolve e v = Ok r -> Eval e v r.
Proof.
  induction n as [|n IH]; intros v Hs r Hr; [lia|].
  destruct v as [| b | z | s | k t | bs | l | d].
  - inv Hr. constructor.
  - inv Hr. constructor.
  - inv Hr. constructor.
  - inv Hr. constructor.
  - inv Hr. constructor.
  - inv Hr. constructor.
  - rewrite resolve_list in Hr. bind_inv. inv Hr. constructor.
    eapply (rlist_sound e); eauto.
    apply Forall_forall. intros x Hx w Hw. eapply IH; eauto. pose proof (vsize_in_list x l Hx). lia.
  - assert (Hsub : forall k x, In (k, x) d -> forall w, resolve e x = Ok w -> Eval e x w).
    { intros k x Hx w Hw. eapply IH; eauto. pose proof (vsize_in_dict k x d Hx). lia. }
    assert (Hgen : is_fn_dict d = false -> Eval e (VDict d) r).
    { intros Hf. rewrite resolve_dict_generic in Hr by assumption. bind_inv. inv Hr.
      apply E_dict; [assumption|]. eapply (rdict_sound e); eauto.
      apply Forall_forall. intros [k0 x0] Hin w Hw. eapply Hsub; eauto. }
    destruct d as [|[k body] [|kv2 rest]]; [apply Hgen; reflexivity | | apply Hgen; reflexivity].
    assert (Hbody : forall w, resolve e body = Ok w -> Eval e body w) by (eapply Hsub; left; reflexivity).
    assert (Hdeep : forall x, (vsize x < vsize body)%nat -> forall w, resolve e x = Ok w -> Eval e x w).
    { intros x Hx w Hw. eapply IH; eauto. simpl in Hs. lia. }
    key_case k K_Ref.
    { rewrite resolve_ref in Hr. bind_inv. eapply E_ref; eauto. }
    key_case k K_ImportValue.
    { rewrite resolve_import in Hr. bind_inv. eapply E_ref; eauto. }
    key_case k K_Join.
    { destruct body as [| | | | | | l |]; try discriminate.
      destruct l as [|dl [|l [|? ?]]]; try discriminate.
      rewrite resolve_join in Hr. bind_inv. eapply E_join; eauto; eapply Hdeep; eauto; simpl; lia. }
    key_case k K_Split.
    { destruct body as [| | | | | | l |]; try discriminate.
      destruct l as [|dl [|l [|? ?]]]; try discriminate.
      rewrite resolve_split in Hr. bind_inv. eapply E_split; eauto; eapply Hdeep; eauto; simpl; lia. }
    key_case k K_Select.
    { destruct body as [| | | | | | l |]; try discriminate.
      destruct l as [|dl [|l [|? ?]]]; try discriminate.
      rewrite resolve_select in Hr. bind_inv. eapply E_select; eauto; eapply Hdeep; eauto; simpl; lia. }
    key_case k K_FindInMap.
    { destruct body as [| | | | | | l |]; try discriminate.
      destruct l as [|m [|k1 [|k2 [|? ?]]]]; try discriminate.
      rewrite resolve_find_in_map in Hr. bind_inv. eapply E_find_in_map; eauto; eapply Hdeep; eauto; simpl; lia. }
    key_case k K_Sub.
    { destruct body as [| | | text | | | l |]; try discriminate.
      - rewrite resolve_sub_text in Hr. apply E_sub_text. assumption.
      - destruct l as [|t0 [|vars [|? ?]]]; try discriminate;
          destruct t0 as [| | | text | | | |]; try discriminate.
        rewrite resolve_sub_vars in Hr. bind_inv. destruct a as [| | | | | | | custom]; try discriminate.
        eapply E_sub_vars; eauto. eapply Hdeep; eauto. simpl. lia. }
    key_case k K_Base64.
    { rewrite resolve_base64 in Hr. bind_inv. eapply E_base64; eauto. }
    key_case k K_GetAtt.
    { rewrite resolve_getatt in Hr. inv Hr. constructor. }
    key_case k K_GetAZs.
    { rewrite resolve_getazs in Hr. inv Hr. constructor. }
    key_case k K_Condition.
    { destruct body as [| | | name | | | |]; try discriminate.
      rewrite resolve_condition in Hr. bind_inv. inv Hr. constructor. assumption. }
    key_case k K_If.
    { destruct body as [| | | | | | l |]; try discriminate.
      destruct l as [|c [|t [|f [|? ?]]]]; try discriminate; try (destruct c; discriminate).
      destruct c as [| | | c | | | |]; try discriminate.
      rewrite resolve_if in Hr. bind_inv. destruct a.
      - eapply E_if_true; eauto. eapply Hdeep; eauto. simpl. lia.
      - eapply E_if_false; eauto. eapply Hdeep; eauto. simpl. lia. }
    key_case k K_And.
    { destruct body as [| | | | | | parts |]; try discriminate.
      rewrite resolve_and in Hr. bind_inv. inv Hr. constructor.
      eapply (rall_sound e); eauto. apply Forall_forall. intros x Hx w Hw.
      eapply Hdeep; eauto. apply vsize_in_list. assumption. }
    key_case k K_Or.
    { destruct body as [| | | | | | parts |]; try discriminate.
      rewrite resolve_or in Hr. bind_inv. inv Hr. constructor.
      eapply (rany_sound e); eauto. apply Forall_forall. intros x Hx w Hw.
      eapply Hdeep; eauto. apply vsize_in_list. assumption. }
    key_case k K_Not.
    { destruct body as [| | | | | | l |]; try discriminate.
      destruct l as [|x rest]; try discriminate.
      rewrite resolve_not in Hr. bind_inv. inv Hr. eapply E_not; eauto.
      eapply Hdeep; eauto. simpl. lia. }
    key_case k K_Equals.
    { destruct body as [| | | | | | l |]; try discriminate.
      destruct l as [|a [|b [|? ?]]]; try discriminate.
      rewrite resolve_equals in Hr. bind_inv. inv Hr. eapply E_equals; eauto; eapply Hdeep; eauto; simpl; lia. }
    apply Hgen. rewrite is_fn_dict_single. unfold is_fn, MODEL_FUNCTIONS, mem_str. cbn [existsb].
    rewrite Ek, Ek0, Ek1, Ek2, Ek3, Ek4, Ek5, Ek6, Ek7, Ek8, Ek9, Ek10, Ek11, Ek12, Ek13, Ek14. reflexivity.
Qed.

Theorem resolve_iff_eval e v r : resolve e v = Ok r <-> Eval e v r.
Proof.
  split.
  - apply (eval_sound e (S (vsize v))). lia.
  - apply eval_complete.
Qed.

Corollary eval_deterministic e v a b : Eval e v a -> Eval e v b -> a = b.
Proof. intros Ha Hb. apply resolve_iff_eval in Ha, Hb. congruence. Qed.
