(* String constants of the resolver model (the only file that opens string_scope). *)
From Coq Require Import List String NArith.
From PV Require Import Base.Str.
Import ListNotations.
Local Open Scope string_scope.

Definition K_Condition : str := Eval compute in of_string "Condition".
Definition K_And : str := Eval compute in of_string "Fn::And".
Definition K_Base64 : str := Eval compute in of_string "Fn::Base64".
Definition K_Equals : str := Eval compute in of_string "Fn::Equals".
Definition K_FindInMap : str := Eval compute in of_string "Fn::FindInMap".
Definition K_GetAtt : str := Eval compute in of_string "Fn::GetAtt".
Definition K_GetAZs : str := Eval compute in of_string "Fn::GetAZs".
Definition K_If : str := Eval compute in of_string "Fn::If".
Definition K_ImportValue : str := Eval compute in of_string "Fn::ImportValue".
Definition K_Join : str := Eval compute in of_string "Fn::Join".
Definition K_Not : str := Eval compute in of_string "Fn::Not".
Definition K_Or : str := Eval compute in of_string "Fn::Or".
Definition K_Select : str := Eval compute in of_string "Fn::Select".
Definition K_Split : str := Eval compute in of_string "Fn::Split".
Definition K_Sub : str := Eval compute in of_string "Fn::Sub".
Definition K_Ref : str := Eval compute in of_string "Ref".

(* the model's own list of function names; GenChecks proves it equal (as a set) to the generated
   IMPLEMENTED_FUNCTIONS / FUNCTION_MAPPINGS key sets of the live source *)
Definition MODEL_FUNCTIONS : list str :=
  [K_Condition; K_And; K_Base64; K_Equals; K_FindInMap; K_GetAtt; K_GetAZs; K_If; K_ImportValue;
   K_Join; K_Not; K_Or; K_Select; K_Split; K_Sub; K_Ref].

Definition S_NOVALUE : str := Eval compute in of_string "AWS::NoValue".
Definition S_true : str := Eval compute in of_string "true".
Definition S_false : str := Eval compute in of_string "false".
Definition S_True : str := Eval compute in of_string "True".
Definition S_False : str := Eval compute in of_string "False".
Definition S_UNDEF_PARAM : str := Eval compute in of_string "UNDEFINED_PARAM_".
Definition S_UNDEF_MAPPING : str := Eval compute in of_string "UNDEFINED_MAPPING_".
Definition S_GETATT : str := Eval compute in of_string "GETATT".
Definition S_GETAZS : str := Eval compute in of_string "GETAZS".
Definition S_SSM_PREFIX : str := Eval compute in of_string "{{resolve:ssm:".
Definition S_UNDERSCORE : str := Eval compute in of_string "_".
Definition S_COMMA : str := Eval compute in of_string ",".

Definition S_NO_ECHO_NO_DEFAULT : str := Eval compute in of_string "NO_ECHO_NO_DEFAULT".
Definition S_NO_ECHO_WITH_DEFAULT : str := Eval compute in of_string "NO_ECHO_WITH_DEFAULT".
Definition S_NO_ECHO_WITH_VALUE : str := Eval compute in of_string "NO_ECHO_WITH_VALUE".
Definition S_ListNumber : str := Eval compute in of_string "List<Number>".
Definition S_CommaDelimitedList : str := Eval compute in of_string "CommaDelimitedList".

Definition K_Type : str := Eval compute in of_string "Type".
Definition K_Default : str := Eval compute in of_string "Default".
Definition K_NoEcho : str := Eval compute in of_string "NoEcho".
Definition K_Resources : str := Eval compute in of_string "Resources".
Definition K_Conditions : str := Eval compute in of_string "Conditions".
Definition K_Parameters : str := Eval compute in of_string "Parameters".
Definition K_Mappings : str := Eval compute in of_string "Mappings".

(* pydantic's lenient bool spellings (lower-cased) *)
Definition BOOL_TRUE : list str := Eval compute in map of_string ["true"; "yes"; "on"; "1"; "t"; "y"].
Definition BOOL_FALSE : list str := Eval compute in map of_string ["false"; "no"; "off"; "0"; "f"; "n"].

Definition K_CFN_AUTH : str := Eval compute in of_string "AWS::CloudFormation::Authentication".
Definition K_accessKeyId : str := Eval compute in of_string "accessKeyId".
Definition K_password : str := Eval compute in of_string "password".
Definition K_secretKey : str := Eval compute in of_string "secretKey".
Definition K_Password : str := Eval compute in of_string "Password".
