(* The memoising, taint-aware condition resolver (Memo.v: _ConditionResolver of cf_model.py) computes exactly the
   condition values of Template.cond_val / cond_all, for every set of declarations (cycles, self-references and
   undeclared names included): ties Memo.v to the resolver through QTree.v. *)
From Coq Require Import List Bool NArith ZArith Lia.
From PV Require Import Base.Str Base.Value Resolver.Consts Resolver.Text Resolver.Resolve Resolver.Spec Resolver.Ext
  Resolver.Template Resolver.Memo Resolver.QTree.
Import ListNotations.

Section Link.
Variables ps maps : list (str * value).
Variable decl : list (str * value).

(* each declared body, as a query tree *)
Definition bodies_of : list (str * qtree bool) := map (fun nb => (fst nb, body_tree ps maps (snd nb))) decl.

Lemma lookup_bodies_of n : lookup n bodies_of = option_map (body_tree ps maps) (lookup n decl).
Proof.
  unfold bodies_of. induction decl as [|[k b] l IH]; simpl; [reflexivity|].
  destruct (str_eqb n k); [reflexivity | apply IH].
Qed.
Lemma keys_bodies_of : keys bodies_of = keys decl.
Proof. unfold bodies_of, keys. rewrite map_map. reflexivity. Qed.

Lemma cenv_conds_ext k k' : (forall n, k n = k' n) -> env_eq (QTree.cenv ps maps k) (QTree.cenv ps maps k').
Proof. intros H. repeat split; auto; intros x; reflexivity. Qed.

(* the tree-level specification is cond_val *)
Theorem cvt_is_cond_val : forall fuel rem n, cvt bodies_of fuel rem n = cond_val ps maps decl fuel rem n.
Proof.
  induction fuel as [|f IH]; intros rem n; [reflexivity|].
  simpl. destruct (mem_str n rem); [|reflexivity].
  rewrite lookup_bodies_of. destruct (lookup n decl) as [body|]; simpl; [|reflexivity].
  rewrite body_tree_run.
  rewrite (resolve_env_eq _ (QTree.cenv ps maps (cond_val ps maps decl f (remove_str n rem))) body); [reflexivity|].
  apply cenv_conds_ext. intros m. apply IH.
Qed.

Lemma cvt_all_is_cond_all names :
  cvt_all bodies_of (S (length decl)) (keys decl) names = cond_all ps maps decl names.
Proof.
  induction names as [|n r IH]; [reflexivity|].
  cbn [cvt_all cond_all]. unfold cond_root. rewrite cvt_is_cond_val, IH. reflexivity.
Qed.

Definition memo_init : mstate := {| cache := []; tainted := false |}.
Definition memo_resolve_all : res (list (str * bool) * mstate) :=
  mall bodies_of (S (length decl)) (keys decl) memo_init.

(* _ConditionResolver(...).resolve_all() = the specified condition values, errors included *)
Theorem memo_resolve_all_correct :
  match cond_all ps maps decl (keys decl) with
  | Ok l => exists s', memo_resolve_all = Ok (l, s')
  | Err e => memo_resolve_all = Err e
  end.
Proof.
  unfold memo_resolve_all.
  pose proof (mall_correct bodies_of (S (length decl))) as H.
  rewrite keys_bodies_of in H. unfold keys in H at 1. rewrite map_length in H.
  specialize (H (Nat.lt_succ_diag_r _) (keys decl) memo_init (co_nil _)).
  rewrite cvt_all_is_cond_all in H.
  destruct (cond_all ps maps decl (keys decl)) as [l|e]; [|assumption].
  destruct H as (s' & Hs & _). exists s'. assumption.
Qed.

(* a later lookup (Fn::If / Condition inside a resource, through the same resolver object, whatever it has cached so far
   and whatever is in progress) still returns the specified value *)
Theorem memo_get_correct prog n s :
  good bodies_of (cache s) prog ->
  match cond_val ps maps decl (S (length decl)) (rem_of bodies_of prog) n with
  | Ok b => exists s', mget bodies_of (S (length decl)) prog n s = Ok (b, s') /\ good bodies_of (cache s') prog
  | Err e => mget bodies_of (S (length decl)) prog n s = Err e
  end.
Proof.
  intros Hg.
  assert (Hlen : length (rem_of bodies_of prog) < S (length decl)).
  { unfold rem_of. rewrite keys_bodies_of.
    pose proof (filter_len (fun x => negb (mem_str x prog)) (keys decl)). unfold keys in *. rewrite map_length in *. lia. }
  pose proof (mget_correct bodies_of (S (length decl)) prog Hlen n s Hg) as H.
  rewrite cvt_is_cond_val in H.
  destruct (cond_val ps maps decl (S (length decl)) (rem_of bodies_of prog) n) as [b|e]; [|assumption].
  destruct H as (s' & Hm & Hp & _). exists s'. split; assumption.
Qed.
End Link.
