(* Template-level driver: parameter binding (Parameter.get_ref_value, merge order), on-demand condition
   values, resource gating -- the model of CFModel.resolve on the dumped model. *)
From Coq Require Import List Bool NArith ZArith Lia.
From PV Require Import Base.Str Base.Value Resolver.Consts Resolver.Text Resolver.Resolve.
Import ListNotations.
Local Open Scope N_scope.

(* ---- Parameter.get_ref_value ---- *)
Definition field (k : str) (d : value) : option value :=
  match d with
  | VDict l => match lookup k l with Some VNull | None => None | Some x => Some x end
  | _ => None
  end.
Definition py_str (v : value) : res str :=
  match v with
  | VStr s => Ok s
  | VInt z => Ok (str_of_Z z)
  | VBool b => Ok (if b then S_True else S_False)
  | VTyped KFloat t => Ok t
  | _ => Err EUndefined
  end.
Definition is_list_type (d : value) : bool :=
  match field K_Type d with
  | Some (VStr t) => str_eqb t S_ListNumber || str_eqb t S_CommaDelimitedList
  | _ => false
  end.
Definition is_noecho (d : value) : bool :=
  match field K_NoEcho d with Some (VBool true) => true | _ => false end.

Definition ref_value (d : value) (provided : option value) : res (option value) :=
  let dflt := field K_Default d in
  let value := match provided with Some p => Some p | None => dflt end in
  if is_noecho d then
    Ok (Some (VStr (match provided, dflt with
                    | Some _, _ => S_NO_ECHO_WITH_VALUE
                    | None, Some _ => S_NO_ECHO_WITH_DEFAULT
                    | None, None => S_NO_ECHO_NO_DEFAULT
                    end)))
  else if is_list_type d then
    match value with
    | None => Ok None
    | Some (VList l) => Ok (Some (VList l))
    | Some v => s <- py_str v ;; Ok (Some (VList (map VStr (split S_COMMA s))))
    end
  else
    match value with
    | None => Ok None
    | Some v => s <- py_str v ;; Ok (Some (VStr s))
    end.

(* extra_params.get(key) with None meaning "not supplied" *)
Definition supplied (k : str) (extra : list (str * value)) : option value :=
  match lookup k extra with Some VNull | None => None | Some x => Some x end.

Fixpoint bind_declared (decls extra : list (str * value)) : res (list (str * value)) :=
  match decls with
  | [] => Ok []
  | (k, d) :: r =>
      v <- ref_value d (supplied k extra) ;;
      r' <- bind_declared r extra ;;
      Ok (match v with Some x => (k, x) :: r' | None => r' end)
  end.

(* {**pseudo, **declared, **extra_not_declared}: first match wins in this association list *)
Definition bind_params (pseudo decls extra : list (str * value)) : res (list (str * value)) :=
  declared <- bind_declared decls extra ;;
  Ok (filter (fun kv => negb (mem_str (fst kv) (keys decls))) extra ++ declared ++ pseudo).

(* ---- condition values, on demand: [rem] = declared names not currently being resolved ---- *)
Definition remove_str (n : str) (l : list str) : list str := filter (fun x => negb (str_eqb n x)) l.

Fixpoint cond_val (ps maps decl : list (str * value)) (fuel : nat) (rem : list str) (n : str) : res bool :=
  match fuel with
  | O => Err ERecursion
  | S f =>
      if mem_str n rem then
        match lookup n decl with
        | Some body =>
            r <- resolve {| params := ps; mappings := maps; conds := cond_val ps maps decl f (remove_str n rem) |} body ;;
            ext_bool r
        | None => Ok false
        end
      else Ok false
  end.

Definition cond_root (ps maps decl : list (str * value)) (n : str) : res bool :=
  cond_val ps maps decl (S (length decl)) (keys decl) n.

Fixpoint cond_all (ps maps decl : list (str * value)) (names : list str) : res (list (str * bool)) :=
  match names with
  | [] => Ok []
  | n :: r => b <- cond_root ps maps decl n ;; r' <- cond_all ps maps decl r ;; Ok ((n, b) :: r')
  end.

Definition conds_fun (resolved : list (str * bool)) (n : str) : res bool :=
  Ok (match lookup n resolved with Some b => b | None => false end).

(* a resource is kept iff it has no Condition or that condition is not (declared and false) *)
Definition gate (resolved : list (str * bool)) (r : value) : res bool :=
  match r with
  | VDict fields =>
      match lookup K_Condition fields with
      | None | Some VNull => Ok true
      | Some (VStr c) => Ok (match lookup c resolved with Some b => b | None => true end)
      | Some _ => Err EUndefined
      end
  | _ => Err EUndefined
  end.

(* d["Type"] = v *)
Fixpoint set_key (k : str) (v : value) (d : list (str * value)) : list (str * value) :=
  match d with
  | [] => [(k, v)]
  | (k', x) :: r => if str_eqb k k' then (k', v) :: r else (k', x) :: set_key k v r
  end.
(* the Type of a resource and the NAME in its Condition attribute are literals: they are put back after resolution
   (resolved_resource["Type"] = value["Type"]; resolved_resource["Condition"] = value["Condition"], each when it is text) *)
Definition keep_key (k : str) (orig d : list (str * value)) : list (str * value) :=
  match lookup k orig with Some (VStr t) => set_key k (VStr t) d | _ => d end.
Definition keep_type (orig resolved : value) : value :=
  match orig, resolved with
  | VDict o, VDict d => VDict (keep_key K_Condition o (keep_key K_Type o d))
  | _, _ => resolved
  end.
Definition resolve_resource (e : env) (r : value) : res value := r' <- resolve e r ;; Ok (keep_type r r').

Fixpoint resolve_resources (e : env) (resolved : list (str * bool)) (rs : list (str * value)) : res (list (str * value)) :=
  match rs with
  | [] => Ok []
  | (id, r) :: rest =>
      keep <- gate resolved r ;;
      if keep then r' <- resolve_resource e r ;; rest' <- resolve_resources e resolved rest ;; Ok ((id, r') :: rest')
      else resolve_resources e resolved rest
  end.

Definition resolve_model (pseudo decls extra maps cdecl rs : list (str * value)) : res value :=
  ps <- bind_params pseudo decls extra ;;
  resolved <- cond_all ps maps cdecl (keys cdecl) ;;
  rs' <- resolve_resources {| params := ps; mappings := maps; conds := conds_fun resolved |} resolved rs ;;
  Ok (VDict [(K_Conditions, VDict (map (fun nb => (fst nb, VBool (snd nb))) resolved));
             (K_Resources, VDict rs')]).
