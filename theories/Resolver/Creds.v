(* has_hardcoded_credentials (Resource and IAMUser), over resolved plain data *)
From Coq Require Import List Bool NArith ZArith.
From PV Require Import Base.Str Base.Value Resolver.Consts.
Import ListNotations.

Definition MARKER : value := VStr S_NO_ECHO_NO_DEFAULT.
Definition truthy (v : value) : bool :=
  match v with
  | VNull | VBool false | VInt 0%Z | VStr [] | VList [] | VDict [] | VBytes [] => false
  | _ => true
  end.
(* auth.get(k, MARKER) == MARKER *)
Definition cred_ok (auth : list (str * value)) (k : str) : bool :=
  match lookup k auth with None => true | Some v => veqb v MARKER end.
Definition auth_ok (auth : value) : res bool :=
  match auth with
  | VDict a => Ok (cred_ok a K_accessKeyId && cred_ok a K_password && cred_ok a K_secretKey)
  | _ => Err EAttr
  end.
Fixpoint any_bad (auths : list (str * value)) : res bool :=
  match auths with
  | [] => Ok false
  | (_, a) :: r => ok <- auth_ok a ;; if ok then any_bad r else Ok true
  end.
(* Resource.has_hardcoded_credentials on the resource's Metadata (VNull when absent) *)
Definition has_hc (metadata : value) : res bool :=
  match metadata with
  | VDict m =>
      match lookup K_CFN_AUTH m with
      | Some (VDict auths) => any_bad auths
      | Some v => if truthy v then Err EAttr else Ok false
      | None => Ok false
      end
  | VNull => Ok false
  | _ => Err EUndefined
  end.
(* IAMUser.has_hardcoded_credentials: LoginProfile (VNull when absent) first, then the generic check *)
Definition has_hc_user (login_profile metadata : value) : res bool :=
  match login_profile with
  | VDict lp =>
      match lookup K_Password lp with
      | Some p => if truthy p && negb (veqb p MARKER) then Ok true else has_hc metadata
      | None => has_hc metadata
      end
  | VNull => has_hc metadata
  | _ => Err EUndefined
  end.

Lemma any_bad_false_iff auths : (forall k a, In (k, a) auths -> exists d, a = VDict d) ->
  (any_bad auths = Ok false <->
   forall k a, In (k, a) auths -> exists d, a = VDict d /\
     cred_ok d K_accessKeyId = true /\ cred_ok d K_password = true /\ cred_ok d K_secretKey = true).
Proof.
  induction auths as [|[k a] r IH]; intros Hd; simpl.
  - split; [intros _ k a [] | reflexivity].
  - destruct (Hd k a (or_introl eq_refl)) as [d ->]. simpl.
    assert (Hd' : forall k a, In (k, a) r -> exists d, a = VDict d) by (intros k1 a1 Hin1; apply (Hd k1 a1); right; exact Hin1).
    specialize (IH Hd').
    destruct (cred_ok d K_accessKeyId && cred_ok d K_password && cred_ok d K_secretKey) eqn:E.
    + apply andb_true_iff in E. destruct E as [E E3]. apply andb_true_iff in E. destruct E as [E1 E2].
      rewrite IH. split.
      * intros H k0 a0 [Heq|Hin]; [inversion Heq; subst; exists d; auto | exact (H k0 a0 Hin)].
      * intros H k0 a0 Hin. apply (H k0 a0). right. assumption.
    + split; [discriminate|]. intros H. destruct (H k (VDict d) (or_introl eq_refl)) as (d' & Heq & H1 & H2 & H3).
      inversion Heq; subst d'. rewrite H1, H2, H3 in E. discriminate.
Qed.
