(* Locality and order independence of template resolution (C07). *)
From Coq Require Import List Bool NArith ZArith Lia Permutation.
From PV Require Import Base.Str Base.Value Resolver.Consts Resolver.Text Resolver.Resolve Resolver.Spec Resolver.Ext
  Resolver.Template Resolver.CondFacts Resolver.ParamFacts.
Import ListNotations.
Local Open Scope N_scope.

(* ---- conditions: same lookups in parameters / mappings / declarations give the same values ---- *)
Lemma cond_val_ext_env ps ps' maps maps' decl decl' :
  same_lookups ps ps' -> same_lookups maps maps' -> same_lookups decl decl' ->
  forall fuel rem rem' n, same_members rem rem' ->
    cond_val ps maps decl fuel rem n = cond_val ps' maps' decl' fuel rem' n.
Proof.
  intros Hp Hm Hd. induction fuel as [|f IH]; intros rem rem' n Hr; [reflexivity|].
  simpl. rewrite <- (Hr n). destruct (mem_str n rem); [|reflexivity].
  rewrite <- (Hd n). destruct (lookup n decl) as [body|]; [|reflexivity].
  rewrite (resolve_env_eq _ {| params := ps'; mappings := maps'; conds := cond_val ps' maps' decl' f (remove_str n rem') |} body);
    [reflexivity|].
  repeat split; simpl; auto. intros m. apply IH. apply same_members_remove. assumption.
Qed.

(* ---- resources: success is per resource, and each resolved resource is a function of its own definition ---- *)
Definition resource_ok (e : env) (resolved : list (str * bool)) (r : value) : Prop :=
  exists keep, gate resolved r = Ok keep /\ (keep = true -> exists r', resolve_resource e r = Ok r').

Lemma resolve_resources_ok_iff e resolved rs :
  (exists rs', resolve_resources e resolved rs = Ok rs') <-> Forall (fun kv => resource_ok e resolved (snd kv)) rs.
Proof.
  induction rs as [|[id r] rest IH]; simpl.
  - split; [constructor | intros _; eexists; reflexivity].
  - split.
    + intros [rs' H]. destruct (gate resolved r) as [keep|] eqn:Eg; simpl in H; [|discriminate].
      destruct keep.
      * destruct (resolve_resource e r) as [r1|] eqn:Er; simpl in H; [|discriminate].
        destruct (resolve_resources e resolved rest) as [rest1|] eqn:Err; simpl in H; [|discriminate].
        constructor; [exists true; split; [exact Eg | intros _; exists r1; exact Er] | apply IH; exists rest1; reflexivity].
      * constructor; [exists false; split; [exact Eg | discriminate] | apply IH; exists rs'; exact H].
    + intros H. inv H. destruct H2 as (keep & Hg & Hk). simpl in *. rewrite Hg. simpl.
      apply IH in H3. destruct H3 as [rest' Hr]. destruct keep.
      * destruct (Hk eq_refl) as [r' Hr']. rewrite Hr'. simpl. rewrite Hr. simpl. eexists; reflexivity.
      * eexists; exact Hr.
Qed.

(* removing, adding or reordering OTHER resources changes neither whether resolution succeeds for the rest nor the
   resolved form of any resource *)
Theorem resources_perm e resolved rs rs2 out :
  Permutation rs rs2 -> NoDup (keys rs) -> resolve_resources e resolved rs = Ok out ->
  exists out2, resolve_resources e resolved rs2 = Ok out2 /\ same_lookups out out2.
Proof.
  intros Hp Hnd H.
  assert (Hok : Forall (fun kv => resource_ok e resolved (snd kv)) rs2).
  { eapply Permutation_Forall; [exact Hp|]. apply resolve_resources_ok_iff. eexists; exact H. }
  apply resolve_resources_ok_iff in Hok. destruct Hok as [out2 H2]. exists out2. split; [assumption|].
  assert (Hnd2 : NoDup (keys rs2)).
  { unfold keys in *. eapply Permutation_NoDup; [apply Permutation_map; exact Hp | assumption]. }
  intros id. pose proof (resolve_resources_spec e resolved rs out H Hnd id) as S1.
  pose proof (resolve_resources_spec e resolved rs2 out2 H2 Hnd2 id) as S2.
  rewrite <- (lookup_perm rs rs2 Hp Hnd id) in S2.
  destruct (lookup id rs) as [r|]; [|congruence].
  destruct (gate resolved r) as [[|]|]; try contradiction; [|congruence].
  destruct S1 as (r1 & Hr1 & L1). destruct S2 as (r2 & Hr2 & L2). congruence.
Qed.

Theorem resources_restrict e resolved rs out id r :
  NoDup (keys rs) -> resolve_resources e resolved rs = Ok out -> lookup id rs = Some r ->
  exists out1, resolve_resources e resolved [(id, r)] = Ok out1 /\ lookup id out1 = lookup id out.
Proof.
  intros Hnd H Hl. pose proof (resolve_resources_spec e resolved rs out H Hnd id) as S. rewrite Hl in S.
  simpl. destruct (gate resolved r) as [[|]|]; try contradiction; simpl.
  - destruct S as (r' & Hr & L). rewrite Hr. simpl. eexists; split; [reflexivity|]. simpl. rewrite str_eqb_refl. congruence.
  - eexists; split; [reflexivity|]. simpl. congruence.
Qed.

(* environments with the same lookups resolve every resource list identically *)
Lemma resolve_resources_env_eq e e' resolved rs : env_eq e e' ->
  resolve_resources e resolved rs = resolve_resources e' resolved rs.
Proof.
  intros He. induction rs as [|[id r] rest IH]; [reflexivity|]. simpl.
  unfold resolve_resource. rewrite (resolve_env_eq e e' r He), IH. reflexivity.
Qed.

(* reordering the Parameters section gives a parameter map with the same lookups *)
Lemma bind_declared_perm decls decls' extra ps :
  Permutation decls decls' -> NoDup (keys decls) -> bind_declared decls extra = Ok ps ->
  exists ps', bind_declared decls' extra = Ok ps' /\ same_lookups ps ps'.
Proof.
  intros Hp Hnd H.
  assert (Hall : forall l, (exists o, bind_declared l extra = Ok o) <->
                           Forall (fun kd => exists v, ref_value (snd kd) (supplied (fst kd) extra) = Ok v) l).
  { induction l as [|[k d] r IH]; simpl.
    - split; [constructor | intros _; eexists; reflexivity].
    - split.
      + intros [o Ho]. bind_inv. constructor; [eexists; eassumption | apply IH; eexists; reflexivity].
      + intros Hf. inv Hf. destruct H2 as [v Hv]. simpl in Hv. rewrite Hv. simpl.
        apply IH in H3. destruct H3 as [o Ho]. rewrite Ho. simpl. eexists; reflexivity. }
  assert (Hok : exists o, bind_declared decls' extra = Ok o).
  { apply Hall. eapply Permutation_Forall; [exact Hp|]. apply Hall. eexists; exact H. }
  destruct Hok as [ps' H']. exists ps'. split; [assumption|].
  assert (Hnd' : NoDup (keys decls')).
  { unfold keys in *. eapply Permutation_NoDup; [apply Permutation_map; exact Hp | assumption]. }
  intros k. rewrite (bind_declared_lookup decls extra ps H Hnd k), (bind_declared_lookup decls' extra ps' H' Hnd' k).
  rewrite (lookup_perm decls decls' Hp Hnd k). reflexivity.
Qed.

Theorem bind_params_perm pseudo pseudo' decls decls' extra extra' ps :
  Permutation pseudo pseudo' -> NoDup (keys pseudo) ->
  Permutation decls decls' -> NoDup (keys decls) ->
  Permutation extra extra' -> NoDup (keys extra) ->
  bind_params pseudo decls extra = Ok ps ->
  exists ps', bind_params pseudo' decls' extra' = Ok ps' /\ same_lookups ps ps'.
Proof.
  intros Hpp Hnp Hpd Hnd Hpe Hne H.
  assert (Hnd' : NoDup (keys decls')).
  { unfold keys in *. eapply Permutation_NoDup; [apply Permutation_map; exact Hpd | assumption]. }
  assert (Hsup : forall k, supplied k extra = supplied k extra').
  { intros k. unfold supplied. rewrite (lookup_perm extra extra' Hpe Hne k). reflexivity. }
  assert (Hbd : forall l, bind_declared l extra = bind_declared l extra').
  { induction l as [|[k d] r IH]; [reflexivity|]. simpl. rewrite Hsup, IH. reflexivity. }
  pose proof H as H0. unfold bind_params in H0. bind_inv. inv H0.
  destruct (bind_declared_perm decls decls' extra a Hpd Hnd E) as (a' & Ha' & Hsame).
  rewrite Hbd in Ha'.
  exists (filter (fun kv => negb (mem_str (fst kv) (keys decls'))) extra' ++ a' ++ pseudo'). split.
  - unfold bind_params. rewrite Ha'. reflexivity.
  - intros k. rewrite !lookup_app.
    rewrite (lookup_filter_keys k extra (fun x => negb (mem_str x (keys decls)))).
    rewrite (lookup_filter_keys k extra' (fun x => negb (mem_str x (keys decls')))).
    rewrite <- (keys_perm_members decls decls' Hpd k).
    rewrite <- (lookup_perm extra extra' Hpe Hne k), <- (Hsame k), <- (lookup_perm pseudo pseudo' Hpp Hnp k). reflexivity.
Qed.

(* a Fn::Sub variable is visible only inside that Fn::Sub: siblings are resolved in the SAME environment *)
Theorem siblings_same_env e x xs :
  rlist e (x :: xs) = (x' <- resolve e x ;; xs' <- rlist e xs ;; Ok (if is_novalue x' then xs' else x' :: xs')).
Proof. reflexivity. Qed.
