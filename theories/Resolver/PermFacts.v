(* C07, object key order: the order of the entries of any object of a template, at any depth, does not matter for
   resolution.

   [vperm v w]      v and w are the same value up to reordering the entries of objects, at any depth (lists keep their order).
   [nodup_keys v]   no object inside v has two entries with the same key (true of everything json.load / a Python dict gives).
   [rel_res R x y]  both are [Ok] with R-related results, or both are [Err].  The error KIND is deliberately not compared:
                    when two entries of one object both fail, Python raises for the first one it meets, which depends on
                    the order of the entries ({"a": <raises ValueError>, "b": <raises TypeError>} against the same object
                    written b-first).  What is order independent is WHETHER resolution fails (corollary [resolve_vperm_is_ok]).

   Main theorem [resolve_vperm_env]: for environments whose parameter values / mapping values agree up to [vperm]
   (in particular for one fixed environment) and contain no duplicate keys,
       vperm v w -> nodup_keys v -> rel_res vperm (resolve e v) (resolve e' w).
   Since the repair of F31 (Fn::FindInMap finds a key spelled like a boolean by the FIRST spelling in dictionary order) there
   is one more hypothesis, [maps_bk_unique (mappings e)]: no level of a mapping holds two spellings of the same boolean
   ("True" and "TRUE").  Without it the statement is false -- see the comment above [do_find_in_map_vperm]. *)
From Coq Require Import List Bool NArith ZArith Lia Permutation.
From PV Require Import Base.Str Base.Value Resolver.Consts Resolver.Text Resolver.Resolve Resolver.Spec Resolver.Ext
  Resolver.Template Resolver.CondFacts.
Import ListNotations.

(* ------------------------------------------------------------------------------------------------------------------ *)
(* generic list facts                                                                                                 *)
(* ------------------------------------------------------------------------------------------------------------------ *)
Lemma F2_impl_in {A B} (R S : A -> B -> Prop) l l' :
  (forall a b, In a l -> In b l' -> R a b -> S a b) -> Forall2 R l l' -> Forall2 S l l'.
Proof.
  intros H HF. induction HF as [|a b l l' Hab HF IH]; constructor.
  - apply H; simpl; auto.
  - apply IH. intros a0 b0 Ha Hb. apply H; simpl; auto.
Qed.
Lemma F2_flip {A B} (R : A -> B -> Prop) l l' : Forall2 R l l' -> Forall2 (fun b a => R a b) l' l.
Proof. induction 1; constructor; assumption. Qed.
Lemma F2_trans_in {A} (R : A -> A -> Prop) l1 l2 l3 :
  (forall a b c, In a l1 -> R a b -> R b c -> R a c) -> Forall2 R l1 l2 -> Forall2 R l2 l3 -> Forall2 R l1 l3.
Proof.
  intros H H12. revert l3. induction H12 as [|a b l1 l2 Hab H12 IH]; intros l3 H23; inv H23; constructor.
  - eapply H; simpl; eauto.
  - apply IH; [|assumption]. intros a0 b0 c0 Ha. apply H. simpl. auto.
Qed.
Lemma F2_length {A B} (R : A -> B -> Prop) l l' : Forall2 R l l' -> length l = length l'.
Proof. induction 1; simpl; congruence. Qed.
Lemma F2_refl_in {A} (R : A -> A -> Prop) l : (forall a, In a l -> R a a) -> Forall2 R l l.
Proof. induction l as [|x l IH]; intros H; constructor; [apply H; simpl; auto | apply IH; intros a Ha; apply H; simpl; auto]. Qed.
Lemma F2_nth {A B} (R : A -> B -> Prop) l l' : Forall2 R l l' -> forall n,
  match nth_error l n, nth_error l' n with Some a, Some b => R a b | None, None => True | _, _ => False end.
Proof. induction 1 as [|a b l l' Hab HF IH]; intros [|n]; simpl; auto. apply IH. Qed.
Lemma existsb_F2 {A B} (f : A -> bool) (g : B -> bool) l l' : Forall2 (fun a b => f a = g b) l l' -> existsb f l = existsb g l'.
Proof. induction 1 as [|a b l l' Hab HF IH]; simpl; congruence. Qed.
Lemma forallb_F2 {A B} (f : A -> bool) (g : B -> bool) l l' : Forall2 (fun a b => f a = g b) l l' -> forallb f l = forallb g l'.
Proof. induction 1 as [|a b l l' Hab HF IH]; simpl; congruence. Qed.
Lemma existsb_perm {A} (f : A -> bool) l l' : Permutation l l' -> existsb f l = existsb f l'.
Proof.
  induction 1 as [|x l l' Hp IH|x y l|l l' l'' H1 IH1 H2 IH2]; simpl; try congruence.
  destruct (f x), (f y); reflexivity.
Qed.
Lemma forallb_perm {A} (f : A -> bool) l l' : Permutation l l' -> forallb f l = forallb f l'.
Proof.
  induction 1 as [|x l l' Hp IH|x y l|l l' l'' H1 IH1 H2 IH2]; simpl; try congruence.
  destruct (f x), (f y); reflexivity.
Qed.

(* ------------------------------------------------------------------------------------------------------------------ *)
(* the relation                                                                                                       *)
(* ------------------------------------------------------------------------------------------------------------------ *)
(* two entries: same key, related values *)
Definition erel (R : value -> value -> Prop) (a b : str * value) : Prop := fst a = fst b /\ R (snd a) (snd b).

Inductive vperm : value -> value -> Prop :=
| vp_null : vperm VNull VNull
| vp_bool b : vperm (VBool b) (VBool b)
| vp_int z : vperm (VInt z) (VInt z)
| vp_str s : vperm (VStr s) (VStr s)
| vp_typed k t : vperm (VTyped k t) (VTyped k t)
| vp_bytes b : vperm (VBytes b) (VBytes b)
(* lists: same length, same order, members related *)
| vp_list l l' : Forall2 vperm l l' -> vperm (VList l) (VList l')
(* objects: the entries of [d], values related member by member ([d'], same keys in the same order), then reordered ([d'']) *)
| vp_dict d d' d'' : Forall2 (fun a b => fst a = fst b /\ vperm (snd a) (snd b)) d d' -> Permutation d' d'' ->
    vperm (VDict d) (VDict d'').

Lemma vp_dict' d d' d'' : Forall2 (erel vperm) d d' -> Permutation d' d'' -> vperm (VDict d) (VDict d'').
Proof. intros H1 H2. exact (vp_dict d d' d'' H1 H2). Qed.
Lemma vperm_list_inv l w : vperm (VList l) w -> exists l', w = VList l' /\ Forall2 vperm l l'.
Proof. intros H. inv H. eauto. Qed.
Lemma vperm_dict_inv d w : vperm (VDict d) w ->
  exists d' d'', w = VDict d'' /\ Forall2 (erel vperm) d d' /\ Permutation d' d''.
Proof. intros H. inv H. eexists _, _. split; [reflexivity|]. split; [exact H1 | exact H2]. Qed.

Lemma erel_keys R d d' : Forall2 (erel R) d d' -> keys d = keys d'.
Proof. induction 1 as [|[k x] [k' y] d d' [Hk _] HF IH]; unfold keys in *; simpl in *; [reflexivity|]. subst k'. rewrite IH. reflexivity. Qed.
Lemma perm_keys {A} (d d' : list (str * A)) : Permutation d d' -> Permutation (keys d) (keys d').
Proof. apply Permutation_map. Qed.

(* ---- equivalence ---- *)
Lemma vperm_refl v : vperm v v.
Proof.
  induction v as [| | | | | | l IH | d IH] using value_ind'; try constructor.
  - apply F2_refl_in. apply Forall_forall. exact IH.
  - apply vp_dict' with (d' := d); [|apply Permutation_refl].
    apply F2_refl_in. intros a Ha. split; [reflexivity|]. rewrite Forall_forall in IH. apply IH. exact Ha.
Qed.

Lemma vperm_sym_n : forall n v w, (vsize v < n)%nat -> vperm v w -> vperm w v.
Proof.
  induction n as [|n IH]; intros v w Hs H; [lia|].
  destruct H as [ | | | | | | l l' HF | d d' d'' HF HP]; try constructor.
  - apply F2_flip in HF. revert HF. apply F2_impl_in. intros b a Hb Ha Hab. apply (IH a); [|exact Hab].
    pose proof (vsize_in_list a l Ha). lia.
  - assert (HF' : Forall2 (erel vperm) d' d).
    { apply F2_flip in HF. revert HF. apply F2_impl_in. intros [k' y] [k x] Hb Ha [Hk Hxy]. simpl in Hk, Hxy |- *. split; [symmetry; exact Hk|].
      apply (IH x); [|exact Hxy]. pose proof (vsize_in_dict k x d Ha). lia. }
    destruct (Permutation_Forall2 HP HF') as (d2 & HP2 & HF2).
    apply vp_dict' with (d' := d2); [exact HF2 | apply Permutation_sym; exact HP2].
Qed.
Lemma vperm_sym v w : vperm v w -> vperm w v.
Proof. apply (vperm_sym_n (S (vsize v))). lia. Qed.

Lemma vperm_trans_n : forall n a b c, (vsize a < n)%nat -> vperm a b -> vperm b c -> vperm a c.
Proof.
  induction n as [|n IH]; intros a b c Hs Hab Hbc; [lia|].
  destruct Hab as [ | | | | | | l l' HF | d d' d'' HF HP]; try exact Hbc.
  - destruct (vperm_list_inv _ _ Hbc) as (l2 & -> & HF2). constructor.
    eapply F2_trans_in; [|exact HF|exact HF2]. intros x y z Hx Hxy Hyz. apply (IH x y z); try assumption.
    pose proof (vsize_in_list x l Hx). lia.
  - destruct (vperm_dict_inv _ _ Hbc) as (d3 & d4 & -> & HF3 & HP4).
    destruct (Permutation_Forall2 (Permutation_sym HP) HF3) as (d5 & HP5 & HF5).
    apply vp_dict' with (d' := d5); [|eapply Permutation_trans; [apply Permutation_sym; exact HP5 | exact HP4]].
    eapply F2_trans_in; [|exact HF|exact HF5]. intros [k x] [k2 y] [k3 z] Hx [Hk1 Hxy] [Hk2 Hyz]. simpl in Hk1, Hxy, Hk2, Hyz |- *.
    split; [etransitivity; eassumption|]. apply (IH x y z); try assumption. pose proof (vsize_in_dict k x d Hx). lia.
Qed.
Lemma vperm_trans a b c : vperm a b -> vperm b c -> vperm a c.
Proof. apply (vperm_trans_n (S (vsize a))). lia. Qed.

(* reordering the entries of ONE object is the basic instance *)
Lemma vperm_dict_permutation d d' : Permutation d d' -> vperm (VDict d) (VDict d').
Proof.
  intros H. apply vp_dict' with (d' := d); [|exact H]. apply F2_refl_in. intros a _. split; [reflexivity | apply vperm_refl].
Qed.

(* ------------------------------------------------------------------------------------------------------------------ *)
(* no duplicate keys, at any depth                                                                                    *)
(* ------------------------------------------------------------------------------------------------------------------ *)
Fixpoint nodupb (l : list str) : bool :=
  match l with [] => true | x :: xs => negb (mem_str x xs) && nodupb xs end.
Lemma nodupb_spec l : nodupb l = true <-> NoDup l.
Proof.
  induction l as [|x l IH]; simpl.
  - split; [constructor | reflexivity].
  - rewrite andb_true_iff, negb_true_iff, IH. split.
    + intros [Hm Hn]. constructor; [|exact Hn]. intros Hin. apply mem_str_In in Hin. congruence.
    + intros H. inv H. split; [|assumption]. destruct (mem_str x l) eqn:E; [|reflexivity]. apply mem_str_In in E. contradiction.
Qed.
Fixpoint nodup_keysb (v : value) : bool :=
  match v with
  | VList l => forallb nodup_keysb l
  | VDict d => nodupb (keys d) && forallb (fun kv => nodup_keysb (snd kv)) d
  | _ => true
  end.
Definition nodup_keys (v : value) : Prop := nodup_keysb v = true.

Lemma nodup_list_iff l : nodup_keys (VList l) <-> Forall nodup_keys l.
Proof. unfold nodup_keys. simpl. rewrite forallb_forall, Forall_forall. reflexivity. Qed.
Lemma nodup_dict_iff d : nodup_keys (VDict d) <-> NoDup (keys d) /\ Forall (fun kv => nodup_keys (snd kv)) d.
Proof. unfold nodup_keys. simpl. rewrite andb_true_iff, nodupb_spec, forallb_forall, Forall_forall. reflexivity. Qed.
Lemma nodup_in_list l x : nodup_keys (VList l) -> In x l -> nodup_keys x.
Proof. rewrite nodup_list_iff, Forall_forall. auto. Qed.
Lemma nodup_in_dict d k x : nodup_keys (VDict d) -> In (k, x) d -> nodup_keys x.
Proof. rewrite nodup_dict_iff, Forall_forall. intros [_ H] Hin. exact (H _ Hin). Qed.
Lemma nodup_dict_keys d : nodup_keys (VDict d) -> NoDup (keys d).
Proof. rewrite nodup_dict_iff. tauto. Qed.
Lemma nodup_lookup d k x : nodup_keys (VDict d) -> lookup k d = Some x -> nodup_keys x.
Proof. intros H Hl. eapply nodup_in_dict; [exact H | apply lookup_In; exact Hl]. Qed.

(* [nodup_keys] is a property of the class *)
Lemma F2_in_r {A B} (R : A -> B -> Prop) l l' y : Forall2 R l l' -> In y l' -> exists x, In x l /\ R x y.
Proof.
  induction 1 as [|a b l l' Hab HF IH]; simpl; [tauto|]. intros [<-|Hy].
  - exists a. auto.
  - destruct (IH Hy) as (x & Hx & Hxy). exists x. auto.
Qed.
Lemma F2_in_l {A B} (R : A -> B -> Prop) l l' x : Forall2 R l l' -> In x l -> exists y, In y l' /\ R x y.
Proof.
  induction 1 as [|a b l l' Hab HF IH]; simpl; [tauto|]. intros [<-|Hx].
  - exists b. auto.
  - destruct (IH Hx) as (y & Hy & Hxy). exists y. auto.
Qed.

Lemma vperm_nodup_n : forall n v w, (vsize v < n)%nat -> vperm v w -> nodup_keys v -> nodup_keys w.
Proof.
  induction n as [|n IH]; intros v w Hs H Hn; [lia|].
  destruct H as [ | | | | | | l l' HF | d d' d'' HF HP]; try exact Hn.
  - apply nodup_list_iff. apply Forall_forall. intros y Hy.
    destruct (F2_in_r _ _ _ _ HF Hy) as (x & Hx & Hxy).
    apply (IH x y); [pose proof (vsize_in_list x l Hx); lia | exact Hxy | exact (nodup_in_list l x Hn Hx)].
  - apply nodup_dict_iff. apply nodup_dict_iff in Hn. destruct Hn as [Hk Hv]. split.
    + eapply Permutation_NoDup; [apply perm_keys; exact HP|]. rewrite <- (erel_keys _ _ _ HF). exact Hk.
    + apply Forall_forall. intros [k y] Hy. simpl.
      apply Permutation_sym in HP. pose proof (Permutation_in _ HP Hy) as Hy'.
      destruct (F2_in_r _ _ _ _ HF Hy') as ([k0 x] & Hx & Hk0 & Hxy). simpl in Hk0, Hxy.
      rewrite Forall_forall in Hv. apply (IH x y); [pose proof (vsize_in_dict k0 x d Hx); lia | exact Hxy | exact (Hv _ Hx)].
Qed.
Lemma vperm_nodup v w : vperm v w -> nodup_keys v -> nodup_keys w.
Proof. apply (vperm_nodup_n (S (vsize v))). lia. Qed.

(* ------------------------------------------------------------------------------------------------------------------ *)
(* results and lookups up to a relation                                                                               *)
(* ------------------------------------------------------------------------------------------------------------------ *)
Definition rel_res {A} (R : A -> A -> Prop) (x y : res A) : Prop :=
  match x, y with
  | Ok a, Ok b => R a b
  | Err _, Err _ => True
  | _, _ => False
  end.
Definition orel {A} (R : A -> A -> Prop) (x y : option A) : Prop :=
  match x, y with
  | Some a, Some b => R a b
  | None, None => True
  | _, _ => False
  end.

Lemma rel_bind {A B} (R : A -> A -> Prop) (S : B -> B -> Prop) x y f g :
  rel_res R x y -> (forall a b, x = Ok a -> y = Ok b -> R a b -> rel_res S (f a) (g b)) -> rel_res S (bind x f) (bind y g).
Proof. intros H Hfg. destruct x as [a|ea], y as [b|eb]; simpl in *; try contradiction; [apply Hfg; auto | exact I]. Qed.
Lemma rel_res_eq_refl {A} (x : res A) : rel_res eq x x.
Proof. destruct x; simpl; auto. Qed.
Lemma rel_res_of_eq {A} (x y : res A) : x = y -> rel_res eq x y.
Proof. intros ->. apply rel_res_eq_refl. Qed.
Lemma rel_res_vperm_refl x : rel_res vperm x x.
Proof. destruct x; simpl; [apply vperm_refl | exact I]. Qed.
Lemma rel_res_is_ok {A} (R : A -> A -> Prop) x y : rel_res R x y -> is_ok x = is_ok y.
Proof. destruct x, y; simpl; tauto. Qed.

(* lookups in association lists agree up to [vperm] *)
Definition lookups_perm (a b : list (str * value)) : Prop := forall k, orel vperm (lookup k a) (lookup k b).
Lemma lookups_perm_refl a : lookups_perm a a.
Proof. intros k. destruct (lookup k a); simpl; [apply vperm_refl | exact I]. Qed.
Lemma lookups_perm_of_same a b : same_lookups a b -> lookups_perm a b.
Proof. intros H k. rewrite (H k). apply lookups_perm_refl. Qed.

Lemma erel_lookup d d' : Forall2 (erel vperm) d d' -> lookups_perm d d'.
Proof.
  induction 1 as [|[k x] [k' y] d d' [Hk Hxy] HF IH]; intros q; simpl; [exact I|]. simpl in Hk, Hxy. subst k'.
  destruct (str_eqb q k); [exact Hxy | apply IH].
Qed.
(* an object and a reordering of it have the same lookups -- this is where unique keys are needed *)
Lemma vperm_lookup d d' : vperm (VDict d) (VDict d') -> NoDup (keys d) -> lookups_perm d d'.
Proof.
  intros H Hnd q. destruct (vperm_dict_inv _ _ H) as (d1 & d2 & Heq & HF & HP). inv Heq.
  rewrite <- (lookup_perm d1 d2 HP); [apply erel_lookup; exact HF|]. rewrite <- (erel_keys _ _ _ HF). exact Hnd.
Qed.
Lemma vperm_dict_length d d' : vperm (VDict d) (VDict d') -> length d = length d'.
Proof.
  intros H. destruct (vperm_dict_inv _ _ H) as (d1 & d2 & Heq & HF & HP). inv Heq.
  rewrite (F2_length _ _ _ HF). apply Permutation_length. exact HP.
Qed.

(* ------------------------------------------------------------------------------------------------------------------ *)
(* the observers of the resolver do not see the order                                                                 *)
(* ------------------------------------------------------------------------------------------------------------------ *)
Lemma vperm_is_novalue a b : vperm a b -> is_novalue a = is_novalue b.
Proof. destruct 1; reflexivity. Qed.
Lemma vperm_ext_bool a b : vperm a b -> ext_bool a = ext_bool b.
Proof. destruct 1; reflexivity. Qed.
(* a function object has exactly one entry: it has only one order *)
Lemma vperm_single k x w : vperm (VDict [(k, x)]) w -> exists y, w = VDict [(k, y)] /\ vperm x y.
Proof.
  intros H. destruct (vperm_dict_inv _ _ H) as (d1 & d2 & -> & HF & HP).
  inversion HF as [|a b l l' Hab HF' Ea Eb]; subst. inversion HF'; subst.
  destruct b as [k' y]. destruct Hab as [Hk Hxy]. simpl in Hk, Hxy. subst k'.
  apply Permutation_length_1_inv in HP. subst d2. eauto.
Qed.
Lemma vperm_is_fn_dict d d' : vperm (VDict d) (VDict d') -> is_fn_dict d = is_fn_dict d'.
Proof.
  intros H. pose proof (vperm_dict_length _ _ H) as Hl.
  destruct d as [|[k x] [|kv2 rest]].
  - destruct d'; [reflexivity | discriminate].
  - destruct (vperm_single _ _ _ H) as (y & Heq & _). inv Heq. reflexivity.
  - destruct d' as [|[k' y] [|kv2' rest']]; try discriminate. reflexivity.
Qed.

Lemma vperm_has_numeric_n : forall n a b, (vsize a < n)%nat -> vperm a b -> has_numeric a = has_numeric b.
Proof.
  induction n as [|n IH]; intros a b Hs H; [lia|].
  destruct H as [ | | | | | | l l' HF | d d' d'' HF HP]; try reflexivity.
  - simpl. apply existsb_F2. revert HF. apply F2_impl_in. intros x y Hx _ Hxy. apply IH; [|exact Hxy].
    pose proof (vsize_in_list x l Hx). lia.
  - simpl. rewrite <- (existsb_perm _ _ _ HP). apply existsb_F2. revert HF. apply F2_impl_in.
    intros [k x] [k' y] Hx _ [_ Hxy]. simpl in Hxy |- *. apply IH; [|exact Hxy]. pose proof (vsize_in_dict k x d Hx). lia.
Qed.
Lemma vperm_has_numeric a b : vperm a b -> has_numeric a = has_numeric b.
Proof. apply (vperm_has_numeric_n (S (vsize a))). lia. Qed.

(* ---- Python == ([veqb]: object comparison by lookups) gives the same answer on the whole class ---- *)
Definition veqb_l : list value -> list value -> bool :=
  fix go (la lb : list value) : bool :=
    match la, lb with
    | [], [] => true
    | x :: xs, y :: ys => veqb x y && go xs ys
    | _, _ => false
    end.
Definition veqb_d (db : list (str * value)) : list (str * value) -> bool :=
  fix go (da : list (str * value)) : bool :=
    match da with
    | [] => true
    | (k, x) :: xs => match lookup k db with Some y => veqb x y | None => false end && go xs
    end.
Lemma veqb_list la lb : veqb (VList la) (VList lb) = veqb_l la lb.
Proof. reflexivity. Qed.
Lemma veqb_dict da db : veqb (VDict da) (VDict db) = Nat.eqb (length da) (length db) && veqb_d db da.
Proof. reflexivity. Qed.
Lemma veqb_d_forallb db da :
  veqb_d db da = forallb (fun kx => match lookup (fst kx) db with Some y => veqb (snd kx) y | None => false end) da.
Proof. induction da as [|[k x] da IH]; simpl; [reflexivity|]. rewrite IH. reflexivity. Qed.

Lemma veqb_vperm_n : forall n a, (vsize a < n)%nat -> forall a' b b',
  vperm a a' -> vperm b b' -> nodup_keys b -> veqb a b = veqb a' b'.
Proof.
  induction n as [|n IH]; intros a Hs a' b b' Ha Hb Hnb; [lia|].
  destruct Ha as [ | | | | | | la la' HFa | da da1 da' HFa HPa];
    try (destruct Hb; reflexivity).
  - (* lists *)
    destruct Hb as [ | | | | | | lb lb' HFb | db db1 db' HFb HPb]; try reflexivity.
    rewrite !veqb_list. apply nodup_list_iff in Hnb.
    assert (Hel : forall x x', In x la -> vperm x x' -> forall y y', vperm y y' -> nodup_keys y -> veqb x y = veqb x' y').
    { intros x x' Hx Hxx y y' Hyy Hny. apply IH; try assumption. pose proof (vsize_in_list x la Hx). lia. }
    clear IH Hs. revert lb lb' HFb Hnb. induction HFa as [|x x' la la' Hxx HFa IHl]; intros lb lb' HFb Hnb.
    + inv HFb; reflexivity.
    + inv HFb; [reflexivity|]. inv Hnb. simpl.
      rewrite (Hel x x' (or_introl eq_refl) Hxx x0 y H H3). f_equal.
      apply IHl; try assumption. intros x1 x1' Hx1. apply Hel. right. exact Hx1.
  - (* objects *)
    destruct Hb as [ | | | | | | lb lb' HFb | db db1 db' HFb HPb]; try reflexivity.
    pose proof (vp_dict _ _ _ HFb HPb) as Hb.
    rewrite !veqb_dict, !veqb_d_forallb.
    rewrite (vperm_dict_length _ _ Hb). rewrite (F2_length _ _ _ HFa), (Permutation_length HPa). f_equal.
    rewrite <- (forallb_perm _ _ _ HPa). apply forallb_F2. revert HFa. apply F2_impl_in.
    intros [k x] [k' x'] Hx _ [Hk Hxx]. simpl in Hk, Hxx |- *. subst k'.
    pose proof (vperm_lookup _ _ Hb (nodup_dict_keys _ Hnb) k) as Hl.
    destruct (lookup k db) as [y|] eqn:Ey, (lookup k db') as [y'|]; simpl in Hl; try contradiction; [|reflexivity].
    apply IH; [pose proof (vsize_in_dict k x da Hx); lia | exact Hxx | exact Hl | exact (nodup_lookup _ _ _ Hnb Ey)].
Qed.
Lemma veqb_vperm a a' b b' : vperm a a' -> vperm b b' -> nodup_keys b -> veqb a b = veqb a' b'.
Proof. apply (veqb_vperm_n (S (vsize a))). lia. Qed.

Lemma py_eq_vperm a a' b b' : vperm a a' -> vperm b b' -> nodup_keys b -> py_eq a b = py_eq a' b'.
Proof.
  intros Ha Hb Hnb.
  pose proof (vperm_has_numeric _ _ Ha) as Hn1. pose proof (vperm_has_numeric _ _ Hb) as Hn2.
  pose proof (veqb_vperm _ _ _ _ Ha Hb Hnb) as Hv.
  destruct Ha; destruct Hb; unfold py_eq; rewrite ?Hn1, ?Hn2, ?Hv; reflexivity.
Qed.

(* ------------------------------------------------------------------------------------------------------------------ *)
(* the inner loops of [resolve] and [normalize], for an arbitrary member function                                     *)
(* ------------------------------------------------------------------------------------------------------------------ *)
Definition mlist (f : value -> res value) : list value -> res (list value) :=
  fix go (l : list value) : res (list value) :=
    match l with
    | [] => Ok []
    | x :: xs => x' <- f x ;; xs' <- go xs ;; Ok (if is_novalue x' then xs' else x' :: xs')
    end.
Definition mdict (f : value -> res value) : list (str * value) -> res (list (str * value)) :=
  fix go (d : list (str * value)) : res (list (str * value)) :=
    match d with
    | [] => Ok []
    | (k, x) :: xs => x' <- f x ;; xs' <- go xs ;; Ok (if is_novalue x' then xs' else (k, x') :: xs')
    end.
Definition mall (f : value -> res value) : list value -> res bool :=
  fix all_go (l : list value) : res bool :=
    match l with
    | [] => Ok true
    | x :: xs => r <- f x ;; b <- ext_bool r ;; if b then all_go xs else Ok false
    end.
Definition many (f : value -> res value) : list value -> res bool :=
  fix any_go (l : list value) : res bool :=
    match l with
    | [] => Ok false
    | x :: xs => r <- f x ;; b <- ext_bool r ;; if b then Ok true else any_go xs
    end.
Lemma rlist_mlist e l : rlist e l = mlist (resolve e) l.
Proof. reflexivity. Qed.
Lemma rdict_mdict e d : rdict e d = mdict (resolve e) d.
Proof. reflexivity. Qed.
Lemma rall_mall e l : rall e l = mall (resolve e) l.
Proof. reflexivity. Qed.
Lemma rany_many e l : rany e l = many (resolve e) l.
Proof. reflexivity. Qed.
Lemma normalize_list ps l : normalize ps (VList l) = (l' <- mlist (normalize ps) l ;; Ok (VList l')).
Proof. reflexivity. Qed.
Lemma normalize_dict ps d : normalize ps (VDict d) =
  if is_fn_dict d then Err EUndefined else (d' <- mdict (normalize ps) d ;; Ok (VDict d')).
Proof. reflexivity. Qed.

Section Loops.
Variables f g : value -> res value.

Lemma mlist_rel l l' : Forall2 (fun x y => rel_res vperm (f x) (g y)) l l' ->
  rel_res (Forall2 vperm) (mlist f l) (mlist g l').
Proof.
  induction 1 as [|x y l l' Hxy HF IH]; simpl; [constructor|].
  destruct (f x) as [a|], (g y) as [b|]; simpl in Hxy |- *; try contradiction; [|exact I].
  destruct (mlist f l) as [r|], (mlist g l') as [r'|]; simpl in IH |- *; try contradiction; [|exact I].
  rewrite <- (vperm_is_novalue a b Hxy). destruct (is_novalue a); [exact IH | constructor; assumption].
Qed.
Lemma mdict_rel d d' : Forall2 (fun a b => fst a = fst b /\ rel_res vperm (f (snd a)) (g (snd b))) d d' ->
  rel_res (Forall2 (erel vperm)) (mdict f d) (mdict g d').
Proof.
  induction 1 as [|[k x] [k' y] d d' [Hk Hxy] HF IH]; simpl; [constructor|]. simpl in Hk, Hxy. subst k'.
  destruct (f x) as [a|], (g y) as [b|]; simpl in Hxy |- *; try contradiction; [|exact I].
  destruct (mdict f d) as [r|], (mdict g d') as [r'|]; simpl in IH |- *; try contradiction; [|exact I].
  rewrite <- (vperm_is_novalue a b Hxy). destruct (is_novalue a); [exact IH | constructor; [split; [reflexivity | exact Hxy] | exact IH]].
Qed.
Lemma mall_rel l l' : Forall2 (fun x y => rel_res vperm (f x) (g y)) l l' -> rel_res eq (mall f l) (mall g l').
Proof.
  induction 1 as [|x y l l' Hxy HF IH]; simpl; [reflexivity|].
  destruct (f x) as [a|], (g y) as [b|]; simpl in Hxy |- *; try contradiction; [|exact I].
  rewrite <- (vperm_ext_bool a b Hxy). destruct (ext_bool a) as [[|]|]; simpl; [exact IH | reflexivity | exact I].
Qed.
Lemma many_rel l l' : Forall2 (fun x y => rel_res vperm (f x) (g y)) l l' -> rel_res eq (many f l) (many g l').
Proof.
  induction 1 as [|x y l l' Hxy HF IH]; simpl; [reflexivity|].
  destruct (f x) as [a|], (g y) as [b|]; simpl in Hxy |- *; try contradiction; [|exact I].
  rewrite <- (vperm_ext_bool a b Hxy). destruct (ext_bool a) as [[|]|]; simpl; [reflexivity | exact IH | exact I].
Qed.

(* reordering the entries of an object: every member is resolved either way, the same members are dropped, so either some
   member fails (in both orders -- but which failing member is met FIRST depends on the order: the error kind may differ)
   or the results are the same entries, reordered *)
Lemma mdict_perm d d' : Permutation d d' -> rel_res (@Permutation _) (mdict g d) (mdict g d').
Proof.
  induction 1 as [|[k x] d d' HP IH|[k1 x1] [k2 x2] d|d d' d'' HP1 IH1 HP2 IH2].
  - simpl. constructor.
  - simpl. destruct (g x) as [a|]; simpl; [|exact I].
    destruct (mdict g d) as [r|], (mdict g d') as [r'|]; simpl in IH |- *; try contradiction; [|exact I].
    destruct (is_novalue a); [exact IH | constructor; exact IH].
  - simpl. destruct (g x1) as [a1|], (g x2) as [a2|]; simpl; try exact I.
    destruct (mdict g d) as [r|]; simpl; [|exact I].
    destruct (is_novalue a1), (is_novalue a2); try apply Permutation_refl. apply perm_swap.
  - destruct (mdict g d) as [r|], (mdict g d') as [r'|], (mdict g d'') as [r''|]; simpl in *; try contradiction; try exact I.
    eapply Permutation_trans; eassumption.
Qed.

(* the generic object case, both steps together *)
Lemma dict_generic_rel d d1 d2 :
  Forall2 (fun a b => fst a = fst b /\ rel_res vperm (f (snd a)) (g (snd b))) d d1 -> Permutation d1 d2 ->
  rel_res vperm (x <- mdict f d ;; Ok (VDict x)) (x <- mdict g d2 ;; Ok (VDict x)).
Proof.
  intros HF HP. pose proof (mdict_rel _ _ HF) as H1. pose proof (mdict_perm _ _ HP) as H2.
  destruct (mdict f d) as [r|], (mdict g d1) as [r1|], (mdict g d2) as [r2|]; simpl in *; try contradiction; try exact I.
  exact (vp_dict' _ _ _ H1 H2).
Qed.
End Loops.

(* what the loops keep: a sub-sequence of the keys, and only results of the member function *)
Lemma mdict_keys_incl f d d' : mdict f d = Ok d' -> forall k, In k (keys d') -> In k (keys d).
Proof.
  revert d'. induction d as [|[k0 x] d IH]; intros d' H k Hk; simpl in H.
  - inv H. exact Hk.
  - bind_inv. inv H. destruct (is_novalue a).
    + right. eapply IH; [reflexivity | exact Hk].
    + destruct Hk as [<-|Hk]; [left; reflexivity | right; eapply IH; [reflexivity | exact Hk]].
Qed.
Lemma mdict_keys_nodup f d d' : mdict f d = Ok d' -> NoDup (keys d) -> NoDup (keys d').
Proof.
  revert d'. induction d as [|[k0 x] d IH]; intros d' H Hnd; simpl in H.
  - inv H. constructor.
  - bind_inv. inv H. inv Hnd. destruct (is_novalue a); [apply IH; [reflexivity | assumption]|].
    simpl. constructor; [|apply IH; [reflexivity | assumption]].
    intros Hin. apply H1. eapply mdict_keys_incl; [exact E0 | exact Hin].
Qed.
Lemma mdict_Forall (P Q : value -> Prop) f d d' :
  Forall (fun kv => P (snd kv) -> forall r, f (snd kv) = Ok r -> Q r) d -> Forall (fun kv => P (snd kv)) d ->
  mdict f d = Ok d' -> Forall (fun kv => Q (snd kv)) d'.
Proof.
  intros HF. revert d'. induction HF as [|[k x] d Hx HF IH]; intros d' HP H; simpl in H.
  - inv H. constructor.
  - bind_inv. inv H. inv HP. simpl in Hx. destruct (is_novalue a); [apply IH; [assumption | reflexivity]|].
    constructor; [simpl; eapply Hx; eauto | apply IH; [assumption | reflexivity]].
Qed.
Lemma mlist_Forall (P Q : value -> Prop) f l l' :
  Forall (fun x => P x -> forall r, f x = Ok r -> Q r) l -> Forall P l -> mlist f l = Ok l' -> Forall Q l'.
Proof.
  intros HF. revert l'. induction HF as [|x l Hx HF IH]; intros l' HP H; simpl in H.
  - inv H. constructor.
  - bind_inv. inv H. inv HP. destruct (is_novalue a); [apply IH; [assumption | reflexivity]|].
    constructor; [eapply Hx; eauto | apply IH; [assumption | reflexivity]].
Qed.

(* ------------------------------------------------------------------------------------------------------------------ *)
(* environments                                                                                                       *)
(* ------------------------------------------------------------------------------------------------------------------ *)
(* two environments are interchangeable when every parameter / mapping lookup gives [vperm]-related values (so the
   sections may be reordered AND the objects inside parameter values and mappings may have their keys reordered) and every
   condition reference has the same value (or fails in both) *)
Definition eperm (e e' : env) : Prop :=
  lookups_perm (params e) (params e') /\ lookups_perm (mappings e) (mappings e') /\
  (forall n, rel_res eq (conds e n) (conds e' n)).
(* parameter values and mappings have no duplicate keys *)
Definition env_nodup (e : env) : Prop :=
  (forall k x, lookup k (params e) = Some x -> nodup_keys x) /\
  (forall k x, lookup k (mappings e) = Some x -> nodup_keys x).
Lemma eperm_refl e : eperm e e.
Proof. repeat split; try apply lookups_perm_refl. intros n. apply rel_res_eq_refl. Qed.
Lemma eperm_of_env_eq e e' : env_eq e e' -> eperm e e'.
Proof. intros (Hp & Hm & Hc). repeat split; try (apply lookups_perm_of_same; assumption). intros n. apply rel_res_of_eq. apply Hc. Qed.

Lemma render_str_perm ps ps' s : lookups_perm ps ps' -> render_str ps s = render_str ps' s.
Proof.
  intros H. unfold render_str. destruct (ssm_key s) as [key|]; [|reflexivity].
  specialize (H key). destruct (lookup key ps) as [x|], (lookup key ps') as [x'|]; simpl in H; try contradiction; [|reflexivity].
  destruct H; reflexivity.
Qed.

(* the rendering of a parameter value (what Ref and Fn::Sub insert) *)
Lemma normalize_vperm_n ps ps' : lookups_perm ps ps' -> forall n x, (vsize x < n)%nat -> forall x', vperm x x' ->
  rel_res vperm (normalize ps x) (normalize ps' x').
Proof.
  intros Hps. induction n as [|n IH]; intros x Hs x' H; [lia|].
  destruct H as [ | | | s | | | l l' HF | d d1 d2 HF HP]; try (simpl; solve [constructor]).
  - simpl. rewrite (render_str_perm ps ps' s Hps). constructor.
  - rewrite !normalize_list. eapply rel_bind.
    + apply mlist_rel. revert HF. apply F2_impl_in. intros a b Ha _ Hab.
      apply IH; [pose proof (vsize_in_list a l Ha); lia | exact Hab].
    + intros a b _ _ Hab. simpl. constructor. exact Hab.
  - rewrite !normalize_dict. rewrite <- (vperm_is_fn_dict d d2 (vp_dict _ _ _ HF HP)).
    destruct (is_fn_dict d); [exact I|].
    apply dict_generic_rel with (d1 := d1); [|exact HP]. revert HF. apply F2_impl_in.
    intros [k a] [k' b] Ha _ [Hk Hab]. simpl in Hk, Hab |- *. split; [exact Hk|].
    apply IH; [pose proof (vsize_in_dict k a d Ha); lia | exact Hab].
Qed.
Lemma normalize_vperm ps ps' x x' : lookups_perm ps ps' -> vperm x x' -> rel_res vperm (normalize ps x) (normalize ps' x').
Proof. intros Hps H. apply (normalize_vperm_n ps ps' Hps (S (vsize x))); [lia | exact H]. Qed.

(* ---- the value functions, on related (already resolved) arguments ---- *)
Lemma do_ref_vperm e e' b b' : eperm e e' -> vperm b b' -> rel_res vperm (do_ref e b) (do_ref e' b').
Proof.
  intros (Hp & _ & _) H. destruct H as [ | | | s | | | | ]; try exact I. unfold do_ref.
  pose proof (Hp s) as Hl. destruct (lookup s (params e)) as [x|], (lookup s (params e')) as [x'|]; simpl in Hl; try contradiction.
  - apply normalize_vperm; assumption.
  - simpl. constructor.
Qed.

Lemma as_strs_vperm l l' : Forall2 vperm l l' -> rel_res eq (as_strs l) (as_strs l').
Proof.
  induction 1 as [|x y l l' Hxy HF IH]; [reflexivity|].
  destruct Hxy; try exact I. simpl.
  destruct (as_strs l), (as_strs l'); simpl in IH |- *; try contradiction; [congruence | exact I].
Qed.
Lemma do_join_vperm d d' l l' : vperm d d' -> vperm l l' -> rel_res vperm (do_join d l) (do_join d' l').
Proof.
  intros Hd Hl. destruct Hd as [ | | | s | | | | ]; try exact I.
  destruct Hl as [ | | | | | | ls ls' HF | ]; try exact I. unfold do_join.
  pose proof (as_strs_vperm _ _ HF) as Hs.
  destruct (as_strs ls), (as_strs ls'); simpl in Hs |- *; try contradiction; [subst; constructor | exact I].
Qed.
Lemma do_split_vperm d d' s s' : vperm d d' -> vperm s s' -> rel_res vperm (do_split d s) (do_split d' s').
Proof. intros Hd Hs. destruct Hd; try exact I; destruct Hs; try exact I; apply rel_res_vperm_refl. Qed.
Lemma do_select_vperm i i' l l' : vperm i i' -> vperm l l' -> rel_res vperm (do_select i l) (do_select i' l').
Proof.
  intros Hi Hl. destruct Hi as [ | | | s | | | | ]; try exact I.
  destruct Hl as [ | | | | | | ls ls' HF | ]; try exact I. unfold do_select.
  destruct (parse_int s) as [z|]; [|exact I]. rewrite <- (F2_length _ _ _ HF).
  destruct ((z <? 0)%Z || (Z.of_nat (length ls) <=? z)%Z); [apply vperm_refl|].
  pose proof (F2_nth _ _ _ HF (Z.to_nat z)) as Hn.
  destruct (nth_error ls (Z.to_nat z)), (nth_error ls' (Z.to_nat z)); try contradiction; [exact Hn | apply vperm_refl].
Qed.
Lemma do_base64_vperm b b' : vperm b b' -> rel_res vperm (do_base64 b) (do_base64 b').
Proof. intros H. destruct H; try exact I. simpl. constructor. Qed.

(* ---- Fn::FindInMap: the two keys are read through [lookup_bk] (Resolve.v, repair of F31).
   The exact lookup is order-blind as soon as keys are unique.  The case-blind fallback (key text "true" / "false" absent as
   written: the FIRST entry, in dictionary order, whose key lower-cases to it) is NOT: with {"True": a, "TRUE": b} the key
   "true" finds a, with {"TRUE": b, "True": a} it finds b (example [C07_ex_boolean_spellings_excluded] in Properties/C07.v;
   the library's `_mapping_get` does the same).  So every theorem below that reaches Fn::FindInMap has ONE more hypothesis
   than before the repair, the minimal one: in each level of each mapping (the top-level keys, and the second-level keys
   under each of them) no two keys are spellings of the same boolean ([maps_bk_unique]).  Nothing is asked of parameter
   values, of the expression, or of the leaves of the mappings. ---- *)
Definition bool_keys (d : list (str * value)) : list str := map lower (filter is_boolish (keys d)).
Definition bk_uniqueb (d : list (str * value)) : bool := nodupb (bool_keys d).
Definition map_bk_uniqueb (v : value) : bool :=
  match v with
  | VDict top => bk_uniqueb top && forallb (fun kv => match snd kv with VDict sec => bk_uniqueb sec | _ => true end) top
  | _ => true
  end.
Definition maps_bk_unique (maps : list (str * value)) : Prop := forall m x, lookup m maps = Some x -> map_bk_uniqueb x = true.

(* computable sufficient test (used by the examples) *)
Lemma maps_bk_unique_forallb maps : forallb (fun kv => map_bk_uniqueb (snd kv)) maps = true -> maps_bk_unique maps.
Proof.
  intros H m x Hl. rewrite forallb_forall in H. exact (H (m, x) (lookup_In _ _ _ Hl)).
Qed.
Lemma is_boolish_lower s : is_boolish s = is_bool_text (lower s).
Proof. reflexivity. Qed.
Lemma filter_perm {A} (f : A -> bool) l l' : Permutation l l' -> Permutation (filter f l) (filter f l').
Proof.
  induction 1 as [|x l l' HP IH|x y l|l l' l'' HP1 IH1 HP2 IH2]; simpl.
  - constructor.
  - destruct (f x); [constructor; exact IH | exact IH].
  - destruct (f x), (f y); try apply Permutation_refl. apply perm_swap.
  - eapply Permutation_trans; eassumption.
Qed.
Lemma bool_keys_perm d d' : Permutation d d' -> Permutation (bool_keys d) (bool_keys d').
Proof. intros HP. unfold bool_keys. apply Permutation_map. apply filter_perm. apply perm_keys. exact HP. Qed.
Lemma bool_keys_cons k x d : bool_keys ((k, x) :: d) = if is_boolish k then lower k :: bool_keys d else bool_keys d.
Proof. unfold bool_keys. simpl. destruct (is_boolish k); reflexivity. Qed.
Lemma bool_keys_tail k x d : NoDup (bool_keys ((k, x) :: d)) -> NoDup (bool_keys d).
Proof. rewrite bool_keys_cons. destruct (is_boolish k); [intros H; inv H; assumption | auto]. Qed.

Lemma lookup_ci_erel k d d' : Forall2 (erel vperm) d d' -> orel vperm (lookup_ci k d) (lookup_ci k d').
Proof.
  induction 1 as [|[k0 x] [k0' y] d d' [Hk Hxy] HF IH]; simpl; [exact I|]. simpl in Hk, Hxy. subst k0'.
  destruct (str_eqb (lower k0) k); [exact Hxy | exact IH].
Qed.
(* the first spelling found does not depend on the order when there is at most one spelling *)
Lemma lookup_ci_perm k (d d' : list (str * value)) : Permutation d d' -> is_bool_text k = true -> NoDup (bool_keys d) ->
  lookup_ci k d = lookup_ci k d'.
Proof.
  intros HP Hk. induction HP as [|[k0 x] d d' HP IH|[k1 x1] [k2 x2] d|d d' d'' HP1 IH1 HP2 IH2]; intros Hnd.
  - reflexivity.
  - simpl. rewrite (IH (bool_keys_tail _ _ _ Hnd)). reflexivity.
  - simpl. destruct (str_eqb (lower k1) k) eqn:E1, (str_eqb (lower k2) k) eqn:E2; try reflexivity.
    apply str_eqb_spec in E1, E2. exfalso. rewrite !bool_keys_cons, !is_boolish_lower, E1, E2, Hk in Hnd.
    inv Hnd. apply H1. left. reflexivity.
  - rewrite (IH1 Hnd). apply IH2. eapply Permutation_NoDup; [apply bool_keys_perm; exact HP1 | exact Hnd].
Qed.
Definition lookups_bk_perm (a b : list (str * value)) : Prop := forall k, orel vperm (lookup_bk k a) (lookup_bk k b).
Lemma vperm_lookup_bk d d' : vperm (VDict d) (VDict d') -> NoDup (keys d) -> bk_uniqueb d = true -> lookups_bk_perm d d'.
Proof.
  intros H Hnd Hbk q. destruct (vperm_dict_inv _ _ H) as (d1 & d2 & Heq & HF & HP). inv Heq.
  apply nodupb_spec in Hbk.
  assert (Hnd1 : NoDup (keys d1)) by (rewrite <- (erel_keys _ _ _ HF); exact Hnd).
  assert (Hbk1 : NoDup (bool_keys d1)) by (unfold bool_keys; rewrite <- (erel_keys _ _ _ HF); exact Hbk).
  assert (E : lookup_bk q d2 = lookup_bk q d1).
  { unfold lookup_bk. rewrite <- (lookup_perm d1 d2 HP Hnd1 q). destruct (lookup q d1); [reflexivity|].
    destruct (is_bool_text q) eqn:B; [|reflexivity]. symmetry. apply lookup_ci_perm; assumption. }
  rewrite E. unfold lookup_bk. pose proof (erel_lookup _ _ HF q) as Hl.
  destruct (lookup q d) as [x|], (lookup q d1) as [x1|]; simpl in Hl; try contradiction; [exact Hl|].
  destruct (is_bool_text q); [apply lookup_ci_erel; exact HF | exact I].
Qed.
Lemma nodup_lookup_bk d k x : nodup_keys (VDict d) -> lookup_bk k d = Some x -> nodup_keys x.
Proof. intros H Hl. destruct (lookup_bk_In k d x Hl) as (k' & Hin & _). eapply nodup_in_dict; [exact H | exact Hin]. Qed.
Lemma bk_unique_lookup_bk top k sec : map_bk_uniqueb (VDict top) = true -> lookup_bk k top = Some (VDict sec) ->
  bk_uniqueb sec = true.
Proof.
  intros H Hl. destruct (lookup_bk_In k top _ Hl) as (k' & Hin & _). simpl in H. apply andb_true_iff in H. destruct H as [_ H].
  rewrite forallb_forall in H. exact (H _ Hin).
Qed.

Lemma do_find_in_map_vperm e e' m m' k1 k1' k2 k2' : eperm e e' -> env_nodup e -> maps_bk_unique (mappings e) ->
  vperm m m' -> vperm k1 k1' -> vperm k2 k2' ->
  rel_res vperm (do_find_in_map e m k1 k2) (do_find_in_map e' m' k1' k2').
Proof.
  intros (_ & Hm & _) (_ & Hnm) Hbm H1 H2 H3.
  destruct H1 as [ | | | ms | | | | ]; try exact I.
  destruct H2 as [ | | | s1 | | | | ]; try exact I.
  destruct H3 as [ | | | s2 | | | | ]; try exact I.
  unfold do_find_in_map.
  pose proof (Hm ms) as Hl. pose proof (Hnm ms) as Hn. pose proof (Hbm ms) as Hb.
  destruct (lookup ms (mappings e)) as [x|], (lookup ms (mappings e')) as [x'|]; simpl in Hl; try contradiction;
    [|simpl; constructor].
  specialize (Hn x eq_refl). specialize (Hb x eq_refl).
  destruct Hl as [ | | | | | | | top top1 top' HF HP]; try exact I.
  pose proof Hb as Hb0. simpl in Hb0. apply andb_true_iff in Hb0. destruct Hb0 as [Hbt _].
  pose proof (vperm_lookup_bk _ _ (vp_dict _ _ _ HF HP) (nodup_dict_keys _ Hn) Hbt s1) as Hl1.
  pose proof (nodup_lookup_bk top s1) as Hn1. pose proof (bk_unique_lookup_bk top s1) as Hb1.
  destruct (lookup_bk s1 top) as [y|], (lookup_bk s1 top') as [y'|]; simpl in Hl1; try contradiction; [|simpl; constructor].
  specialize (Hn1 y Hn eq_refl).
  destruct Hl1 as [ | | | | | | | sec sec1 sec' HF2 HP2]; try exact I.
  specialize (Hb1 sec Hb eq_refl).
  pose proof (vperm_lookup_bk _ _ (vp_dict _ _ _ HF2 HP2) (nodup_dict_keys _ Hn1) Hb1 s2) as Hl2.
  destruct (lookup_bk s2 sec) as [z|], (lookup_bk s2 sec') as [z'|]; simpl in Hl2; try contradiction; [|simpl; constructor].
  pose proof Hl2 as Hz. destruct Hl2; simpl; try exact Hz. constructor.
Qed.

(* ---- Fn::Sub: the variable map is read through lookups only ---- *)
Lemma norm_str_rel ps ps' x x' : lookups_perm ps ps' -> vperm x x' ->
  rel_res eq (x1 <- normalize ps x ;; match x1 with VStr s => Ok s | _ => Err EUndefined end)
             (x1 <- normalize ps' x' ;; match x1 with VStr s => Ok s | _ => Err EUndefined end).
Proof.
  intros Hp H. eapply rel_bind; [apply normalize_vperm; eassumption|].
  intros a b _ _ Hab. destruct Hab; simpl; auto.
Qed.
Lemma render_var_vperm e e' custom custom' name : eperm e e' -> lookups_perm custom custom' ->
  rel_res eq (render_var e custom name) (render_var e' custom' name).
Proof.
  intros (Hp & _ & _) Hc. unfold render_var.
  pose proof (Hc name) as Hl. destruct (lookup name custom) as [x|], (lookup name custom') as [x'|]; simpl in Hl; try contradiction.
  - apply norm_str_rel; assumption.
  - pose proof (Hp name) as Hl2.
    destruct (lookup name (params e)) as [x|], (lookup name (params e')) as [x'|]; simpl in Hl2; try contradiction.
    + apply norm_str_rel; assumption.
    + reflexivity.
Qed.
Lemma render_toks_vperm e e' custom custom' ts : eperm e e' -> lookups_perm custom custom' ->
  rel_res eq (render_toks e custom ts) (render_toks e' custom' ts).
Proof.
  intros He Hc. induction ts as [|t ts IH]; [reflexivity|]. simpl.
  eapply rel_bind with (R := eq).
  - destruct t; simpl; try reflexivity. apply render_var_vperm; assumption.
  - intros a b _ _ ->. eapply rel_bind; [exact IH|]. intros a0 b0 _ _ ->. reflexivity.
Qed.
Lemma do_sub_vperm e e' text custom custom' : eperm e e' -> lookups_perm custom custom' ->
  rel_res vperm (do_sub e text custom) (do_sub e' text custom').
Proof.
  intros He Hc. unfold do_sub. eapply rel_bind; [apply render_toks_vperm; assumption|].
  intros a b _ _ ->. simpl. constructor.
Qed.

(* ------------------------------------------------------------------------------------------------------------------ *)
(* resolution does not create duplicate keys                                                                          *)
(* ------------------------------------------------------------------------------------------------------------------ *)
Lemma nodup_single k b : nodup_keys (VDict [(k, b)]) -> nodup_keys b.
Proof. intros H. eapply nodup_in_dict; [exact H | left; reflexivity]. Qed.

Lemma normalize_nodup ps x : nodup_keys x -> forall r, normalize ps x = Ok r -> nodup_keys r.
Proof.
  induction x as [| | | | | | l IH | d IH] using value_ind'; intros Hn r H; try (simpl in H; inv H; reflexivity).
  - rewrite normalize_list in H. bind_inv. inv H. apply nodup_list_iff. apply nodup_list_iff in Hn.
    eapply (mlist_Forall nodup_keys nodup_keys); [exact IH | exact Hn | exact E].
  - rewrite normalize_dict in H. destruct (is_fn_dict d); [discriminate|]. bind_inv. inv H.
    apply nodup_dict_iff in Hn. destruct Hn as [Hk Hv]. apply nodup_dict_iff. split.
    + eapply mdict_keys_nodup; [exact E | exact Hk].
    + eapply (mdict_Forall nodup_keys nodup_keys); [exact IH | exact Hv | exact E].
Qed.
Lemma do_ref_nodup e b r : env_nodup e -> do_ref e b = Ok r -> nodup_keys r.
Proof.
  intros (Hnp & _) H. destruct b; try discriminate. unfold do_ref in H.
  destruct (lookup s (params e)) as [x|] eqn:El; [|inv H; reflexivity].
  eapply normalize_nodup; [exact (Hnp s x El) | exact H].
Qed.
Lemma do_join_nodup d l r : do_join d l = Ok r -> nodup_keys r.
Proof. destruct d; try discriminate. destruct l; try discriminate. unfold do_join. intros H. bind_inv. inv H. reflexivity. Qed.
Lemma do_split_nodup d s r : do_split d s = Ok r -> nodup_keys r.
Proof.
  destruct d as [| | | ds | | | |]; try discriminate. destruct s as [| | | ss | | | |]; try (destruct ds; discriminate).
  unfold do_split. intros H. assert (Hr : r = VList (map VStr (split ds ss))) by (destruct ds; [discriminate | inv H; reflexivity]).
  subst r. apply nodup_list_iff. apply Forall_forall. intros x Hx. apply in_map_iff in Hx. destruct Hx as (t & <- & _). reflexivity.
Qed.
Lemma do_select_nodup i l r : nodup_keys l -> do_select i l = Ok r -> nodup_keys r.
Proof.
  intros Hn. destruct i; try discriminate. destruct l as [| | | | | | ls |]; try discriminate. unfold do_select.
  destruct (parse_int s) as [z|]; [|discriminate].
  destruct ((z <? 0)%Z || (Z.of_nat (length ls) <=? z)%Z); [intros H; inv H; reflexivity|].
  destruct (nth_error ls (Z.to_nat z)) as [x|] eqn:En; intros H; inv H; [|reflexivity].
  eapply nodup_in_list; [exact Hn | eapply nth_error_In; exact En].
Qed.
Lemma do_find_in_map_nodup e m k1 k2 r : env_nodup e -> do_find_in_map e m k1 k2 = Ok r -> nodup_keys r.
Proof.
  intros (_ & Hnm). destruct m as [| | | ms | | | |]; try discriminate. destruct k1 as [| | | s1 | | | |]; try discriminate.
  destruct k2 as [| | | s2 | | | |]; try discriminate. unfold do_find_in_map.
  destruct (lookup ms (mappings e)) as [x|] eqn:E1; [|intros H; inv H; reflexivity].
  pose proof (Hnm ms x E1) as Hn. destruct x as [| | | | | | | top]; try discriminate.
  destruct (lookup_bk s1 top) as [y|] eqn:E2; [|intros H; inv H; reflexivity].
  pose proof (nodup_lookup_bk _ _ _ Hn E2) as Hn2. destruct y as [| | | | | | | sec]; try discriminate.
  destruct (lookup_bk s2 sec) as [z|] eqn:E3; [|intros H; inv H; reflexivity].
  pose proof (nodup_lookup_bk _ _ _ Hn2 E3) as Hn3. destruct z; intros H; inv H; try reflexivity; exact Hn3.
Qed.
Lemma do_sub_nodup e text custom r : do_sub e text custom = Ok r -> nodup_keys r.
Proof. unfold do_sub. intros H. bind_inv. inv H. reflexivity. Qed.
Lemma do_base64_nodup b r : do_base64 b = Ok r -> nodup_keys r.
Proof. destruct b; try discriminate. intros H. inv H. reflexivity. Qed.

Lemma eval_nodup e : env_nodup e ->
  (forall v r, Eval e v r -> nodup_keys v -> nodup_keys r) /\
  (forall l l', EvalList e l l' -> Forall nodup_keys l -> Forall nodup_keys l') /\
  (forall d d', EvalDict e d d' -> Forall (fun kv => nodup_keys (snd kv)) d ->
     Forall (fun kv => nodup_keys (snd kv)) d' /\ (forall k, In k (keys d') -> In k (keys d)) /\
     (NoDup (keys d) -> NoDup (keys d'))) /\
  (forall l b, EvalAll e l b -> True) /\
  (forall l b, EvalAny e l b -> True).
Proof.
  intros He. apply Eval_mutind.
  - intros; reflexivity.
  - intros; reflexivity.
  - intros; reflexivity.
  - intros; reflexivity.
  - intros; reflexivity.
  - intros; reflexivity.
  - (* list *) intros l l' HE IH Hn. apply nodup_list_iff. apply IH. apply nodup_list_iff. exact Hn.
  - (* object *) intros d d' Hf HE IH Hn. apply nodup_dict_iff in Hn. destruct Hn as [Hk Hv].
    destruct (IH Hv) as (H1 & _ & H3). apply nodup_dict_iff. split; [apply H3; exact Hk | exact H1].
  - (* Ref *) intros k body b r Hk HE IH Hr Hn. eapply do_ref_nodup; eassumption.
  - (* Join *) intros dl l d' l' r HE1 IH1 HE2 IH2 Hr Hn. eapply do_join_nodup; eassumption.
  - (* Split *) intros dl s d' s' r HE1 IH1 HE2 IH2 Hr Hn. eapply do_split_nodup; eassumption.
  - (* Select *) intros i l i' l' r HE1 IH1 HE2 IH2 Hr Hn. eapply do_select_nodup; [|exact Hr].
    apply IH2. eapply nodup_in_list; [exact (nodup_single _ _ Hn) | simpl; tauto].
  - (* FindInMap *) intros m k1 k2 m' k1' k2' r HE1 IH1 HE2 IH2 HE3 IH3 Hr Hn. eapply do_find_in_map_nodup; eassumption.
  - (* Sub *) intros text r Hr Hn. eapply do_sub_nodup; eassumption.
  - intros text vars custom r HE IH Hr Hn. eapply do_sub_nodup; eassumption.
  - (* Base64 *) intros body b r HE IH Hr Hn. eapply do_base64_nodup; eassumption.
  - intros; reflexivity.
  - intros; reflexivity.
  - intros; reflexivity.
  - (* If *) intros c t f r Hc HE IH Hn. apply IH. eapply nodup_in_list; [exact (nodup_single _ _ Hn) | simpl; tauto].
  - intros c t f r Hc HE IH Hn. apply IH. eapply nodup_in_list; [exact (nodup_single _ _ Hn) | simpl; tauto].
  - intros; reflexivity.
  - intros; reflexivity.
  - intros; reflexivity.
  - intros; reflexivity.
  - (* EvalList *) intros _. constructor.
  - intros x x' xs xs' HE IH Hnv HEs IHs Hn. inv Hn. constructor; [apply IH; assumption | apply IHs; assumption].
  - intros x x' xs xs' HE IH Hnv HEs IHs Hn. inv Hn. apply IHs; assumption.
  - (* EvalDict *) intros _. split; [constructor|]. split; [intros k Hk; exact Hk | intros H; exact H].
  - intros k x x' xs xs' HE IH Hnv HEs IHs Hn. inv Hn. simpl in H1. destruct (IHs H2) as (F1 & F2 & F3).
    split; [constructor; [simpl; apply IH; exact H1 | exact F1]|]. split.
    + intros q [<-|Hq]; [left; reflexivity | right; apply F2; exact Hq].
    + intros Hnd. inv Hnd. simpl. constructor; [intros Hin; apply H3; apply F2; exact Hin | apply F3; exact H4].
  - intros k x x' xs xs' HE IH Hnv HEs IHs Hn. inv Hn. destruct (IHs H2) as (F1 & F2 & F3).
    split; [exact F1|]. split.
    + intros q Hq. right. apply F2. exact Hq.
    + intros Hnd. inv Hnd. apply F3. assumption.
  - intros; exact I.
  - intros; exact I.
  - intros; exact I.
  - intros; exact I.
  - intros; exact I.
  - intros; exact I.
Qed.
Theorem resolve_nodup e v r : env_nodup e -> nodup_keys v -> resolve e v = Ok r -> nodup_keys r.
Proof. intros He Hn H. apply resolve_iff_eval in H. exact (proj1 (eval_nodup e He) v r H Hn). Qed.

(* ------------------------------------------------------------------------------------------------------------------ *)
(* the theorem                                                                                                        *)
(* ------------------------------------------------------------------------------------------------------------------ *)
Ltac f2inv :=
  repeat match goal with
  | H : Forall2 _ (_ :: _) _ |- _ => inv H
  | H : Forall2 _ [] _ |- _ => inv H
  end.

Theorem resolve_vperm_n e e' : eperm e e' -> env_nodup e -> maps_bk_unique (mappings e) ->
  forall n v w, (vsize v < n)%nat -> vperm v w -> nodup_keys v -> rel_res vperm (resolve e v) (resolve e' w).
Proof.
  intros He Hne Hbk. pose proof He as (Hp & Hm & Hc).
  induction n as [|n IH]; intros v w Hs Hvw Hnv; [lia|].
  destruct v as [| b | z | s | k t | bs | l | d].
  - inv Hvw. simpl. constructor.
  - inv Hvw. simpl. constructor.
  - inv Hvw. simpl. constructor.
  - inv Hvw. simpl. rewrite (render_str_perm _ _ s Hp). constructor.
  - inv Hvw. simpl. constructor.
  - inv Hvw. simpl. constructor.
  - destruct (vperm_list_inv _ _ Hvw) as (l' & -> & HF). rewrite !resolve_list, !rlist_mlist.
    eapply rel_bind.
    + apply mlist_rel. revert HF. apply F2_impl_in. intros x y Hx _ Hxy.
      apply IH; [pose proof (vsize_in_list x l Hx); lia | exact Hxy | exact (nodup_in_list l x Hnv Hx)].
    + intros a b _ _ Hab. simpl. constructor. exact Hab.
  - destruct (vperm_dict_inv _ _ Hvw) as (d1 & d2 & -> & HF & HP).
    assert (Hsub : forall k x y, In (k, x) d -> vperm x y -> rel_res vperm (resolve e x) (resolve e' y)).
    { intros k x y Hx Hxy.
      apply IH; [pose proof (vsize_in_dict k x d Hx); lia | exact Hxy | exact (nodup_in_dict d k x Hnv Hx)]. }
    assert (Hgen : is_fn_dict d = false -> rel_res vperm (resolve e (VDict d)) (resolve e' (VDict d2))).
    { intros Hf. rewrite !resolve_dict_generic; [| rewrite <- (vperm_is_fn_dict _ _ Hvw); exact Hf | exact Hf].
      rewrite !rdict_mdict. apply dict_generic_rel with (d1 := d1); [|exact HP]. revert HF. apply F2_impl_in.
      intros [k x] [k' y] Hx _ [Hk Hxy]. simpl in Hk, Hxy |- *. split; [exact Hk|]. eapply Hsub; eassumption. }
    destruct d as [|[k body] [|kv2 rest]]; [apply Hgen; reflexivity | | apply Hgen; reflexivity].
    destruct (vperm_single _ _ _ Hvw) as (body' & Heq & Hb). inv Heq. clear HF HP d1.
    pose proof (nodup_single _ _ Hnv) as Hnb.
    assert (Hbody : rel_res vperm (resolve e body) (resolve e' body')) by (eapply Hsub; [left; reflexivity | exact Hb]).
    assert (Hdeep : forall x y, (vsize x < vsize body)%nat -> vperm x y -> nodup_keys x ->
                                rel_res vperm (resolve e x) (resolve e' y)).
    { intros x y Hx Hxy Hnx. apply IH; [simpl in Hs; lia | exact Hxy | exact Hnx]. }
    key_case k K_Ref.
    { rewrite !resolve_ref. eapply rel_bind; [exact Hbody|]. intros a b _ _ Hab. apply do_ref_vperm; assumption. }
    key_case k K_ImportValue.
    { rewrite !resolve_import. eapply rel_bind; [exact Hbody|]. intros a b _ _ Hab. apply do_ref_vperm; assumption. }
    key_case k K_Join.
    { destruct body as [| | | | | | l |]; try (inv Hb; exact I).
      destruct (vperm_list_inv _ _ Hb) as (l' & -> & HFl).
      destruct l as [|a1 [|a2 [|a3 r3]]]; f2inv; try exact I.
      rewrite !resolve_join.
      eapply rel_bind; [apply Hdeep; [simpl; lia | assumption | eapply nodup_in_list; [exact Hnb | simpl; tauto]]|].
      intros r1 r1' _ _ Hr1.
      eapply rel_bind; [apply Hdeep; [simpl; lia | assumption | eapply nodup_in_list; [exact Hnb | simpl; tauto]]|].
      intros r2 r2' _ _ Hr2. apply do_join_vperm; assumption. }
    key_case k K_Split.
    { destruct body as [| | | | | | l |]; try (inv Hb; exact I).
      destruct (vperm_list_inv _ _ Hb) as (l' & -> & HFl).
      destruct l as [|a1 [|a2 [|a3 r3]]]; f2inv; try exact I.
      rewrite !resolve_split.
      eapply rel_bind; [apply Hdeep; [simpl; lia | assumption | eapply nodup_in_list; [exact Hnb | simpl; tauto]]|].
      intros r1 r1' _ _ Hr1.
      eapply rel_bind; [apply Hdeep; [simpl; lia | assumption | eapply nodup_in_list; [exact Hnb | simpl; tauto]]|].
      intros r2 r2' _ _ Hr2. apply do_split_vperm; assumption. }
    key_case k K_Select.
    { destruct body as [| | | | | | l |]; try (inv Hb; exact I).
      destruct (vperm_list_inv _ _ Hb) as (l' & -> & HFl).
      destruct l as [|a1 [|a2 [|a3 r3]]]; f2inv; try exact I.
      rewrite !resolve_select.
      eapply rel_bind; [apply Hdeep; [simpl; lia | assumption | eapply nodup_in_list; [exact Hnb | simpl; tauto]]|].
      intros r1 r1' _ _ Hr1.
      eapply rel_bind; [apply Hdeep; [simpl; lia | assumption | eapply nodup_in_list; [exact Hnb | simpl; tauto]]|].
      intros r2 r2' _ _ Hr2. apply do_select_vperm; assumption. }
    key_case k K_FindInMap.
    { destruct body as [| | | | | | l |]; try (inv Hb; exact I).
      destruct (vperm_list_inv _ _ Hb) as (l' & -> & HFl).
      destruct l as [|a1 [|a2 [|a3 [|a4 r4]]]]; f2inv; try exact I.
      rewrite !resolve_find_in_map.
      eapply rel_bind; [apply Hdeep; [simpl; lia | assumption | eapply nodup_in_list; [exact Hnb | simpl; tauto]]|].
      intros r1 r1' _ _ Hr1.
      eapply rel_bind; [apply Hdeep; [simpl; lia | assumption | eapply nodup_in_list; [exact Hnb | simpl; tauto]]|].
      intros r2 r2' _ _ Hr2.
      eapply rel_bind; [apply Hdeep; [simpl; lia | assumption | eapply nodup_in_list; [exact Hnb | simpl; tauto]]|].
      intros r3 r3' _ _ Hr3. apply do_find_in_map_vperm; assumption. }
    key_case k K_Sub.
    { destruct body as [| | | text | | | l |]; try (inv Hb; exact I).
      - inv Hb. rewrite !resolve_sub_text. apply do_sub_vperm; [exact He | apply lookups_perm_refl].
      - destruct (vperm_list_inv _ _ Hb) as (l' & -> & HFl).
        destruct l as [|t0 [|vars [|a3 r3]]]; f2inv; try exact I;
          match goal with H : vperm t0 _ |- _ => destruct H end; try exact I.
        match goal with H : vperm vars ?y |- _ => rename y into vars'; rename H into Hvars end.
        assert (Hnvars : nodup_keys vars) by (eapply nodup_in_list; [exact Hnb | simpl; tauto]).
        rewrite !resolve_sub_vars.
        eapply rel_bind; [apply Hdeep; [simpl; lia | exact Hvars | exact Hnvars]|].
        intros cv cv' Ecv _ Hcv.
        pose proof (resolve_nodup e vars cv Hne Hnvars Ecv) as Hncv. clear Ecv.
        destruct Hcv as [ | | | | | | | custom c1 custom' HFc HPc]; try exact I.
        apply do_sub_vperm; [exact He|].
        apply vperm_lookup; [exact (vp_dict _ _ _ HFc HPc) | apply nodup_dict_keys; exact Hncv]. }
    key_case k K_Base64.
    { rewrite !resolve_base64. eapply rel_bind; [exact Hbody|]. intros a b _ _ Hab. apply do_base64_vperm; assumption. }
    key_case k K_GetAtt. { rewrite !resolve_getatt. simpl. constructor. }
    key_case k K_GetAZs. { rewrite !resolve_getazs. simpl. constructor. }
    key_case k K_Condition.
    { destruct body as [| | | name | | | |]; try (inv Hb; exact I). inv Hb.
      rewrite !resolve_condition. eapply rel_bind; [apply Hc|]. intros a b _ _ ->. simpl. constructor. }
    key_case k K_If.
    { destruct body as [| | | | | | l |]; try (inv Hb; exact I).
      destruct (vperm_list_inv _ _ Hb) as (l' & -> & HFl).
      destruct l as [|c [|t [|f [|a4 r4]]]]; f2inv; try exact I;
        match goal with H : vperm c _ |- _ => destruct H end; try exact I.
      rewrite !resolve_if. eapply rel_bind; [apply Hc|]. intros b b' _ _ ->.
      destruct b'; (apply Hdeep; [simpl; lia | assumption | eapply nodup_in_list; [exact Hnb | simpl; tauto]]). }
    key_case k K_And.
    { destruct body as [| | | | | | parts |]; try (inv Hb; exact I).
      destruct (vperm_list_inv _ _ Hb) as (parts' & -> & HFl).
      rewrite !resolve_and, !rall_mall. eapply rel_bind with (R := eq).
      - apply mall_rel. revert HFl. apply F2_impl_in. intros x y Hx _ Hxy.
        apply Hdeep; [apply vsize_in_list; exact Hx | exact Hxy | exact (nodup_in_list _ _ Hnb Hx)].
      - intros a b _ _ ->. simpl. constructor. }
    key_case k K_Or.
    { destruct body as [| | | | | | parts |]; try (inv Hb; exact I).
      destruct (vperm_list_inv _ _ Hb) as (parts' & -> & HFl).
      rewrite !resolve_or, !rany_many. eapply rel_bind with (R := eq).
      - apply many_rel. revert HFl. apply F2_impl_in. intros x y Hx _ Hxy.
        apply Hdeep; [apply vsize_in_list; exact Hx | exact Hxy | exact (nodup_in_list _ _ Hnb Hx)].
      - intros a b _ _ ->. simpl. constructor. }
    key_case k K_Not.
    { destruct body as [| | | | | | l |]; try (inv Hb; exact I).
      destruct (vperm_list_inv _ _ Hb) as (l' & -> & HFl).
      destruct l as [|x rest]; f2inv; try exact I.
      match goal with H : Forall2 vperm rest _ |- _ => clear H end.
      rewrite !resolve_not.
      eapply rel_bind; [apply Hdeep; [simpl; lia | assumption | eapply nodup_in_list; [exact Hnb | simpl; tauto]]|].
      intros r r' _ _ Hr. rewrite (vperm_ext_bool _ _ Hr). apply rel_res_vperm_refl. }
    key_case k K_Equals.
    { destruct body as [| | | | | | l |]; try (inv Hb; exact I).
      destruct (vperm_list_inv _ _ Hb) as (l' & -> & HFl).
      destruct l as [|a1 [|a2 [|a3 r3]]]; f2inv; try exact I.
      assert (Hn2 : nodup_keys a2) by (eapply nodup_in_list; [exact Hnb | simpl; tauto]).
      rewrite !resolve_equals.
      eapply rel_bind; [apply Hdeep; [simpl; lia | assumption | eapply nodup_in_list; [exact Hnb | simpl; tauto]]|].
      intros r1 r1' _ _ Hr1.
      eapply rel_bind; [apply Hdeep; [simpl; lia | assumption | exact Hn2]|].
      intros r2 r2' E2 _ Hr2.
      rewrite (py_eq_vperm _ _ _ _ Hr1 Hr2 (resolve_nodup e a2 r2 Hne Hn2 E2)). apply rel_res_vperm_refl. }
    apply Hgen. rewrite is_fn_dict_single. unfold is_fn, MODEL_FUNCTIONS, mem_str. cbn [existsb].
    rewrite Ek, Ek0, Ek1, Ek2, Ek3, Ek4, Ek5, Ek6, Ek7, Ek8, Ek9, Ek10, Ek11, Ek12, Ek13, Ek14. reflexivity.
Qed.

(* the order of keys inside any object, at any depth -- in the expression, in parameter values, in mappings -- does not
   matter for resolution *)
Theorem resolve_vperm_env e e' v w : eperm e e' -> env_nodup e -> maps_bk_unique (mappings e) -> vperm v w -> nodup_keys v ->
  rel_res vperm (resolve e v) (resolve e' w).
Proof. intros He Hne Hbk Hvw Hnv. apply (resolve_vperm_n e e' He Hne Hbk (S (vsize v))); [lia | exact Hvw | exact Hnv]. Qed.
(* one environment *)
Corollary resolve_vperm e v w : env_nodup e -> maps_bk_unique (mappings e) -> vperm v w -> nodup_keys v ->
  rel_res vperm (resolve e v) (resolve e w).
Proof. apply resolve_vperm_env. apply eperm_refl. Qed.
(* read as: a successful resolution stays successful, with the same result up to key order; a failing one keeps failing *)
Corollary resolve_vperm_ok e e' v w r : eperm e e' -> env_nodup e -> maps_bk_unique (mappings e) -> vperm v w -> nodup_keys v ->
  resolve e v = Ok r -> exists r', resolve e' w = Ok r' /\ vperm r r'.
Proof.
  intros He Hne Hbk Hvw Hnv H. pose proof (resolve_vperm_env e e' v w He Hne Hbk Hvw Hnv) as R. rewrite H in R.
  destruct (resolve e' w) as [r'|]; simpl in R; [eauto | contradiction].
Qed.
Corollary resolve_vperm_is_ok e e' v w : eperm e e' -> env_nodup e -> maps_bk_unique (mappings e) -> vperm v w -> nodup_keys v ->
  is_ok (resolve e v) = is_ok (resolve e' w).
Proof. intros He Hne Hbk Hvw Hnv. eapply rel_res_is_ok. apply resolve_vperm_env; assumption. Qed.
(* a result without objects (a string, a list of strings, ...) is the same result *)
Fixpoint no_dict (v : value) : bool :=
  match v with VDict _ => false | VList l => forallb no_dict l | _ => true end.
Lemma vperm_no_dict_n : forall n v w, (vsize v < n)%nat -> vperm v w -> no_dict v = true -> v = w.
Proof.
  induction n as [|n IH]; intros v w Hs H Hd; [lia|].
  destruct H as [ | | | | | | l l' HF | d d1 d2 HF HP]; try reflexivity; [|discriminate].
  f_equal. simpl in Hd. rewrite forallb_forall in Hd.
  assert (Hel : forall x y, In x l -> vperm x y -> x = y).
  { intros x y Hx Hxy. apply IH; [pose proof (vsize_in_list x l Hx); lia | exact Hxy | apply Hd; exact Hx]. }
  clear Hd Hs IH. induction HF as [|x y l l' Hxy HF IHl]; [reflexivity|].
  rewrite (Hel x y (or_introl eq_refl) Hxy), IHl; [reflexivity|]. intros x0 y0 Hx0. apply Hel. right. exact Hx0.
Qed.
Corollary resolve_vperm_no_dict e e' v w r : eperm e e' -> env_nodup e -> maps_bk_unique (mappings e) -> vperm v w -> nodup_keys v ->
  resolve e v = Ok r -> no_dict r = true -> resolve e' w = Ok r.
Proof.
  intros He Hne Hbk Hvw Hnv H Hd. destruct (resolve_vperm_ok e e' v w r He Hne Hbk Hvw Hnv H) as (r' & H' & Hr).
  rewrite H'. f_equal. symmetry. apply (vperm_no_dict_n (S (vsize r))); [lia | exact Hr | exact Hd].
Qed.

(* ------------------------------------------------------------------------------------------------------------------ *)
(* template level: resources, gate, conditions                                                                        *)
(* ------------------------------------------------------------------------------------------------------------------ *)
(* the gate (the resource's Condition attribute) is read by lookup *)
Lemma gate_vperm resolved r w : vperm r w -> nodup_keys r -> gate resolved r = gate resolved w.
Proof.
  intros H Hn. destruct H as [ | | | | | | | d d1 d2 HF HP]; try reflexivity. unfold gate.
  pose proof (vperm_lookup _ _ (vp_dict _ _ _ HF HP) (nodup_dict_keys _ Hn) K_Condition) as Hl.
  destruct (lookup K_Condition d) as [x|], (lookup K_Condition d2) as [x'|]; simpl in Hl; try contradiction; [|reflexivity].
  destruct Hl; reflexivity.
Qed.

Lemma set_key_F2 k v d d1 : Forall2 (erel vperm) d d1 -> Forall2 (erel vperm) (set_key k v d) (set_key k v d1).
Proof.
  induction 1 as [|[k0 x] [k0' y] d d1 [Hk Hxy] HF IH]; simpl.
  - constructor; [split; [reflexivity | apply vperm_refl] | constructor].
  - simpl in Hk, Hxy. subst k0'. destruct (str_eqb k k0).
    + constructor; [split; [reflexivity | apply vperm_refl] | exact HF].
    + constructor; [split; [reflexivity | exact Hxy] | exact IH].
Qed.
Lemma set_key_perm k v d d' : Permutation d d' -> NoDup (keys d) -> Permutation (set_key k v d) (set_key k v d').
Proof.
  induction 1 as [|[k0 x] d d' HP IH|[k1 x1] [k2 x2] d|d d' d'' HP1 IH1 HP2 IH2]; intros Hnd.
  - apply Permutation_refl.
  - simpl. inv Hnd. destruct (str_eqb k k0); [constructor; exact HP | constructor; apply IH; assumption].
  - simpl. inv Hnd. destruct (str_eqb k k2) eqn:E2, (str_eqb k k1) eqn:E1; try apply perm_swap.
    apply str_eqb_spec in E1, E2. subst. exfalso. apply H1. left. reflexivity.
  - eapply Permutation_trans; [apply IH1; exact Hnd | apply IH2].
    eapply Permutation_NoDup; [apply perm_keys; exact HP1 | exact Hnd].
Qed.
Lemma set_key_vperm k v d d' : vperm (VDict d) (VDict d') -> NoDup (keys d) ->
  vperm (VDict (set_key k v d)) (VDict (set_key k v d')).
Proof.
  intros H Hnd. destruct (vperm_dict_inv _ _ H) as (d1 & d2 & Heq & HF & HP). inv Heq.
  apply vp_dict' with (d' := set_key k v d1); [apply set_key_F2; exact HF|].
  apply set_key_perm; [exact HP|]. rewrite <- (erel_keys _ _ _ HF). exact Hnd.
Qed.
Lemma keys_set_key_in k v d : In k (keys d) -> keys (set_key k v d) = keys d.
Proof.
  induction d as [|[k0 x] r IH]; intros H; [destruct H|]. cbn [set_key]. destruct (str_eqb k k0) eqn:E; [reflexivity|].
  cbn [keys map fst]. f_equal. apply IH. destruct H as [H|H]; [|exact H]. simpl in H. subst k0. rewrite str_eqb_refl in E. discriminate.
Qed.
Lemma keys_set_key_notin k v d : ~ In k (keys d) -> keys (set_key k v d) = keys d ++ [k].
Proof.
  induction d as [|[k0 x] r IH]; intros H; [reflexivity|]. cbn [set_key]. destruct (str_eqb k k0) eqn:E.
  - apply str_eqb_spec in E. subst k0. exfalso. apply H. left. reflexivity.
  - cbn [keys map fst app]. f_equal. apply IH. intros Hin. apply H. right. exact Hin.
Qed.
Lemma set_key_nodup k v d : NoDup (keys d) -> NoDup (keys (set_key k v d)).
Proof.
  intros H. destruct (in_dec str_eq_dec k (keys d)) as [Hin|Hnin].
  - rewrite keys_set_key_in by exact Hin. exact H.
  - rewrite keys_set_key_notin by exact Hnin. apply (Permutation_NoDup (Permutation_cons_append (keys d) k)).
    constructor; assumption.
Qed.
Lemma keep_key_nodup k o d : NoDup (keys d) -> NoDup (keys (keep_key k o d)).
Proof. intros H. unfold keep_key. destruct (lookup k o) as [[| | | t | | | |]|]; try exact H. apply set_key_nodup. exact H. Qed.
Lemma keep_key_vperm k d d2 q q2 : vperm (VDict d) (VDict d2) -> NoDup (keys d) -> vperm (VDict q) (VDict q2) -> NoDup (keys q) ->
  vperm (VDict (keep_key k d q)) (VDict (keep_key k d2 q2)).
Proof.
  intros Ho Hno Hr Hnr. unfold keep_key.
  pose proof (vperm_lookup _ _ Ho Hno k) as Hl.
  destruct (lookup k d) as [x|], (lookup k d2) as [x'|]; simpl in Hl; try contradiction; [|exact Hr].
  destruct Hl; try exact Hr. apply set_key_vperm; assumption.
Qed.
Lemma keep_type_vperm o o' r r' : vperm o o' -> nodup_keys o -> vperm r r' -> nodup_keys r ->
  vperm (keep_type o r) (keep_type o' r').
Proof.
  intros Ho Hno Hr Hnr. pose proof Hr as Hr0. pose proof Ho as Ho0.
  destruct Ho as [ | | | | | | | d d1 d2 HF HP]; try exact Hr.
  destruct Hr as [ | | | | | | | q q1 q2 HFq HPq]; try exact Hr0. unfold keep_type.
  pose proof (nodup_dict_keys _ Hno) as Hnd. pose proof (nodup_dict_keys _ Hnr) as Hnq.
  apply keep_key_vperm; [exact Ho0 | exact Hnd | | apply keep_key_nodup; exact Hnq].
  apply keep_key_vperm; assumption.
Qed.

(* permuting the keys inside a resource's definition: same gate, and the resolved resource is the same up to key order *)
Theorem resolve_resource_vperm e e' r w : eperm e e' -> env_nodup e -> maps_bk_unique (mappings e) -> vperm r w -> nodup_keys r ->
  rel_res vperm (resolve_resource e r) (resolve_resource e' w).
Proof.
  intros He Hne Hbk Hrw Hn. unfold resolve_resource.
  eapply rel_bind; [apply resolve_vperm_env; eassumption|].
  intros a b Ea _ Hab. simpl. apply keep_type_vperm; try assumption. eapply resolve_nodup; eassumption.
Qed.

(* the whole Resources section: keys permuted inside each resource ... *)
Lemma resolve_resources_F2 e e' resolved rs rs' : eperm e e' -> env_nodup e -> maps_bk_unique (mappings e) ->
  Forall2 (erel vperm) rs rs' -> Forall (fun kv => nodup_keys (snd kv)) rs ->
  rel_res (Forall2 (erel vperm)) (resolve_resources e resolved rs) (resolve_resources e' resolved rs').
Proof.
  intros He Hne Hbk HF. induction HF as [|[id r] [id' w] rs rs' [Hid Hrw] HF IH]; intros Hn; [constructor|].
  simpl in Hid, Hrw. subst id'. inv Hn. simpl in H1. specialize (IH H2). simpl.
  rewrite <- (gate_vperm resolved r w Hrw H1). destruct (gate resolved r) as [[|]|]; simpl; [|exact IH|exact I].
  eapply rel_bind; [apply resolve_resource_vperm; eassumption|]. intros a b _ _ Hab.
  eapply rel_bind; [exact IH|]. intros x y _ _ Hxy. simpl. constructor; [split; [reflexivity | exact Hab] | exact Hxy].
Qed.
(* ... and the resources themselves reordered *)
Lemma resolve_resources_permutation e resolved rs rs' : Permutation rs rs' ->
  rel_res (@Permutation _) (resolve_resources e resolved rs) (resolve_resources e resolved rs').
Proof.
  induction 1 as [|[id r] rs rs' HP IH|[i1 r1] [i2 r2] rs|rs rs' rs'' HP1 IH1 HP2 IH2].
  - simpl. constructor.
  - simpl. destruct (gate resolved r) as [[|]|]; simpl; [|exact IH|exact I].
    destruct (resolve_resource e r) as [a|]; simpl; [|exact I].
    destruct (resolve_resources e resolved rs) as [x|], (resolve_resources e resolved rs') as [y|];
      simpl in IH |- *; try contradiction; [constructor; exact IH | exact I].
  - simpl. destruct (gate resolved r1) as [[|]|], (gate resolved r2) as [[|]|]; simpl; try exact I;
      try (destruct (resolve_resource e r1) as [a1|]); try (destruct (resolve_resource e r2) as [a2|]); simpl; try exact I;
      destruct (resolve_resources e resolved rs) as [x|]; simpl; try exact I; try apply Permutation_refl. apply perm_swap.
  - destruct (resolve_resources e resolved rs) as [x|], (resolve_resources e resolved rs') as [y|],
      (resolve_resources e resolved rs'') as [z|]; simpl in *; try contradiction; try exact I.
    eapply Permutation_trans; eassumption.
Qed.
Theorem resolve_resources_vperm e e' resolved rs rs' : eperm e e' -> env_nodup e -> maps_bk_unique (mappings e) ->
  vperm (VDict rs) (VDict rs') -> Forall (fun kv => nodup_keys (snd kv)) rs ->
  rel_res (fun a b => vperm (VDict a) (VDict b)) (resolve_resources e resolved rs) (resolve_resources e' resolved rs').
Proof.
  intros He Hne Hbk H Hn. destruct (vperm_dict_inv _ _ H) as (r1 & r2 & Heq & HF & HP). inv Heq.
  pose proof (resolve_resources_F2 e e' resolved rs r1 He Hne Hbk HF Hn) as H1.
  pose proof (resolve_resources_permutation e' resolved r1 r2 HP) as H2.
  destruct (resolve_resources e resolved rs) as [x|], (resolve_resources e' resolved r1) as [y|],
    (resolve_resources e' resolved r2) as [z|]; simpl in *; try contradiction; try exact I.
  exact (vp_dict' _ _ _ H1 H2).
Qed.

(* conditions: the keys inside the declared condition expressions (and inside parameter values and mappings) may be permuted *)
Theorem cond_val_vperm ps ps' maps maps' decl decl' :
  lookups_perm ps ps' -> lookups_perm maps maps' -> lookups_perm decl decl' ->
  (forall k x, lookup k ps = Some x -> nodup_keys x) -> (forall k x, lookup k maps = Some x -> nodup_keys x) ->
  maps_bk_unique maps ->
  (forall k x, lookup k decl = Some x -> nodup_keys x) ->
  forall fuel rem rem' n, same_members rem rem' ->
    rel_res eq (cond_val ps maps decl fuel rem n) (cond_val ps' maps' decl' fuel rem' n).
Proof.
  intros Hp Hm Hd Hnp Hnm Hbk Hnd. induction fuel as [|f IH]; intros rem rem' n Hr; [exact I|].
  simpl. rewrite <- (Hr n). destruct (mem_str n rem); [|reflexivity].
  pose proof (Hd n) as Hl. pose proof (Hnd n) as Hnb.
  destruct (lookup n decl) as [body|], (lookup n decl') as [body'|]; simpl in Hl; try contradiction; [|reflexivity].
  eapply rel_bind.
  - apply resolve_vperm_env; [|split; assumption | exact Hbk | exact Hl | exact (Hnb body eq_refl)].
    repeat split; simpl; try assumption. intros m. apply IH. apply same_members_remove. exact Hr.
  - intros a b _ _ Hab. rewrite (vperm_ext_bool _ _ Hab). apply rel_res_eq_refl.
Qed.

Theorem cond_root_vperm ps ps' maps maps' decl decl' n :
  lookups_perm ps ps' -> lookups_perm maps maps' -> vperm (VDict decl) (VDict decl') ->
  (forall k x, lookup k ps = Some x -> nodup_keys x) -> (forall k x, lookup k maps = Some x -> nodup_keys x) ->
  maps_bk_unique maps ->
  nodup_keys (VDict decl) ->
  rel_res eq (cond_root ps maps decl n) (cond_root ps' maps' decl' n).
Proof.
  intros Hp Hm Hd Hnp Hnm Hbk Hnd. unfold cond_root. rewrite <- (vperm_dict_length _ _ Hd).
  apply cond_val_vperm; try assumption.
  - apply vperm_lookup; [exact Hd | apply nodup_dict_keys; exact Hnd].
  - intros k x Hl. eapply nodup_lookup; eassumption.
  - destruct (vperm_dict_inv _ _ Hd) as (d1 & d2 & Heq & HF & HP). inv Heq.
    rewrite (erel_keys _ _ _ HF). apply keys_perm_members. exact HP.
Qed.

(* ------------------------------------------------------------------------------------------------------------------ *)
(* a computable sufficient test for [vperm] (used by the examples)                                                    *)
(* ------------------------------------------------------------------------------------------------------------------ *)
Fixpoint extract (k : str) (d : list (str * value)) : option (value * list (str * value)) :=
  match d with
  | [] => None
  | (k', y) :: r =>
      if str_eqb k k' then Some (y, r)
      else match extract k r with Some (y', r') => Some (y', (k', y) :: r') | None => None end
  end.
Lemma extract_perm k d y r : extract k d = Some (y, r) -> Permutation ((k, y) :: r) d.
Proof.
  revert y r. induction d as [|[k' y'] d IH]; intros y r H; simpl in H; [discriminate|].
  destruct (str_eqb k k') eqn:E.
  - apply str_eqb_spec in E. subst k'. inv H. apply Permutation_refl.
  - destruct (extract k d) as [[y0 r0]|]; [|discriminate]. inv H.
    eapply Permutation_trans; [apply perm_swap|]. constructor. apply IH. reflexivity.
Qed.
Fixpoint vpermb (a b : value) {struct a} : bool :=
  match a, b with
  | VNull, VNull => true
  | VBool x, VBool y => Bool.eqb x y
  | VInt x, VInt y => Z.eqb x y
  | VStr x, VStr y => str_eqb x y
  | VTyped k x, VTyped k' y => tkind_eqb k k' && str_eqb x y
  | VBytes x, VBytes y => str_eqb x y
  | VList la, VList lb =>
      (fix go (la lb : list value) : bool :=
         match la, lb with
         | [], [] => true
         | x :: xs, y :: ys => vpermb x y && go xs ys
         | _, _ => false
         end) la lb
  | VDict da, VDict db =>
      (fix go (da db : list (str * value)) : bool :=
         match da with
         | [] => match db with [] => true | _ :: _ => false end
         | (k, x) :: xs =>
             match extract k db with
             | Some (y, rest) => vpermb x y && go xs rest
             | None => false
             end
         end) da db
  | _, _ => false
  end.
Lemma tkind_eqb_true a b : tkind_eqb a b = true -> a = b.
Proof. destruct a, b; simpl; congruence. Qed.
Lemma vpermb_sound_n : forall n a, (vsize a < n)%nat -> forall b, vpermb a b = true -> vperm a b.
Proof.
  induction n as [|n IH]; intros a Hs b H; [lia|].
  destruct a as [| x | x | x | k x | x | la | da], b as [| y | y | y | k' y | y | lb | db]; try discriminate; simpl in H.
  - constructor.
  - apply Bool.eqb_prop in H. subst. constructor.
  - apply Z.eqb_eq in H. subst. constructor.
  - apply str_eqb_spec in H. subst. constructor.
  - apply andb_true_iff in H. destruct H as [H1 H2]. apply tkind_eqb_true in H1. apply str_eqb_spec in H2. subst. constructor.
  - apply str_eqb_spec in H. subst. constructor.
  - constructor.
    assert (Hel : forall x y, In x la -> vpermb x y = true -> vperm x y).
    { intros x y Hx Hxy. apply IH; [pose proof (vsize_in_list x la Hx); lia | exact Hxy]. }
    clear Hs IH. revert lb H. induction la as [|x xs IHl]; intros [|y ys] H; try discriminate; constructor.
    + apply andb_true_iff in H. apply Hel; [left; reflexivity | tauto].
    + apply andb_true_iff in H. apply IHl; [|tauto]. intros x0 y0 Hx0. apply Hel. right. exact Hx0.
  - assert (Hel : forall k x y, In (k, x) da -> vpermb x y = true -> vperm x y).
    { intros k x y Hx Hxy. apply IH; [pose proof (vsize_in_dict k x da Hx); lia | exact Hxy]. }
    clear Hs IH.
    assert (Hex : exists d', Forall2 (erel vperm) da d' /\ Permutation d' db).
    { revert db H. induction da as [|[k x] xs IHd]; intros db H.
      - destruct db; [|discriminate]. exists []. split; constructor.
      - destruct (extract k db) as [[y rest]|] eqn:Ex; [|discriminate].
        apply andb_true_iff in H. destruct H as [H1 H2].
        destruct (IHd (fun k0 x0 y0 Hin => Hel k0 x0 y0 (or_intror Hin)) rest H2) as (d' & HF & HP).
        exists ((k, y) :: d'). split.
        + constructor; [split; [reflexivity | simpl; eapply Hel; [left; reflexivity | exact H1]] | exact HF].
        + eapply Permutation_trans; [constructor; exact HP | apply extract_perm; exact Ex]. }
    destruct Hex as (d' & HF & HP). exact (vp_dict' _ _ _ HF HP).
Qed.
Theorem vpermb_sound a b : vpermb a b = true -> vperm a b.
Proof. apply (vpermb_sound_n (S (vsize a))). lia. Qed.

(* ------------------------------------------------------------------------------------------------------------------ *)
(* the whole model: keys permuted inside Mappings, inside every condition expression, inside every resource, and the     *)
(* Conditions / Resources sections themselves reordered                                                               *)
(* ------------------------------------------------------------------------------------------------------------------ *)
Lemma cond_all_rel ps maps maps' decl decl' names :
  (forall n, rel_res eq (cond_root ps maps decl n) (cond_root ps maps' decl' n)) ->
  rel_res eq (cond_all ps maps decl names) (cond_all ps maps' decl' names).
Proof.
  intros H. induction names as [|n names IH]; [reflexivity|]. simpl.
  eapply rel_bind; [apply H|]. intros a b _ _ ->. eapply rel_bind; [exact IH|]. intros x y _ _ ->. reflexivity.
Qed.
Lemma cond_all_perm ps maps decl names names' : Permutation names names' ->
  rel_res (@Permutation _) (cond_all ps maps decl names) (cond_all ps maps decl names').
Proof.
  induction 1 as [|n l l' HP IH|n1 n2 l|l l' l'' HP1 IH1 HP2 IH2].
  - simpl. constructor.
  - simpl. destruct (cond_root ps maps decl n) as [b|]; simpl; [|exact I].
    destruct (cond_all ps maps decl l) as [x|], (cond_all ps maps decl l') as [y|]; simpl in IH |- *; try contradiction;
      [constructor; exact IH | exact I].
  - simpl. destruct (cond_root ps maps decl n1) as [b1|], (cond_root ps maps decl n2) as [b2|]; simpl; try exact I;
      destruct (cond_all ps maps decl l) as [x|]; simpl; try exact I. apply perm_swap.
  - destruct (cond_all ps maps decl l) as [x|], (cond_all ps maps decl l') as [y|], (cond_all ps maps decl l'') as [z|];
      simpl in *; try contradiction; try exact I. eapply Permutation_trans; eassumption.
Qed.
Lemma cond_all_keys ps maps decl names r : cond_all ps maps decl names = Ok r -> keys r = names.
Proof.
  revert r. induction names as [|n names IH]; intros r H; simpl in H; [inv H; reflexivity|].
  bind_inv. inv H. unfold keys in *. simpl. rewrite (IH a0 eq_refl). reflexivity.
Qed.
Lemma gate_same_lookups r1 r2 r : same_lookups r1 r2 -> gate r1 r = gate r2 r.
Proof.
  intros H. destruct r; try reflexivity. unfold gate. destruct (lookup K_Condition d) as [x|]; [|reflexivity].
  destruct x; try reflexivity. rewrite (H s). reflexivity.
Qed.
Lemma resolve_resources_gate_ext e r1 r2 rs : same_lookups r1 r2 -> resolve_resources e r1 rs = resolve_resources e r2 rs.
Proof.
  intros H. induction rs as [|[id r] rs IH]; [reflexivity|]. simpl. rewrite (gate_same_lookups r1 r2 r H), IH. reflexivity.
Qed.

Theorem resolve_model_vperm pseudo decls extra maps maps' cdecl cdecl' rs rs' :
  (forall ps, bind_params pseudo decls extra = Ok ps -> forall k x, lookup k ps = Some x -> nodup_keys x) ->
  lookups_perm maps maps' -> (forall k x, lookup k maps = Some x -> nodup_keys x) -> maps_bk_unique maps ->
  vperm (VDict cdecl) (VDict cdecl') -> nodup_keys (VDict cdecl) ->
  vperm (VDict rs) (VDict rs') -> Forall (fun kv => nodup_keys (snd kv)) rs ->
  rel_res vperm (resolve_model pseudo decls extra maps cdecl rs) (resolve_model pseudo decls extra maps' cdecl' rs').
Proof.
  intros Hnp Hm Hnm Hbk Hc Hnc Hr Hnr. unfold resolve_model.
  destruct (bind_params pseudo decls extra) as [ps|] eqn:Eps; simpl; [|exact I]. specialize (Hnp ps eq_refl).
  eapply rel_bind with (R := @Permutation _).
  - assert (H1 : rel_res eq (cond_all ps maps cdecl (keys cdecl)) (cond_all ps maps' cdecl' (keys cdecl))).
    { apply cond_all_rel. intros n. apply cond_root_vperm; try assumption. apply lookups_perm_refl. }
    assert (H2 : rel_res (@Permutation _) (cond_all ps maps' cdecl' (keys cdecl)) (cond_all ps maps' cdecl' (keys cdecl'))).
    { apply cond_all_perm. destruct (vperm_dict_inv _ _ Hc) as (d1 & d2 & Heq & HF & HP). inv Heq.
      rewrite (erel_keys _ _ _ HF). apply perm_keys. exact HP. }
    destruct (cond_all ps maps cdecl (keys cdecl)) as [x|], (cond_all ps maps' cdecl' (keys cdecl)) as [y|],
      (cond_all ps maps' cdecl' (keys cdecl')) as [z|]; simpl in *; try contradiction; try exact I. subst y. exact H2.
  - intros resolved resolved' E1 _ HPr.
    assert (Hsl : same_lookups resolved resolved').
    { apply lookup_perm; [exact HPr|]. rewrite (cond_all_keys _ _ _ _ _ E1). apply nodup_dict_keys. exact Hnc. }
    rewrite <- (resolve_resources_gate_ext _ resolved resolved' rs' Hsl).
    eapply rel_bind.
    + apply resolve_resources_vperm; [|split; simpl; assumption | exact Hbk | exact Hr | exact Hnr].
      repeat split; simpl; [apply lookups_perm_refl | exact Hm|]. intros n. unfold conds_fun. rewrite (Hsl n). reflexivity.
    + intros x y _ _ Hxy. simpl.
      eapply vp_dict'; [|apply Permutation_refl].
      constructor; [split; [reflexivity|]|constructor; [split; [reflexivity | exact Hxy]|constructor]].
      simpl. apply vperm_dict_permutation. apply Permutation_map. exact HPr.
Qed.
