(* C03: WHICH results of [resolve] are rendered -- and therefore fixed points of a second resolution.

   [rendered_fixed_point] (FixFacts.v) says: a function-free value whose texts are fixed points of [render_str] is a fixed point of
   [resolve].  By itself that assumes the conclusion leaf by leaf.  Here the hypothesis is moved to the INPUT: a syntactic fragment
   of expressions, [builds_no_text], whose resolution is proved to be rendered.

   The fragment, looking only at the positions whose value flows into the result:
     leaves                        null, booleans, integers, text; a typed atom / bytes whose text is [plain_text] (every float, date ...)
     lists, objects                member-wise (AWS::NoValue members are dropped by resolution)
     Ref, Fn::ImportValue          the result is a normalised parameter value or the UNDEFINED_PARAM_ placeholder (body not inspected)
     Fn::GetAtt, Fn::GetAZs        the constants GETATT / GETAZS (body not inspected)
     Fn::If                        both branches in the fragment
     Fn::Select                    the list in the fragment: a member of a rendered list is rendered (index not inspected)
   Outside (each with a witness at the end of the file, [boundary_*]):
     Fn::Join, Fn::Sub, Fn::Split  BUILD text: it can spell TRUE / an SSM reference and is stored as built      (finding F20)
     Fn::Base64                    also builds text: base64("M\x15\x04") = "TRUE"                                 (finding F20)
     Fn::FindInMap                 returns the mapping leaf as written                                           (finding F14b)
     bytes / typed atoms           whose text is not [plain_text] (bytes 4D 15 04 are rendered as "TRUE")
     Condition, Fn::And/Or/Not/Equals in a VALUE position: the result is a Python bool, which a second resolution renders as text.
   [rendered] is used as defined in FixFacts.v (false on booleans): the theorems are about value positions.

   Hypotheses on the environment (booleans, with examples [env_hyps_hold] and counter-examples [ssm_value_must_be_rendered]):
     [params_rendered ps]   (1) a parameter whose NAME has the shape of an SSM key (name:version) and whose value is a non-empty text
                                has a value that rendering leaves alone -- [render_str] returns the looked-up SSM value AS IT IS, so a
                                value "TRUE" stored under "/p:1" comes out of "{{resolve:ssm:/p:1}}" unrendered;
                            (2) typed atoms / bytes inside parameter values have texts that rendering leaves alone.
                            Ordinary parameters may hold "True", "FALSE", ...: Ref lower-cases them (repair F14).
     [params_plainb ps]     parameter values contain no objects (only for "no function left"; FixFacts.params_plain). *)
From Coq Require Import List Bool NArith ZArith Lia.
From PV Require Import Base.Str Base.Value Resolver.Consts Resolver.Text Resolver.Resolve Resolver.Spec Resolver.SubFacts
  Resolver.Template Resolver.FixFacts Resolver.ModelFix.
Import ListNotations.
Local Open Scope N_scope.

(* ------------------------------------------------------------------------------------------------------------------ *)
(* 1. text that rendering leaves alone                                                                                *)
(* ------------------------------------------------------------------------------------------------------------------ *)
(* whatever the parameters: no SSM reference at its start, and not a boolean spelled with a capital letter *)
Definition plain_text (s : str) : bool :=
  match ssm_key s with
  | Some _ => false
  | None => negb (is_boolish s) || str_eqb (lower s) s
  end.
Lemma plain_text_fixed ps s : plain_text s = true -> render_str ps s = s.
Proof.
  unfold plain_text, render_str. destruct (ssm_key s); [discriminate|].
  destruct (is_boolish s); simpl; intros H; [apply str_eqb_spec; exact H | reflexivity].
Qed.
Lemma plain_text_rendered ps s : plain_text s = true -> rendered ps (VStr s) = true.
Proof. intros H. cbn [rendered]. rewrite (plain_text_fixed ps s H). apply str_eqb_refl. Qed.

Lemma strip_prefix_head c r : c <> 123 -> strip_prefix S_SSM_PREFIX (c :: r) = None.
Proof.
  intros H. unfold S_SSM_PREFIX. cbn [strip_prefix]. destruct (N.eqb_spec 123 c) as [E|E]; [congruence | reflexivity].
Qed.
Lemma lower_cp_low c : c < 65 -> lower_cp c = c.
Proof. intros H. unfold lower_cp. destruct (65 <=? c) eqn:E; [apply N.leb_le in E; lia | reflexivity]. Qed.
(* decided by the first character: not '{', not t/T, not f/F *)
Lemma plain_head c r : c <> 123 -> lower_cp c <> 116 -> lower_cp c <> 102 -> plain_text (c :: r) = true.
Proof.
  intros H1 H2 H3. unfold plain_text, ssm_key. rewrite (strip_prefix_head c r H1).
  assert (Hb : is_boolish (c :: r) = false).
  { unfold is_boolish, S_true, S_false, lower. cbn [map str_eqb].
    apply N.eqb_neq in H2, H3. rewrite H2, H3. reflexivity. }
  rewrite Hb. reflexivity.
Qed.
Lemma plain_low c r : c < 65 -> plain_text (c :: r) = true.
Proof. intros H. apply plain_head; [lia | rewrite lower_cp_low by assumption; lia ..]. Qed.

Lemma plain_bool_text b : plain_text (bool_text b) = true.
Proof. destruct b; vm_compute; reflexivity. Qed.
Lemma plain_getatt : plain_text S_GETATT = true. Proof. vm_compute. reflexivity. Qed.
Lemma plain_getazs : plain_text S_GETAZS = true. Proof. vm_compute. reflexivity. Qed.
Lemma plain_undefined_param key : plain_text (undefined_param key) = true.
Proof.
  unfold undefined_param, S_UNDEF_PARAM. cbn [app].
  apply plain_head; [discriminate | intros H; vm_compute in H; discriminate H ..].
Qed.

(* str(int): a digit or '-' first *)
Lemma digits_pos_go_S f n acc :
  digits_pos_go (S f) n acc = if n / 10 =? 0 then (48 + n mod 10) :: acc else digits_pos_go f (n / 10) ((48 + n mod 10) :: acc).
Proof. reflexivity. Qed.
Lemma digits_head f : forall n acc, exists c rest, digits_pos_go (S f) n acc = c :: rest /\ c < 65.
Proof.
  induction f as [|f IH]; intros n acc; rewrite digits_pos_go_S.
  - exists (48 + n mod 10), acc. split; [destruct (n / 10 =? 0); reflexivity|].
    assert (n mod 10 < 10) by (apply N.mod_lt; discriminate). lia.
  - destruct (n / 10 =? 0); [|apply IH].
    exists (48 + n mod 10), acc. split; [reflexivity|].
    assert (n mod 10 < 10) by (apply N.mod_lt; discriminate). lia.
Qed.
Lemma plain_str_of_Z z : plain_text (str_of_Z z) = true.
Proof.
  destruct z as [|p|p]; unfold str_of_Z.
  - vm_compute. reflexivity.
  - unfold digits_N. destruct (digits_head (N.to_nat (N.log2 (N.pos p))) (N.pos p) []) as (c & rest & E & Hc).
    rewrite E. apply plain_low. exact Hc.
  - apply plain_low. lia.
Qed.

(* ---- the SSM branch: which parameter names can be looked up by a dynamic reference ---- *)
Lemma ssm_key_inv s key : ssm_key s = Some key ->
  exists name ver, key = name ++ 58 :: ver /\ name <> [] /\ ver <> [] /\
    forallb is_ssm_name_char name = true /\ forallb is_digit ver = true.
Proof.
  unfold ssm_key. destruct (strip_prefix S_SSM_PREFIX s) as [r|]; [|discriminate].
  destruct (span is_ssm_name_char r) as [name r1] eqn:E1.
  destruct name as [|n0 name]; [discriminate|].
  destruct r1 as [|c1 r2]; [discriminate|].
  destruct (N.eqb_spec c1 58) as [->|Hne].
  - destruct (span is_digit r2) as [ver r3] eqn:E2.
    destruct ver as [|v0 ver]; [discriminate|].
    destruct r3 as [|c3 r3]; [discriminate|].
    destruct r3 as [|c4 r4]; [destruct c3 as [|p]; [discriminate|]; repeat (destruct p as [p|p|]; try discriminate)|].
    intros H.
    assert (Hk : key = (n0 :: name) ++ 58 :: v0 :: ver).
    { destruct c3 as [|p]; [discriminate|]. repeat (destruct p as [p|p|]; try discriminate).
      destruct c4 as [|p]; [discriminate|]. repeat (destruct p as [p|p|]; try discriminate). inv H. reflexivity. }
    apply span_spec in E1. apply span_spec in E2. destruct E1 as (_ & F1 & _). destruct E2 as (_ & F2 & _).
    exists (n0 :: name), (v0 :: ver). repeat split; try assumption; discriminate.
  - intros H. exfalso. destruct c1 as [|p]; [discriminate|]. repeat (destruct p as [p|p|]; try discriminate). apply Hne. reflexivity.
Qed.

(* name ':' version, name = one or more of [A-Za-z0-9_./-], version = one or more digits *)
Definition ssm_shaped (key : str) : bool :=
  let '(name, r1) := span is_ssm_name_char key in
  match name, r1 with
  | _ :: _, c :: r2 =>
      (c =? 58) && (let '(ver, r3) := span is_digit r2 in match ver, r3 with _ :: _, [] => true | _, _ => false end)
  | _, _ => false
  end.
Lemma span_full f a : forallb f a = true -> span f a = (a, []).
Proof.
  induction a as [|x a IH]; simpl; intros H; [reflexivity|].
  apply andb_true_iff in H. destruct H as [Hx Ha]. rewrite Hx, (IH Ha). reflexivity.
Qed.
Lemma ssm_key_shaped s key : ssm_key s = Some key -> ssm_shaped key = true.
Proof.
  intros H. destruct (ssm_key_inv s key H) as (name & ver & -> & Hn & Hv & Fn & Fv).
  unfold ssm_shaped. rewrite (span_all is_ssm_name_char name 58 ver Fn eq_refl).
  destruct name as [|n0 name]; [congruence|]. cbn [N.eqb Pos.eqb andb]. rewrite (span_full is_digit ver Fv).
  destruct ver; [congruence | reflexivity].
Qed.

Definition ssm_values_fixed (ps : list (str * value)) : Prop :=
  forall key c r, ssm_shaped key = true -> lookup key ps = Some (VStr (c :: r)) -> render_str ps (c :: r) = c :: r.

(* rendering is idempotent -- given that the values an SSM reference can fetch are rendered (they are returned as they are) *)
Lemma render_str_fixes ps s t : ssm_values_fixed ps -> render_str ps s = t -> render_str ps t = t.
Proof.
  intros Hs Ht. unfold render_str in Ht. destruct (ssm_key s) as [key|] eqn:Ek.
  - apply ssm_key_shaped in Ek.
    destruct (lookup key ps) as [[| | | [|c r] | | | |]|] eqn:El; subst t;
      try (apply plain_text_fixed, plain_undefined_param).
    exact (Hs key c r Ek El).
  - destruct (is_boolish s) eqn:Eb.
    + subst t. unfold is_boolish in Eb. apply orb_true_iff in Eb.
      destruct Eb as [Eb|Eb]; apply str_eqb_spec in Eb; rewrite Eb; apply plain_text_fixed; vm_compute; reflexivity.
    + subst t. unfold render_str. rewrite Ek, Eb. reflexivity.
Qed.
Corollary render_str_idem ps s : ssm_values_fixed ps -> render_str ps (render_str ps s) = render_str ps s.
Proof. intros H. exact (render_str_fixes ps s _ H eq_refl). Qed.

(* ------------------------------------------------------------------------------------------------------------------ *)
(* 2. the hypothesis on the parameters, and what Ref returns                                                          *)
(* ------------------------------------------------------------------------------------------------------------------ *)
(* typed atoms and bytes are rendered as their text, as it is *)
Fixpoint atoms_fixed (ps : list (str * value)) (v : value) : bool :=
  match v with
  | VTyped _ t => str_eqb (render_str ps t) t
  | VBytes b => str_eqb (render_str ps (b64encode b)) (b64encode b)
  | VList l => forallb (atoms_fixed ps) l
  | VDict d => forallb (fun kv => atoms_fixed ps (snd kv)) d
  | _ => true
  end.
Definition param_ok (ps : list (str * value)) (kv : str * value) : bool :=
  atoms_fixed ps (snd kv) &&
  match snd kv with
  | VStr (c :: r) => negb (ssm_shaped (fst kv)) || str_eqb (render_str ps (c :: r)) (c :: r)
  | _ => true
  end.
Definition params_rendered (ps : list (str * value)) : bool := forallb (param_ok ps) ps.
Definition params_plainb (ps : list (str * value)) : bool := forallb (fun kv => nodict (snd kv)) ps.

Lemma params_rendered_ssm ps : params_rendered ps = true -> ssm_values_fixed ps.
Proof.
  intros H key c r Hk Hl. unfold params_rendered in H. rewrite forallb_forall in H.
  specialize (H _ (lookup_In _ _ _ Hl)). unfold param_ok in H. cbn [fst snd] in H.
  apply andb_true_iff in H. destruct H as [_ H]. rewrite Hk in H. cbn [negb orb] in H. apply str_eqb_spec. exact H.
Qed.
Lemma params_rendered_atoms ps k x : params_rendered ps = true -> lookup k ps = Some x -> atoms_fixed ps x = true.
Proof.
  intros H Hl. unfold params_rendered in H. rewrite forallb_forall in H.
  specialize (H _ (lookup_In _ _ _ Hl)). unfold param_ok in H. cbn [fst snd] in H.
  apply andb_true_iff in H. destruct H as [H _]. exact H.
Qed.
Lemma params_plainb_plain e : params_plainb (params e) = true -> params_plain e.
Proof.
  intros H k v Hl. unfold params_plainb in H. rewrite forallb_forall in H. exact (H _ (lookup_In _ _ _ Hl)).
Qed.

Lemma normalize_rendered ps : ssm_values_fixed ps ->
  forall v r, atoms_fixed ps v = true -> normalize ps v = Ok r -> rendered ps r = true.
Proof.
  intros Hs v. induction v using value_ind'; intros r Ha Hr.
  - inv Hr. reflexivity.
  - inv Hr. apply plain_text_rendered, plain_bool_text.
  - inv Hr. apply plain_text_rendered, plain_str_of_Z.
  - inv Hr. cbn [rendered]. rewrite (render_str_idem ps s Hs). apply str_eqb_refl.
  - inv Hr. exact Ha.
  - inv Hr. exact Ha.
  - simpl in Hr. bind_inv. inv Hr. cbn [rendered]. cbn [atoms_fixed] in Ha. clear -H Ha E.
    revert a Ha E. induction H as [|x xs Hx Hxs IH]; intros a Ha E; simpl in E.
    + inv E. reflexivity.
    + simpl in Ha. apply andb_true_iff in Ha. destruct Ha as [Ha1 Ha2].
      destruct (normalize ps x) as [x'|] eqn:Ex; simpl in E; [|discriminate].
      match type of E with context [bind ?g _] => destruct g as [xs'|] eqn:Exs end; simpl in E; [|discriminate]. inv E.
      specialize (IH xs' Ha2 eq_refl). destruct (is_novalue x') eqn:En; [exact IH|].
      cbn [forallb]. rewrite (Hx x' Ha1 eq_refl), En. exact IH.
  - simpl in Hr. destruct (is_fn_dict d); [discriminate|]. bind_inv. inv Hr. cbn [rendered]. cbn [atoms_fixed] in Ha. clear -H Ha E.
    revert a Ha E. induction H as [|[k x] xs Hx Hxs IH]; intros a Ha E; simpl in E.
    + inv E. reflexivity.
    + simpl in Ha, Hx. apply andb_true_iff in Ha. destruct Ha as [Ha1 Ha2].
      destruct (normalize ps x) as [x'|] eqn:Ex; simpl in E; [|discriminate].
      match type of E with context [bind ?g _] => destruct g as [xs'|] eqn:Exs end; simpl in E; [|discriminate]. inv E.
      specialize (IH xs' Ha2 eq_refl). destruct (is_novalue x') eqn:En; [exact IH|].
      cbn [forallb snd]. rewrite (Hx x' Ha1 eq_refl), En. exact IH.
Qed.

(* Ref / Fn::ImportValue: whatever the (resolved) body is *)
Lemma do_ref_rendered e b r : params_rendered (params e) = true -> do_ref e b = Ok r -> rendered (params e) r = true.
Proof.
  intros Hp H. unfold do_ref in H. destruct b; try discriminate.
  destruct (lookup s (params e)) as [x|] eqn:El.
  - eapply normalize_rendered; [apply params_rendered_ssm; exact Hp | eapply params_rendered_atoms; eassumption | exact H].
  - inv H. apply plain_text_rendered, plain_undefined_param.
Qed.

(* ------------------------------------------------------------------------------------------------------------------ *)
(* 3. the fragment                                                                                                    *)
(* ------------------------------------------------------------------------------------------------------------------ *)
Definition text_builder (k : str) : bool :=
  str_eqb k K_Join || str_eqb k K_Sub || str_eqb k K_Split || str_eqb k K_FindInMap || str_eqb k K_Base64.
Definition cond_fn (k : str) : bool :=
  str_eqb k K_Condition || str_eqb k K_And || str_eqb k K_Or || str_eqb k K_Not || str_eqb k K_Equals.
Definition opaque_fn (k : str) : bool :=
  str_eqb k K_Ref || str_eqb k K_ImportValue || str_eqb k K_GetAtt || str_eqb k K_GetAZs.

(* no text-building function, no condition function and no unrendered atom in a position whose value reaches the result.
   (an ill-formed Fn::If / Fn::Select body makes [resolve] raise: nothing to say, hence [true]) *)
Fixpoint builds_no_text (v : value) : bool :=
  match v with
  | VList l => forallb builds_no_text l
  | VDict d =>
      match d with
      | [(k, body)] =>
          if text_builder k || cond_fn k then false
          else if opaque_fn k then true
          else if str_eqb k K_If then
            match body with VList [_; t; f] => builds_no_text t && builds_no_text f | _ => true end
          else if str_eqb k K_Select then
            match body with VList [_; l] => builds_no_text l | _ => true end
          else builds_no_text body
      | _ => forallb (fun kv => builds_no_text (snd kv)) d
      end
  | VTyped _ t => plain_text t
  | VBytes b => plain_text (b64encode b)
  | _ => true
  end.

Lemma bnt_join b : builds_no_text (VDict [(K_Join, b)]) = false. Proof. reflexivity. Qed.
Lemma bnt_sub b : builds_no_text (VDict [(K_Sub, b)]) = false. Proof. reflexivity. Qed.
Lemma bnt_split b : builds_no_text (VDict [(K_Split, b)]) = false. Proof. reflexivity. Qed.
Lemma bnt_find_in_map b : builds_no_text (VDict [(K_FindInMap, b)]) = false. Proof. reflexivity. Qed.
Lemma bnt_base64 b : builds_no_text (VDict [(K_Base64, b)]) = false. Proof. reflexivity. Qed.
Lemma bnt_condition b : builds_no_text (VDict [(K_Condition, b)]) = false. Proof. reflexivity. Qed.
Lemma bnt_and b : builds_no_text (VDict [(K_And, b)]) = false. Proof. reflexivity. Qed.
Lemma bnt_or b : builds_no_text (VDict [(K_Or, b)]) = false. Proof. reflexivity. Qed.
Lemma bnt_not b : builds_no_text (VDict [(K_Not, b)]) = false. Proof. reflexivity. Qed.
Lemma bnt_equals b : builds_no_text (VDict [(K_Equals, b)]) = false. Proof. reflexivity. Qed.
Lemma bnt_if c t f : builds_no_text (VDict [(K_If, VList [c; t; f])]) = builds_no_text t && builds_no_text f.
Proof. reflexivity. Qed.
Lemma bnt_select i l : builds_no_text (VDict [(K_Select, VList [i; l])]) = builds_no_text l.
Proof. reflexivity. Qed.
Lemma bnt_generic d : is_fn_dict d = false -> builds_no_text (VDict d) = forallb (fun kv => builds_no_text (snd kv)) d.
Proof.
  intros H. destruct d as [|[k body] [|kv2 rest]]; try reflexivity.
  simpl in H. unfold is_fn, MODEL_FUNCTIONS, mem_str in H. cbn [existsb] in H.
  repeat (apply orb_false_elim in H; destruct H as [?H H]).
  cbn [builds_no_text forallb snd]. unfold text_builder, cond_fn, opaque_fn.
  repeat match goal with Hk : str_eqb k ?K = false |- _ => rewrite Hk; clear Hk end.
  cbn [orb]. rewrite andb_true_r. reflexivity.
Qed.

Lemma do_select_rendered ps i l r : rendered ps l = true -> do_select i l = Ok r -> rendered ps r = true.
Proof.
  unfold do_select. destruct i; try discriminate. destruct l; try discriminate. intros Hl H.
  destruct (parse_int s); [|discriminate].
  destruct ((z <? 0)%Z || (Z.of_nat (length l) <=? z)%Z); [inv H; reflexivity|].
  destruct (nth_error l (Z.to_nat z)) eqn:En; inv H; [|reflexivity]. cbn [rendered] in Hl.
  pose proof (nth_error_forallb _ _ _ _ Hl En) as Hx. cbn beta in Hx. apply andb_true_iff in Hx. tauto.
Qed.

(* THE RESULT OF RESOLVING AN EXPRESSION OF THE FRAGMENT IS RENDERED *)
Theorem fragment_rendered e : params_rendered (params e) = true ->
  (forall v r, Eval e v r -> builds_no_text v = true -> rendered (params e) r = true) /\
  (forall l l', EvalList e l l' -> forallb builds_no_text l = true ->
                forallb (fun x => rendered (params e) x && negb (is_novalue x)) l' = true) /\
  (forall d d', EvalDict e d d' -> forallb (fun kv => builds_no_text (snd kv)) d = true ->
                forallb (fun kv => rendered (params e) (snd kv) && negb (is_novalue (snd kv))) d' = true) /\
  (forall l b, EvalAll e l b -> True) /\
  (forall l b, EvalAny e l b -> True).
Proof.
  intros Hp. apply Eval_mutind; intros; try exact I.
  - reflexivity.
  - apply plain_text_rendered, plain_bool_text.
  - apply plain_text_rendered, plain_str_of_Z.
  - cbn [rendered]. rewrite (render_str_idem _ s (params_rendered_ssm _ Hp)). apply str_eqb_refl.
  - apply plain_text_rendered. assumption.
  - apply plain_text_rendered. assumption.
  - (* list *) cbn [rendered]. auto.
  - (* object *) cbn [rendered]. rewrite (bnt_generic _ e0) in H0. auto.
  - (* Ref *) eapply do_ref_rendered; eassumption.
  - rewrite bnt_join in H1. discriminate.
  - rewrite bnt_split in H1. discriminate.
  - (* Select *) rewrite bnt_select in H1. eapply do_select_rendered; [apply H0; exact H1 | eassumption].
  - rewrite bnt_find_in_map in H2. discriminate.
  - rewrite bnt_sub in H. discriminate.
  - rewrite bnt_sub in H0. discriminate.
  - rewrite bnt_base64 in H0. discriminate.
  - apply plain_text_rendered, plain_getatt.
  - apply plain_text_rendered, plain_getazs.
  - rewrite bnt_condition in H. discriminate.
  - (* If, true *) rewrite bnt_if in H0. apply andb_true_iff in H0. destruct H0 as [Ht Hf]. apply H. exact Ht.
  - (* If, false *) rewrite bnt_if in H0. apply andb_true_iff in H0. destruct H0 as [Ht Hf]. apply H. exact Hf.
  - rewrite bnt_and in H0. discriminate.
  - rewrite bnt_or in H0. discriminate.
  - rewrite bnt_not in H0. discriminate.
  - rewrite bnt_equals in H1. discriminate.
  - reflexivity.
  - (* EL_keep *) cbn [forallb] in *. apply andb_true_iff in H1. destruct H1 as [Hx Hxs]. rewrite (H Hx), e1, (H0 Hxs). reflexivity.
  - (* EL_drop *) cbn [forallb] in H1. apply andb_true_iff in H1. destruct H1 as [Hx Hxs]. auto.
  - reflexivity.
  - (* ED_keep *) cbn [forallb snd] in *. apply andb_true_iff in H1. destruct H1 as [Hx Hxs]. rewrite (H Hx), e1, (H0 Hxs). reflexivity.
  - (* ED_drop *) cbn [forallb snd] in H1. apply andb_true_iff in H1. destruct H1 as [Hx Hxs]. auto.
Qed.

Theorem resolve_rendered e v r : params_rendered (params e) = true ->
  builds_no_text v = true -> resolve e v = Ok r -> rendered (params e) r = true.
Proof. intros Hp Hb H. apply resolve_iff_eval in H. exact (proj1 (fragment_rendered e Hp) v r H Hb). Qed.

(* ------------------------------------------------------------------------------------------------------------------ *)
(* 4. no function object is left (for the fragment no hypothesis on the Mappings is needed: Fn::FindInMap never reaches *)
(*    the result) and the fixed point, with every hypothesis on the INPUT                                             *)
(* ------------------------------------------------------------------------------------------------------------------ *)
Theorem fragment_no_fn e : params_plain e ->
  (forall v r, Eval e v r -> builds_no_text v = true -> fn_keys_alone v = true -> no_fn_dict r = true) /\
  (forall l l', EvalList e l l' -> forallb builds_no_text l = true -> forallb fn_keys_alone l = true ->
                forallb no_fn_dict l' = true) /\
  (forall d d', EvalDict e d d' -> forallb (fun kv => builds_no_text (snd kv)) d = true ->
                forallb (fun kv => fn_keys_alone (snd kv)) d = true -> forallb (fun kv => no_fn_dict (snd kv)) d' = true) /\
  (forall l b, EvalAll e l b -> True) /\
  (forall l b, EvalAny e l b -> True).
Proof.
  intros Hp. destruct is_fn_consts as (F1 & F2 & F3 & F4 & F5 & F6 & F7 & F8 & F9).
  apply Eval_mutind; intros; try reflexivity; try exact I.
  - (* list *) simpl in *. auto.
  - (* object *) rewrite (bnt_generic _ e0) in H0. simpl in H1. rewrite e0 in H1. simpl in H1.
    apply andb_true_iff in H1. destruct H1 as [Hs Hv].
    simpl. rewrite (pruned_not_fn_dict _ _ _ e1 Hs). simpl. auto.
  - (* Ref *) eapply do_ref_nofn; eauto.
  - rewrite bnt_join in H1. discriminate.
  - rewrite bnt_split in H1. discriminate.
  - (* Select *) rewrite bnt_select in H1. rewrite (fka_single _ _ F5) in H2. simpl in H2. rewrite andb_true_r in H2.
    apply andb_true_iff in H2. destruct H2 as [Hi Hl]. eapply do_select_nofn; [apply H0; assumption | eassumption].
  - rewrite bnt_find_in_map in H2. discriminate.
  - rewrite bnt_sub in H. discriminate.
  - rewrite bnt_sub in H0. discriminate.
  - rewrite bnt_base64 in H0. discriminate.
  - (* If, true *) rewrite bnt_if in H0. apply andb_true_iff in H0. destruct H0 as [Hbt Hbf].
    rewrite (fka_single _ _ F9) in H1. simpl in H1. rewrite !andb_true_r in H1.
    apply andb_true_iff in H1. destruct H1 as [Ht Hf]. apply H; assumption.
  - (* If, false *) rewrite bnt_if in H0. apply andb_true_iff in H0. destruct H0 as [Hbt Hbf].
    rewrite (fka_single _ _ F9) in H1. simpl in H1. rewrite !andb_true_r in H1.
    apply andb_true_iff in H1. destruct H1 as [Ht Hf]. apply H; assumption.
  - (* EL_keep *) simpl in H1, H2. apply andb_true_iff in H1, H2. destruct H1, H2. simpl. rewrite H by assumption. simpl. auto.
  - (* EL_drop *) simpl in H1, H2. apply andb_true_iff in H1, H2. destruct H1, H2. auto.
  - (* ED_keep *) simpl in H1, H2. apply andb_true_iff in H1, H2. destruct H1, H2. simpl. rewrite H by assumption. simpl. auto.
  - (* ED_drop *) simpl in H1, H2. apply andb_true_iff in H1, H2. destruct H1, H2. auto.
Qed.

Theorem fragment_no_function_left e v r : params_plainb (params e) = true ->
  fn_keys_alone v = true -> builds_no_text v = true -> resolve e v = Ok r -> no_fn_dict r = true.
Proof.
  intros Hp Hf Hb H. apply resolve_iff_eval in H.
  exact (proj1 (fragment_no_fn e (params_plainb_plain e Hp)) v r H Hb Hf).
Qed.

(* resolve(resolve(v)) = resolve(v) for the fragment: nothing is assumed about the result *)
Theorem fragment_fixed_point e v r : params_rendered (params e) = true -> params_plainb (params e) = true ->
  fn_keys_alone v = true -> builds_no_text v = true -> resolve e v = Ok r -> resolve e r = Ok r.
Proof.
  intros Hr Hp Hf Hb H. apply rendered_fixed_point.
  - exact (fragment_no_function_left e v r Hp Hf Hb H).
  - exact (resolve_rendered e v r Hr Hb H).
Qed.

(* ------------------------------------------------------------------------------------------------------------------ *)
(* 5. the MODEL: m.resolve(p).resolve(p) == m.resolve(p), hypotheses on the template only                             *)
(* ------------------------------------------------------------------------------------------------------------------ *)
(* the Type of a resource and the NAME in its Condition attribute are put back literally after resolution ([keep_type]): they
   must be texts that rendering leaves alone (and not the AWS::NoValue marker, which is pruned) *)
Definition literal_ok (ps : list (str * value)) (t : str) : bool :=
  str_eqb (render_str ps t) t && negb (str_eqb t S_NOVALUE).
(* a resource of the fragment: an object with distinct keys that is not a function object ([resource_wf]), every member in
   the fragment, a textual Type, literal Type / Condition name.  The Condition attribute needs no anchor here: the Type stays. *)
Definition resource_in_fragment (ps : list (str * value)) (r : value) : bool :=
  resource_wf ps r &&
  match r with
  | VDict fields =>
      forallb (fun kv => fn_keys_alone (snd kv) && builds_no_text (snd kv)) fields
      && match lookup K_Type fields with Some (VStr t) => literal_ok ps t | _ => false end
      && match lookup K_Condition fields with Some (VStr c) => literal_ok ps c | _ => true end
  | _ => false
  end.

Lemma set_key_forallb (P : str * value -> bool) k v d :
  P (k, v) = true -> forallb P d = true -> forallb P (set_key k v d) = true.
Proof.
  intros Hv. induction d as [|[k' x] d IH]; simpl; intros H.
  - rewrite Hv. reflexivity.
  - apply andb_true_iff in H. destruct H as [Hx Hd]. destruct (str_eqb k k') eqn:E; simpl.
    + apply str_eqb_spec in E. subst k'. rewrite Hv, Hd. reflexivity.
    + rewrite Hx, (IH Hd). reflexivity.
Qed.
Lemma set_key_has k v d : In k (keys (set_key k v d)).
Proof.
  induction d as [|[k' x] d IH]; simpl; [left; reflexivity|].
  destruct (str_eqb k k') eqn:E; simpl; [apply str_eqb_spec in E; left; congruence | right; exact IH].
Qed.
Lemma set_key_keeps k k0 v d : In k0 (keys d) -> In k0 (keys (set_key k v d)).
Proof.
  induction d as [|[k' x] d IH]; simpl; [tauto|].
  destruct (str_eqb k k'); simpl; intros [H|H]; auto.
Qed.
Lemma keep_key_keeps k k0 o d : In k0 (keys d) -> In k0 (keys (keep_key k o d)).
Proof. intros H. unfold keep_key. destruct (lookup k o) as [[| | | t | | | |]|]; try exact H. apply set_key_keeps. exact H. Qed.
Lemma keep_key_forallb (P : str * value -> bool) k o d :
  (forall t, lookup k o = Some (VStr t) -> P (k, VStr t) = true) -> forallb P d = true -> forallb P (keep_key k o d) = true.
Proof.
  intros Hv H. unfold keep_key. destruct (lookup k o) as [[| | | t | | | |]|]; try exact H.
  apply set_key_forallb; [apply Hv; reflexivity | exact H].
Qed.
Lemma has_type_not_fn_dict d : In K_Type (keys d) -> is_fn_dict d = false.
Proof.
  destruct d as [|[k v] [|? ?]]; try reflexivity. simpl. intros [H|[]]. subst k. vm_compute. reflexivity.
Qed.

(* what [keep_type] gives back is still rendered and function-free *)
Lemma keep_type_fragment ps fields d' t :
  lookup K_Type fields = Some (VStr t) -> literal_ok ps t = true ->
  match lookup K_Condition fields with Some (VStr c) => literal_ok ps c | _ => true end = true ->
  forallb (fun kv => rendered ps (snd kv) && negb (is_novalue (snd kv))) d' = true ->
  forallb (fun kv => no_fn_dict (snd kv)) d' = true ->
  rendered ps (keep_type (VDict fields) (VDict d')) = true /\ no_fn_dict (keep_type (VDict fields) (VDict d')) = true.
Proof.
  intros Ht Hlt Hlc Hr Hn. cbn [keep_type]. split.
  - cbn [rendered]. apply keep_key_forallb.
    + intros c Hc. rewrite Hc in Hlc. exact Hlc.
    + apply keep_key_forallb; [|exact Hr]. intros t' Ht'. rewrite Ht in Ht'. inv Ht'. exact Hlt.
  - cbn [no_fn_dict]. apply andb_true_iff. split.
    + apply negb_true_iff. apply has_type_not_fn_dict. apply keep_key_keeps.
      unfold keep_key. rewrite Ht. apply set_key_has.
    + apply keep_key_forallb; [reflexivity|]. apply keep_key_forallb; [reflexivity | exact Hn].
Qed.

(* the members of a resolved object of the fragment *)
Lemma rdict_fragment e : params_rendered (params e) = true -> params_plainb (params e) = true ->
  forall d d', forallb (fun kv => fn_keys_alone (snd kv) && builds_no_text (snd kv)) d = true -> rdict e d = Ok d' ->
  forallb (fun kv => rendered (params e) (snd kv) && negb (is_novalue (snd kv))) d' = true /\
  forallb (fun kv => no_fn_dict (snd kv)) d' = true.
Proof.
  intros Hr Hp. induction d as [|[k x] d IH]; intros d' Hd H; simpl in H.
  - inv H. split; reflexivity.
  - cbn [forallb snd] in Hd. apply andb_true_iff in Hd. destruct Hd as [Hx Hd]. apply andb_true_iff in Hx. destruct Hx as [Hf Hb].
    destruct (resolve e x) as [x'|] eqn:Ex; cbn [bind] in H; [|discriminate].
    match type of H with bind ?g _ = _ => destruct g as [xs'|] eqn:Exs end; cbn [bind] in H; [|discriminate]. inv H.
    destruct (IH xs' Hd eq_refl) as [IH1 IH2]. destruct (is_novalue x') eqn:En; [split; assumption|].
    cbn [forallb snd]. rewrite (resolve_rendered e x x' Hr Hb Ex), En, (fragment_no_function_left e x x' Hp Hf Hb Ex).
    split; assumption.
Qed.

Lemma resolve_resource_fragment e r r' : params_rendered (params e) = true -> params_plainb (params e) = true ->
  resource_in_fragment (params e) r = true -> resolve_resource e r = Ok r' ->
  no_fn_dict r' = true /\ rendered (params e) r' = true.
Proof.
  intros Hr Hp Hf H. unfold resource_in_fragment in Hf. apply andb_true_iff in Hf. destruct Hf as [Hwf Hf].
  destruct r as [| | | | | | |fields]; try discriminate.
  apply andb_true_iff in Hf. destruct Hf as [Hf Hlc]. apply andb_true_iff in Hf. destruct Hf as [Hm Hlt].
  unfold resource_wf in Hwf. apply andb_true_iff in Hwf. destruct Hwf as [Hnf _]. apply negb_true_iff in Hnf.
  unfold resolve_resource in H. rewrite (resolve_dict_generic e fields Hnf) in H.
  destruct (rdict e fields) as [d'|] eqn:Ed; cbn [bind] in H; [|discriminate]. inv H.
  destruct (rdict_fragment e Hr Hp fields d' Hm Ed) as [H1 H2].
  destruct (lookup K_Type fields) as [[| | | t | | | |]|] eqn:Et; try discriminate.
  destruct (keep_type_fragment (params e) fields d' t Et Hlt Hlc H1 H2) as [G1 G2]. split; assumption.
Qed.

(* THE MODEL-LEVEL FIXED POINT FOR THE FRAGMENT.  Hypotheses: on the bound parameters, and on the resources of the TEMPLATE that
   are kept (their gate is open under the resolved conditions [cs]); nothing about the result, the conditions, the dropped
   resources, the Mappings. *)
Theorem fragment_model_fixed_point pseudo decls extra maps cdecl rs ps cs rs' :
  bind_params pseudo decls extra = Ok ps ->
  resolve_model pseudo decls extra maps cdecl rs = Ok (model_out cs rs') ->
  params_rendered ps = true -> params_plainb ps = true ->
  (forall id r, In (id, r) rs -> gate_open (cond_bools cs) r = true -> resource_in_fragment ps r = true) ->
  resolve_model pseudo decls extra maps cs rs' = Ok (model_out cs rs').
Proof.
  intros Hps H1 Hr Hp Hres. apply (resolve_model_twice _ _ _ _ _ _ _ _ _ Hps H1).
  - intros id r' Hin. destruct (resolve_model_inv _ _ _ _ _ _ _ _ _ Hps H1) as (resolved & Hc & -> & Hrs).
    rewrite cond_bools_of_values in Hres.
    destruct (resolve_resources_In _ _ _ _ Hrs id r' Hin) as (r & Hin0 & Hg & Hrr).
    specialize (Hres id r Hin0 (proj2 (gate_open_iff _ _) Hg)).
    exact (resolve_resource_fragment {| params := ps; mappings := maps; conds := conds_fun resolved |} r r' Hr Hp Hres Hrr).
  - intros id r Hin Hg. specialize (Hres id r Hin Hg). unfold resource_in_fragment in Hres.
    apply andb_true_iff in Hres. tauto.
Qed.
(* the same with the resource hypothesis a boolean over the template alone (all resources, kept or not) *)
Corollary fragment_model_fixed_point_b pseudo decls extra maps cdecl rs ps cs rs' :
  bind_params pseudo decls extra = Ok ps ->
  resolve_model pseudo decls extra maps cdecl rs = Ok (model_out cs rs') ->
  params_rendered ps = true -> params_plainb ps = true ->
  forallb (fun kv => resource_in_fragment ps (snd kv)) rs = true ->
  resolve_model pseudo decls extra maps cs rs' = Ok (model_out cs rs').
Proof.
  intros Hps H1 Hr Hp Hres. apply (fragment_model_fixed_point _ _ _ _ _ _ _ _ _ Hps H1 Hr Hp).
  intros id r Hin _. rewrite forallb_forall in Hres. exact (Hres _ Hin).
Qed.

(* ------------------------------------------------------------------------------------------------------------------ *)
(* 6. the hypotheses hold on a realistic environment; each is needed                                                  *)
(* ------------------------------------------------------------------------------------------------------------------ *)
(* AWS::Region = us-east-1, AWS::AccountId = 123456789012, Env = "True" (an ORDINARY parameter may be unrendered: Ref lower-cases
   it), Subnets = [subnet-a, subnet-b], Ratio = 1.5 (a float atom), and the SSM value /cfg/ami:3 = ami-0abc *)
Definition s_ssm_ami : str := [47;99;102;103;47;97;109;105;58;51].
Definition ps_real : list (str * value) :=
  [([65;87;83;58;58;82;101;103;105;111;110], VStr [117;115;45;101;97;115;116;45;49]);
   ([65;87;83;58;58;65;99;99;111;117;110;116;73;100], VStr [49;50;51;52;53;54;55;56;57;48;49;50]);
   ([69;110;118], VStr S_True);
   ([83;117;98;110;101;116;115], VList [VStr [115;117;98;110;101;116;45;97]; VStr [115;117;98;110;101;116;45;98]]);
   ([82;97;116;105;111], VTyped KFloat [49;46;53]);
   (s_ssm_ami, VStr [97;109;105;45;48;97;98;99])].
Definition e_real : env := {| params := ps_real; mappings := []; conds := fun _ => Ok true |}.
(* {"A": {"Ref": "Env"}, "B": {"Fn::If": ["c", {"Ref": "Subnets"}, {"Ref": "AWS::NoValue"}]}, "C": "{{resolve:ssm:/cfg/ami:3}}",
    "D": {"Fn::Select": ["1", {"Ref": "Subnets"}]}, "E": [true, 7, 1.5, {"Fn::GetAtt": ["x", "Arn"]}, {"Ref": "Missing"}]} *)
Definition v_real : value :=
  VDict [([65], VDict [(K_Ref, VStr [69;110;118])]);
         ([66], VDict [(K_If, VList [VStr [99]; VDict [(K_Ref, VStr [83;117;98;110;101;116;115])]; VDict [(K_Ref, VStr S_NOVALUE)]])]);
         ([67], VStr (S_SSM_PREFIX ++ s_ssm_ami ++ [125;125]));
         ([68], VDict [(K_Select, VList [VStr [49]; VDict [(K_Ref, VStr [83;117;98;110;101;116;115])]])]);
         ([69], VList [VBool true; VInt 7; VTyped KFloat [49;46;53]; VDict [(K_GetAtt, VList [VStr [120]; VStr [65;114;110]])];
                       VDict [(K_Ref, VStr [77;105;115;115;105;110;103])]])].
Example env_hyps_hold :
  params_rendered ps_real = true /\ params_plainb ps_real = true /\
  fn_keys_alone v_real = true /\ builds_no_text v_real = true /\
  exists r, resolve e_real v_real = Ok r /\ r <> v_real /\ resolve e_real r = Ok r.
Proof.
  split; [vm_compute; reflexivity|]. split; [vm_compute; reflexivity|]. split; [vm_compute; reflexivity|].
  split; [vm_compute; reflexivity|]. eexists. split; [vm_compute; reflexivity|].
  split; [discriminate | vm_compute; reflexivity].
Qed.

(* (1) of [params_rendered] is needed: the value fetched by an SSM reference is returned as it is.  "/p:1" = "TRUE": the plain
   text leaf "{{resolve:ssm:/p:1}}" resolves to "TRUE", which is not rendered, and a second resolution gives "true". *)
Definition ps_ssm_TRUE : list (str * value) := [([47;112;58;49], VStr [84;82;85;69])].
Definition e_ssm_TRUE : env := {| params := ps_ssm_TRUE; mappings := []; conds := fun _ => Ok true |}.
Definition v_ssm_ref : value := VStr (S_SSM_PREFIX ++ [47;112;58;49;125;125]).
Example ssm_value_must_be_rendered :
  params_rendered ps_ssm_TRUE = false /\ builds_no_text v_ssm_ref = true /\
  resolve e_ssm_TRUE v_ssm_ref = Ok (VStr [84;82;85;69]) /\ rendered ps_ssm_TRUE (VStr [84;82;85;69]) = false /\
  resolve e_ssm_TRUE (VStr [84;82;85;69]) = Ok (VStr S_true).
Proof. repeat split; vm_compute; reflexivity. Qed.
(* the same value under an ordinary name is harmless: the hypothesis looks at SSM-shaped names only *)
Example ordinary_TRUE_is_fine :
  params_rendered [([80], VStr [84;82;85;69])] = true /\
  resolve {| params := [([80], VStr [84;82;85;69])]; mappings := []; conds := fun _ => Ok true |} (VDict [(K_Ref, VStr [80])])
    = Ok (VStr S_true).
Proof. split; vm_compute; reflexivity. Qed.
(* (2) of [params_rendered] is needed: a typed atom in a parameter value is rendered as its text, as it is *)
Example atom_in_parameter_must_be_rendered :
  params_rendered [([80], VTyped KFloat [84;82;85;69])] = false /\
  resolve {| params := [([80], VTyped KFloat [84;82;85;69])]; mappings := []; conds := fun _ => Ok true |} (VDict [(K_Ref, VStr [80])])
    = Ok (VStr [84;82;85;69]).
Proof. split; vm_compute; reflexivity. Qed.
(* [params_plainb] is needed (no function left): pruning AWS::NoValue inside an object-valued parameter can leave a function object *)
Definition ps_objparam : list (str * value) := [([80], VDict [(K_Ref, VStr [120]); ([121], VStr S_NOVALUE)])].
Example object_parameter_breaks_no_fn :
  params_plainb ps_objparam = false /\ params_rendered ps_objparam = true /\
  exists r, resolve {| params := ps_objparam; mappings := []; conds := fun _ => Ok true |} (VDict [(K_Ref, VStr [80])]) = Ok r /\
            no_fn_dict r = false.
Proof. split; [vm_compute; reflexivity|]. split; [vm_compute; reflexivity|]. eexists. split; vm_compute; reflexivity. Qed.

(* ------------------------------------------------------------------------------------------------------------------ *)
(* 7. the boundary of the fragment is tight: one witness per excluded construct, using that construct and literals only; *)
(*    each result is NOT rendered and a second resolution CHANGES it                                                  *)
(* ------------------------------------------------------------------------------------------------------------------ *)
Definition not_fixed (e : env) (v : value) : Prop :=
  builds_no_text v = false /\
  exists r r2, resolve e v = Ok r /\ rendered (params e) r = false /\ resolve e r = Ok r2 /\ r2 <> r.
Ltac boundary := split; [vm_compute; reflexivity|]; eexists; eexists; split; [vm_compute; reflexivity|];
  split; [vm_compute; reflexivity|]; split; [vm_compute; reflexivity | discriminate].

Definition s_TRUE : str := [84;82;85;69].
(* {"Fn::Join": ["", ["TR", "UE"]]} -> "TRUE" -> "true" *)
Example boundary_join : not_fixed e_empty join_TR_UE.
Proof. boundary. Qed.
(* {"Fn::Sub": ["${A}${B}", {"A": "TR", "B": "UE"}]} -> "TRUE" -> "true" *)
Definition sub_TR_UE : value :=
  VDict [(K_Sub, VList [VStr [36;123;65;125;36;123;66;125]; VDict [([65], VStr [84;82]); ([66], VStr [85;69])]])].
Example boundary_sub : not_fixed e_empty sub_TR_UE.
Proof. boundary. Qed.
(* {"Fn::Split": [",", "TRUE,x"]} -> ["TRUE", "x"] -> ["true", "x"] *)
Definition split_TRUE_x : value := VDict [(K_Split, VList [VStr [44]; VStr [84;82;85;69;44;120]])].
Example boundary_split : not_fixed e_empty split_TRUE_x.
Proof. boundary. Qed.
(* Mappings {"M": {"a": {"b": "TRUE"}}};  {"Fn::FindInMap": ["M", "a", "b"]} -> "TRUE" -> "true"   (F14b) *)
Definition e_map_TRUE : env :=
  {| params := []; mappings := [([77], VDict [([97], VDict [([98], VStr s_TRUE)])])]; conds := fun _ => Ok false |}.
Definition find_TRUE : value := VDict [(K_FindInMap, VList [VStr [77]; VStr [97]; VStr [98]])].
Example boundary_find_in_map : not_fixed e_map_TRUE find_TRUE.
Proof. boundary. Qed.
(* {"Fn::Base64": "M\u0015\u0004"} -> "TRUE" (the base64 text of the bytes 4D 15 04) -> "true" *)
Definition base64_TRUE : value := VDict [(K_Base64, VStr [77;21;4])].
Example boundary_base64 : not_fixed e_empty base64_TRUE.
Proof. boundary. Qed.
(* the bytes 4D 15 04 as a leaf: rendered as their base64 text "TRUE" -> "true" *)
Example boundary_bytes : not_fixed e_empty (VBytes [77;21;4]).
Proof. boundary. Qed.
(* a typed atom whose text is not plain (no float / date / network prints like this; the model's atoms carry any text) *)
Example boundary_typed : not_fixed e_empty (VTyped KFloat s_TRUE).
Proof. boundary. Qed.
(* a condition function in a value position: {"Fn::Equals": ["a", "a"]} -> True (a Python bool) -> "true" *)
Definition equals_a_a : value := VDict [(K_Equals, VList [VStr [97]; VStr [97]])].
Example boundary_condition_function : not_fixed e_empty equals_a_a.
Proof. boundary. Qed.
Example boundary_condition_functions_all :
  not_fixed e_empty (VDict [(K_Condition, VStr [99])]) /\ not_fixed e_empty (VDict [(K_And, VList [VStr S_true])]) /\
  not_fixed e_empty (VDict [(K_Or, VList [VStr S_true])]) /\ not_fixed e_empty (VDict [(K_Not, VList [VStr S_true])]).
Proof. split; [boundary|]. split; [boundary|]. split; boundary. Qed.
(* Fn::Select is INSIDE the fragment: it builds nothing, it returns a member of an already resolved list.  It only passes on what
   an excluded construct built: {"Fn::Select": ["0", {"Fn::Split": [",", "TRUE,x"]}]} -> "TRUE" *)
Example select_only_passes_on :
  builds_no_text (VDict [(K_Select, VList [VStr [48]; VList [VStr s_TRUE; VStr [120]]])]) = true /\
  resolve e_empty (VDict [(K_Select, VList [VStr [48]; VList [VStr s_TRUE; VStr [120]]])]) = Ok (VStr S_true) /\
  not_fixed e_empty (VDict [(K_Select, VList [VStr [48]; split_TRUE_x])]).
Proof. split; [vm_compute; reflexivity|]. split; [vm_compute; reflexivity|]. boundary. Qed.

(* ---- the model-level theorem applies to the template of ModelFix.v (parameter E, conditions IsP / NotP, three resources with
        Ref and Fn::If, one of them dropped): every hypothesis is a computation on the template ---- *)
Example fragment_model_ex :
  exists ps,
    bind_params [] ex_decls [] = Ok ps /\ params_rendered ps = true /\ params_plainb ps = true /\
    forallb (fun kv => resource_in_fragment ps (snd kv)) ex_rs = true /\
    resolve_model [] ex_decls [] [] ex_cdecl ex_rs = Ok (model_out ex_cs ex_rs').
Proof. eexists. split; [vm_compute; reflexivity|]. repeat split; vm_compute; reflexivity. Qed.
