(* C07, "adding unused parameters, mappings or conditions changes nothing" -- with the SEMANTIC notion of unused.

   [resolve_tr] is [resolve] (Resolver/Resolve.v) instrumented with the list of environment accesses it makes:
     AParam k   every  lookup k (params e) : Ref / Fn::ImportValue (do_ref), a Fn::Sub placeholder that is not bound by the
                expression's own variable map (render_var), and the key of a "{{resolve:ssm:NAME:VERSION}}" string, wherever
                such a string is rendered: a leaf of the expression, a leaf of a parameter VALUE that Ref / Fn::Sub insert
                (normalize), a leaf of a Fn::Sub variable value;
     AMap m     every  lookup m (mappings e) : Fn::FindInMap;
     ACond n    every  conds e n             : Condition, Fn::If.
   The trace is produced on error runs too (the accesses made until the exception).

   What is proved:
     resolve_tr_result        fst (resolve_tr e v) = resolve e v
     resolve_tr_frame         two environments that agree on every access of  snd (resolve_tr e v)  give the same result AND
                              the same trace (so the relation is symmetric)
     unused_ext               the same with the three hypotheses spelled out
     add_unused_parameter / add_unused_parameter_anywhere / add_unused_mapping(_anywhere) / add_unused_condition
     remove_unused_parameter  (the converse direction: deleting a binding that is never read)
     ex_computed_name         a name can be COMPUTED: {"Ref": {"Fn::Join": ["", ["a", "b"]]}} reads parameter "ab"
     syn_trace_sound          a syntactic over-approximation of the parameter names read, for the fragment where names are
                              not computed ([literal_names v = true]); unmentioned_parameter_unused: there, a text that
                              occurs in no string of v and of the parameter values is not read
     template level:          cond_val_frame (conditions, with the accesses of the conditions they refer to, transitively),
                              resolve_resources_frame, add_unused_declaration (the whole [resolve_model]). *)
From Coq Require Import List Bool NArith ZArith Lia.
From PV Require Import Base.Str Base.Value Resolver.Consts Resolver.Text Resolver.Resolve Resolver.Spec Resolver.Ext
  Resolver.Template Resolver.ParamFacts.
Import ListNotations.
Local Open Scope N_scope.

(* ================= 1. traces ================= *)
Inductive access := AParam (k : str) | AMap (k : str) | ACond (k : str).
Definition trace := list access.
Definition tres (A : Type) : Type := (res A * trace)%type.
Definition tpure {A} (r : res A) : tres A := (r, []).
(* [t] happens, then [r] *)
Definition tlog {A} (t : trace) (r : tres A) : tres A := (fst r, t ++ snd r).
Definition tbind {A B} (r : tres A) (f : A -> tres B) : tres B :=
  match r with
  | (Ok a, t) => let p := f a in (fst p, t ++ snd p)
  | (Err e, t) => (Err e, t)                 (* the exception stops the walk; the accesses made so far stay *)
  end.
Notation "x <~~ r ;; k" := (tbind r (fun x => k)) (at level 61, r at next level, right associativity).

(* ---- leaves: the only access is the SSM key, and it does not depend on the environment ---- *)
Definition ssm_trace (s : str) : trace := match ssm_key s with Some key => [AParam key] | None => [] end.

(* ---- a parameter value being rendered ---- *)
Fixpoint normalize_tr (ps : list (str * value)) (v : value) {struct v} : tres value :=
  match v with
  | VList l =>
      l' <~~ (fix go (l : list value) : tres (list value) :=
                match l with
                | [] => tpure (Ok [])
                | x :: xs => x' <~~ normalize_tr ps x ;; xs' <~~ go xs ;;
                             tpure (Ok (if is_novalue x' then xs' else x' :: xs'))
                end) l ;;
      tpure (Ok (VList l'))
  | VDict d =>
      if is_fn_dict d then tpure (Err EUndefined) else
      d' <~~ (fix go (d : list (str * value)) : tres (list (str * value)) :=
                match d with
                | [] => tpure (Ok [])
                | (k, x) :: xs => x' <~~ normalize_tr ps x ;; xs' <~~ go xs ;;
                                  tpure (Ok (if is_novalue x' then xs' else (k, x') :: xs'))
                end) d ;;
      tpure (Ok (VDict d'))
  | VNull => tpure (Ok VNull)
  | VBool b => tpure (Ok (VStr (bool_text b)))
  | VInt z => tpure (Ok (VStr (str_of_Z z)))
  | VStr s => (Ok (VStr (render_str ps s)), ssm_trace s)
  | VTyped _ t => tpure (Ok (VStr t))
  | VBytes b => tpure (Ok (VStr (b64encode b)))
  end.

Definition do_ref_tr (e : env) (b : value) : tres value :=
  match b with
  | VStr s =>
      tlog [AParam s]
        match lookup s (params e) with
        | Some x => normalize_tr (params e) x
        | None => tpure (Ok (VStr (undefined_param s)))
        end
  | VList _ | VDict _ => tpure (Err EType)
  | _ => tpure (Err EUndefined)
  end.

Definition do_find_in_map_tr (e : env) (m k1 k2 : value) : tres value :=
  (do_find_in_map e m k1 k2,
   match m, k1, k2 with VStr ms, VStr _, VStr _ => [AMap ms] | _, _, _ => [] end).

Definition as_text (x : value) : res str := match x with VStr s => Ok s | _ => Err EUndefined end.
Definition render_var_tr (e : env) (custom : list (str * value)) (name : str) : tres str :=
  match lookup name custom with
  | Some x => x' <~~ normalize_tr (params e) x ;; tpure (as_text x')
  | None =>
      tlog [AParam name]
        match lookup name (params e) with
        | Some x => x' <~~ normalize_tr (params e) x ;; tpure (as_text x')
        | None => tpure (Ok (36 :: 123 :: name ++ [125]))
        end
  end.
Definition render_tok_tr (e : env) (custom : list (str * value)) (t : stok) : tres str :=
  match t with
  | TText c => tpure (Ok [c])
  | TBang name => tpure (Ok (36 :: 123 :: name ++ [125]))
  | TVar name => render_var_tr e custom name
  end.
Fixpoint render_toks_tr (e : env) (custom : list (str * value)) (ts : list stok) : tres str :=
  match ts with
  | [] => tpure (Ok [])
  | t :: r => a <~~ render_tok_tr e custom t ;; b <~~ render_toks_tr e custom r ;; tpure (Ok (a ++ b))
  end.
Definition do_sub_tr (e : env) (text : str) (custom : list (str * value)) : tres value :=
  s <~~ render_toks_tr e custom (sub_tokens text) ;; tpure (Ok (VStr s)).

(* ---- the instrumented resolver: same shape as [resolve], line by line ---- *)
Fixpoint resolve_tr (e : env) (v : value) {struct v} : tres value :=
  match v with
  | VList l =>
      l' <~~ (fix go (l : list value) : tres (list value) :=
                match l with
                | [] => tpure (Ok [])
                | x :: xs => x' <~~ resolve_tr e x ;; xs' <~~ go xs ;;
                             tpure (Ok (if is_novalue x' then xs' else x' :: xs'))
                end) l ;;
      tpure (Ok (VList l'))
  | VDict d =>
      let generic := fun _ : unit =>
        d' <~~ (fix go (d : list (str * value)) : tres (list (str * value)) :=
                  match d with
                  | [] => tpure (Ok [])
                  | (k, x) :: xs => x' <~~ resolve_tr e x ;; xs' <~~ go xs ;;
                                    tpure (Ok (if is_novalue x' then xs' else (k, x') :: xs'))
                  end) d ;;
        tpure (Ok (VDict d')) in
      match d with
      | [(k, body)] =>
          if str_eqb k K_Ref || str_eqb k K_ImportValue then
            b <~~ resolve_tr e body ;; do_ref_tr e b
          else if str_eqb k K_Join then
            match body with
            | VList [dl; l] => d' <~~ resolve_tr e dl ;; l' <~~ resolve_tr e l ;; tpure (do_join d' l')
            | VList _ => tpure (Err EValue)
            | _ => tpure (Err EUndefined)
            end
          else if str_eqb k K_Split then
            match body with
            | VList [dl; s] => d' <~~ resolve_tr e dl ;; s' <~~ resolve_tr e s ;; tpure (do_split d' s')
            | VList _ => tpure (Err EValue)
            | _ => tpure (Err EUndefined)
            end
          else if str_eqb k K_Select then
            match body with
            | VList [i; l] => i' <~~ resolve_tr e i ;; l' <~~ resolve_tr e l ;; tpure (do_select i' l')
            | VList _ => tpure (Err EValue)
            | _ => tpure (Err EUndefined)
            end
          else if str_eqb k K_FindInMap then
            match body with
            | VList [m; k1; k2] =>
                m' <~~ resolve_tr e m ;; k1' <~~ resolve_tr e k1 ;; k2' <~~ resolve_tr e k2 ;;
                do_find_in_map_tr e m' k1' k2'
            | VList _ => tpure (Err EValue)
            | _ => tpure (Err EUndefined)
            end
          else if str_eqb k K_Sub then
            match body with
            | VStr text => do_sub_tr e text []
            | VList [VStr text; vars] =>
                cv <~~ resolve_tr e vars ;;
                match cv with VDict custom => do_sub_tr e text custom | _ => tpure (Err EUndefined) end
            | VList [_; _] => tpure (Err EUndefined)
            | VList _ => tpure (Err EValue)
            | _ => tpure (Err EUndefined)
            end
          else if str_eqb k K_Base64 then
            b <~~ resolve_tr e body ;; tpure (do_base64 b)
          else if str_eqb k K_GetAtt then tpure (Ok (VStr S_GETATT))
          else if str_eqb k K_GetAZs then tpure (Ok (VStr S_GETAZS))
          else if str_eqb k K_Condition then
            match body with
            | VStr name => tlog [ACond name] (tpure (b <- conds e name ;; Ok (VBool b)))
            | _ => tpure (Err EUndefined)
            end
          else if str_eqb k K_If then
            match body with
            | VList [VStr c; t; f] =>
                tlog [ACond c] (b <~~ tpure (conds e c) ;; if b then resolve_tr e t else resolve_tr e f)
            | VList [_; _; _] => tpure (Err EUndefined)
            | VList _ => tpure (Err EValue)
            | _ => tpure (Err EUndefined)
            end
          else if str_eqb k K_And then
            match body with
            | VList parts =>
                b <~~ (fix all_go (l : list value) : tres bool :=
                         match l with
                         | [] => tpure (Ok true)
                         | x :: xs => r <~~ resolve_tr e x ;; b <~~ tpure (ext_bool r) ;;
                                      if b then all_go xs else tpure (Ok false)
                         end) parts ;;
                tpure (Ok (VBool b))
            | _ => tpure (Err EUndefined)
            end
          else if str_eqb k K_Or then
            match body with
            | VList parts =>
                b <~~ (fix any_go (l : list value) : tres bool :=
                         match l with
                         | [] => tpure (Ok false)
                         | x :: xs => r <~~ resolve_tr e x ;; b <~~ tpure (ext_bool r) ;;
                                      if b then tpure (Ok true) else any_go xs
                         end) parts ;;
                tpure (Ok (VBool b))
            | _ => tpure (Err EUndefined)
            end
          else if str_eqb k K_Not then
            match body with
            | VList (x :: _) => r <~~ resolve_tr e x ;; tpure (b <- ext_bool r ;; Ok (VBool (negb b)))
            | VList [] => tpure (Err EIndex)
            | _ => tpure (Err EUndefined)
            end
          else if str_eqb k K_Equals then
            match body with
            | VList [a; b] => a' <~~ resolve_tr e a ;; b' <~~ resolve_tr e b ;; tpure (r <- py_eq a' b' ;; Ok (VBool r))
            | VList _ => tpure (Err EValue)
            | _ => tpure (Err EUndefined)
            end
          else generic tt
      | _ => generic tt
      end
  | VNull => tpure (Ok VNull)
  | VBool b => tpure (Ok (VStr (bool_text b)))
  | VInt z => tpure (Ok (VStr (str_of_Z z)))
  | VStr s => (Ok (VStr (render_str (params e) s)), ssm_trace s)
  | VTyped _ t => tpure (Ok (VStr t))
  | VBytes b => tpure (Ok (VStr (b64encode b)))
  end.

(* the accesses made while resolving [v] in [e] *)
Definition trace_of (e : env) (v : value) : trace := snd (resolve_tr e v).

(* ---- the inner loops, named ---- *)
Definition tr_nlist (ps : list (str * value)) : list value -> tres (list value) :=
  fix go (l : list value) : tres (list value) :=
    match l with
    | [] => tpure (Ok [])
    | x :: xs => x' <~~ normalize_tr ps x ;; xs' <~~ go xs ;; tpure (Ok (if is_novalue x' then xs' else x' :: xs'))
    end.
Definition tr_ndict (ps : list (str * value)) : list (str * value) -> tres (list (str * value)) :=
  fix go (d : list (str * value)) : tres (list (str * value)) :=
    match d with
    | [] => tpure (Ok [])
    | (k, x) :: xs => x' <~~ normalize_tr ps x ;; xs' <~~ go xs ;; tpure (Ok (if is_novalue x' then xs' else (k, x') :: xs'))
    end.
Definition tlist (e : env) : list value -> tres (list value) :=
  fix go (l : list value) : tres (list value) :=
    match l with
    | [] => tpure (Ok [])
    | x :: xs => x' <~~ resolve_tr e x ;; xs' <~~ go xs ;; tpure (Ok (if is_novalue x' then xs' else x' :: xs'))
    end.
Definition tdict (e : env) : list (str * value) -> tres (list (str * value)) :=
  fix go (d : list (str * value)) : tres (list (str * value)) :=
    match d with
    | [] => tpure (Ok [])
    | (k, x) :: xs => x' <~~ resolve_tr e x ;; xs' <~~ go xs ;; tpure (Ok (if is_novalue x' then xs' else (k, x') :: xs'))
    end.
Definition tall (e : env) : list value -> tres bool :=
  fix all_go (l : list value) : tres bool :=
    match l with
    | [] => tpure (Ok true)
    | x :: xs => r <~~ resolve_tr e x ;; b <~~ tpure (ext_bool r) ;; if b then all_go xs else tpure (Ok false)
    end.
Definition tany (e : env) : list value -> tres bool :=
  fix any_go (l : list value) : tres bool :=
    match l with
    | [] => tpure (Ok false)
    | x :: xs => r <~~ resolve_tr e x ;; b <~~ tpure (ext_bool r) ;; if b then tpure (Ok true) else any_go xs
    end.
Definition nlist0 (ps : list (str * value)) : list value -> res (list value) :=
  fix go (l : list value) : res (list value) :=
    match l with
    | [] => Ok []
    | x :: xs => x' <- normalize ps x ;; xs' <- go xs ;; Ok (if is_novalue x' then xs' else x' :: xs')
    end.
Definition ndict0 (ps : list (str * value)) : list (str * value) -> res (list (str * value)) :=
  fix go (d : list (str * value)) : res (list (str * value)) :=
    match d with
    | [] => Ok []
    | (k, x) :: xs => x' <- normalize ps x ;; xs' <- go xs ;; Ok (if is_novalue x' then xs' else (k, x') :: xs')
    end.

(* ---- unfolding equations ---- *)
Lemma nt_list ps l : normalize_tr ps (VList l) = (l' <~~ tr_nlist ps l ;; tpure (Ok (VList l'))).
Proof. reflexivity. Qed.
Lemma nt_dict ps d : normalize_tr ps (VDict d) =
  if is_fn_dict d then tpure (Err EUndefined) else (d' <~~ tr_ndict ps d ;; tpure (Ok (VDict d'))).
Proof. reflexivity. Qed.
Lemma n0_list ps l : normalize ps (VList l) = (l' <- nlist0 ps l ;; Ok (VList l')).
Proof. reflexivity. Qed.
Lemma n0_dict ps d : normalize ps (VDict d) = if is_fn_dict d then Err EUndefined else (d' <- ndict0 ps d ;; Ok (VDict d')).
Proof. reflexivity. Qed.
Lemma tr_nlist_cons ps x xs : tr_nlist ps (x :: xs) =
  (x' <~~ normalize_tr ps x ;; xs' <~~ tr_nlist ps xs ;; tpure (Ok (if is_novalue x' then xs' else x' :: xs'))).
Proof. reflexivity. Qed.
Lemma tr_ndict_cons ps k x xs : tr_ndict ps ((k, x) :: xs) =
  (x' <~~ normalize_tr ps x ;; xs' <~~ tr_ndict ps xs ;; tpure (Ok (if is_novalue x' then xs' else (k, x') :: xs'))).
Proof. reflexivity. Qed.
Lemma nlist0_cons ps x xs : nlist0 ps (x :: xs) =
  (x' <- normalize ps x ;; xs' <- nlist0 ps xs ;; Ok (if is_novalue x' then xs' else x' :: xs')).
Proof. reflexivity. Qed.
Lemma ndict0_cons ps k x xs : ndict0 ps ((k, x) :: xs) =
  (x' <- normalize ps x ;; xs' <- ndict0 ps xs ;; Ok (if is_novalue x' then xs' else (k, x') :: xs')).
Proof. reflexivity. Qed.

Lemma rt_list e l : resolve_tr e (VList l) = (l' <~~ tlist e l ;; tpure (Ok (VList l'))).
Proof. reflexivity. Qed.
Lemma rt_dict_generic e d : is_fn_dict d = false -> resolve_tr e (VDict d) = (d' <~~ tdict e d ;; tpure (Ok (VDict d'))).
Proof.
  intros H. destruct d as [|[k body] [|kv2 rest]]; try reflexivity.
  simpl in H. unfold is_fn, MODEL_FUNCTIONS, mem_str in H. cbn [existsb] in H.
  repeat (apply orb_false_elim in H; destruct H as [?H H]).
  cbn [resolve_tr].
  repeat match goal with Hk : str_eqb k ?K = false |- _ => rewrite Hk; clear Hk end.
  reflexivity.
Qed.
Lemma rt_ref e body : resolve_tr e (VDict [(K_Ref, body)]) = (b <~~ resolve_tr e body ;; do_ref_tr e b).
Proof. reflexivity. Qed.
Lemma rt_import e body : resolve_tr e (VDict [(K_ImportValue, body)]) = (b <~~ resolve_tr e body ;; do_ref_tr e b).
Proof. reflexivity. Qed.
Lemma rt_join e dl l : resolve_tr e (VDict [(K_Join, VList [dl; l])]) =
  (d' <~~ resolve_tr e dl ;; l' <~~ resolve_tr e l ;; tpure (do_join d' l')).
Proof. reflexivity. Qed.
Lemma rt_split e dl s : resolve_tr e (VDict [(K_Split, VList [dl; s])]) =
  (d' <~~ resolve_tr e dl ;; s' <~~ resolve_tr e s ;; tpure (do_split d' s')).
Proof. reflexivity. Qed.
Lemma rt_select e i l : resolve_tr e (VDict [(K_Select, VList [i; l])]) =
  (i' <~~ resolve_tr e i ;; l' <~~ resolve_tr e l ;; tpure (do_select i' l')).
Proof. reflexivity. Qed.
Lemma rt_find_in_map e m k1 k2 : resolve_tr e (VDict [(K_FindInMap, VList [m; k1; k2])]) =
  (m' <~~ resolve_tr e m ;; k1' <~~ resolve_tr e k1 ;; k2' <~~ resolve_tr e k2 ;; do_find_in_map_tr e m' k1' k2').
Proof. reflexivity. Qed.
Lemma rt_sub_text e text : resolve_tr e (VDict [(K_Sub, VStr text)]) = do_sub_tr e text [].
Proof. reflexivity. Qed.
Lemma rt_sub_vars e text vars : resolve_tr e (VDict [(K_Sub, VList [VStr text; vars])]) =
  (cv <~~ resolve_tr e vars ;; match cv with VDict custom => do_sub_tr e text custom | _ => tpure (Err EUndefined) end).
Proof. reflexivity. Qed.
Lemma rt_base64 e body : resolve_tr e (VDict [(K_Base64, body)]) = (b <~~ resolve_tr e body ;; tpure (do_base64 b)).
Proof. reflexivity. Qed.
Lemma rt_condition e name : resolve_tr e (VDict [(K_Condition, VStr name)]) =
  tlog [ACond name] (tpure (b <- conds e name ;; Ok (VBool b))).
Proof. reflexivity. Qed.
Lemma rt_if e c t f : resolve_tr e (VDict [(K_If, VList [VStr c; t; f])]) =
  tlog [ACond c] (b <~~ tpure (conds e c) ;; if b then resolve_tr e t else resolve_tr e f).
Proof. reflexivity. Qed.
Lemma rt_and e parts : resolve_tr e (VDict [(K_And, VList parts)]) = (b <~~ tall e parts ;; tpure (Ok (VBool b))).
Proof. reflexivity. Qed.
Lemma rt_or e parts : resolve_tr e (VDict [(K_Or, VList parts)]) = (b <~~ tany e parts ;; tpure (Ok (VBool b))).
Proof. reflexivity. Qed.
Lemma rt_not e x rest : resolve_tr e (VDict [(K_Not, VList (x :: rest))]) =
  (r <~~ resolve_tr e x ;; tpure (b <- ext_bool r ;; Ok (VBool (negb b)))).
Proof. reflexivity. Qed.
Lemma rt_equals e a b : resolve_tr e (VDict [(K_Equals, VList [a; b])]) =
  (a' <~~ resolve_tr e a ;; b' <~~ resolve_tr e b ;; tpure (r <- py_eq a' b' ;; Ok (VBool r))).
Proof. reflexivity. Qed.

Lemma tlist_cons e x xs : tlist e (x :: xs) =
  (x' <~~ resolve_tr e x ;; xs' <~~ tlist e xs ;; tpure (Ok (if is_novalue x' then xs' else x' :: xs'))).
Proof. reflexivity. Qed.
Lemma tdict_cons e k x xs : tdict e ((k, x) :: xs) =
  (x' <~~ resolve_tr e x ;; xs' <~~ tdict e xs ;; tpure (Ok (if is_novalue x' then xs' else (k, x') :: xs'))).
Proof. reflexivity. Qed.
Lemma tall_cons e x xs : tall e (x :: xs) =
  (r <~~ resolve_tr e x ;; b <~~ tpure (ext_bool r) ;; if b then tall e xs else tpure (Ok false)).
Proof. reflexivity. Qed.
Lemma tany_cons e x xs : tany e (x :: xs) =
  (r <~~ resolve_tr e x ;; b <~~ tpure (ext_bool r) ;; if b then tpure (Ok true) else tany e xs).
Proof. reflexivity. Qed.
Lemma rlist_cons' e x xs : rlist e (x :: xs) = (x' <- resolve e x ;; xs' <- rlist e xs ;; Ok (if is_novalue x' then xs' else x' :: xs')).
Proof. reflexivity. Qed.
Lemma rdict_cons' e k x xs : rdict e ((k, x) :: xs) = (x' <- resolve e x ;; xs' <- rdict e xs ;; Ok (if is_novalue x' then xs' else (k, x') :: xs')).
Proof. reflexivity. Qed.
Lemma rall_cons' e x xs : rall e (x :: xs) = (r <- resolve e x ;; b <- ext_bool r ;; if b then rall e xs else Ok false).
Proof. reflexivity. Qed.
Lemma rany_cons' e x xs : rany e (x :: xs) = (r <- resolve e x ;; b <- ext_bool r ;; if b then Ok true else rany e xs).
Proof. reflexivity. Qed.

Lemma not_fn_generic' k : str_eqb k K_Ref = false -> str_eqb k K_ImportValue = false -> str_eqb k K_Join = false ->
  str_eqb k K_Split = false -> str_eqb k K_Select = false -> str_eqb k K_FindInMap = false -> str_eqb k K_Sub = false ->
  str_eqb k K_Base64 = false -> str_eqb k K_GetAtt = false -> str_eqb k K_GetAZs = false -> str_eqb k K_Condition = false ->
  str_eqb k K_If = false -> str_eqb k K_And = false -> str_eqb k K_Or = false -> str_eqb k K_Not = false ->
  str_eqb k K_Equals = false -> forall body, is_fn_dict [(k, body)] = false.
Proof.
  intros. rewrite is_fn_dict_single. unfold is_fn, MODEL_FUNCTIONS, mem_str. cbn [existsb].
  repeat match goal with Hk : str_eqb k _ = false |- _ => rewrite Hk; clear Hk end. reflexivity.
Qed.

(* ================= 2. the instrumentation does not change the result ================= *)
Lemma fst_tbind {A B} (r : tres A) (f : A -> tres B) : fst (tbind r f) = bind (fst r) (fun a => fst (f a)).
Proof. destruct r as [[a|err] t]; reflexivity. Qed.
Lemma snd_tbind {A B} (r : tres A) (f : A -> tres B) :
  snd (tbind r f) = snd r ++ match fst r with Ok a => snd (f a) | Err _ => [] end.
Proof. destruct r as [[a|err] t]; simpl; [reflexivity | rewrite app_nil_r; reflexivity]. Qed.
Lemma fst_tlog {A} t (r : tres A) : fst (tlog t r) = fst r.
Proof. reflexivity. Qed.
Lemma snd_tlog {A} t (r : tres A) : snd (tlog t r) = t ++ snd r.
Proof. reflexivity. Qed.
Lemma fst_tpure {A} (r : res A) : fst (tpure r) = r.
Proof. reflexivity. Qed.
Lemma bind_ext' {A B} (r : res A) (f g : A -> res B) : (forall a, f a = g a) -> bind r f = bind r g.
Proof. intros H. destruct r; simpl; [apply H | reflexivity]. Qed.

Lemma normalize_tr_result ps v : fst (normalize_tr ps v) = normalize ps v.
Proof.
  induction v using value_ind'; try reflexivity.
  - rewrite nt_list, n0_list, fst_tbind.
    assert (Hl : fst (tr_nlist ps l) = nlist0 ps l).
    { induction H as [|x xs Hx Hxs IH]; [reflexivity|].
      rewrite tr_nlist_cons, nlist0_cons, fst_tbind, Hx. apply bind_ext'. intros x'.
      rewrite fst_tbind, IH. apply bind_ext'. intros xs'. reflexivity. }
    rewrite Hl. apply bind_ext'. intros; reflexivity.
  - rewrite nt_dict, n0_dict. destruct (is_fn_dict d); [reflexivity|]. rewrite fst_tbind.
    assert (Hd : fst (tr_ndict ps d) = ndict0 ps d).
    { induction H as [|[k x] xs Hx Hxs IH]; [reflexivity|]. simpl in Hx.
      rewrite tr_ndict_cons, ndict0_cons, fst_tbind, Hx. apply bind_ext'. intros x'.
      rewrite fst_tbind, IH. apply bind_ext'. intros xs'. reflexivity. }
    rewrite Hd. apply bind_ext'. intros; reflexivity.
Qed.
Lemma do_ref_tr_result e b : fst (do_ref_tr e b) = do_ref e b.
Proof.
  destruct b; try reflexivity. unfold do_ref_tr, do_ref. rewrite fst_tlog.
  destruct (lookup s (params e)); [apply normalize_tr_result | reflexivity].
Qed.
Lemma render_var_tr_result e custom name : fst (render_var_tr e custom name) = render_var e custom name.
Proof.
  unfold render_var_tr, render_var. destruct (lookup name custom).
  - rewrite fst_tbind, normalize_tr_result. apply bind_ext'. intros [| | | | | | |]; reflexivity.
  - rewrite fst_tlog. destruct (lookup name (params e)); [|reflexivity].
    rewrite fst_tbind, normalize_tr_result. apply bind_ext'. intros [| | | | | | |]; reflexivity.
Qed.
Lemma render_toks_tr_result e custom ts : fst (render_toks_tr e custom ts) = render_toks e custom ts.
Proof.
  induction ts as [|t r IH]; [reflexivity|].
  cbn [render_toks_tr render_toks]. rewrite fst_tbind.
  assert (Ht : fst (render_tok_tr e custom t) = render_tok e custom t).
  { destruct t; try reflexivity. apply render_var_tr_result. }
  rewrite Ht. apply bind_ext'. intros a. rewrite fst_tbind, IH. apply bind_ext'. intros b. reflexivity.
Qed.
Lemma do_sub_tr_result e text custom : fst (do_sub_tr e text custom) = do_sub e text custom.
Proof. unfold do_sub_tr, do_sub. rewrite fst_tbind, render_toks_tr_result. apply bind_ext'. intros; reflexivity. Qed.

Section ResultLists.
Variable e : env.
Definition FstAt (v : value) : Prop := fst (resolve_tr e v) = resolve e v.
Lemma tlist_fst l : Forall FstAt l -> fst (tlist e l) = rlist e l.
Proof.
  induction 1 as [|x xs Hx Hxs IH]; [reflexivity|].
  rewrite tlist_cons, rlist_cons', fst_tbind, Hx. apply bind_ext'. intros x'.
  rewrite fst_tbind, IH. apply bind_ext'. intros xs'. reflexivity.
Qed.
Lemma tdict_fst d : Forall (fun kv => FstAt (snd kv)) d -> fst (tdict e d) = rdict e d.
Proof.
  induction 1 as [|[k x] xs Hx Hxs IH]; [reflexivity|]. simpl in Hx.
  rewrite tdict_cons, rdict_cons', fst_tbind, Hx. apply bind_ext'. intros x'.
  rewrite fst_tbind, IH. apply bind_ext'. intros xs'. reflexivity.
Qed.
Lemma tall_fst l : Forall FstAt l -> fst (tall e l) = rall e l.
Proof.
  induction 1 as [|x xs Hx Hxs IH]; [reflexivity|].
  rewrite tall_cons, rall_cons', fst_tbind, Hx. apply bind_ext'. intros r.
  rewrite fst_tbind, fst_tpure. apply bind_ext'. intros [|]; [exact IH | reflexivity].
Qed.
Lemma tany_fst l : Forall FstAt l -> fst (tany e l) = rany e l.
Proof.
  induction 1 as [|x xs Hx Hxs IH]; [reflexivity|].
  rewrite tany_cons, rany_cons', fst_tbind, Hx. apply bind_ext'. intros r.
  rewrite fst_tbind, fst_tpure. apply bind_ext'. intros [|]; [reflexivity | exact IH].
Qed.
End ResultLists.

Theorem resolve_tr_result_n e : forall n v, (vsize v < n)%nat -> fst (resolve_tr e v) = resolve e v.
Proof.
  induction n as [|n IH]; intros v Hs; [lia|].
  destruct v as [| b | z | s | k t | bs | l | d]; try reflexivity.
  - rewrite rt_list, resolve_list, fst_tbind. rewrite (tlist_fst e l); [apply bind_ext'; intros; reflexivity|].
    apply Forall_forall. intros x Hx. apply IH. pose proof (vsize_in_list x l Hx). lia.
  - assert (Hsub : forall k x, In (k, x) d -> fst (resolve_tr e x) = resolve e x).
    { intros k x Hx. apply IH. pose proof (vsize_in_dict k x d Hx). lia. }
    assert (Hgen : is_fn_dict d = false -> fst (resolve_tr e (VDict d)) = resolve e (VDict d)).
    { intros Hf. rewrite rt_dict_generic, resolve_dict_generic by assumption. rewrite fst_tbind.
      rewrite (tdict_fst e d); [apply bind_ext'; intros; reflexivity|].
      apply Forall_forall. intros [k0 x0] Hin. simpl. eapply Hsub; eauto. }
    destruct d as [|[k body] [|kv2 rest]]; [apply Hgen; reflexivity | | apply Hgen; reflexivity].
    assert (Hbody : fst (resolve_tr e body) = resolve e body) by (eapply Hsub; left; reflexivity).
    assert (Hdeep : forall x, (vsize x < vsize body)%nat -> fst (resolve_tr e x) = resolve e x).
    { intros x Hx. apply IH. simpl in Hs. lia. }
    key_case k K_Ref. { rewrite rt_ref, resolve_ref, fst_tbind, Hbody. apply bind_ext'. intros; apply do_ref_tr_result. }
    key_case k K_ImportValue. { rewrite rt_import, resolve_import, fst_tbind, Hbody. apply bind_ext'. intros; apply do_ref_tr_result. }
    key_case k K_Join.
    { destruct body as [| | | | | | l |]; try reflexivity. destruct l as [|dl [|l [|? ?]]]; try reflexivity.
      rewrite rt_join, resolve_join, fst_tbind, (Hdeep dl) by (simpl; lia). apply bind_ext'. intros d'.
      rewrite fst_tbind, (Hdeep l) by (simpl; lia). apply bind_ext'. intros l'. reflexivity. }
    key_case k K_Split.
    { destruct body as [| | | | | | l |]; try reflexivity. destruct l as [|dl [|l [|? ?]]]; try reflexivity.
      rewrite rt_split, resolve_split, fst_tbind, (Hdeep dl) by (simpl; lia). apply bind_ext'. intros d'.
      rewrite fst_tbind, (Hdeep l) by (simpl; lia). apply bind_ext'. intros l'. reflexivity. }
    key_case k K_Select.
    { destruct body as [| | | | | | l |]; try reflexivity. destruct l as [|dl [|l [|? ?]]]; try reflexivity.
      rewrite rt_select, resolve_select, fst_tbind, (Hdeep dl) by (simpl; lia). apply bind_ext'. intros d'.
      rewrite fst_tbind, (Hdeep l) by (simpl; lia). apply bind_ext'. intros l'. reflexivity. }
    key_case k K_FindInMap.
    { destruct body as [| | | | | | l |]; try reflexivity. destruct l as [|m [|k1 [|k2 [|? ?]]]]; try reflexivity.
      rewrite rt_find_in_map, resolve_find_in_map, fst_tbind, (Hdeep m) by (simpl; lia). apply bind_ext'. intros m'.
      rewrite fst_tbind, (Hdeep k1) by (simpl; lia). apply bind_ext'. intros k1'.
      rewrite fst_tbind, (Hdeep k2) by (simpl; lia). apply bind_ext'. intros k2'. reflexivity. }
    key_case k K_Sub.
    { destruct body as [| | | text | | | l |]; try reflexivity.
      - rewrite rt_sub_text, resolve_sub_text. apply do_sub_tr_result.
      - destruct l as [|t0 [|vars [|? ?]]]; try reflexivity; destruct t0 as [| | | text | | | |]; try reflexivity.
        rewrite rt_sub_vars, resolve_sub_vars, fst_tbind, (Hdeep vars) by (simpl; lia).
        apply bind_ext'. intros cv. destruct cv; try reflexivity. apply do_sub_tr_result. }
    key_case k K_Base64. { rewrite rt_base64, resolve_base64, fst_tbind, Hbody. apply bind_ext'. intros; reflexivity. }
    key_case k K_GetAtt. { reflexivity. }
    key_case k K_GetAZs. { reflexivity. }
    key_case k K_Condition. { destruct body as [| | | name | | | |]; reflexivity. }
    key_case k K_If.
    { destruct body as [| | | | | | l |]; try reflexivity.
      destruct l as [|c [|t [|f [|? ?]]]]; try reflexivity; try (destruct c; reflexivity).
      destruct c as [| | | c | | | |]; try reflexivity.
      rewrite rt_if, resolve_if, fst_tlog, fst_tbind, fst_tpure. apply bind_ext'. intros [|]; apply Hdeep; simpl; lia. }
    key_case k K_And.
    { destruct body as [| | | | | | parts |]; try reflexivity. rewrite rt_and, resolve_and, fst_tbind.
      rewrite (tall_fst e parts); [apply bind_ext'; intros; reflexivity|].
      apply Forall_forall. intros x Hx. apply Hdeep. apply vsize_in_list. assumption. }
    key_case k K_Or.
    { destruct body as [| | | | | | parts |]; try reflexivity. rewrite rt_or, resolve_or, fst_tbind.
      rewrite (tany_fst e parts); [apply bind_ext'; intros; reflexivity|].
      apply Forall_forall. intros x Hx. apply Hdeep. apply vsize_in_list. assumption. }
    key_case k K_Not.
    { destruct body as [| | | | | | l |]; try reflexivity. destruct l as [|x rest]; try reflexivity.
      rewrite rt_not, resolve_not, fst_tbind, (Hdeep x) by (simpl; lia). apply bind_ext'. intros; reflexivity. }
    key_case k K_Equals.
    { destruct body as [| | | | | | l |]; try reflexivity. destruct l as [|a [|b [|? ?]]]; try reflexivity.
      rewrite rt_equals, resolve_equals, fst_tbind, (Hdeep a) by (simpl; lia). apply bind_ext'. intros a'.
      rewrite fst_tbind, (Hdeep b) by (simpl; lia). apply bind_ext'. intros b'. reflexivity. }
    apply Hgen. apply not_fn_generic'; assumption.
Qed.
Theorem resolve_tr_result e v : fst (resolve_tr e v) = resolve e v.
Proof. apply (resolve_tr_result_n e (S (vsize v))). lia. Qed.

(* ================= 3. the frame theorem ================= *)
(* what it means for two environments to give the same answer to one access *)
Definition agree_on (e e' : env) (a : access) : Prop :=
  match a with
  | AParam k => lookup k (params e) = lookup k (params e')
  | AMap k => lookup k (mappings e) = lookup k (mappings e')
  | ACond n => conds e n = conds e' n
  end.
Definition agree (e e' : env) (t : trace) : Prop := forall a, In a t -> agree_on e e' a.

Lemma agree_app e e' t1 t2 : agree e e' (t1 ++ t2) <-> agree e e' t1 /\ agree e e' t2.
Proof.
  unfold agree. split.
  - intros H. split; intros a Ha; apply H; apply in_or_app; [left | right]; assumption.
  - intros [H1 H2] a Ha. apply in_app_or in Ha. destruct Ha; [apply H1 | apply H2]; assumption.
Qed.
Lemma agree_nil e e' : agree e e' [].
Proof. intros a []. Qed.
Lemma agree_one e e' a : agree e e' [a] <-> agree_on e e' a.
Proof. unfold agree. split; [intros H; apply H; left; reflexivity | intros H b [<-|[]]; exact H]. Qed.
Lemma agree_on_sym e e' a : agree_on e e' a -> agree_on e' e a.
Proof. destruct a; simpl; intros H; symmetry; exact H. Qed.
Lemma agree_sym e e' t : agree e e' t -> agree e' e t.
Proof. intros H a Ha. apply agree_on_sym. apply H. exact Ha. Qed.
Lemma agree_split e e' t :
  agree e e' t <->
  (forall k, In (AParam k) t -> lookup k (params e) = lookup k (params e')) /\
  (forall k, In (AMap k) t -> lookup k (mappings e) = lookup k (mappings e')) /\
  (forall n, In (ACond n) t -> conds e n = conds e' n).
Proof.
  split.
  - intros H. repeat split; intros k Hk; exact (H _ Hk).
  - intros (Hp & Hm & Hc) [k|k|k] Ha; simpl; auto.
Qed.

Section FrameSec.
Variables e e' : env.

(* [r'] (computed in e') equals [r] (computed in e) as soon as the environments agree on the accesses of [r] *)
Definition Frame {A} (r' r : tres A) : Prop := agree e e' (snd r) -> r' = r.

Lemma frame_refl {A} (r : tres A) : Frame r r.
Proof. intros _. reflexivity. Qed.
Lemma frame_bind {A B} (r r' : tres A) (f f' : A -> tres B) :
  Frame r' r -> (forall a, Frame (f' a) (f a)) -> Frame (tbind r' f') (tbind r f).
Proof.
  intros Hr Hf Ha. rewrite snd_tbind in Ha. apply agree_app in Ha. destruct Ha as [H1 H2].
  rewrite (Hr H1). destruct r as [[a|err] t]; [|reflexivity].
  cbn [fst] in H2. cbn [tbind]. rewrite (Hf a H2). reflexivity.
Qed.
Lemma frame_log {A} t (r r' : tres A) : (agree e e' t -> Frame r' r) -> Frame (tlog t r') (tlog t r).
Proof.
  intros H Ha. rewrite snd_tlog in Ha. apply agree_app in Ha. destruct Ha as [H1 H2].
  rewrite (H H1 H2). reflexivity.
Qed.

Lemma render_str_frame s : agree e e' (ssm_trace s) -> render_str (params e') s = render_str (params e) s.
Proof.
  unfold ssm_trace, render_str. destruct (ssm_key s) as [key|]; [|reflexivity].
  intros H. apply agree_one in H. simpl in H. rewrite H. reflexivity.
Qed.
Lemma leaf_frame s : Frame (Ok (VStr (render_str (params e') s)), ssm_trace s) (Ok (VStr (render_str (params e) s)), ssm_trace s).
Proof. intros H. cbn [snd] in H. rewrite (render_str_frame s H). reflexivity. Qed.

Lemma normalize_frame v : Frame (normalize_tr (params e') v) (normalize_tr (params e) v).
Proof.
  induction v using value_ind'; try apply frame_refl.
  - apply leaf_frame.
  - rewrite !nt_list. apply frame_bind; [|intros; apply frame_refl].
    induction H as [|x xs Hx Hxs IH]; [apply frame_refl|].
    rewrite !tr_nlist_cons. apply frame_bind; [exact Hx|]. intros x'.
    apply frame_bind; [exact IH|]. intros; apply frame_refl.
  - rewrite !nt_dict. destruct (is_fn_dict d); [apply frame_refl|].
    apply frame_bind; [|intros; apply frame_refl].
    induction H as [|[k x] xs Hx Hxs IH]; [apply frame_refl|]. simpl in Hx.
    rewrite !tr_ndict_cons. apply frame_bind; [exact Hx|]. intros x'.
    apply frame_bind; [exact IH|]. intros; apply frame_refl.
Qed.
Lemma do_ref_frame b : Frame (do_ref_tr e' b) (do_ref_tr e b).
Proof.
  destruct b; try apply frame_refl. unfold do_ref_tr. apply frame_log. intros Hk.
  apply agree_one in Hk. simpl in Hk. rewrite <- Hk.
  destruct (lookup s (params e)); [apply normalize_frame | apply frame_refl].
Qed.
Lemma do_find_in_map_frame m k1 k2 : Frame (do_find_in_map_tr e' m k1 k2) (do_find_in_map_tr e m k1 k2).
Proof.
  unfold do_find_in_map_tr, do_find_in_map. destruct m, k1, k2; try apply frame_refl.
  intros H. cbn [snd] in H. apply agree_one in H. simpl in H. rewrite H. reflexivity.
Qed.
Lemma render_var_frame custom name : Frame (render_var_tr e' custom name) (render_var_tr e custom name).
Proof.
  unfold render_var_tr. destruct (lookup name custom).
  - apply frame_bind; [apply normalize_frame | intros; apply frame_refl].
  - apply frame_log. intros Hk. apply agree_one in Hk. simpl in Hk. rewrite <- Hk.
    destruct (lookup name (params e)); [|apply frame_refl].
    apply frame_bind; [apply normalize_frame | intros; apply frame_refl].
Qed.
Lemma render_toks_frame custom ts : Frame (render_toks_tr e' custom ts) (render_toks_tr e custom ts).
Proof.
  induction ts as [|t r IH]; [apply frame_refl|]. cbn [render_toks_tr].
  apply frame_bind.
  - destruct t; try apply frame_refl. apply render_var_frame.
  - intros a. apply frame_bind; [exact IH | intros; apply frame_refl].
Qed.
Lemma do_sub_frame text custom : Frame (do_sub_tr e' text custom) (do_sub_tr e text custom).
Proof. unfold do_sub_tr. apply frame_bind; [apply render_toks_frame | intros; apply frame_refl]. Qed.

Definition FrameAt (v : value) : Prop := Frame (resolve_tr e' v) (resolve_tr e v).
Lemma tlist_frame l : Forall FrameAt l -> Frame (tlist e' l) (tlist e l).
Proof.
  induction 1 as [|x xs Hx Hxs IH]; [apply frame_refl|].
  rewrite !tlist_cons. apply frame_bind; [exact Hx|]. intros x'.
  apply frame_bind; [exact IH | intros; apply frame_refl].
Qed.
Lemma tdict_frame d : Forall (fun kv => FrameAt (snd kv)) d -> Frame (tdict e' d) (tdict e d).
Proof.
  induction 1 as [|[k x] xs Hx Hxs IH]; [apply frame_refl|]. simpl in Hx.
  rewrite !tdict_cons. apply frame_bind; [exact Hx|]. intros x'.
  apply frame_bind; [exact IH | intros; apply frame_refl].
Qed.
Lemma tall_frame l : Forall FrameAt l -> Frame (tall e' l) (tall e l).
Proof.
  induction 1 as [|x xs Hx Hxs IH]; [apply frame_refl|].
  rewrite !tall_cons. apply frame_bind; [exact Hx|]. intros r.
  apply frame_bind; [apply frame_refl|]. intros [|]; [exact IH | apply frame_refl].
Qed.
Lemma tany_frame l : Forall FrameAt l -> Frame (tany e' l) (tany e l).
Proof.
  induction 1 as [|x xs Hx Hxs IH]; [apply frame_refl|].
  rewrite !tany_cons. apply frame_bind; [exact Hx|]. intros r.
  apply frame_bind; [apply frame_refl|]. intros [|]; [apply frame_refl | exact IH].
Qed.

Theorem resolve_tr_frame_n : forall n v, (vsize v < n)%nat -> FrameAt v.
Proof.
  unfold FrameAt.
  induction n as [|n IH]; intros v Hs; [lia|].
  destruct v as [| b | z | s | k t | bs | l | d]; try apply frame_refl.
  - apply leaf_frame.
  - rewrite !rt_list. apply frame_bind; [|intros; apply frame_refl]. apply tlist_frame.
    apply Forall_forall. intros x Hx. apply IH. pose proof (vsize_in_list x l Hx). lia.
  - assert (Hsub : forall k x, In (k, x) d -> Frame (resolve_tr e' x) (resolve_tr e x)).
    { intros k x Hx. apply IH. pose proof (vsize_in_dict k x d Hx). lia. }
    assert (Hgen : is_fn_dict d = false -> Frame (resolve_tr e' (VDict d)) (resolve_tr e (VDict d))).
    { intros Hf. rewrite !rt_dict_generic by assumption. apply frame_bind; [|intros; apply frame_refl].
      apply tdict_frame. apply Forall_forall. intros [k0 x0] Hin. simpl. eapply Hsub; eauto. }
    destruct d as [|[k body] [|kv2 rest]]; [apply Hgen; reflexivity | | apply Hgen; reflexivity].
    assert (Hbody : Frame (resolve_tr e' body) (resolve_tr e body)) by (eapply Hsub; left; reflexivity).
    assert (Hdeep : forall x, (vsize x < vsize body)%nat -> Frame (resolve_tr e' x) (resolve_tr e x)).
    { intros x Hx. apply IH. simpl in Hs. lia. }
    key_case k K_Ref. { rewrite !rt_ref. apply frame_bind; [exact Hbody | intros; apply do_ref_frame]. }
    key_case k K_ImportValue. { rewrite !rt_import. apply frame_bind; [exact Hbody | intros; apply do_ref_frame]. }
    key_case k K_Join.
    { destruct body as [| | | | | | l |]; try apply frame_refl. destruct l as [|dl [|l [|? ?]]]; try apply frame_refl.
      rewrite !rt_join. apply frame_bind; [apply Hdeep; simpl; lia|]. intros d'.
      apply frame_bind; [apply Hdeep; simpl; lia | intros; apply frame_refl]. }
    key_case k K_Split.
    { destruct body as [| | | | | | l |]; try apply frame_refl. destruct l as [|dl [|l [|? ?]]]; try apply frame_refl.
      rewrite !rt_split. apply frame_bind; [apply Hdeep; simpl; lia|]. intros d'.
      apply frame_bind; [apply Hdeep; simpl; lia | intros; apply frame_refl]. }
    key_case k K_Select.
    { destruct body as [| | | | | | l |]; try apply frame_refl. destruct l as [|dl [|l [|? ?]]]; try apply frame_refl.
      rewrite !rt_select. apply frame_bind; [apply Hdeep; simpl; lia|]. intros d'.
      apply frame_bind; [apply Hdeep; simpl; lia | intros; apply frame_refl]. }
    key_case k K_FindInMap.
    { destruct body as [| | | | | | l |]; try apply frame_refl. destruct l as [|m [|k1 [|k2 [|? ?]]]]; try apply frame_refl.
      rewrite !rt_find_in_map. apply frame_bind; [apply Hdeep; simpl; lia|]. intros m'.
      apply frame_bind; [apply Hdeep; simpl; lia|]. intros k1'.
      apply frame_bind; [apply Hdeep; simpl; lia|]. intros k2'. apply do_find_in_map_frame. }
    key_case k K_Sub.
    { destruct body as [| | | text | | | l |]; try apply frame_refl.
      - rewrite !rt_sub_text. apply do_sub_frame.
      - destruct l as [|t0 [|vars [|? ?]]]; try apply frame_refl; destruct t0 as [| | | text | | | |]; try apply frame_refl.
        rewrite !rt_sub_vars. apply frame_bind; [apply Hdeep; simpl; lia|].
        intros cv. destruct cv; try apply frame_refl. apply do_sub_frame. }
    key_case k K_Base64. { rewrite !rt_base64. apply frame_bind; [exact Hbody | intros; apply frame_refl]. }
    key_case k K_GetAtt. { apply frame_refl. }
    key_case k K_GetAZs. { apply frame_refl. }
    key_case k K_Condition.
    { destruct body as [| | | name | | | |]; try apply frame_refl. rewrite !rt_condition.
      apply frame_log. intros Hc. apply agree_one in Hc. simpl in Hc. rewrite <- Hc. apply frame_refl. }
    key_case k K_If.
    { destruct body as [| | | | | | l |]; try apply frame_refl.
      destruct l as [|c [|t [|f [|? ?]]]]; try apply frame_refl; try (destruct c; apply frame_refl).
      destruct c as [| | | c | | | |]; try apply frame_refl.
      rewrite !rt_if. apply frame_log. intros Hc. apply agree_one in Hc. simpl in Hc. rewrite <- Hc.
      apply frame_bind; [apply frame_refl|]. intros [|]; apply Hdeep; simpl; lia. }
    key_case k K_And.
    { destruct body as [| | | | | | parts |]; try apply frame_refl. rewrite !rt_and.
      apply frame_bind; [|intros; apply frame_refl]. apply tall_frame.
      apply Forall_forall. intros x Hx. apply Hdeep. apply vsize_in_list. assumption. }
    key_case k K_Or.
    { destruct body as [| | | | | | parts |]; try apply frame_refl. rewrite !rt_or.
      apply frame_bind; [|intros; apply frame_refl]. apply tany_frame.
      apply Forall_forall. intros x Hx. apply Hdeep. apply vsize_in_list. assumption. }
    key_case k K_Not.
    { destruct body as [| | | | | | l |]; try apply frame_refl. destruct l as [|x rest]; try apply frame_refl.
      rewrite !rt_not. apply frame_bind; [apply Hdeep; simpl; lia | intros; apply frame_refl]. }
    key_case k K_Equals.
    { destruct body as [| | | | | | l |]; try apply frame_refl. destruct l as [|a [|b [|? ?]]]; try apply frame_refl.
      rewrite !rt_equals. apply frame_bind; [apply Hdeep; simpl; lia|]. intros a'.
      apply frame_bind; [apply Hdeep; simpl; lia | intros; apply frame_refl]. }
    apply Hgen. apply not_fn_generic'; assumption.
Qed.
End FrameSec.

(* THE FRAME THEOREM: environments that agree on every access made while resolving [v] in [e] give the same result and make
   the same accesses *)
Theorem resolve_tr_frame e e' v : agree e e' (trace_of e v) -> resolve_tr e' v = resolve_tr e v.
Proof. apply (resolve_tr_frame_n e e' (S (vsize v))). lia. Qed.
Corollary resolve_frame e e' v : agree e e' (trace_of e v) -> resolve e' v = resolve e v.
Proof. intros H. rewrite <- !resolve_tr_result. rewrite (resolve_tr_frame e e' v H). reflexivity. Qed.
Corollary trace_frame e e' v : agree e e' (trace_of e v) -> trace_of e' v = trace_of e v.
Proof. intros H. unfold trace_of. rewrite (resolve_tr_frame e e' v H). reflexivity. Qed.

(* the same, hypotheses spelled out *)
Theorem unused_ext e e' v :
  (forall k, In (AParam k) (trace_of e v) -> lookup k (params e) = lookup k (params e')) ->
  (forall m, In (AMap m) (trace_of e v) -> lookup m (mappings e) = lookup m (mappings e')) ->
  (forall n, In (ACond n) (trace_of e v) -> conds e n = conds e' n) ->
  resolve e' v = resolve e v /\ trace_of e' v = trace_of e v.
Proof.
  intros Hp Hm Hc. assert (H : agree e e' (trace_of e v)) by (apply agree_split; auto).
  split; [apply resolve_frame | apply trace_frame]; exact H.
Qed.

(* [env_eq] (Ext.v: same answer to EVERY access) is the special case *)
Lemma env_eq_agree e e' t : env_eq e e' -> agree e e' t.
Proof. intros (Hp & Hm & Hc). apply agree_split. repeat split; intros; auto. Qed.

(* ================= 4. adding (or removing, or changing) what is never read ================= *)
Definition with_params (e : env) (ps : list (str * value)) : env :=
  {| params := ps; mappings := mappings e; conds := conds e |}.
Definition with_mappings (e : env) (ms : list (str * value)) : env :=
  {| params := params e; mappings := ms; conds := conds e |}.
Definition with_conds (e : env) (c : str -> res bool) : env :=
  {| params := params e; mappings := mappings e; conds := c |}.

Lemma lookup_insert {A} (k k' : str) (x : A) l1 l2 : k' <> k -> lookup k' (l1 ++ (k, x) :: l2) = lookup k' (l1 ++ l2).
Proof.
  intros Hne. rewrite !lookup_app. destruct (lookup k' l1); [reflexivity|]. simpl.
  apply str_eqb_neq in Hne. rewrite Hne. reflexivity.
Qed.

(* the general forms: ANY change of the parameters / mappings / condition values that keeps the answers to the accesses made *)
Theorem change_unread_parameters e ps' v :
  (forall k, In (AParam k) (trace_of e v) -> lookup k ps' = lookup k (params e)) ->
  resolve (with_params e ps') v = resolve e v.
Proof.
  intros H. apply resolve_frame. apply agree_split. repeat split; intros k Hk; simpl; try reflexivity.
  symmetry. apply H. exact Hk.
Qed.
Theorem change_unread_mappings e ms' v :
  (forall m, In (AMap m) (trace_of e v) -> lookup m ms' = lookup m (mappings e)) ->
  resolve (with_mappings e ms') v = resolve e v.
Proof.
  intros H. apply resolve_frame. apply agree_split. repeat split; intros k Hk; simpl; try reflexivity.
  symmetry. apply H. exact Hk.
Qed.
Theorem change_unread_conditions e c' v :
  (forall n, In (ACond n) (trace_of e v) -> c' n = conds e n) ->
  resolve (with_conds e c') v = resolve e v.
Proof.
  intros H. apply resolve_frame. apply agree_split. repeat split; intros k Hk; simpl; try reflexivity.
  symmetry. apply H. exact Hk.
Qed.

(* a binding for a name that is never read, put in front (where it would shadow an older binding of the same name) ... *)
Theorem add_unused_parameter e v k x : ~ In (AParam k) (trace_of e v) ->
  resolve (with_params e ((k, x) :: params e)) v = resolve e v.
Proof.
  intros Hk. apply change_unread_parameters. intros k' Hk'. simpl.
  destruct (str_eqb k' k) eqn:E; [|reflexivity]. apply str_eqb_spec in E. subst. contradiction.
Qed.
(* ... or anywhere *)
Theorem add_unused_parameter_anywhere e v k x l1 l2 : params e = l1 ++ l2 -> ~ In (AParam k) (trace_of e v) ->
  resolve (with_params e (l1 ++ (k, x) :: l2)) v = resolve e v.
Proof.
  intros Hps Hk. apply change_unread_parameters. intros k' Hk'. rewrite Hps. apply lookup_insert.
  intros ->. contradiction.
Qed.
(* the other direction: a binding that is never read can be deleted *)
Theorem remove_unused_parameter e v k x l1 l2 : params e = l1 ++ (k, x) :: l2 -> ~ In (AParam k) (trace_of e v) ->
  resolve (with_params e (l1 ++ l2)) v = resolve e v.
Proof.
  intros Hps Hk. apply change_unread_parameters. intros k' Hk'. rewrite Hps. symmetry. apply lookup_insert.
  intros ->. contradiction.
Qed.
Theorem add_unused_mapping e v m x : ~ In (AMap m) (trace_of e v) ->
  resolve (with_mappings e ((m, x) :: mappings e)) v = resolve e v.
Proof.
  intros Hk. apply change_unread_mappings. intros k' Hk'. simpl.
  destruct (str_eqb k' m) eqn:E; [|reflexivity]. apply str_eqb_spec in E. subst. contradiction.
Qed.
Theorem add_unused_mapping_anywhere e v m x l1 l2 : mappings e = l1 ++ l2 -> ~ In (AMap m) (trace_of e v) ->
  resolve (with_mappings e (l1 ++ (m, x) :: l2)) v = resolve e v.
Proof.
  intros Hms Hk. apply change_unread_mappings. intros k' Hk'. rewrite Hms. apply lookup_insert.
  intros ->. contradiction.
Qed.
(* conditions are seen through the function [conds]: one that differs only on a name that is never asked *)
Theorem add_unused_condition e v n b : ~ In (ACond n) (trace_of e v) ->
  resolve (with_conds e (fun m => if str_eqb m n then b else conds e m)) v = resolve e v.
Proof.
  intros Hn. apply change_unread_conditions. intros m Hm.
  destruct (str_eqb m n) eqn:E; [|reflexivity]. apply str_eqb_spec in E. subst. contradiction.
Qed.

(* "unused" does not depend on which of the two environments is asked *)
Theorem unused_symmetric e e' v a : agree e e' (trace_of e v) -> (In a (trace_of e' v) <-> In a (trace_of e v)).
Proof. intros H. rewrite (trace_frame e e' v H). reflexivity. Qed.

(* ---- a name can be COMPUTED: {"Ref": {"Fn::Join": ["", ["a", "b"]]}} reads parameter "ab", a text that occurs nowhere ---- *)
Fixpoint prefixb (p s : str) : bool :=
  match p, s with
  | [], _ => true
  | x :: p', y :: s' => N.eqb x y && prefixb p' s'
  | _ :: _, [] => false
  end.
Fixpoint occursb (k s : str) : bool :=
  prefixb k s || match s with [] => false | _ :: r => occursb k r end.
(* the text [k] occurs inside some string leaf or some key of [v] *)
Fixpoint mentions (k : str) (v : value) : bool :=
  match v with
  | VStr s => occursb k s
  | VList l => existsb (mentions k) l
  | VDict d => existsb (fun kv => occursb k (fst kv) || mentions k (snd kv)) d
  | _ => false
  end.

Definition s_ab : str := [97; 98].
Definition e_ab : env := {| params := [(s_ab, VStr [120])]; mappings := []; conds := fun _ => Ok false |}.
Definition v_ab : value := VDict [(K_Ref, VDict [(K_Join, VList [VStr []; VList [VStr [97]; VStr [98]]])])].
Lemma ex_computed_name :
  mentions s_ab v_ab = false /\
  trace_of e_ab v_ab = [AParam s_ab] /\
  resolve e_ab v_ab = Ok (VStr [120]) /\
  resolve (with_params e_ab []) v_ab = Ok (VStr (undefined_param s_ab)).
Proof. vm_compute. repeat split; reflexivity. Qed.

(* ================= 5. template level ================= *)
(* ---- resources: the accesses made while resolving the resources whose gate is open, until the first exception ---- *)
Fixpoint resources_trace (e : env) (resolved : list (str * bool)) (rs : list (str * value)) : trace :=
  match rs with
  | [] => []
  | (id, r) :: rest =>
      match gate resolved r with
      | Ok true => trace_of e r ++ match resolve e r with Ok _ => resources_trace e resolved rest | Err _ => [] end
      | Ok false => resources_trace e resolved rest
      | Err _ => []
      end
  end.
(* the condition names that gate a resource (its "Condition" attribute) *)
Definition gate_name (r : value) : list str :=
  match r with
  | VDict fields => match lookup K_Condition fields with Some (VStr c) => [c] | _ => [] end
  | _ => []
  end.
Definition gate_names (rs : list (str * value)) : list str := flat_map (fun kv => gate_name (snd kv)) rs.

Lemma gate_frame resolved resolved' r :
  (forall c, In c (gate_name r) -> lookup c resolved = lookup c resolved') -> gate resolved' r = gate resolved r.
Proof.
  unfold gate, gate_name. destruct r; try reflexivity. destruct (lookup K_Condition d) as [[| | | c | | | |]|]; try reflexivity.
  intros H. rewrite (H c) by (left; reflexivity). reflexivity.
Qed.

Theorem resolve_resources_frame e e' resolved resolved' rs :
  (forall c, In c (gate_names rs) -> lookup c resolved = lookup c resolved') ->
  agree e e' (resources_trace e resolved rs) ->
  resolve_resources e' resolved' rs = resolve_resources e resolved rs.
Proof.
  induction rs as [|[id r] rest IH]; intros Hg Ha; [reflexivity|].
  cbn [resolve_resources resources_trace] in *.
  assert (Hg1 : gate resolved' r = gate resolved r).
  { apply gate_frame. intros c Hc. apply Hg. unfold gate_names. cbn [flat_map snd]. apply in_or_app. left. exact Hc. }
  assert (Hg2 : forall c, In c (gate_names rest) -> lookup c resolved = lookup c resolved').
  { intros c Hc. apply Hg. unfold gate_names. cbn [flat_map snd]. apply in_or_app. right. exact Hc. }
  rewrite Hg1. destruct (gate resolved r) as [[|]|]; cbn [bind]; [| apply IH; assumption | reflexivity].
  apply agree_app in Ha. destruct Ha as [Ha1 Ha2].
  unfold resolve_resource. rewrite (resolve_frame e e' r Ha1).
  destruct (resolve e r) as [r'|]; cbn [bind]; [|reflexivity].
  rewrite (IH Hg2 Ha2). reflexivity.
Qed.

(* the environment in which [resolve_model] resolves the resources *)
Definition renv (ps maps : list (str * value)) (resolved : list (str * bool)) : env :=
  {| params := ps; mappings := maps; conds := conds_fun resolved |}.

(* a resolved condition that gates no resource and that no kept resource asks about *)
Theorem add_unused_resolved_condition ps maps resolved rs n b :
  ~ In n (gate_names rs) -> ~ In (ACond n) (resources_trace (renv ps maps resolved) resolved rs) ->
  resolve_resources (renv ps maps ((n, b) :: resolved)) ((n, b) :: resolved) rs =
  resolve_resources (renv ps maps resolved) resolved rs.
Proof.
  intros Hg Hn. apply resolve_resources_frame.
  - intros c Hc. simpl. destruct (str_eqb c n) eqn:E; [|reflexivity]. apply str_eqb_spec in E. subst. contradiction.
  - apply agree_split. repeat split; intros c Hc; try reflexivity. simpl. unfold conds_fun. simpl.
    destruct (str_eqb c n) eqn:E; [|reflexivity]. apply str_eqb_spec in E. subst. contradiction.
Qed.

(* ---- conditions.  A condition reads what its body reads AND what the conditions it asks about read, transitively:
        [cond_trace] follows [cond_val] (Template.v), same fuel, same in-progress set ---- *)
Definition cond_env (ps maps decl : list (str * value)) (f : nat) (rem : list str) : env :=
  {| params := ps; mappings := maps; conds := cond_val ps maps decl f rem |}.
Fixpoint cond_trace (ps maps decl : list (str * value)) (fuel : nat) (rem : list str) (n : str) : trace :=
  match fuel with
  | O => []
  | S f =>
      if mem_str n rem then
        match lookup n decl with
        | Some body =>
            let t := trace_of (cond_env ps maps decl f (remove_str n rem)) body in
            t ++ flat_map (fun a => match a with
                                    | ACond m => cond_trace ps maps decl f (remove_str n rem) m
                                    | _ => []
                                    end) t
        | None => []
        end
      else []
  end.
Definition cond_root_trace (ps maps decl : list (str * value)) (n : str) : trace :=
  cond_trace ps maps decl (S (length decl)) (keys decl) n.
Fixpoint conds_trace (ps maps decl : list (str * value)) (names : list str) : trace :=
  match names with
  | [] => []
  | n :: r => cond_root_trace ps maps decl n ++
              match cond_root ps maps decl n with Ok _ => conds_trace ps maps decl r | Err _ => [] end
  end.

(* agreement of two (parameters, mappings) pairs on the parameter / mapping accesses of a trace *)
Definition pm_agree (ps ps' maps maps' : list (str * value)) (t : trace) : Prop :=
  (forall k, In (AParam k) t -> lookup k ps = lookup k ps') /\ (forall m, In (AMap m) t -> lookup m maps = lookup m maps').
Lemma pm_agree_app ps ps' maps maps' t1 t2 :
  pm_agree ps ps' maps maps' (t1 ++ t2) <-> pm_agree ps ps' maps maps' t1 /\ pm_agree ps ps' maps maps' t2.
Proof.
  unfold pm_agree. split.
  - intros [Hp Hm]. repeat split; intros k Hk; (apply Hp || apply Hm); apply in_or_app; auto.
  - intros [[Hp1 Hm1] [Hp2 Hm2]]. split; intros k Hk; apply in_app_or in Hk; destruct Hk; auto.
Qed.
Lemma pm_agree_incl ps ps' maps maps' t1 t2 : (forall a, In a t1 -> In a t2) ->
  pm_agree ps ps' maps maps' t2 -> pm_agree ps ps' maps maps' t1.
Proof. intros Hi [Hp Hm]. split; intros k Hk; [apply Hp | apply Hm]; apply Hi; exact Hk. Qed.

Theorem cond_val_frame ps ps' maps maps' decl : forall fuel rem n,
  pm_agree ps ps' maps maps' (cond_trace ps maps decl fuel rem n) ->
  cond_val ps' maps' decl fuel rem n = cond_val ps maps decl fuel rem n.
Proof.
  induction fuel as [|f IH]; intros rem n H; [reflexivity|].
  cbn [cond_val cond_trace] in *. destruct (mem_str n rem); [|reflexivity].
  destruct (lookup n decl) as [body|]; [|reflexivity].
  apply pm_agree_app in H. destruct H as [H1 H2].
  change {| params := ps'; mappings := maps'; conds := cond_val ps' maps' decl f (remove_str n rem) |}
    with (cond_env ps' maps' decl f (remove_str n rem)).
  change {| params := ps; mappings := maps; conds := cond_val ps maps decl f (remove_str n rem) |}
    with (cond_env ps maps decl f (remove_str n rem)).
  rewrite (resolve_frame (cond_env ps maps decl f (remove_str n rem)) (cond_env ps' maps' decl f (remove_str n rem)) body);
    [reflexivity|].
  apply agree_split. destruct H1 as [Hp Hm]. split; [exact Hp | split; [exact Hm |]].
  intros m Hm'. simpl. symmetry. apply IH.
  eapply pm_agree_incl; [|exact H2]. intros a Ha. apply in_flat_map. exists (ACond m). split; assumption.
Qed.

Lemma cond_all_frame ps ps' maps maps' decl names :
  pm_agree ps ps' maps maps' (conds_trace ps maps decl names) ->
  cond_all ps' maps' decl names = cond_all ps maps decl names.
Proof.
  induction names as [|n r IH]; intros H; [reflexivity|].
  cbn [cond_all conds_trace] in *. apply pm_agree_app in H. destruct H as [H1 H2].
  unfold cond_root in *. unfold cond_root_trace in H1. rewrite (cond_val_frame ps ps' maps maps' decl _ _ _ H1).
  destruct (cond_val ps maps decl (S (length decl)) (keys decl) n); cbn [bind]; [|reflexivity].
  rewrite (IH H2). reflexivity.
Qed.

(* ---- the whole model, after parameter binding ---- *)
Definition resolve_model_from (ps maps cdecl rs : list (str * value)) : res value :=
  resolved <- cond_all ps maps cdecl (keys cdecl) ;;
  rs' <- resolve_resources (renv ps maps resolved) resolved rs ;;
  Ok (VDict [(K_Conditions, VDict (map (fun nb => (fst nb, VBool (snd nb))) resolved)); (K_Resources, VDict rs')]).
Lemma resolve_model_unfold pseudo decls extra maps cdecl rs :
  resolve_model pseudo decls extra maps cdecl rs = (ps <- bind_params pseudo decls extra ;; resolve_model_from ps maps cdecl rs).
Proof. reflexivity. Qed.

(* every parameter / mapping access of a model: all declared conditions (they are all evaluated), then the kept resources *)
Definition model_trace (ps maps cdecl rs : list (str * value)) : trace :=
  conds_trace ps maps cdecl (keys cdecl) ++
  match cond_all ps maps cdecl (keys cdecl) with
  | Ok resolved => resources_trace (renv ps maps resolved) resolved rs
  | Err _ => []
  end.

Theorem resolve_model_from_frame ps ps' maps maps' cdecl rs :
  pm_agree ps ps' maps maps' (model_trace ps maps cdecl rs) ->
  resolve_model_from ps' maps' cdecl rs = resolve_model_from ps maps cdecl rs.
Proof.
  unfold model_trace, resolve_model_from. intros H. apply pm_agree_app in H. destruct H as [H1 H2].
  rewrite (cond_all_frame _ _ _ _ _ _ H1).
  destruct (cond_all ps maps cdecl (keys cdecl)) as [resolved|]; cbn [bind]; [|reflexivity].
  assert (Hr : resolve_resources (renv ps' maps' resolved) resolved rs = resolve_resources (renv ps maps resolved) resolved rs).
  { apply resolve_resources_frame; [reflexivity|].
    apply agree_split. destruct H2 as [Hp Hm]. split; [exact Hp | split; [exact Hm | intros; reflexivity]]. }
  rewrite Hr. reflexivity.
Qed.

(* binding one more declaration changes the lookup of that name only *)
Lemma bind_params_add_decl pseudo decls extra k d ov ps :
  ref_value d (supplied k extra) = Ok ov -> bind_params pseudo decls extra = Ok ps ->
  exists ps', bind_params pseudo ((k, d) :: decls) extra = Ok ps' /\ forall k', k' <> k -> lookup k' ps' = lookup k' ps.
Proof.
  unfold bind_params. intros Hd H. bind_inv. inv H. cbn [bind_declared]. rewrite Hd, E. cbn [bind].
  eexists. split; [reflexivity|]. intros k' Hne. apply str_eqb_neq in Hne.
  rewrite !lookup_app.
  rewrite (lookup_filter_keys k' extra (fun x => negb (mem_str x (keys ((k, d) :: decls))))).
  rewrite (lookup_filter_keys k' extra (fun x => negb (mem_str x (keys decls)))).
  assert (Hm : mem_str k' (keys ((k, d) :: decls)) = mem_str k' (keys decls)).
  { unfold keys, mem_str. cbn [map fst existsb]. rewrite Hne. reflexivity. }
  rewrite Hm. destruct ov as [x|]; [|reflexivity]. cbn [lookup]. rewrite Hne. reflexivity.
Qed.
Lemma bind_params_add_decl_err pseudo decls extra k d ov err :
  ref_value d (supplied k extra) = Ok ov -> bind_params pseudo decls extra = Err err ->
  bind_params pseudo ((k, d) :: decls) extra = Err err.
Proof.
  unfold bind_params. intros Hd H. cbn [bind_declared]. rewrite Hd. cbn [bind].
  destruct (bind_declared decls extra); cbn [bind] in *; [discriminate | exact H].
Qed.

(* THE TEMPLATE-LEVEL STATEMENT: one more entry in the Parameters section, whose own binding does not raise, and whose name no
   condition and no kept resource reads, leaves the resolved model unchanged (same conditions, same resources, same exception) *)
Theorem add_unused_declaration pseudo decls extra maps cdecl rs k d ov :
  ref_value d (supplied k extra) = Ok ov ->
  (forall ps, bind_params pseudo decls extra = Ok ps -> ~ In (AParam k) (model_trace ps maps cdecl rs)) ->
  resolve_model pseudo ((k, d) :: decls) extra maps cdecl rs = resolve_model pseudo decls extra maps cdecl rs.
Proof.
  intros Hd Hk. rewrite !resolve_model_unfold.
  destruct (bind_params pseudo decls extra) as [ps|err] eqn:Eb.
  - destruct (bind_params_add_decl pseudo decls extra k d ov ps Hd Eb) as (ps' & Hb' & Hl). rewrite Hb'. cbn [bind].
    apply resolve_model_from_frame. split; [|reflexivity].
    intros k' Hk'. symmetry. apply Hl. intros ->. exact (Hk ps eq_refl Hk').
  - rewrite (bind_params_add_decl_err pseudo decls extra k d ov err Hd Eb). reflexivity.
Qed.

(* one more entry in the Mappings section that no condition and no kept resource looks up *)
Theorem add_unused_model_mapping pseudo decls extra maps cdecl rs m x :
  (forall ps, bind_params pseudo decls extra = Ok ps -> ~ In (AMap m) (model_trace ps maps cdecl rs)) ->
  resolve_model pseudo decls extra ((m, x) :: maps) cdecl rs = resolve_model pseudo decls extra maps cdecl rs.
Proof.
  intros Hm. rewrite !resolve_model_unfold.
  destruct (bind_params pseudo decls extra) as [ps|err] eqn:Eb; [|reflexivity]. cbn [bind].
  apply resolve_model_from_frame. split; [reflexivity|].
  intros m' Hm'. simpl. destruct (str_eqb m' m) eqn:E; [|reflexivity].
  apply str_eqb_spec in E. subst. exfalso. exact (Hm ps eq_refl Hm').
Qed.

(* the two template-level frame statements with the hypotheses spelled out *)
Theorem resolve_resources_unused_ext e e' resolved resolved' rs :
  (forall c, In c (gate_names rs) -> lookup c resolved = lookup c resolved') ->
  (forall k, In (AParam k) (resources_trace e resolved rs) -> lookup k (params e) = lookup k (params e')) ->
  (forall m, In (AMap m) (resources_trace e resolved rs) -> lookup m (mappings e) = lookup m (mappings e')) ->
  (forall n, In (ACond n) (resources_trace e resolved rs) -> conds e n = conds e' n) ->
  resolve_resources e' resolved' rs = resolve_resources e resolved rs.
Proof. intros Hg Hp Hm Hc. apply resolve_resources_frame; [exact Hg | apply agree_split; auto]. Qed.
Theorem cond_val_unused_ext ps ps' maps maps' decl fuel rem n :
  (forall k, In (AParam k) (cond_trace ps maps decl fuel rem n) -> lookup k ps = lookup k ps') ->
  (forall m, In (AMap m) (cond_trace ps maps decl fuel rem n) -> lookup m maps = lookup m maps') ->
  cond_val ps' maps' decl fuel rem n = cond_val ps maps decl fuel rem n.
Proof. intros Hp Hm. apply cond_val_frame. split; assumption. Qed.

(* ================= 6. a syntactic SUFFICIENT condition for "parameter k is not read" =================
   Users think syntactically: "the name occurs nowhere".  That is sound only where names are not computed.
   [literal_names v]: every Ref / Fn::ImportValue body in v is a literal string that is rendered as itself (not an SSM reference,
   not a spelling of true / false, which is lower-cased), and every Fn::Sub is in string form (the values of a Fn::Sub variable
   map are computed, and an SSM-looking result would be looked up).  Every other function may take any [literal_names] argument.
   For such v the parameter names read are among: the string leaves of v themselves, their SSM keys, their ${placeholders}
   ([syn_names v]), and the SSM keys in the leaves of the parameter VALUES ([pv_names]); in particular all of them occur as
   TEXT in a string leaf of v or of a parameter value ([mentions]). *)
Definition ssm_names_str (s : str) : list str := match ssm_key s with Some key => [key] | None => [] end.
Definition tok_names (ts : list stok) : list str := flat_map (fun t => match t with TVar n => [n] | _ => [] end) ts.
Definition leaf_names (s : str) : list str := s :: ssm_names_str s ++ tok_names (sub_tokens s).
Fixpoint syn_names (v : value) : list str :=
  match v with
  | VStr s => leaf_names s
  | VList l => flat_map syn_names l
  | VDict d => flat_map (fun kv => syn_names (snd kv)) d
  | _ => []
  end.
Fixpoint ssm_names (v : value) : list str :=
  match v with
  | VStr s => ssm_names_str s
  | VList l => flat_map ssm_names l
  | VDict d => flat_map (fun kv => ssm_names (snd kv)) d
  | _ => []
  end.
Definition pv_names (ps : list (str * value)) : list str := flat_map (fun kv => ssm_names (snd kv)) ps.

Fixpoint literal_names (v : value) : bool :=
  match v with
  | VList l => forallb literal_names l
  | VDict d =>
      match d with
      | [(k, body)] =>
          if str_eqb k K_Ref || str_eqb k K_ImportValue then
            match body with
            | VStr s => match ssm_key s with None => negb (is_boolish s) | Some _ => false end
            | _ => false
            end
          else if str_eqb k K_Sub then match body with VStr _ => true | _ => false end
          else literal_names body
      | _ => forallb (fun kv => literal_names (snd kv)) d
      end
  | _ => true
  end.

Lemma in_tbind {A B} (a : access) (r : tres A) (f : A -> tres B) :
  In a (snd (tbind r f)) -> In a (snd r) \/ exists x, fst r = Ok x /\ In a (snd (f x)).
Proof.
  rewrite snd_tbind. intros H. apply in_app_or in H. destruct H as [H|H]; [left; exact H|].
  destruct (fst r) as [x|]; [right; exists x; split; [reflexivity | exact H] | destruct H].
Qed.
Lemma in_tlog {A} (a : access) t (r : tres A) : In a (snd (tlog t r)) -> In a t \/ In a (snd r).
Proof. rewrite snd_tlog. apply in_app_or. Qed.
Lemma in_tpure {A} (a : access) (r : res A) : In a (snd (tpure r)) -> False.
Proof. intros []. Qed.
Ltac tr_inv :=
  repeat match goal with
  | H : In _ (snd (tbind _ _)) |- _ => apply in_tbind in H; destruct H as [H | (? & ? & H)]
  | H : In _ (snd (tlog _ _)) |- _ => apply in_tlog in H; destruct H as [H | H]
  | H : In _ (snd (tpure _)) |- _ => apply in_tpure in H; destruct H
  | H : In (AParam _) [ACond _] |- _ => destruct H as [H | []]; discriminate H
  end.

Lemma ssm_trace_names a s : In a (ssm_trace s) -> exists k, a = AParam k /\ In k (ssm_names_str s).
Proof.
  unfold ssm_trace, ssm_names_str. destruct (ssm_key s) as [key|]; [|intros []].
  intros [<-|[]]. exists key. split; [reflexivity | left; reflexivity].
Qed.
Lemma normalize_trace_names ps x : forall a, In a (snd (normalize_tr ps x)) -> exists k, a = AParam k /\ In k (ssm_names x).
Proof.
  induction x using value_ind'; intros a Ha; try (destruct Ha; fail).
  - apply ssm_trace_names. exact Ha.
  - rewrite nt_list in Ha. tr_inv. clear -H Ha. induction H as [|x xs Hx Hxs IH]; [destruct Ha|].
    rewrite tr_nlist_cons in Ha. tr_inv.
    + destruct (Hx a Ha) as (k & -> & Hk). exists k. split; [reflexivity|]. cbn [ssm_names flat_map]. apply in_or_app. left. exact Hk.
    + destruct (IH Ha) as (k & -> & Hk). exists k. split; [reflexivity|]. cbn [ssm_names flat_map] in *. apply in_or_app. right. exact Hk.
  - rewrite nt_dict in Ha. destruct (is_fn_dict d); [destruct Ha|]. tr_inv. clear -H Ha.
    induction H as [|[k0 x] xs Hx Hxs IH]; [destruct Ha|]. simpl in Hx.
    rewrite tr_ndict_cons in Ha. tr_inv.
    + destruct (Hx a Ha) as (k & -> & Hk). exists k. split; [reflexivity|]. cbn [ssm_names flat_map snd]. apply in_or_app. left. exact Hk.
    + destruct (IH Ha) as (k & -> & Hk). exists k. split; [reflexivity|]. cbn [ssm_names flat_map snd] in *. apply in_or_app. right. exact Hk.
Qed.
Lemma lookup_pv_names k s x ps : lookup s ps = Some x -> In k (ssm_names x) -> In k (pv_names ps).
Proof. intros Hl Hk. apply lookup_In in Hl. unfold pv_names. apply in_flat_map. exists (s, x). split; assumption. Qed.

Lemma do_ref_names e s k : In (AParam k) (snd (do_ref_tr e (VStr s))) -> k = s \/ In k (pv_names (params e)).
Proof.
  unfold do_ref_tr. intros H. tr_inv.
  - destruct H as [H|[]]. inv H. left; reflexivity.
  - destruct (lookup s (params e)) as [x|] eqn:El; [|destruct H].
    apply normalize_trace_names in H. destruct H as (k' & Hk' & Hin). inv Hk'. right. eapply lookup_pv_names; eauto.
Qed.
Lemma render_toks_names e ts k :
  In (AParam k) (snd (render_toks_tr e [] ts)) -> In k (tok_names ts) \/ In k (pv_names (params e)).
Proof.
  induction ts as [|t r IH]; intros H; [destruct H|]. cbn [render_toks_tr] in H. tr_inv.
  - destruct t as [c|name|name]; try (destruct H; fail). unfold render_tok_tr, render_var_tr in H. cbn [lookup] in H. tr_inv.
    + destruct H as [H|[]]. inv H. left. cbn [tok_names flat_map]. left. reflexivity.
    + destruct (lookup name (params e)) as [x|] eqn:El; [|destruct H]. tr_inv.
      apply normalize_trace_names in H. destruct H as (k' & Hk' & Hin). inv Hk'. right. eapply lookup_pv_names; eauto.
  - destruct (IH H) as [G|G]; [left | right; exact G]. unfold tok_names in *. cbn [flat_map]. apply in_or_app. right. exact G.
Qed.
Lemma find_in_map_no_param e m k1 k2 k : ~ In (AParam k) (snd (do_find_in_map_tr e m k1 k2)).
Proof. unfold do_find_in_map_tr. cbn [snd]. destruct m, k1, k2; intros H; try (destruct H; fail); destruct H as [H|[]]; discriminate H. Qed.

Section InLists.
Variable e : env.
Lemma in_tlist a l : In a (snd (tlist e l)) -> exists x, In x l /\ In a (trace_of e x).
Proof.
  induction l as [|x xs IH]; intros H; [destruct H|]. rewrite tlist_cons in H. tr_inv.
  - exists x. split; [left; reflexivity | exact H].
  - destruct (IH H) as (y & Hy & Hay). exists y. split; [right; exact Hy | exact Hay].
Qed.
Lemma in_tdict a d : In a (snd (tdict e d)) -> exists k x, In (k, x) d /\ In a (trace_of e x).
Proof.
  induction d as [|[k x] xs IH]; intros H; [destruct H|]. rewrite tdict_cons in H. tr_inv.
  - exists k, x. split; [left; reflexivity | exact H].
  - destruct (IH H) as (k' & y & Hy & Hay). exists k', y. split; [right; exact Hy | exact Hay].
Qed.
Lemma in_tall a l : In a (snd (tall e l)) -> exists x, In x l /\ In a (trace_of e x).
Proof.
  induction l as [|x xs IH]; intros H; [destruct H|]. rewrite tall_cons in H. tr_inv.
  - exists x. split; [left; reflexivity | exact H].
  - destruct x1; [|apply in_tpure in H; destruct H].
    destruct (IH H) as (y & Hy & Hay). exists y. split; [right; exact Hy | exact Hay].
Qed.
Lemma in_tany a l : In a (snd (tany e l)) -> exists x, In x l /\ In a (trace_of e x).
Proof.
  induction l as [|x xs IH]; intros H; [destruct H|]. rewrite tany_cons in H. tr_inv.
  - exists x. split; [left; reflexivity | exact H].
  - destruct x1; [apply in_tpure in H; destruct H|].
    destruct (IH H) as (y & Hy & Hay). exists y. split; [right; exact Hy | exact Hay].
Qed.
End InLists.

Lemma lit_in l : literal_names (VList l) = true -> forall x, In x l -> literal_names x = true.
Proof. cbn [literal_names]. intros H x Hx. rewrite forallb_forall in H. apply H. exact Hx. Qed.
Lemma lit_other k body : str_eqb k K_Ref = false -> str_eqb k K_ImportValue = false -> str_eqb k K_Sub = false ->
  literal_names (VDict [(k, body)]) = literal_names body.
Proof. intros H1 H2 H3. cbn [literal_names]. rewrite H1, H2, H3. reflexivity. Qed.
Lemma lit_ref k body : str_eqb k K_Ref || str_eqb k K_ImportValue = true -> literal_names (VDict [(k, body)]) = true ->
  exists s, body = VStr s /\ ssm_key s = None /\ is_boolish s = false.
Proof.
  intros Hk. cbn [literal_names]. rewrite Hk. destruct body; try discriminate. destruct (ssm_key s) eqn:E; [discriminate|].
  intros H. exists s. repeat split; [exact E|]. destruct (is_boolish s); [discriminate | reflexivity].
Qed.
Lemma syn_sub_body K body k : In k (syn_names body) -> In k (syn_names (VDict [(K, body)])).
Proof. intros H. cbn [syn_names flat_map snd]. apply in_or_app. left. exact H. Qed.
Lemma syn_sub_list K l x k : In x l -> In k (syn_names x) -> In k (syn_names (VDict [(K, VList l)])).
Proof. intros Hx Hk. apply syn_sub_body. cbn [syn_names]. apply in_flat_map. exists x. split; assumption. Qed.

Theorem syn_trace_sound_n e : forall n v, (vsize v < n)%nat -> literal_names v = true ->
  forall k, In (AParam k) (trace_of e v) -> In k (syn_names v) \/ In k (pv_names (params e)).
Proof.
  unfold trace_of.
  induction n as [|n IH]; intros v Hs Hlit k0 Hin; [lia|].
  destruct v as [| b | z | s | kd t | bs | l | d]; try (destruct Hin; fail).
  - cbn [resolve_tr snd] in Hin. apply ssm_trace_names in Hin. destruct Hin as (k' & Hk' & Hk). inv Hk'.
    left. cbn [syn_names]. unfold leaf_names. right. apply in_or_app. left. exact Hk.
  - rewrite rt_list in Hin. tr_inv. apply in_tlist in Hin. destruct Hin as (x & Hx & Hax).
    destruct (IH x ltac:(pose proof (vsize_in_list x l Hx); lia) (lit_in l Hlit x Hx) k0 Hax) as [G|G]; [left | right; exact G].
    cbn [syn_names]. apply in_flat_map. exists x. split; assumption.
  - assert (Hgen : is_fn_dict d = false -> forallb (fun kv => literal_names (snd kv)) d = true ->
                   In k0 (syn_names (VDict d)) \/ In k0 (pv_names (params e))).
    { intros Hf Hl. rewrite rt_dict_generic in Hin by assumption. tr_inv. apply in_tdict in Hin.
      destruct Hin as (k' & x & Hx & Hax). rewrite forallb_forall in Hl.
      destruct (IH x ltac:(pose proof (vsize_in_dict k' x d Hx); lia) (Hl (k', x) Hx) k0 Hax) as [G|G]; [left | right; exact G].
      cbn [syn_names]. apply in_flat_map. exists (k', x). split; assumption. }
    destruct d as [|[k body] [|kv2 rest]]; [apply Hgen; [reflexivity | exact Hlit] | | apply Hgen; [reflexivity | exact Hlit]].
    assert (Hdeep : forall x, (vsize x < vsize body \/ x = body)%nat -> literal_names x = true ->
                    In (AParam k0) (snd (resolve_tr e x)) -> In k0 (syn_names x) \/ In k0 (pv_names (params e))).
    { intros x Hx Hl Ha. apply IH; [|exact Hl | exact Ha]. simpl in Hs. destruct Hx as [Hx| ->]; lia. }
    assert (Href : str_eqb k K_Ref || str_eqb k K_ImportValue = true ->
                   In (AParam k0) (snd (b <~~ resolve_tr e body ;; do_ref_tr e b)) ->
                   In k0 (syn_names (VDict [(k, body)])) \/ In k0 (pv_names (params e))).
    { intros Hk Ha. destruct (lit_ref k body Hk Hlit) as (s & -> & Hssm & Hbool). tr_inv.
      - cbn [resolve_tr snd] in Ha. unfold ssm_trace in Ha. rewrite Hssm in Ha. destruct Ha.
      - cbn [resolve_tr fst] in H. unfold render_str in H. rewrite Hssm, Hbool in H. inv H.
        apply do_ref_names in Ha. destruct Ha as [->|G]; [left | right; exact G].
        apply syn_sub_body. cbn [syn_names]. left. reflexivity. }
    key_case k K_Ref. { rewrite rt_ref in Hin. apply Href; [reflexivity | exact Hin]. }
    key_case k K_ImportValue. { rewrite rt_import in Hin. apply Href; [reflexivity | exact Hin]. }
    clear Href.
    key_case k K_Sub.
    { cbn [literal_names] in Hlit. rewrite Ek, Ek0 in Hlit. cbn [orb str_eqb] in Hlit. rewrite str_eqb_refl in Hlit.
      destruct body as [| | | text | | | |]; try discriminate.
      rewrite rt_sub_text in Hin. unfold do_sub_tr in Hin. tr_inv. apply render_toks_names in Hin.
      destruct Hin as [G|G]; [left | right; exact G]. apply syn_sub_body. cbn [syn_names]. unfold leaf_names.
      right. apply in_or_app. right. exact G. }
    assert (Hbl : literal_names body = true) by (rewrite <- (lit_other k body); assumption).
    assert (Hl : forall l x, body = VList l -> In x l -> In (AParam k0) (snd (resolve_tr e x)) ->
                 In k0 (syn_names (VDict [(k, body)])) \/ In k0 (pv_names (params e))).
    { intros l x -> Hx Ha. destruct (Hdeep x (or_introl (vsize_in_list x l Hx)) (lit_in l Hbl x Hx) Ha) as [G|G]; [left | right; exact G].
      eapply syn_sub_list; eauto. }
    assert (Hb : In (AParam k0) (snd (resolve_tr e body)) -> In k0 (syn_names (VDict [(k, body)])) \/ In k0 (pv_names (params e))).
    { intros Ha. destruct (Hdeep body (or_intror eq_refl) Hbl Ha) as [G|G]; [left; apply syn_sub_body; exact G | right; exact G]. }
    key_case k K_Join.
    { destruct body as [| | | | | | l |]; try (destruct Hin; fail). destruct l as [|dl [|l [|? ?]]]; try (destruct Hin; fail).
      rewrite rt_join in Hin. tr_inv; (eapply Hl; [reflexivity | | eassumption]; simpl; tauto). }
    key_case k K_Split.
    { destruct body as [| | | | | | l |]; try (destruct Hin; fail). destruct l as [|dl [|l [|? ?]]]; try (destruct Hin; fail).
      rewrite rt_split in Hin. tr_inv; (eapply Hl; [reflexivity | | eassumption]; simpl; tauto). }
    key_case k K_Select.
    { destruct body as [| | | | | | l |]; try (destruct Hin; fail). destruct l as [|dl [|l [|? ?]]]; try (destruct Hin; fail).
      rewrite rt_select in Hin. tr_inv; (eapply Hl; [reflexivity | | eassumption]; simpl; tauto). }
    key_case k K_FindInMap.
    { destruct body as [| | | | | | l |]; try (destruct Hin; fail). destruct l as [|m [|k1 [|k2 [|? ?]]]]; try (destruct Hin; fail).
      rewrite rt_find_in_map in Hin. tr_inv; try (eapply Hl; [reflexivity | | eassumption]; simpl; tauto).
      exfalso. eapply find_in_map_no_param; eassumption. }
    key_case k K_Base64. { rewrite rt_base64 in Hin. tr_inv. apply Hb. exact Hin. }
    key_case k K_GetAtt. { destruct Hin. }
    key_case k K_GetAZs. { destruct Hin. }
    key_case k K_Condition.
    { destruct body as [| | | name | | | |]; try (destruct Hin; fail). rewrite rt_condition in Hin. tr_inv. }
    key_case k K_If.
    { destruct body as [| | | | | | l |]; try (destruct Hin; fail).
      destruct l as [|c [|t [|f [|? ?]]]]; try (destruct Hin; fail); try (destruct c; destruct Hin; fail).
      destruct c as [| | | c | | | |]; try (destruct Hin; fail).
      rewrite rt_if in Hin. tr_inv. destruct x; (eapply Hl; [reflexivity | | eassumption]; simpl; tauto). }
    key_case k K_And.
    { destruct body as [| | | | | | parts |]; try (destruct Hin; fail). rewrite rt_and in Hin. tr_inv.
      apply in_tall in Hin. destruct Hin as (x & Hx & Ha). eapply Hl; [reflexivity | exact Hx | exact Ha]. }
    key_case k K_Or.
    { destruct body as [| | | | | | parts |]; try (destruct Hin; fail). rewrite rt_or in Hin. tr_inv.
      apply in_tany in Hin. destruct Hin as (x & Hx & Ha). eapply Hl; [reflexivity | exact Hx | exact Ha]. }
    key_case k K_Not.
    { destruct body as [| | | | | | l |]; try (destruct Hin; fail). destruct l as [|x rest]; try (destruct Hin; fail).
      rewrite rt_not in Hin. tr_inv. eapply Hl; [reflexivity | | eassumption]. left; reflexivity. }
    key_case k K_Equals.
    { destruct body as [| | | | | | l |]; try (destruct Hin; fail). destruct l as [|a [|b [|? ?]]]; try (destruct Hin; fail).
      rewrite rt_equals in Hin. tr_inv; (eapply Hl; [reflexivity | | eassumption]; simpl; tauto). }
    apply Hgen; [apply not_fn_generic'; assumption|]. cbn [forallb snd]. rewrite Hbl. reflexivity.
Qed.
Theorem syn_trace_sound e v k : literal_names v = true -> In (AParam k) (trace_of e v) ->
  In k (syn_names v) \/ In k (pv_names (params e)).
Proof. intros Hl Hin. apply (syn_trace_sound_n e (S (vsize v)) v); [lia | exact Hl | exact Hin]. Qed.

(* ---- ... and every such name occurs as TEXT in a string leaf ---- *)
Lemma prefixb_app k b : prefixb k (k ++ b) = true.
Proof. induction k as [|c k IH]; [destruct b; reflexivity|]. simpl. rewrite N.eqb_refl. exact IH. Qed.
Lemma occursb_cons k c s : occursb k s = true -> occursb k (c :: s) = true.
Proof. intros H. cbn [occursb]. rewrite H. apply orb_true_r. Qed.
Lemma occursb_skip k a s : occursb k s = true -> occursb k (a ++ s) = true.
Proof. induction a as [|c a IH]; intros H; [exact H|]. simpl app. apply occursb_cons. apply IH. exact H. Qed.
Lemma occursb_here k b : occursb k (k ++ b) = true.
Proof. destruct (k ++ b) eqn:E; cbn [occursb]; rewrite <- E, prefixb_app; reflexivity. Qed.
Lemma occursb_mid a k b : occursb k (a ++ k ++ b) = true.
Proof. apply occursb_skip. apply occursb_here. Qed.
Lemma occursb_refl k : occursb k k = true.
Proof. rewrite <- (app_nil_r k) at 2. apply occursb_here. Qed.

Lemma strip_prefix_app p : forall s r, strip_prefix p s = Some r -> s = p ++ r.
Proof.
  induction p as [|x p IH]; intros s r H; simpl in H; [inv H; reflexivity|].
  destruct s as [|y s]; [discriminate|]. destruct (x =? y) eqn:E; [|discriminate].
  apply N.eqb_eq in E. subst y. rewrite (IH s r H). reflexivity.
Qed.
Ltac lit_char H c :=
  destruct c as [|?p]; [discriminate H|]; repeat (match goal with p : positive |- _ => destruct p as [p|p|] end; try discriminate H).
Lemma ssm_key_occurs s key : ssm_key s = Some key -> occursb key s = true.
Proof.
  unfold ssm_key. intros H.
  destruct (strip_prefix S_SSM_PREFIX s) as [r|] eqn:Ep; [|discriminate H].
  apply strip_prefix_app in Ep.
  pose proof (span_app is_ssm_name_char r) as Hs1. destruct (span is_ssm_name_char r) as [name r1]. cbn [fst snd] in Hs1.
  destruct name as [|c0 name]; [discriminate H|]. destruct r1 as [|c1 r2]; [discriminate H|].
  lit_char H c1.
  pose proof (span_app is_digit r2) as Hs2. destruct (span is_digit r2) as [ver r3]. cbn [fst snd] in Hs2.
  destruct ver as [|d0 ver]; [discriminate H|]. destruct r3 as [|c3 r3]; [discriminate H|].
  lit_char H c3. destruct r3 as [|c4 r4]; [discriminate H|]. lit_char H c4.
  inv H.
  replace (S_SSM_PREFIX ++ (c0 :: name) ++ 58 :: (d0 :: ver) ++ 125 :: 125 :: r4)
    with (S_SSM_PREFIX ++ ((c0 :: name) ++ 58 :: d0 :: ver) ++ 125 :: 125 :: r4).
  - apply occursb_mid.
  - f_equal. rewrite <- app_assoc. reflexivity.
Qed.

Lemma placeholder_at_spec s t rest : placeholder_at s = Some (t, rest) ->
  exists pre name, s = pre ++ name ++ 125 :: rest /\ (t = TVar name \/ t = TBang name).
Proof.
  unfold placeholder_at. destruct s as [|c0 [|c1 r]]; try discriminate.
  destruct ((c0 =? 36) && (c1 =? 123)); [|discriminate]. cbv zeta.
  remember (match r with [] => false | c2 :: _ => c2 =? 33 end) as bang eqn:Eb.
  remember (if bang then tl r else r) as r0 eqn:Er0.
  pose proof (span_app is_name_char r0) as Hsp. destruct (span is_name_char r0) as [name r1]. cbn [fst snd] in Hsp.
  destruct name as [|n0 name]; [discriminate|]. destruct r1 as [|c3 r2]; [discriminate|].
  destruct (c3 =? 125) eqn:E3; [|discriminate]. apply N.eqb_eq in E3. subst c3.
  intros H. inv H.
  destruct (match r with [] => false | c2 :: _ => c2 =? 33 end) eqn:Eb.
  - destruct r as [|c2 r']; [discriminate|]. cbn [tl] in Hsp. exists [c0; c1; c2], (n0 :: name). split; [|right; reflexivity].
    rewrite <- Hsp. reflexivity.
  - exists [c0; c1], (n0 :: name). split; [|left; reflexivity]. rewrite <- Hsp. reflexivity.
Qed.
Lemma sub_tokens_go_occurs name : forall fuel s, In (TVar name) (sub_tokens_go fuel s) -> occursb name s = true.
Proof.
  induction fuel as [|f IH]; intros s H; cbn [sub_tokens_go] in H.
  - apply in_map_iff in H. destruct H as (c & Hc & _). discriminate.
  - destruct s as [|c r]; [destruct H|]. destruct (placeholder_at (c :: r)) as [[t rest]|] eqn:Ep.
    + destruct (placeholder_at_spec _ _ _ Ep) as (pre & nm & Hs & Ht). rewrite Hs. destruct H as [H|H].
      * subst t. destruct Ht as [Ht|Ht]; inv Ht. apply occursb_mid.
      * apply IH in H. replace (pre ++ nm ++ 125 :: rest) with ((pre ++ nm ++ [125]) ++ rest).
        -- apply occursb_skip. exact H.
        -- rewrite <- !app_assoc. reflexivity.
    + destruct H as [H|H]; [discriminate|]. apply occursb_cons. apply IH. exact H.
Qed.
Lemma leaf_names_occur s k : In k (leaf_names s) -> occursb k s = true.
Proof.
  unfold leaf_names. intros [<-|H]; [apply occursb_refl|]. apply in_app_or in H. destruct H as [H|H].
  - unfold ssm_names_str in H. destruct (ssm_key s) eqn:E; [|destruct H]. destruct H as [<-|[]]. apply ssm_key_occurs. exact E.
  - unfold tok_names in H. apply in_flat_map in H. destruct H as (t & Ht & Hk).
    destruct t as [c|n|n]; try (destruct Hk; fail). destruct Hk as [<-|[]]. eapply sub_tokens_go_occurs. exact Ht.
Qed.
Lemma syn_names_mentions v k : In k (syn_names v) -> mentions k v = true.
Proof.
  induction v using value_ind'; intros Hk; try (destruct Hk; fail).
  - apply leaf_names_occur. exact Hk.
  - cbn [syn_names mentions] in *. apply in_flat_map in Hk. destruct Hk as (x & Hx & Hk).
    apply existsb_exists. exists x. split; [exact Hx|]. rewrite Forall_forall in H. apply H; assumption.
  - cbn [syn_names mentions] in *. apply in_flat_map in Hk. destruct Hk as ([k' x] & Hx & Hk).
    apply existsb_exists. exists (k', x). split; [exact Hx|]. rewrite Forall_forall in H.
    rewrite (H (k', x) Hx Hk). apply orb_true_r.
Qed.
Lemma ssm_names_syn v k : In k (ssm_names v) -> In k (syn_names v).
Proof.
  induction v using value_ind'; intros Hk; try (destruct Hk; fail).
  - cbn [ssm_names syn_names] in *. unfold leaf_names. right. apply in_or_app. left. exact Hk.
  - cbn [ssm_names syn_names] in *. apply in_flat_map in Hk. destruct Hk as (x & Hx & Hk).
    apply in_flat_map. exists x. split; [exact Hx|]. rewrite Forall_forall in H. apply H; assumption.
  - cbn [ssm_names syn_names] in *. apply in_flat_map in Hk. destruct Hk as ([k' x] & Hx & Hk).
    apply in_flat_map. exists (k', x). split; [exact Hx|]. rewrite Forall_forall in H. apply (H (k', x) Hx Hk).
Qed.

(* THE SYNTACTIC STATEMENT: in the fragment where names are literal, a text that occurs in no string of the expression and in no
   string of a parameter value is not the name of a parameter that is read *)
Theorem unmentioned_parameter_unused e v k : literal_names v = true -> mentions k v = false ->
  (forall p x, In (p, x) (params e) -> mentions k x = false) -> ~ In (AParam k) (trace_of e v).
Proof.
  intros Hl Hv Hp Hin. destruct (syn_trace_sound e v k Hl Hin) as [G|G].
  - apply syn_names_mentions in G. congruence.
  - unfold pv_names in G. apply in_flat_map in G. destruct G as ([p x] & Hx & Hk). cbn [snd] in Hk.
    apply ssm_names_syn, syn_names_mentions in Hk. rewrite (Hp p x Hx) in Hk. discriminate.
Qed.
(* ... so a parameter declared under such a name changes nothing *)
Corollary add_unmentioned_parameter e v k x : literal_names v = true -> mentions k v = false ->
  (forall p y, In (p, y) (params e) -> mentions k y = false) ->
  resolve (with_params e ((k, x) :: params e)) v = resolve e v.
Proof. intros Hl Hv Hp. apply add_unused_parameter. apply unmentioned_parameter_unused; assumption. Qed.
(* the fragment is needed: [v_ab] mentions "ab" nowhere and reads it ([ex_computed_name]); it is not in the fragment *)
Lemma ex_computed_name_not_literal : literal_names v_ab = false.
Proof. vm_compute. reflexivity. Qed.
