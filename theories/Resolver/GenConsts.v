(* What the resolver model expects of the generated tables (string_scope only here). *)
From Coq Require Import List String NArith.
From PV Require Import Base.Str Resolver.Consts.
Import ListNotations.
Local Open Scope string_scope.

Definition EXPECTED_KINDS : list (str * str) := Eval compute in
  map (fun p => (of_string (fst p), of_string (snd p)))
  [("Condition", "resolve_condition"); ("Fn::And", "resolve_and"); ("Fn::Base64", "resolve_base64");
   ("Fn::Equals", "resolve_equals"); ("Fn::FindInMap", "resolve_find_in_map"); ("Fn::GetAtt", "resolve_get_attr");
   ("Fn::GetAZs", "resolve_get_azs"); ("Fn::If", "resolve_if"); ("Fn::ImportValue", "resolve_ref");
   ("Fn::Join", "resolve_join"); ("Fn::Not", "resolve_not"); ("Fn::Or", "resolve_or");
   ("Fn::Select", "resolve_select"); ("Fn::Split", "resolve_split"); ("Fn::Sub", "resolve_sub"); ("Ref", "resolve_ref")].
(* the placeholder syntax the tokenizer [sub_tokens] implements:  ${  optional !  one or more of [\w:]  } *)
Definition EXPECTED_SUB_REGEX : str := Eval compute in of_string "\$\{(!?)([\w:]+)\}".
Definition EXPECTED_SSM_REGEX : str := Eval compute in of_string "{{resolve:ssm:([a-zA-Z0-9_./-]+:\d+)}}".
