(* Condition values: independent of declaration order and of fuel; undeclared / in-progress references are false;
   truth tables; resource gating; AWS::NoValue pruning. *)
From Coq Require Import List Bool NArith ZArith Lia Permutation.
From PV Require Import Base.Str Base.Value Resolver.Consts Resolver.Text Resolver.Resolve Resolver.Spec Resolver.Ext Resolver.Template.
Import ListNotations.
Local Open Scope N_scope.

Definition same_members (a b : list str) : Prop := forall x, mem_str x a = mem_str x b.

Lemma mem_remove x n l : mem_str x (remove_str n l) = mem_str x l && negb (str_eqb n x).
Proof.
  unfold remove_str. induction l as [|y l IH]; simpl; [reflexivity|].
  destruct (str_eqb n y) eqn:E1; simpl.
  - rewrite IH. apply str_eqb_spec in E1; subst y. destruct (str_eqb x n) eqn:E2; simpl; [|reflexivity].
    apply str_eqb_spec in E2; subst. rewrite str_eqb_refl. simpl. rewrite andb_false_r. reflexivity.
  - rewrite IH. destruct (str_eqb x y) eqn:E2; simpl; [|reflexivity].
    apply str_eqb_spec in E2; subst. rewrite E1. reflexivity.
Qed.
Lemma same_members_remove n a b : same_members a b -> same_members (remove_str n a) (remove_str n b).
Proof. intros H x. rewrite !mem_remove, (H x). reflexivity. Qed.

Lemma filter_length_le {A} (f : A -> bool) l : (length (filter f l) <= length l)%nat.
Proof. induction l as [|x l IH]; simpl; [lia|]. destruct (f x); simpl; lia. Qed.
Lemma remove_length n l : mem_str n l = true -> (length (remove_str n l) < length l)%nat.
Proof.
  unfold remove_str, mem_str. induction l as [|y l IH]; simpl; [discriminate|].
  destruct (str_eqb n y) eqn:E; simpl.
  - intros _. pose proof (filter_length_le (fun x => negb (str_eqb n x)) l). lia.
  - intros H. specialize (IH H). lia.
Qed.

Section CondVal.
Variables ps maps : list (str * value).

Definition cenv (k : str -> res bool) : env := {| params := ps; mappings := maps; conds := k |}.
Lemma cenv_eq k k' : (forall n, k n = k' n) -> env_eq (cenv k) (cenv k').
Proof. intros H. repeat split; auto; intros x; reflexivity. Qed.

(* the value depends on the declarations only through lookups, and on [rem] only as a set *)
Lemma cond_val_ext decl decl' : same_lookups decl decl' ->
  forall fuel rem rem' n, same_members rem rem' ->
    cond_val ps maps decl fuel rem n = cond_val ps maps decl' fuel rem' n.
Proof.
  intros Hd. induction fuel as [|f IH]; intros rem rem' n Hr; [reflexivity|].
  simpl. rewrite <- (Hr n). destruct (mem_str n rem); [|reflexivity].
  rewrite <- (Hd n). destruct (lookup n decl) as [body|]; [|reflexivity].
  rewrite (resolve_env_eq _ (cenv (cond_val ps maps decl' f (remove_str n rem'))) body); [reflexivity|].
  apply cenv_eq. intros m. apply IH. apply same_members_remove. assumption.
Qed.

(* any fuel above the number of names not in progress gives the same answer: fuel exhaustion is unreachable *)
Lemma cond_val_fuel decl : forall fuel fuel' rem n,
  (length rem < fuel)%nat -> (length rem < fuel')%nat ->
  cond_val ps maps decl fuel rem n = cond_val ps maps decl fuel' rem n.
Proof.
  induction fuel as [|f IH]; intros fuel' rem n H1 H2; [lia|]. destruct fuel' as [|f']; [lia|].
  simpl. destruct (mem_str n rem) eqn:Em; [|reflexivity].
  destruct (lookup n decl) as [body|]; [|reflexivity].
  rewrite (resolve_env_eq _ (cenv (cond_val ps maps decl f' (remove_str n rem))) body); [reflexivity|].
  apply cenv_eq. intros m. pose proof (remove_length n rem Em). apply IH; lia.
Qed.

(* a reference to a name that is in progress (a cycle) or not declared counts as false *)
Lemma cond_val_not_in decl fuel rem n : mem_str n rem = false -> cond_val ps maps decl (S fuel) rem n = Ok false.
Proof. intros H. simpl. rewrite H. reflexivity. Qed.
Lemma cond_val_undeclared decl fuel rem n : lookup n decl = None -> cond_val ps maps decl (S fuel) rem n = Ok false.
Proof. intros H. simpl. destruct (mem_str n rem); [rewrite H|]; reflexivity. Qed.

(* unfolding: the value of a declared name is its body evaluated with that name marked as in progress *)
Lemma cond_val_step decl fuel rem n body : mem_str n rem = true -> lookup n decl = Some body ->
  cond_val ps maps decl (S fuel) rem n =
  (r <- resolve (cenv (cond_val ps maps decl fuel (remove_str n rem))) body ;; ext_bool r).
Proof. intros H1 H2. simpl. rewrite H1, H2. reflexivity. Qed.
End CondVal.

Lemma lookup_perm {A} (d d' : list (str * A)) : Permutation d d' -> NoDup (keys d) -> same_lookups d d'.
Proof.
  induction 1 as [| [k v] l l' Hp IH | [k1 v1] [k2 v2] l | l l' l'' Hp1 IH1 Hp2 IH2]; intros Hnd x.
  - reflexivity.
  - simpl. inv Hnd. rewrite (IH H2 x). reflexivity.
  - simpl. inv Hnd. destruct (str_eqb x k2) eqn:E2, (str_eqb x k1) eqn:E1; try reflexivity.
    apply str_eqb_spec in E1, E2. subst. exfalso. apply H1. left. reflexivity.
  - rewrite (IH1 Hnd x). apply IH2. unfold keys in *. eapply Permutation_NoDup; [apply Permutation_map; exact Hp1 | assumption].
Qed.
Lemma keys_perm_members {A} (d d' : list (str * A)) : Permutation d d' -> same_members (keys d) (keys d').
Proof.
  intros Hp x. unfold keys. apply (Permutation_map fst) in Hp.
  destruct (mem_str x (map fst d)) eqn:E1, (mem_str x (map fst d')) eqn:E2; try reflexivity.
  - apply mem_str_In in E1. eapply Permutation_in in E1; [|exact Hp]. apply mem_str_In in E1. congruence.
  - apply mem_str_In in E2. apply Permutation_sym in Hp. eapply Permutation_in in E2; [|exact Hp]. apply mem_str_In in E2. congruence.
Qed.

(* the value of a condition does not depend on where it (or any other condition) is declared *)
Theorem cond_root_perm ps maps decl decl' n : Permutation decl decl' -> NoDup (keys decl) ->
  cond_root ps maps decl n = cond_root ps maps decl' n.
Proof.
  intros Hp Hnd. unfold cond_root. rewrite (Permutation_length Hp).
  apply cond_val_ext; [apply lookup_perm; assumption | apply keys_perm_members; assumption].
Qed.

(* adding an unused (unreferenced or not) declaration under a fresh name does not change other lookups; more
   generally conditions with the same lookups have the same values *)
Theorem cond_root_same_lookups ps maps decl decl' n : same_lookups decl decl' -> same_members (keys decl) (keys decl') ->
  length decl = length decl' -> cond_root ps maps decl n = cond_root ps maps decl' n.
Proof. intros H1 H2 H3. unfold cond_root. rewrite H3. apply cond_val_ext; assumption. Qed.

(* ---- truth tables ---- *)
Lemma rall_true_iff e l : rall e l = Ok true <-> Forall (fun x => exists r, resolve e x = Ok r /\ ext_bool r = Ok true) l.
Proof.
  induction l as [|x xs IH]; simpl.
  - split; [constructor | reflexivity].
  - split.
    + intros H. bind_inv. destruct a0; [|discriminate]. constructor; [eauto | apply IH; assumption].
    + intros H. inv H. destruct H2 as (r & Hr & Hb). rewrite Hr. simpl. rewrite Hb. simpl. apply IH. assumption.
Qed.
Lemma rany_false_iff e l : rany e l = Ok false <-> Forall (fun x => exists r, resolve e x = Ok r /\ ext_bool r = Ok false) l.
Proof.
  induction l as [|x xs IH]; simpl.
  - split; [constructor | reflexivity].
  - split.
    + intros H. bind_inv. destruct a0; [discriminate|]. constructor; [eauto | apply IH; assumption].
    + intros H. inv H. destruct H2 as (r & Hr & Hb). rewrite Hr. simpl. rewrite Hb. simpl. apply IH. assumption.
Qed.
Lemma py_eq_strings a b : py_eq (VStr a) (VStr b) = Ok (str_eqb a b).
Proof. reflexivity. Qed.
(* Fn::Equals compares the string renderings: 1 and "1", true and "TRUE" are equal *)
Lemma equals_renderings e a b a' b' :
  resolve e a = Ok (VStr a') -> resolve e b = Ok (VStr b') ->
  resolve e (VDict [(K_Equals, VList [a; b])]) = Ok (VBool (str_eqb a' b')).
Proof. intros H1 H2. rewrite resolve_equals, H1, H2. reflexivity. Qed.

(* ---- AWS::NoValue members are removed, never kept ---- *)
Lemma rlist_no_novalue e l l' : rlist e l = Ok l' -> Forall (fun x => is_novalue x = false) l'.
Proof.
  revert l'; induction l as [|x xs IH]; intros l' H; simpl in H.
  - inv H. constructor.
  - bind_inv. inv H. destruct (is_novalue a) eqn:Enov; [apply IH; reflexivity | constructor; [assumption | apply IH; reflexivity]].
Qed.
Lemma rdict_no_novalue e d d' : rdict e d = Ok d' -> Forall (fun kv => is_novalue (snd kv) = false) d'.
Proof.
  revert d'; induction d as [|[k x] xs IH]; intros d' H; simpl in H.
  - inv H. constructor.
  - bind_inv. inv H. destruct (is_novalue a) eqn:Enov; [apply IH; reflexivity | constructor; [assumption | apply IH; reflexivity]].
Qed.
Theorem novalue_pruned e v r : resolve e v = Ok r ->
  match r with
  | VList l' => match v with VList _ => Forall (fun x => is_novalue x = false) l' | _ => True end
  | VDict d' => match v with VDict d => is_fn_dict d = false -> Forall (fun kv => is_novalue (snd kv) = false) d' | _ => True end
  | _ => True
  end.
Proof.
  intros H. destruct r; try exact I; destruct v; try exact I.
  - rewrite resolve_list in H. bind_inv. inv H. eapply rlist_no_novalue; eauto.
  - intros Hf. rewrite resolve_dict_generic in H by assumption. bind_inv. inv H. eapply rdict_no_novalue; eauto.
Qed.

(* ---- resource gating and locality (also C07): a resource is present iff its gate is open, and its resolved
        form is a function of its own definition and the environment only ---- *)
Theorem resolve_resources_spec e resolved rs rs' : resolve_resources e resolved rs = Ok rs' -> NoDup (keys rs) ->
  forall id,
    match lookup id rs with
    | None => lookup id rs' = None
    | Some r =>
        match gate resolved r with
        | Ok true => exists r', resolve_resource e r = Ok r' /\ lookup id rs' = Some r'
        | Ok false => lookup id rs' = None
        | Err _ => False
        end
    end.
Proof.
  revert rs'; induction rs as [|[k r] rest IH]; intros rs' H Hnd id; simpl in H.
  - inv H. reflexivity.
  - inv Hnd. destruct (gate resolved r) as [keep|] eqn:Eg; simpl in H; [|discriminate].
    simpl. destruct (str_eqb id k) eqn:Ek.
    + apply str_eqb_spec in Ek. subst id. rewrite Eg. destruct keep.
      * bind_inv. inv H. exists a. split; [reflexivity|]. simpl. rewrite str_eqb_refl. reflexivity.
      * specialize (IH rs' H H3 k). destruct (lookup k rest) eqn:El; [|assumption].
        exfalso. apply H2. apply lookup_In in El. unfold keys. apply in_map_iff. exists (k, v). split; [reflexivity | assumption].
    + destruct keep.
      * bind_inv. inv H. specialize (IH a0 eq_refl H3 id). simpl. rewrite Ek. exact IH.
      * exact (IH rs' H H3 id).
Qed.

Lemma gate_spec resolved fields :
  gate resolved (VDict fields) =
  match lookup K_Condition fields with
  | None | Some VNull => Ok true
  | Some (VStr c) => Ok (negb (match lookup c resolved with Some false => true | _ => false end))
  | Some _ => Err EUndefined
  end.
Proof.
  unfold gate. destruct (lookup K_Condition fields) as [v|]; [|reflexivity].
  destruct v; try reflexivity. destruct (lookup s resolved) as [[|]|]; reflexivity.
Qed.
