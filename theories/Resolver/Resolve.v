(* Model of pycfmodel.resolver.resolve (specified behaviour, = the code after the recorded repairs).
   One structurally recursive function over [value]; Python exceptions are explicit [Err]s;
   [Err EUndefined] marks ill-typed inputs on which the model declines to speak. *)
From Coq Require Import List Bool NArith ZArith Lia.
From PV Require Import Base.Str Base.Value Resolver.Consts Resolver.Text.
Import ListNotations.
Local Open Scope N_scope.

Record env := {
  params : list (str * value);      (* merged parameters: pseudo + declared + extra *)
  mappings : list (str * value);    (* Mappings: name -> VDict (top -> VDict (second -> leaf)) *)
  conds : str -> res bool;          (* value of a condition reference; undeclared / in progress = false *)
}.

Definition is_fn (k : str) : bool := mem_str k MODEL_FUNCTIONS.
Definition is_fn_dict (d : list (str * value)) : bool :=
  match d with [(k, _)] => is_fn k | _ => false end.
Definition is_novalue (v : value) : bool :=
  match v with VStr s => str_eqb s S_NOVALUE | _ => false end.

Definition undefined_param (s : str) : str := S_UNDEF_PARAM ++ s.
Definition undefined_mapping (m k1 k2 : str) : str :=
  S_UNDEF_MAPPING ++ m ++ S_UNDERSCORE ++ k1 ++ S_UNDERSCORE ++ k2.

(* ---- leaves ---- *)
Definition is_boolish (s : str) : bool := str_eqb (lower s) S_true || str_eqb (lower s) S_false.
Definition render_str (ps : list (str * value)) (s : str) : str :=
  match ssm_key s with
  | Some key =>
      match lookup key ps with
      | Some (VStr (c :: r)) => c :: r
      | _ => undefined_param key
      end
  | None => if is_boolish s then lower s else s
  end.
Definition bool_text (b : bool) : str := if b then S_true else S_false.

(* [render_leaf] is [Some] exactly on non-containers *)
Definition render_leaf (ps : list (str * value)) (v : value) : option value :=
  match v with
  | VNull => Some VNull
  | VBool b => Some (VStr (bool_text b))
  | VInt z => Some (VStr (str_of_Z z))
  | VStr s => Some (VStr (render_str ps s))
  | VTyped _ t => Some (VStr t)
  | VBytes b => Some (VStr (b64encode b))
  | VList _ | VDict _ => None
  end.

(* ---- rendering of a parameter value (what Ref and Fn::Sub insert): the leaf rules, applied through
        lists and objects; a parameter value that contains a function object is outside the domain ---- *)
Fixpoint normalize (ps : list (str * value)) (v : value) {struct v} : res value :=
  match v with
  | VList l =>
      l' <- (fix go (l : list value) : res (list value) :=
               match l with
               | [] => Ok []
               | x :: xs => x' <- normalize ps x ;; xs' <- go xs ;;
                            Ok (if is_novalue x' then xs' else x' :: xs')
               end) l ;;
      Ok (VList l')
  | VDict d =>
      if is_fn_dict d then Err EUndefined else
      d' <- (fix go (d : list (str * value)) : res (list (str * value)) :=
               match d with
               | [] => Ok []
               | (k, x) :: xs => x' <- normalize ps x ;; xs' <- go xs ;;
                                 Ok (if is_novalue x' then xs' else (k, x') :: xs')
               end) d ;;
      Ok (VDict d')
  | VNull => Ok VNull
  | VBool b => Ok (VStr (bool_text b))
  | VInt z => Ok (VStr (str_of_Z z))
  | VStr s => Ok (VStr (render_str ps s))
  | VTyped _ t => Ok (VStr t)
  | VBytes b => Ok (VStr (b64encode b))
  end.

(* ---- pydantic's lenient bool (_extended_bool) ---- *)
Definition ext_bool (v : value) : res bool :=
  match v with
  | VBool b => Ok b
  | VStr s => if mem_str (lower s) BOOL_TRUE then Ok true
              else if mem_str (lower s) BOOL_FALSE then Ok false else Err EValidation
  | VInt 0%Z => Ok false
  | VInt 1%Z => Ok true
  | _ => Err EValidation
  end.

(* ---- Python == on resolved values; numeric cross-type equalities (True == 1 == 1.0) are declined ---- *)
Definition is_numeric (v : value) : bool :=
  match v with VBool _ | VInt _ | VTyped KFloat _ => true | _ => false end.
Definition same_ctor (a b : value) : bool :=
  match a, b with
  | VNull, VNull | VBool _, VBool _ | VInt _, VInt _ | VStr _, VStr _ | VBytes _, VBytes _
  | VList _, VList _ | VDict _, VDict _ => true
  | VTyped k _, VTyped k' _ => tkind_eqb k k'
  | _, _ => false
  end.
Fixpoint has_numeric (v : value) : bool :=
  match v with
  | VBool _ | VInt _ | VTyped _ _ => true
  | VList l => existsb has_numeric l
  | VDict d => existsb (fun kv => has_numeric (snd kv)) d
  | _ => false
  end.
(* resolved values are strings, null, lists and objects of those (plus bools from condition functions):
   on them Python's == is [veqb]; as soon as a raw number / typed atom is involved we decline *)
Definition py_eq (a b : value) : res bool :=
  match a, b with
  | VBool x, VBool y => Ok (Bool.eqb x y)
  | _, _ => if has_numeric a || has_numeric b then Err EUndefined else Ok (veqb a b)
  end.

Fixpoint as_strs (l : list value) : res (list str) :=
  match l with
  | [] => Ok []
  | VStr s :: r => r' <- as_strs r ;; Ok (s :: r')
  | _ :: _ => Err EUndefined
  end.

Definition do_ref (e : env) (b : value) : res value :=
  match b with
  | VStr s =>
      match lookup s (params e) with
      | Some x => normalize (params e) x
      | None => Ok (VStr (undefined_param s))
      end
  | VList _ | VDict _ => Err EType
  | _ => Err EUndefined
  end.

Definition do_join (d l : value) : res value :=
  match d, l with
  | VStr ds, VList ls => ss <- as_strs ls ;; Ok (VStr (join ds ss))
  | _, _ => Err EUndefined
  end.

Definition do_split (d s : value) : res value :=
  match d, s with
  | VStr [], VStr _ => Err EValue
  | VStr ds, VStr ss => Ok (VList (map VStr (split ds ss)))
  | _, _ => Err EUndefined
  end.

Definition do_select (i l : value) : res value :=
  match i, l with
  | VStr s, VList ls =>
      match parse_int s with
      | Some z =>
          if (z <? 0)%Z || (Z.of_nat (length ls) <=? z)%Z then Ok (VList [])
          else match nth_error ls (Z.to_nat z) with Some x => Ok x | None => Ok (VList []) end
      | None => Err EUndefined
      end
  | _, _ => Err EUndefined
  end.

(* ---- Fn::FindInMap key lookup (library helper _mapping_get, repair of F31): the key exactly; failing that, and only when
        the key text is "true" / "false" (how every boolean spelling reaches the lookup, see [render_str]), the first entry,
        in dictionary order, whose key lower-cases to it ---- *)
Fixpoint lookup_ci {A} (k : str) (d : list (str * A)) : option A :=
  match d with
  | [] => None
  | (k', v) :: d' => if str_eqb (lower k') k then Some v else lookup_ci k d'
  end.
Definition is_bool_text (k : str) : bool := str_eqb k S_true || str_eqb k S_false.
Definition lookup_bk {A} (k : str) (d : list (str * A)) : option A :=
  match lookup k d with
  | Some v => Some v
  | None => if is_bool_text k then lookup_ci k d else None
  end.

Lemma lookup_bk_exact {A} k (d : list (str * A)) v : lookup k d = Some v -> lookup_bk k d = Some v.
Proof. intros H. unfold lookup_bk. rewrite H. reflexivity. Qed.
Lemma is_bool_text_false k : k <> S_true -> k <> S_false -> is_bool_text k = false.
Proof.
  intros Ht Hf. unfold is_bool_text. apply orb_false_iff. split; apply str_eqb_neq; assumption.
Qed.
Lemma is_bool_text_true k : is_bool_text k = true -> k = S_true \/ k = S_false.
Proof.
  unfold is_bool_text. intros H. apply orb_true_iff in H. destruct H as [H|H]; apply str_eqb_spec in H; auto.
Qed.
Lemma lookup_bk_plain {A} k (d : list (str * A)) : k <> S_true -> k <> S_false -> lookup_bk k d = lookup k d.
Proof.
  intros Ht Hf. unfold lookup_bk. rewrite (is_bool_text_false k Ht Hf). destruct (lookup k d); reflexivity.
Qed.
Lemma lookup_bk_nil {A} k : lookup_bk k (@nil (str * A)) = None.
Proof. unfold lookup_bk. simpl. destruct (is_bool_text k); reflexivity. Qed.
Lemma lookup_ci_In {A} k (d : list (str * A)) v : lookup_ci k d = Some v -> exists k', In (k', v) d /\ lower k' = k.
Proof.
  induction d as [|[k0 v0] d IH]; simpl; [discriminate|].
  destruct (str_eqb (lower k0) k) eqn:E.
  - apply str_eqb_spec in E. intros H. inversion H; subst. exists k0. split; [left; reflexivity | reflexivity].
  - intros H. destruct (IH H) as (k' & Hin & Hl). exists k'. split; [right; exact Hin | exact Hl].
Qed.
Lemma lookup_ci_None {A} k (d : list (str * A)) : lookup_ci k d = None <-> forall k', In k' (keys d) -> lower k' <> k.
Proof.
  induction d as [|[k0 v0] d IH]; simpl; [split; [intros _ k' [] | reflexivity]|].
  destruct (str_eqb (lower k0) k) eqn:E.
  - apply str_eqb_spec in E. split; [discriminate | intros H; exfalso; apply (H k0); [left; reflexivity | exact E]].
  - apply str_eqb_neq in E. rewrite IH. split.
    + intros H k' [C|C]; [subst; exact E | apply H; exact C].
    + intros H k' C. apply H. right. exact C.
Qed.
(* whatever is found sits in the dictionary, under the key or under a spelling of it *)
Lemma lookup_bk_In {A} k (d : list (str * A)) v :
  lookup_bk k d = Some v -> exists k', In (k', v) d /\ (k' = k \/ (is_bool_text k = true /\ lower k' = k)).
Proof.
  unfold lookup_bk. destruct (lookup k d) as [x|] eqn:E.
  - intros H. inversion H; subst. exists k. split; [apply lookup_In; exact E | left; reflexivity].
  - destruct (is_bool_text k) eqn:B; [|discriminate]. intros H.
    destruct (lookup_ci_In k d v H) as (k' & Hin & Hl). exists k'. split; [exact Hin | right; split; [reflexivity | exact Hl]].
Qed.
Lemma lookup_bk_None {A} k (d : list (str * A)) :
  lookup_bk k d = None <-> ~ In k (keys d) /\ (is_bool_text k = true -> forall k', In k' (keys d) -> lower k' <> k).
Proof.
  unfold lookup_bk. destruct (lookup k d) as [x|] eqn:E.
  - split; [discriminate|]. intros [H _]. exfalso. apply H. apply lookup_In in E. apply in_map_iff. exists (k, x). split; [reflexivity | exact E].
  - apply lookup_None in E. destruct (is_bool_text k) eqn:B.
    + rewrite lookup_ci_None. split; [intros H; split; [exact E | intros _; exact H] | intros [_ H]; apply H; reflexivity].
    + split; [intros _; split; [exact E | discriminate] | reflexivity].
Qed.

(* the entry found is the one an exact lookup of ITS spelling finds (first occurrence): facts about "every exact lookup"
   transfer to [lookup_bk] *)
Lemma lookup_ci_lookup {A} k (d : list (str * A)) v : lookup_ci k d = Some v -> exists k', lookup k' d = Some v /\ lower k' = k.
Proof.
  induction d as [|[k0 v0] d IH]; simpl; [discriminate|].
  destruct (str_eqb (lower k0) k) eqn:E.
  - apply str_eqb_spec in E. intros H. inversion H; subst. exists k0. rewrite str_eqb_refl. split; reflexivity.
  - intros H. destruct (IH H) as (k' & Hl & Hk). exists k'. split; [|exact Hk].
    destruct (str_eqb k' k0) eqn:E2; [|exact Hl].
    apply str_eqb_spec in E2. subst k0. apply str_eqb_neq in E. contradiction.
Qed.
Lemma lookup_bk_lookup {A} k (d : list (str * A)) v :
  lookup_bk k d = Some v -> exists k', lookup k' d = Some v /\ (k' = k \/ (is_bool_text k = true /\ lower k' = k)).
Proof.
  unfold lookup_bk. destruct (lookup k d) as [x|] eqn:E.
  - intros H. inversion H; subst. exists k. split; [exact E | left; reflexivity].
  - destruct (is_bool_text k) eqn:B; [|discriminate]. intros H.
    destruct (lookup_ci_lookup k d v H) as (k' & Hin & Hl). exists k'. split; [exact Hin | right; split; [reflexivity | exact Hl]].
Qed.

(* a key spelled like a boolean, the only spelling of it in the dictionary, is found by its lower-cased text *)
Lemma lookup_bk_spelling {A} k (d : list (str * A)) v :
  is_bool_text (lower k) = true -> lookup k d = Some v ->
  (forall k', In k' (keys d) -> lower k' = lower k -> k' = k) ->
  lookup_bk (lower k) d = Some v.
Proof.
  intros Hb Hl Hu.
  assert (Hin : forall k' (x : A), lookup k' d = Some x -> In k' (keys d)).
  { intros k' x H. apply lookup_In in H. apply in_map_iff. exists (k', x). split; [reflexivity | exact H]. }
  unfold lookup_bk. destruct (lookup (lower k) d) as [x|] eqn:E.
  - rewrite <- (Hu (lower k) (Hin _ _ E) (lower_idem k)) in Hl. congruence.
  - rewrite Hb. destruct (lookup_ci (lower k) d) as [x|] eqn:C.
    + destruct (lookup_ci_lookup _ _ _ C) as (k' & Hl' & Hk'). rewrite (Hu k' (Hin _ _ Hl') Hk') in Hl'. congruence.
    + exfalso. apply (proj1 (lookup_ci_None (lower k) d) C k (Hin _ _ Hl)). reflexivity.
Qed.

Definition do_find_in_map (e : env) (m k1 k2 : value) : res value :=
  match m, k1, k2 with
  | VStr ms, VStr s1, VStr s2 =>
      let undef := Ok (VStr (undefined_mapping ms s1 s2)) in
      match lookup ms (mappings e) with
      | None => undef
      | Some (VDict top) =>
          match lookup_bk s1 top with
          | None => undef
          | Some (VDict snd_) =>
              match lookup_bk s2 snd_ with
              | None | Some VNull => undef
              | Some leaf => Ok leaf
              end
          | Some _ => Err EUndefined
          end
      | Some _ => Err EUndefined
      end
  | _, _, _ => Err EUndefined
  end.

Definition do_base64 (b : value) : res value :=
  match b with VStr s => Ok (VStr (b64encode (utf8 s))) | _ => Err EUndefined end.

(* one Fn::Sub placeholder: the expression's own variables first, then the parameters; unbound stays as written *)
Definition render_var (e : env) (custom : list (str * value)) (name : str) : res str :=
  match lookup name custom with
  | Some x => x' <- normalize (params e) x ;;
              match x' with VStr s => Ok s | _ => Err EUndefined end
  | None =>
      match lookup name (params e) with
      | Some x => x' <- normalize (params e) x ;;
                  match x' with VStr s => Ok s | _ => Err EUndefined end
      | None => Ok (36 :: 123 :: name ++ [125])
      end
  end.
Definition render_tok (e : env) (custom : list (str * value)) (t : stok) : res str :=
  match t with
  | TText c => Ok [c]
  | TBang name => Ok (36 :: 123 :: name ++ [125])
  | TVar name => render_var e custom name
  end.
Fixpoint render_toks (e : env) (custom : list (str * value)) (ts : list stok) : res str :=
  match ts with
  | [] => Ok []
  | t :: r => a <- render_tok e custom t ;; b <- render_toks e custom r ;; Ok (a ++ b)
  end.
Definition do_sub (e : env) (text : str) (custom : list (str * value)) : res value :=
  s <- render_toks e custom (sub_tokens text) ;; Ok (VStr s).

Fixpoint resolve (e : env) (v : value) {struct v} : res value :=
  match v with
  | VList l =>
      l' <- (fix go (l : list value) : res (list value) :=
               match l with
               | [] => Ok []
               | x :: xs => x' <- resolve e x ;; xs' <- go xs ;;
                            Ok (if is_novalue x' then xs' else x' :: xs')
               end) l ;;
      Ok (VList l')
  | VDict d =>
      (* a thunk: under call-by-value evaluation (vm_compute, the extracted runner) a plain [let] would resolve the members
         of EVERY function object a second time -- harmless for the result, exponential in the nesting depth *)
      let generic := fun _ : unit =>
        d' <- (fix go (d : list (str * value)) : res (list (str * value)) :=
                 match d with
                 | [] => Ok []
                 | (k, x) :: xs => x' <- resolve e x ;; xs' <- go xs ;;
                                   Ok (if is_novalue x' then xs' else (k, x') :: xs')
                 end) d ;;
        Ok (VDict d') in
      match d with
      | [(k, body)] =>
          if str_eqb k K_Ref || str_eqb k K_ImportValue then
            b <- resolve e body ;; do_ref e b
          else if str_eqb k K_Join then
            match body with
            | VList [dl; l] => d' <- resolve e dl ;; l' <- resolve e l ;; do_join d' l'
            | VList _ => Err EValue
            | _ => Err EUndefined
            end
          else if str_eqb k K_Split then
            match body with
            | VList [dl; s] => d' <- resolve e dl ;; s' <- resolve e s ;; do_split d' s'
            | VList _ => Err EValue
            | _ => Err EUndefined
            end
          else if str_eqb k K_Select then
            match body with
            | VList [i; l] => i' <- resolve e i ;; l' <- resolve e l ;; do_select i' l'
            | VList _ => Err EValue
            | _ => Err EUndefined
            end
          else if str_eqb k K_FindInMap then
            match body with
            | VList [m; k1; k2] =>
                m' <- resolve e m ;; k1' <- resolve e k1 ;; k2' <- resolve e k2 ;; do_find_in_map e m' k1' k2'
            | VList _ => Err EValue
            | _ => Err EUndefined
            end
          else if str_eqb k K_Sub then
            match body with
            | VStr text => do_sub e text []
            | VList [VStr text; vars] =>
                cv <- resolve e vars ;;
                match cv with VDict custom => do_sub e text custom | _ => Err EUndefined end
            | VList [_; _] => Err EUndefined
            | VList _ => Err EValue
            | _ => Err EUndefined
            end
          else if str_eqb k K_Base64 then
            b <- resolve e body ;; do_base64 b
          else if str_eqb k K_GetAtt then Ok (VStr S_GETATT)
          else if str_eqb k K_GetAZs then Ok (VStr S_GETAZS)
          else if str_eqb k K_Condition then
            match body with
            | VStr name => b <- conds e name ;; Ok (VBool b)
            | _ => Err EUndefined
            end
          else if str_eqb k K_If then
            match body with
            | VList [VStr c; t; f] => b <- conds e c ;; if b then resolve e t else resolve e f
            | VList [_; _; _] => Err EUndefined
            | VList _ => Err EValue
            | _ => Err EUndefined
            end
          else if str_eqb k K_And then
            match body with
            | VList parts =>
                b <- (fix all_go (l : list value) : res bool :=
                        match l with
                        | [] => Ok true
                        | x :: xs => r <- resolve e x ;; b <- ext_bool r ;; if b then all_go xs else Ok false
                        end) parts ;;
                Ok (VBool b)
            | _ => Err EUndefined
            end
          else if str_eqb k K_Or then
            match body with
            | VList parts =>
                b <- (fix any_go (l : list value) : res bool :=
                        match l with
                        | [] => Ok false
                        | x :: xs => r <- resolve e x ;; b <- ext_bool r ;; if b then Ok true else any_go xs
                        end) parts ;;
                Ok (VBool b)
            | _ => Err EUndefined
            end
          else if str_eqb k K_Not then
            match body with
            | VList (x :: _) => r <- resolve e x ;; b <- ext_bool r ;; Ok (VBool (negb b))
            | VList [] => Err EIndex
            | _ => Err EUndefined
            end
          else if str_eqb k K_Equals then
            match body with
            | VList [a; b] => a' <- resolve e a ;; b' <- resolve e b ;; r <- py_eq a' b' ;; Ok (VBool r)
            | VList _ => Err EValue
            | _ => Err EUndefined
            end
          else generic tt
      | _ => generic tt
      end
  | VNull => Ok VNull
  | VBool b => Ok (VStr (bool_text b))
  | VInt z => Ok (VStr (str_of_Z z))
  | VStr s => Ok (VStr (render_str (params e) s))
  | VTyped _ t => Ok (VStr t)
  | VBytes b => Ok (VStr (b64encode b))
  end.
