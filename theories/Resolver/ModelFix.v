(* C03 at the level of the MODEL: CFModel.resolve applied to its own result.

   The second resolution starts from the output of the first one: the Conditions section holds plain booleans,
   every kept resource still carries its [Condition: name] attribute and its literal [Type], a dropped resource is gone,
   Parameters / Mappings are the ones of the template.  Proved here, for the template driver of Resolver/Template.v:

   [cond_root_of_bool], [cond_all_of_bools]   a condition declared as a boolean evaluates to that boolean (true AND false),
                                              whatever the parameters and mappings, with no fuel problem;
   [cond_all_twice]                           hence the resolved Conditions section is reproduced by a second resolution;
   [keep_type_same]                           putting back a Type that is already there changes nothing;
   [resolve_model_twice_iff]                  the second resolution of a function-free, rendered result returns the SAME result
                                              exactly when the gate of every resolved resource is still open;
   [gate_still_open]                          ... which holds when the resource was an object (not a function object) with
                                              distinct keys whose Condition name is not rewritten by rendering;
   [resolve_model_twice]                      the model-level fixed point;
   [condition_names_are_kept]                 condition names True / true: the literal name is kept (repair F27);
   [resolved_model_is_frozen]                 the fixed point is about the SAME assignment: with other parameters the resolved
                                              model does not follow the template any more. *)
From Coq Require Import List Bool NArith ZArith Lia.
From PV Require Import Base.Str Base.Value Resolver.Consts Resolver.Text Resolver.Resolve Resolver.Spec Resolver.Ext
  Resolver.Template Resolver.CondFacts Resolver.FixFacts Resolver.PermFacts.
Import ListNotations.
Local Open Scope N_scope.

(* ------------------------------------------------------------------------------------------------------------------ *)
(* the Conditions section of a resolved model                                                                         *)
(* ------------------------------------------------------------------------------------------------------------------ *)
(* how resolve_model writes the condition values out ... *)
Definition bools_as_values (l : list (str * bool)) : list (str * value) := map (fun nb => (fst nb, VBool (snd nb))) l.
(* ... and how they are read back from a Conditions section *)
Definition cond_bools (cs : list (str * value)) : list (str * bool) :=
  flat_map (fun kv => match snd kv with VBool b => [(fst kv, b)] | _ => [] end) cs.

Lemma cond_bools_of_values l : cond_bools (bools_as_values l) = l.
Proof. induction l as [|[n b] l IH]; [reflexivity|]. simpl. rewrite IH. reflexivity. Qed.
Lemma keys_bools l : keys (bools_as_values l) = keys l.
Proof. induction l as [|[n b] l IH]; [reflexivity|]. simpl. rewrite IH. reflexivity. Qed.
Lemma lookup_bools n l : lookup n (bools_as_values l) = option_map VBool (lookup n l).
Proof. induction l as [|[k b] l IH]; [reflexivity|]. simpl. destruct (str_eqb n k); [reflexivity | exact IH]. Qed.

Lemma lookup_Some_mem {A} n (d : list (str * A)) v : lookup n d = Some v -> mem_str n (keys d) = true.
Proof.
  intros H. destruct (mem_str n (keys d)) eqn:E; [reflexivity|]. exfalso.
  assert (Hn : ~ In n (keys d)) by (intros Hin; apply mem_str_In in Hin; congruence).
  apply lookup_None in Hn. congruence.
Qed.
Lemma In_keys {A} n (v : A) d : In (n, v) d -> In n (keys d).
Proof. intros H. unfold keys. apply in_map_iff. exists (n, v). split; [reflexivity | exact H]. Qed.
Lemma lookup_nodup {A} n (v : A) d : NoDup (keys d) -> In (n, v) d -> lookup n d = Some v.
Proof.
  induction d as [|[k x] d IH]; intros Hnd Hin; [destruct Hin|]. inv Hnd. simpl. destruct Hin as [Heq|Hin].
  - inv Heq. rewrite str_eqb_refl. reflexivity.
  - destruct (str_eqb n k) eqn:E; [|auto]. apply str_eqb_spec in E. subst k. exfalso. apply H1. eapply In_keys; eassumption.
Qed.

(* rendering a boolean and reading it back: both truth values survive *)
Lemma ext_bool_bool_text b : ext_bool (VStr (bool_text b)) = Ok b.
Proof. destruct b; vm_compute; reflexivity. Qed.

(* a condition DECLARED as a boolean has that value: for all parameters and mappings, whatever else is declared *)
Lemma cond_root_of_bool ps maps cdecl n b : lookup n cdecl = Some (VBool b) -> cond_root ps maps cdecl n = Ok b.
Proof.
  intros Hl. unfold cond_root.
  rewrite (cond_val_step ps maps cdecl (length cdecl) (keys cdecl) n (VBool b) (lookup_Some_mem _ _ _ Hl) Hl).
  cbn [resolve bind]. apply ext_bool_bool_text.
Qed.

(* the root value of any name against an already resolved Conditions section: its boolean, [false] when undeclared *)
Corollary cond_root_of_bools ps maps l n :
  cond_root ps maps (bools_as_values l) n = Ok (match lookup n l with Some b => b | None => false end).
Proof.
  destruct (lookup n l) as [b|] eqn:E.
  - apply cond_root_of_bool. rewrite lookup_bools, E. reflexivity.
  - unfold cond_root. apply cond_val_undeclared. rewrite lookup_bools, E. reflexivity.
Qed.

Lemma cond_all_of_bools_gen ps maps cdecl l :
  (forall n b, In (n, b) l -> lookup n cdecl = Some (VBool b)) -> cond_all ps maps cdecl (keys l) = Ok l.
Proof.
  induction l as [|[n b] l IH]; intros H; [reflexivity|]. cbn [keys map fst cond_all].
  rewrite (cond_root_of_bool ps maps cdecl n b (H n b (or_introl eq_refl))). cbn [bind].
  change (map fst l) with (keys l). rewrite IH by (intros n' b' Hin; apply H; right; exact Hin). reflexivity.
Qed.

(* 1. every declared boolean evaluates to itself *)
Theorem cond_all_of_bools ps maps l cdecl :
  cdecl = map (fun nb => (fst nb, VBool (snd nb))) l -> NoDup (keys l) ->
  cond_all ps maps cdecl (keys cdecl) = Ok l.
Proof.
  intros -> Hnd. change (map (fun nb : str * bool => (fst nb, VBool (snd nb))) l) with (bools_as_values l).
  rewrite keys_bools. apply cond_all_of_bools_gen. intros n b Hin.
  rewrite lookup_bools, (lookup_nodup n b l Hnd Hin). reflexivity.
Qed.

(* what cond_all returns: the names asked for, each with its root value; so equal names carry equal values *)
Lemma cond_all_keys ps maps decl names l : cond_all ps maps decl names = Ok l -> keys l = names.
Proof.
  revert l; induction names as [|n r IH]; intros l H; simpl in H.
  - inv H. reflexivity.
  - bind_inv. inv H. simpl. f_equal. apply IH. reflexivity.
Qed.
Lemma cond_all_In ps maps decl names l : cond_all ps maps decl names = Ok l ->
  forall n b, In (n, b) l -> cond_root ps maps decl n = Ok b.
Proof.
  revert l; induction names as [|n0 r IH]; intros l H n b Hin; simpl in H.
  - inv H. destruct Hin.
  - bind_inv. inv H. destruct Hin as [Heq|Hin]; [inv Heq; assumption | eapply IH; [reflexivity | exact Hin]].
Qed.
Lemma cond_all_functional ps maps decl names l : cond_all ps maps decl names = Ok l ->
  forall n b, In (n, b) l -> lookup n l = Some b.
Proof.
  intros H n b Hin. destruct (lookup n l) as [b'|] eqn:E.
  - apply lookup_In in E. pose proof (cond_all_In _ _ _ _ _ H n b Hin) as H1.
    pose proof (cond_all_In _ _ _ _ _ H n b' E) as H2. congruence.
  - apply lookup_None in E. exfalso. apply E. eapply In_keys; eassumption.
Qed.

(* the Conditions section written by one resolution is reproduced by the next one -- with ANY parameters and mappings,
   and also when a name was declared twice *)
Theorem cond_all_twice ps maps decl names l ps' maps' : cond_all ps maps decl names = Ok l ->
  cond_all ps' maps' (bools_as_values l) (keys (bools_as_values l)) = Ok l.
Proof.
  intros H. rewrite keys_bools. apply cond_all_of_bools_gen. intros n b Hin.
  rewrite lookup_bools, (cond_all_functional _ _ _ _ _ H n b Hin). reflexivity.
Qed.

(* ------------------------------------------------------------------------------------------------------------------ *)
(* resources                                                                                                          *)
(* ------------------------------------------------------------------------------------------------------------------ *)
Lemma set_key_same k v d : lookup k d = Some v -> set_key k v d = d.
Proof.
  induction d as [|[k' x] d IH]; simpl; [discriminate|]. destruct (str_eqb k k') eqn:E.
  - intros H. inv H. reflexivity.
  - intros H. rewrite (IH H). reflexivity.
Qed.
Lemma lookup_set_key_other k k' v d : str_eqb k k' = false -> lookup k (set_key k' v d) = lookup k d.
Proof.
  intros Hne. induction d as [|[k0 x] d IH]; simpl; [rewrite Hne; reflexivity|].
  destruct (str_eqb k' k0) eqn:E0; simpl.
  - apply str_eqb_spec in E0. subst k0. rewrite Hne. reflexivity.
  - destruct (str_eqb k k0); [reflexivity | exact IH].
Qed.
Lemma lookup_set_key_same k v d : lookup k (set_key k v d) = Some v.
Proof.
  induction d as [|[k0 x] r IH]; cbn [set_key lookup].
  - rewrite str_eqb_refl. reflexivity.
  - destruct (str_eqb k k0) eqn:E; cbn [lookup]; rewrite E; [reflexivity | exact IH].
Qed.
Lemma keep_key_same k d : keep_key k d d = d.
Proof.
  unfold keep_key. destruct (lookup k d) as [v|] eqn:E; [|reflexivity]. destruct v; try reflexivity.
  apply set_key_same. exact E.
Qed.
(* keep_type puts back a Type and a Condition name that are already there *)
Lemma keep_type_same r : keep_type r r = r.
Proof.
  destruct r as [| | | | | | |d]; try reflexivity. unfold keep_type. rewrite !keep_key_same. reflexivity.
Qed.

Definition gate_open (resolved : list (str * bool)) (r : value) : bool :=
  match gate resolved r with Ok true => true | _ => false end.
Lemma gate_open_iff resolved r : gate_open resolved r = true <-> gate resolved r = Ok true.
Proof. unfold gate_open. destruct (gate resolved r) as [[|]|]; split; intros H; try reflexivity; discriminate. Qed.

(* a list of resources that are all kept and all fixed points of [resolve] is a fixed point of [resolve_resources] *)
Lemma resolve_resources_fixed e resolved rs :
  (forall id r, In (id, r) rs -> gate resolved r = Ok true /\ resolve e r = Ok r) ->
  resolve_resources e resolved rs = Ok rs.
Proof.
  induction rs as [|[id r] rest IH]; intros H; [reflexivity|].
  destruct (H id r (or_introl eq_refl)) as [Hg Hr]. cbn [resolve_resources]. rewrite Hg. cbn [bind].
  unfold resolve_resource. rewrite Hr. cbn [bind]. rewrite keep_type_same.
  rewrite IH by (intros id' r' Hin; apply (H id' r'); right; exact Hin). reflexivity.
Qed.
(* conversely a resource whose gate is closed is dropped, so the list cannot come back unchanged *)
Lemma resolve_resources_length e resolved rs rs' : resolve_resources e resolved rs = Ok rs' -> (length rs' <= length rs)%nat.
Proof.
  revert rs'; induction rs as [|[id r] rest IH]; intros rs' H; simpl in H.
  - inv H. simpl. lia.
  - destruct (gate resolved r) as [keep|]; simpl in H; [|discriminate]. destruct keep.
    + bind_inv. inv H. simpl. specialize (IH _ eq_refl). lia.
    + specialize (IH _ H). simpl. lia.
Qed.
Lemma resolve_resources_same_gates e resolved rs : resolve_resources e resolved rs = Ok rs ->
  forall id r, In (id, r) rs -> gate resolved r = Ok true.
Proof.
  induction rs as [|[id0 r0] rest IH]; intros H id r Hin; [destruct Hin|]. simpl in H.
  destruct (gate resolved r0) as [keep|] eqn:Eg; simpl in H; [|discriminate]. destruct keep.
  - bind_inv. inv H. destruct Hin as [Heq|Hin]; [inv Heq; assumption|]. exact (IH eq_refl id r Hin).
  - apply resolve_resources_length in H. simpl in H. lia.
Qed.

(* where a resolved resource comes from *)
Lemma resolve_resources_In e resolved rs rs' : resolve_resources e resolved rs = Ok rs' ->
  forall id r', In (id, r') rs' -> exists r, In (id, r) rs /\ gate resolved r = Ok true /\ resolve_resource e r = Ok r'.
Proof.
  revert rs'; induction rs as [|[k r] rest IH]; intros rs' H id r' Hin; simpl in H.
  - inv H. destruct Hin.
  - destruct (gate resolved r) as [keep|] eqn:Eg; simpl in H; [|discriminate]. destruct keep.
    + bind_inv. inv H. destruct Hin as [Heq|Hin].
      * inv Heq. exists r. split; [left; reflexivity|]. split; assumption.
      * destruct (IH _ eq_refl id r' Hin) as (r0 & H1 & H2 & H3). exists r0. split; [right; assumption|]. split; assumption.
    + destruct (IH _ H id r' Hin) as (r0 & H1 & H2 & H3). exists r0. split; [right; assumption|]. split; assumption.
Qed.

(* members of a resolved object, by key (distinct keys): the resolved member, unless it was AWS::NoValue *)
Lemma rdict_lookup e d d' : NoDup (keys d) -> rdict e d = Ok d' -> forall k,
  lookup k d' = match lookup k d with
                | None => None
                | Some x => match resolve e x with Ok x' => if is_novalue x' then None else Some x' | Err _ => None end
                end.
Proof.
  revert d'; induction d as [|[k0 x] xs IH]; intros d' Hnd H k; simpl in H.
  - inv H. reflexivity.
  - destruct (resolve e x) as [x'|] eqn:Ex; cbn [bind] in H; [|discriminate].
    match type of H with bind ?g _ = _ => destruct g as [xs'|] eqn:Exs end; cbn [bind] in H; [|discriminate].
    inv H. inv Hnd. specialize (IH xs' H2 eq_refl k). cbn [lookup]. destruct (str_eqb k k0) eqn:Ek.
    + apply str_eqb_spec in Ek. subst k0. rewrite Ex. destruct (is_novalue x').
      * rewrite IH. assert (Hn : lookup k xs = None) by (apply lookup_None; assumption). rewrite Hn. reflexivity.
      * cbn [lookup]. rewrite str_eqb_refl. reflexivity.
    + destruct (is_novalue x'); [exact IH|]. cbn [lookup]. rewrite Ek. exact IH.
Qed.

(* what the input side must satisfy for the gate to stay open: the resource is an object with distinct keys and not a function
   object.  (Before the repair F27 the NAME in the Condition attribute was rendered like any text -- "True" became "true" -- so
   a further clause, "rendering does not rewrite the name", was needed here; since CFModel.resolve puts the literal name back it
   is gone: see Findings/F27.v for the model of the code as found and the witness.) *)
Definition resource_wf (ps : list (str * value)) (r : value) : bool :=
  match r with
  | VDict fields => negb (is_fn_dict fields) && nodupb (keys fields)
  | _ => false
  end.

Lemma lookup_keep_key_other k k' o d : str_eqb k k' = false -> lookup k (keep_key k' o d) = lookup k d.
Proof. intros H. unfold keep_key. destruct (lookup k' o) as [[| | | t | | | |]|]; try reflexivity. apply lookup_set_key_other. exact H. Qed.

(* the gate of the resolved resource reads the SAME condition name as the gate of its definition *)
Lemma gate_still_open e resolved fields r' :
  resource_wf (params e) (VDict fields) = true ->
  gate resolved (VDict fields) = Ok true -> resolve_resource e (VDict fields) = Ok r' -> gate resolved r' = Ok true.
Proof.
  intros Hwf Hg Hr. unfold resource_wf in Hwf. apply andb_true_iff in Hwf. destruct Hwf as [Hf Hnd].
  apply negb_true_iff in Hf. apply nodupb_spec in Hnd.
  unfold resolve_resource in Hr. rewrite (resolve_dict_generic e fields Hf) in Hr.
  destruct (rdict e fields) as [d'|] eqn:Ed; cbn [bind] in Hr; [|discriminate]. inv Hr.
  pose proof (rdict_lookup e fields d' Hnd Ed K_Condition) as Hl.
  unfold keep_type, gate in *. unfold keep_key at 1.
  destruct (lookup K_Condition fields) as [v|] eqn:Ec.
  - destruct v as [| | | c | | | |]; try discriminate.
    + rewrite lookup_keep_key_other by (vm_compute; reflexivity). rewrite Hl. reflexivity.
    + rewrite lookup_set_key_same. exact Hg.
  - rewrite lookup_keep_key_other by (vm_compute; reflexivity). rewrite Hl. reflexivity.
Qed.

(* ------------------------------------------------------------------------------------------------------------------ *)
(* the model                                                                                                          *)
(* ------------------------------------------------------------------------------------------------------------------ *)
Definition model_out (cs rs : list (str * value)) : value := VDict [(K_Conditions, VDict cs); (K_Resources, VDict rs)].

Lemma resolve_model_inv pseudo decls extra maps cdecl rs ps cs rs' :
  bind_params pseudo decls extra = Ok ps ->
  resolve_model pseudo decls extra maps cdecl rs = Ok (model_out cs rs') ->
  exists resolved, cond_all ps maps cdecl (keys cdecl) = Ok resolved /\ cs = bools_as_values resolved /\
    resolve_resources {| params := ps; mappings := maps; conds := conds_fun resolved |} resolved rs = Ok rs'.
Proof.
  intros Hps H. unfold resolve_model in H. rewrite Hps in H. cbn [bind] in H.
  destruct (cond_all ps maps cdecl (keys cdecl)) as [resolved|] eqn:Ec; cbn [bind] in H; [|discriminate].
  match type of H with bind ?g _ = _ => destruct g as [out|] eqn:Er end; cbn [bind] in H; [|discriminate].
  unfold model_out in H. inv H. exists resolved. split; [reflexivity|]. split; [reflexivity | exact Er].
Qed.

(* 2a. the exact condition: the second resolution of a function-free, rendered result gives the same result again
       if and only if the gate of every resolved resource is still open *)
Theorem resolve_model_twice_iff pseudo decls extra maps cdecl rs ps cs rs' :
  bind_params pseudo decls extra = Ok ps ->
  resolve_model pseudo decls extra maps cdecl rs = Ok (model_out cs rs') ->
  (forall id r', In (id, r') rs' -> no_fn_dict r' = true /\ rendered ps r' = true) ->
  (resolve_model pseudo decls extra maps cs rs' = Ok (model_out cs rs')
   <-> forallb (fun kv => gate_open (cond_bools cs) (snd kv)) rs' = true).
Proof.
  intros Hps H1 Hfix. destruct (resolve_model_inv _ _ _ _ _ _ _ _ _ Hps H1) as (resolved & Hc & -> & Hr).
  rewrite cond_bools_of_values. unfold resolve_model. rewrite Hps. cbn [bind].
  rewrite (cond_all_twice _ _ _ _ _ ps maps Hc). cbn [bind].
  set (e := {| params := ps; mappings := maps; conds := conds_fun resolved |}) in *.
  split.
  - intros H2. destruct (resolve_resources e resolved rs') as [out|] eqn:E2; cbn [bind] in H2; [|discriminate].
    unfold model_out in H2. inv H2. apply forallb_forall. intros [id r] Hin. simpl.
    apply gate_open_iff. eapply resolve_resources_same_gates; eassumption.
  - intros Hg. rewrite forallb_forall in Hg. rewrite resolve_resources_fixed; [reflexivity|].
    intros id r Hin. split.
    + apply gate_open_iff. exact (Hg (id, r) Hin).
    + destruct (Hfix id r Hin) as [Hn Hrd]. apply (rendered_fixed_point e r Hn Hrd).
Qed.

(* 2b. the model-level fixed point.  Hypotheses on the OUTPUT of the first resolution: those of C03_fixed_point (function-free,
       rendered), which the correspondence evaluates per case.  Hypothesis on the INPUT: [resource_wf] for the resources that
       were kept.  Nothing is asked of the conditions (they may even be declared twice), of the resource ids, or of the
       resources that were dropped. *)
Theorem resolve_model_twice pseudo decls extra maps cdecl rs ps cs rs' :
  bind_params pseudo decls extra = Ok ps ->
  resolve_model pseudo decls extra maps cdecl rs = Ok (model_out cs rs') ->
  (forall id r', In (id, r') rs' -> no_fn_dict r' = true /\ rendered ps r' = true) ->
  (forall id r, In (id, r) rs -> gate_open (cond_bools cs) r = true -> resource_wf ps r = true) ->
  resolve_model pseudo decls extra maps cs rs' = Ok (model_out cs rs').
Proof.
  intros Hps H1 Hfix Hwf. apply (resolve_model_twice_iff _ _ _ _ _ _ _ _ _ Hps H1 Hfix).
  destruct (resolve_model_inv _ _ _ _ _ _ _ _ _ Hps H1) as (resolved & Hc & -> & Hr).
  rewrite cond_bools_of_values in *. apply forallb_forall. intros [id r'] Hin. simpl.
  destruct (resolve_resources_In _ _ _ _ Hr id r' Hin) as (r & Hin0 & Hg & Hrr).
  specialize (Hwf id r Hin0 (proj2 (gate_open_iff _ _) Hg)).
  apply gate_open_iff. destruct r as [| | | | | | |fields]; try discriminate.
  exact (gate_still_open {| params := ps; mappings := maps; conds := conds_fun resolved |} resolved fields r' Hwf Hg Hrr).
Qed.

(* the same with every hypothesis a boolean over the first resolution's input and output *)
Corollary resolve_model_twice_b pseudo decls extra maps cdecl rs ps cs rs' :
  bind_params pseudo decls extra = Ok ps ->
  resolve_model pseudo decls extra maps cdecl rs = Ok (model_out cs rs') ->
  forallb (fun kv => no_fn_dict (snd kv) && rendered ps (snd kv)) rs' = true ->
  forallb (fun kv => negb (gate_open (cond_bools cs) (snd kv)) || resource_wf ps (snd kv)) rs = true ->
  resolve_model pseudo decls extra maps cs rs' = Ok (model_out cs rs').
Proof.
  intros Hps H1 Hfix Hwf. rewrite forallb_forall in Hfix, Hwf.
  apply (resolve_model_twice _ _ _ _ _ _ _ _ _ Hps H1).
  - intros id r' Hin. specialize (Hfix _ Hin). simpl in Hfix. apply andb_true_iff in Hfix. exact Hfix.
  - intros id r Hin Hg. specialize (Hwf _ Hin). simpl in Hwf. rewrite Hg in Hwf. exact Hwf.
Qed.

(* ------------------------------------------------------------------------------------------------------------------ *)
(* a concrete template                                                                                                *)
(* ------------------------------------------------------------------------------------------------------------------ *)
(* Parameters: E (Default "prod").   Conditions: IsP = Equals(Ref E, "prod"), NotP = Not(Condition IsP).
   Resources:  A  Condition IsP   Properties {N: {Ref: E}, T: {Fn::If: [IsP, "p", "d"]}}     (kept when E = prod)
               B  Condition NotP  Properties {N: {Ref: E}}                                  (dropped when E = prod)
               C  no Condition    Properties {T: {Fn::If: [NotP, "p", "d"]}} *)
Definition s_E : str := [69].
Definition s_prod : str := [112;114;111;100].
Definition s_dev : str := [100;101;118].
Definition s_IsP : str := [73;115;80].
Definition s_NotP : str := [78;111;116;80].
Definition s_Properties : str := [80;114;111;112;101;114;116;105;101;115].
Definition s_Bucket : str := [65;87;83;58;58;83;51;58;58;66;117;99;107;101;116].
Definition s_String : str := [83;116;114;105;110;103].
Definition ex_decls : list (str * value) := [(s_E, VDict [(K_Type, VStr s_String); (K_Default, VStr s_prod)])].
Definition ex_cdecl : list (str * value) :=
  [(s_IsP, VDict [(K_Equals, VList [VDict [(K_Ref, VStr s_E)]; VStr s_prod])]);
   (s_NotP, VDict [(K_Not, VList [VDict [(K_Condition, VStr s_IsP)]])])].
Definition ex_rs : list (str * value) :=
  [([65], VDict [(K_Type, VStr s_Bucket); (K_Condition, VStr s_IsP);
                 (s_Properties, VDict [([78], VDict [(K_Ref, VStr s_E)]);
                                       ([84], VDict [(K_If, VList [VStr s_IsP; VStr [112]; VStr [100]])])])]);
   ([66], VDict [(K_Type, VStr s_Bucket); (K_Condition, VStr s_NotP);
                 (s_Properties, VDict [([78], VDict [(K_Ref, VStr s_E)])])]);
   ([67], VDict [(K_Type, VStr s_Bucket);
                 (s_Properties, VDict [([84], VDict [(K_If, VList [VStr s_NotP; VStr [112]; VStr [100]])])])])].
Definition ex_cs : list (str * value) := [(s_IsP, VBool true); (s_NotP, VBool false)].
Definition ex_rs' : list (str * value) :=
  [([65], VDict [(K_Type, VStr s_Bucket); (K_Condition, VStr s_IsP);
                 (s_Properties, VDict [([78], VStr s_prod); ([84], VStr [112])])]);
   ([67], VDict [(K_Type, VStr s_Bucket); (s_Properties, VDict [([84], VStr [100])])])].

(* one true and one false condition, a kept and a dropped gated resource, a Ref and two Fn::If: the first resolution gives
   [model_out ex_cs ex_rs'], the hypotheses of [resolve_model_twice_b] hold of it, and the second resolution gives the same *)
Example model_fixed_point_ex :
  exists ps,
    bind_params [] ex_decls [] = Ok ps /\
    resolve_model [] ex_decls [] [] ex_cdecl ex_rs = Ok (model_out ex_cs ex_rs') /\
    forallb (fun kv => no_fn_dict (snd kv) && rendered ps (snd kv)) ex_rs' = true /\
    forallb (fun kv => negb (gate_open (cond_bools ex_cs) (snd kv)) || resource_wf ps (snd kv)) ex_rs = true /\
    resolve_model [] ex_decls [] [] ex_cs ex_rs' = Ok (model_out ex_cs ex_rs').
Proof. eexists. split; [vm_compute; reflexivity|]. repeat split; vm_compute; reflexivity. Qed.

(* condition NAMES are literals: "True" and "true" are both legal logical ids.  A resource gated by condition True (which holds)
   keeps the name True in the resolved model, so the second resolution gates it on the same condition and keeps it -- also when a
   condition called true is declared and false.  (The code as found rendered the name to "true" and the second resolution
   dropped the resource: finding F27, Findings/F27.v.) *)
Definition tt_cdecl : list (str * value) := [(S_True, VBool true); (S_true, VBool false)].
Definition tt_rs : list (str * value) := [([65], VDict [(K_Type, VStr s_Bucket); (K_Condition, VStr S_True)])].
Example condition_names_are_kept :
  exists cs,
    resolve_model [] [] [] [] tt_cdecl tt_rs = Ok (model_out cs tt_rs) /\
    resolve_model [] [] [] [] cs tt_rs = Ok (model_out cs tt_rs).
Proof. eexists. split; vm_compute; reflexivity. Qed.

(* 3. the fixed point is about the SAME assignment.  Resolve the template above with E = prod, then resolve the RESULT with
      E = dev: nothing changes (the Ref text "prod" is plain text now, the conditions are booleans), although the template itself
      resolves quite differently under E = dev (IsP false: A dropped, B kept).  So
      "resolve p2 (resolve p1 m) = resolve p2 m" is false, and a resolved model no longer follows its parameters. *)
Definition ex_extra_dev : list (str * value) := [(s_E, VStr s_dev)].
Example resolved_model_is_frozen :
  exists out1 cs1 rs1 out2,
    resolve_model [] ex_decls [] [] ex_cdecl ex_rs = Ok out1 /\ out1 = model_out cs1 rs1 /\
    resolve_model [] ex_decls ex_extra_dev [] cs1 rs1 = Ok out1 /\
    resolve_model [] ex_decls ex_extra_dev [] ex_cdecl ex_rs = Ok out2 /\ out2 <> out1.
Proof.
  exists (model_out ex_cs ex_rs'), ex_cs, ex_rs'. eexists.
  split; [vm_compute; reflexivity|]. split; [reflexivity|]. split; [vm_compute; reflexivity|].
  split; [vm_compute; reflexivity|]. intros H. vm_compute in H. discriminate H.
Qed.
