(* Algebraic laws of parameter binding (C04): locality, supplying the Default, idempotence, list parameters, the precedence
   chain as one theorem, and has_hardcoded_credentials as a complete decision table.  Laws that FAIL are stated as
   [..._refuted] with a concrete witness. *)
From Coq Require Import List Bool NArith ZArith Lia.
From PV Require Import Base.Str Base.Value Resolver.Consts Resolver.Text Resolver.Resolve Resolver.Spec
  Resolver.Template Resolver.ParamFacts Resolver.Creds Resolver.CredFacts.
Import ListNotations.
Local Open Scope N_scope.

(* ---------------------------------------------------------------------------------------------------------------- *)
(* helpers *)
Lemma field_not_null k d v : field k d = Some v -> v <> VNull.
Proof. unfold field. destruct d as [ | b | z | t | tk t | bs | l | dd]; try discriminate. destruct (lookup k dd) as [[]|]; intros H; inv H; discriminate. Qed.
Lemma supplied_cons_eq k v extra : v <> VNull -> supplied k ((k, v) :: extra) = Some v.
Proof. intros H. unfold supplied. cbn [lookup]. rewrite str_eqb_refl. destruct v; try reflexivity. contradiction. Qed.
Lemma supplied_cons_neq k k' v extra : str_eqb k k' = false -> supplied k ((k', v) :: extra) = supplied k extra.
Proof. intros H. unfold supplied. cbn [lookup]. rewrite H. reflexivity. Qed.

Lemma NoDup_keys_lookup {A} (l : list (str * A)) k v : NoDup (keys l) -> In (k, v) l -> lookup k l = Some v.
Proof.
  induction l as [|[k0 v0] l IH]; intros Hnd Hin; [destruct Hin|]. cbn [keys map fst] in Hnd.
  apply NoDup_cons_iff in Hnd. destruct Hnd as [Hnotin Hnd']. cbn [lookup].
  destruct Hin as [E|Hin].
  - inv E. rewrite str_eqb_refl. reflexivity.
  - destruct (str_eqb k k0) eqn:Ek; [|apply IH; assumption].
    apply str_eqb_spec in Ek. subst k0. exfalso. apply Hnotin. unfold keys. apply in_map_iff. exists (k, v). split; [reflexivity | exact Hin].
Qed.

(* the rendering of a PRESENT value v of the parameter declared by d; [marker] is what a NoEcho parameter shows instead *)
Definition render_param (d v : value) (marker : str) : res value :=
  if is_noecho d then Ok (VStr marker)
  else if is_list_type d then
    match v with
    | VList l => Ok (VList l)
    | _ => s <- py_str v ;; Ok (VList (map VStr (split S_COMMA s)))
    end
  else s <- py_str v ;; Ok (VStr s).

Lemma ref_value_supplied d v : ref_value d (Some v) = r <- render_param d v S_NO_ECHO_WITH_VALUE ;; Ok (Some r).
Proof.
  unfold ref_value, render_param. destruct (is_noecho d); [reflexivity|]. destruct (is_list_type d).
  - destruct v as [ | b | z | t | tk t | bs | l | dd]; try reflexivity; cbn [py_str bind]; try reflexivity. destruct tk; reflexivity.
  - destruct (py_str v); reflexivity.
Qed.
Lemma ref_value_default d v : field K_Default d = Some v -> ref_value d None = r <- render_param d v S_NO_ECHO_WITH_DEFAULT ;; Ok (Some r).
Proof.
  intros H. unfold ref_value, render_param. rewrite H. destruct (is_noecho d); [reflexivity|]. destruct (is_list_type d).
  - destruct v as [ | b | z | t | tk t | bs | l | dd]; try reflexivity; cbn [py_str bind]; try reflexivity. destruct tk; reflexivity.
  - destruct (py_str v); reflexivity.
Qed.
Lemma ref_value_none d : field K_Default d = None ->
  ref_value d None = Ok (if is_noecho d then Some (VStr S_NO_ECHO_NO_DEFAULT) else None).
Proof. exact (ref_value_valueless d). Qed.

Lemma ref_value_not_null d p v : ref_value d p = Ok (Some v) -> v <> VNull.
Proof.
  unfold ref_value. destruct (is_noecho d); [intros H; inv H; discriminate|].
  destruct (is_list_type d); destruct (match p with Some p0 => Some p0 | None => field K_Default d end) as [x|]; try discriminate.
  - destruct x as [ | b | z | t | tk t | bs | l | dd]; cbn [py_str bind]; try discriminate; try (intros H; inv H; discriminate).
    destruct tk; intros H; inv H; discriminate.
  - destruct (py_str x); cbn [bind]; [intros H; inv H; discriminate | discriminate].
Qed.
(* an unbound declared parameter: nothing was supplied *)
Lemma ref_value_unbound d p : ref_value d p = Ok None -> p = None.
Proof.
  destruct p as [v|]; [|reflexivity]. rewrite ref_value_supplied. destruct (render_param d v S_NO_ECHO_WITH_VALUE); discriminate.
Qed.

Lemma bind_declared_ok_each decls extra ps k d : bind_declared decls extra = Ok ps -> In (k, d) decls ->
  exists o, ref_value d (supplied k extra) = Ok o.
Proof.
  revert ps. induction decls as [|[k0 d0] r IH]; intros ps H Hin; [destruct Hin|]. cbn [bind_declared] in H. bind_inv.
  destruct Hin as [Heq|Hin]; [inv Heq; eexists; eassumption | eapply IH; [reflexivity | exact Hin]].
Qed.
(* bind_declared reads [extra] only through the value supplied for each declared name *)
Lemma bind_declared_ext decls e1 e2 :
  (forall k d, In (k, d) decls -> ref_value d (supplied k e1) = ref_value d (supplied k e2)) ->
  bind_declared decls e1 = bind_declared decls e2.
Proof.
  induction decls as [|[k0 d0] r IH]; intros H; [reflexivity|]. cbn [bind_declared].
  rewrite (H k0 d0 (or_introl eq_refl)). rewrite IH; [reflexivity|]. intros k d Hin. apply H. right. exact Hin.
Qed.

Definition undeclared (decls extra : list (str * value)) : list (str * value) :=
  filter (fun kv => negb (mem_str (fst kv) (keys decls))) extra.
Lemma bind_params_unfold pseudo decls extra :
  bind_params pseudo decls extra = declared <- bind_declared decls extra ;; Ok (undeclared decls extra ++ declared ++ pseudo).
Proof. reflexivity. Qed.
Lemma declared_mem decls k (d : value) : In (k, d) decls -> mem_str k (keys decls) = true.
Proof. intros H. apply mem_str_In. unfold keys. apply in_map_iff. exists (k, d). split; [reflexivity | exact H]. Qed.
Lemma lookup_undeclared decls extra k : mem_str k (keys decls) = true -> lookup k (undeclared decls extra) = None.
Proof. intros H. unfold undeclared. rewrite (lookup_filter_keys k extra (fun x => negb (mem_str x (keys decls)))). rewrite H. reflexivity. Qed.

(* ================================================================================================================ *)
(* (a) LOCALITY: what a name is bound to depends on ITS declaration, the value supplied under ITS name and the library
       default of ITS name -- on no other declaration and no other supplied key *)
Theorem binding_local pseudo1 pseudo2 decls1 decls2 extra1 extra2 ps1 ps2 k :
  bind_params pseudo1 decls1 extra1 = Ok ps1 -> bind_params pseudo2 decls2 extra2 = Ok ps2 ->
  NoDup (keys decls1) -> NoDup (keys decls2) ->
  lookup k decls1 = lookup k decls2 -> lookup k extra1 = lookup k extra2 -> lookup k pseudo1 = lookup k pseudo2 ->
  lookup k ps1 = lookup k ps2.
Proof.
  intros H1 H2 N1 N2 Hd He Hp.
  rewrite (bind_params_precedence pseudo1 decls1 extra1 ps1 H1 N1 k), (bind_params_precedence pseudo2 decls2 extra2 ps2 H2 N2 k).
  unfold supplied. rewrite Hd, He, Hp. reflexivity.
Qed.

(* ================================================================================================================ *)
(* (b) supplying a value EQUAL to the Default *)
Theorem supply_default_value d v : field K_Default d = Some v -> is_noecho d = false -> ref_value d (Some v) = ref_value d None.
Proof.
  intros Hd Hn. rewrite ref_value_supplied, (ref_value_default d v Hd). unfold render_param. rewrite Hn. reflexivity.
Qed.
(* ... except for NoEcho, where the marker tells the two situations apart *)
Theorem supply_default_noecho d v : field K_Default d = Some v -> is_noecho d = true ->
  ref_value d (Some v) = Ok (Some (VStr S_NO_ECHO_WITH_VALUE)) /\ ref_value d None = Ok (Some (VStr S_NO_ECHO_WITH_DEFAULT)) /\
  S_NO_ECHO_WITH_VALUE <> S_NO_ECHO_WITH_DEFAULT.
Proof.
  intros Hd Hn. rewrite ref_value_supplied, (ref_value_default d v Hd). unfold render_param. rewrite Hn. cbn [bind].
  repeat split. discriminate.
Qed.
(* through the whole merge: every binding is unchanged *)
Theorem supply_default_binding pseudo decls extra k d v : NoDup (keys decls) -> lookup k decls = Some d ->
  field K_Default d = Some v -> is_noecho d = false -> supplied k extra = None ->
  bind_params pseudo decls ((k, v) :: extra) = bind_params pseudo decls extra.
Proof.
  intros Hnd Hl Hd Hn Hs. rewrite !bind_params_unfold.
  assert (Hm : mem_str k (keys decls) = true) by (eapply declared_mem; apply lookup_In; exact Hl).
  assert (Hu : undeclared decls ((k, v) :: extra) = undeclared decls extra).
  { unfold undeclared. cbn [filter fst]. rewrite Hm. reflexivity. }
  rewrite Hu. rewrite (bind_declared_ext decls ((k, v) :: extra) extra); [reflexivity|].
  intros k0 d0 Hin. destruct (str_eqb k0 k) eqn:Ek.
  - apply str_eqb_spec in Ek. subst k0. rewrite (NoDup_keys_lookup decls k d0 Hnd Hin) in Hl. inv Hl.
    rewrite supplied_cons_eq by (eapply field_not_null; exact Hd). rewrite Hs. apply supply_default_value; assumption.
  - rewrite supplied_cons_neq by exact Ek. reflexivity.
Qed.
Corollary supply_default_model pseudo decls extra maps cdecl rs k d v : NoDup (keys decls) -> lookup k decls = Some d ->
  field K_Default d = Some v -> is_noecho d = false -> supplied k extra = None ->
  resolve_model pseudo decls ((k, v) :: extra) maps cdecl rs = resolve_model pseudo decls extra maps cdecl rs.
Proof.
  intros Hnd Hl Hd Hn Hs. unfold resolve_model. rewrite (supply_default_binding pseudo decls extra k d v Hnd Hl Hd Hn Hs). reflexivity.
Qed.

(* ================================================================================================================ *)
(* (c) IDEMPOTENCE: supplying the bindings' own values again *)
(* the rendered value of a parameter that is not NoEcho is a fixed point of the rendering *)
Theorem ref_value_fixed d p v : is_noecho d = false -> ref_value d p = Ok (Some v) -> ref_value d (Some v) = Ok (Some v).
Proof.
  intros Hn. unfold ref_value. rewrite Hn. destruct (is_list_type d).
  - destruct (match p with Some p0 => Some p0 | None => field K_Default d end) as [x|]; [|discriminate].
    destruct x as [ | b | z | t | tk t | bs | l | dd]; cbn [py_str bind]; try discriminate; try (intros H; inv H; reflexivity).
    destruct tk; intros H; inv H; reflexivity.
  - destruct (match p with Some p0 => Some p0 | None => field K_Default d end) as [x|]; [|discriminate].
    destruct (py_str x); cbn [bind]; [|discriminate]. intros H. inv H. reflexivity.
Qed.

Definition no_noecho (decls : list (str * value)) : Prop := forall k d, In (k, d) decls -> is_noecho d = false.

Lemma declared_keys decls extra declared : bind_declared decls extra = Ok declared ->
  forall k, In k (keys declared) -> In k (keys decls).
Proof.
  revert declared. induction decls as [|[k0 d0] r IH]; intros declared H k Hk; cbn [bind_declared] in H.
  - inv H. destruct Hk.
  - bind_inv. inv H. cbn [keys map fst]. destruct a as [v|].
    + cbn [keys map fst] in Hk. destruct Hk as [Heq|Hk]; [left; exact Heq | right; eapply IH; [reflexivity | exact Hk]].
    + right. eapply IH; [reflexivity | exact Hk].
Qed.
Lemma filter_idem {A} (f : A -> bool) l : filter f (filter f l) = filter f l.
Proof. induction l as [|x l IH]; [reflexivity|]. cbn [filter]. destruct (f x) eqn:E; [cbn [filter]; rewrite E, IH; reflexivity | exact IH]. Qed.

(* the bindings a caller can see (own bindings of the declared parameters + the undeclared supplied keys), supplied again,
   reproduce exactly the same table *)
Theorem bind_idempotent pseudo decls extra declared : NoDup (keys decls) -> no_noecho decls ->
  bind_declared decls extra = Ok declared ->
  bind_params pseudo decls (undeclared decls extra ++ declared) = bind_params pseudo decls extra.
Proof.
  intros Hnd Hne Hb. rewrite !bind_params_unfold.
  assert (Hu : undeclared decls (undeclared decls extra ++ declared) = undeclared decls extra).
  { unfold undeclared. rewrite filter_app, filter_idem.
    assert (Hnil : filter (fun kv => negb (mem_str (fst kv) (keys decls))) declared = []).
    { pose proof (declared_keys decls extra declared Hb) as Hk. clear Hb. induction declared as [|[k v] l IH]; [reflexivity|].
      cbn [filter fst]. assert (Hm : mem_str k (keys decls) = true) by (apply mem_str_In; apply Hk; left; reflexivity).
      rewrite Hm. cbn [negb]. apply IH. intros k' Hk'. apply Hk. right. exact Hk'. }
    rewrite Hnil, app_nil_r. reflexivity. }
  rewrite Hu. rewrite (bind_declared_ext decls (undeclared decls extra ++ declared) extra); [reflexivity|].
  intros k d Hin. pose proof (NoDup_keys_lookup decls k d Hnd Hin) as Hl.
  pose proof (bind_declared_lookup decls extra declared Hb Hnd k) as Hlk. rewrite Hl in Hlk.
  destruct (bind_declared_ok_each decls extra declared k d Hb Hin) as [o Ho]. rewrite Ho in Hlk.
  assert (Hs : supplied k (undeclared decls extra ++ declared) = o).
  { unfold supplied. rewrite lookup_app, (lookup_undeclared decls extra k (declared_mem decls k d Hin)), Hlk.
    destruct o as [v|]; [|reflexivity]. pose proof (ref_value_not_null d _ v Ho). destruct v; try reflexivity. contradiction. }
  rewrite Hs, Ho. destruct o as [v|].
  - eapply ref_value_fixed; [apply (Hne k d Hin) | exact Ho].
  - rewrite (ref_value_unbound d _ Ho) in Ho. exact Ho.
Qed.

(* NoEcho breaks it, by design: a re-supplied marker is "a value" *)
Theorem noecho_resupply d m : is_noecho d = true -> ref_value d None = Ok (Some m) ->
  ref_value d (Some m) = Ok (Some (VStr S_NO_ECHO_WITH_VALUE)) /\ m <> VStr S_NO_ECHO_WITH_VALUE.
Proof.
  intros Hn H. split; [rewrite ref_value_noecho by exact Hn; reflexivity|].
  rewrite ref_value_noecho in H by exact Hn. destruct (field K_Default d); inv H; discriminate.
Qed.
Definition dSecret : value := VDict [(K_Type, VStr [83]); (K_NoEcho, VBool true)].
Theorem bind_idempotent_noecho_refuted : exists decls extra declared k,
  NoDup (keys decls) /\ bind_declared decls extra = Ok declared /\
  (exists ps1 ps2, bind_params [] decls extra = Ok ps1 /\ bind_params [] decls (undeclared decls extra ++ declared) = Ok ps2 /\
     lookup k ps1 = Some (VStr S_NO_ECHO_NO_DEFAULT) /\ lookup k ps2 = Some (VStr S_NO_ECHO_WITH_VALUE)).
Proof.
  exists [([80], dSecret)], [], [([80], VStr S_NO_ECHO_NO_DEFAULT)], [80].
  split; [repeat constructor; intros []|]. split; [reflexivity|]. eexists. eexists. repeat split; vm_compute; reflexivity.
Qed.

(* ================================================================================================================ *)
(* (d) list-typed parameters *)
Lemma split_go_no_delim c fuel cur s : ~ In c s -> split_go fuel [c] cur s = [rev cur ++ s].
Proof.
  revert cur s. induction fuel as [|f IH]; intros cur s Hs; [reflexivity|]. cbn [split_go]. destruct s as [|x s']; [rewrite app_nil_r; reflexivity|].
  assert (Hx : (c =? x) = false) by (apply N.eqb_neq; intros E; apply Hs; left; symmetry; exact E).
  cbn [starts_with]. rewrite Hx. cbn [andb]. rewrite IH by (intros F; apply Hs; right; exact F).
  cbn [rev]. rewrite <- app_assoc. reflexivity.
Qed.
Lemma split_no_comma s : ~ In 44 s -> split S_COMMA s = [s].
Proof. intros H. unfold split. change S_COMMA with [44]. rewrite split_go_no_delim by exact H. reflexivity. Qed.

(* the text "a,b" and the list ["a","b"] bind to the same list *)
Theorem list_text_vs_list d s : is_noecho d = false -> is_list_type d = true ->
  ref_value d (Some (VStr s)) = ref_value d (Some (VList (map VStr (split S_COMMA s)))).
Proof. intros Hn Hl. rewrite !ref_value_list by assumption. reflexivity. Qed.
(* a bare text without a comma = the one-element list *)
Theorem list_bare_text d s : is_noecho d = false -> is_list_type d = true -> ~ In 44 s ->
  ref_value d (Some (VStr s)) = Ok (Some (VList [VStr s])) /\ ref_value d (Some (VList [VStr s])) = Ok (Some (VList [VStr s])).
Proof. intros Hn Hl Hs. rewrite !ref_value_list by assumption. cbn [py_str bind]. rewrite split_no_comma by exact Hs. split; reflexivity. Qed.
(* the EMPTY text is the one-element list [""], not the empty list (Python's "".split(",")) *)
Theorem list_empty_text d : is_noecho d = false -> is_list_type d = true ->
  ref_value d (Some (VStr [])) = Ok (Some (VList [VStr []])) /\ ref_value d (Some (VList [])) = Ok (Some (VList [])).
Proof. intros Hn Hl. rewrite !ref_value_list by assumption. split; reflexivity. Qed.
(* a supplied LIST is bound as it is -- its members are not rendered as text, unlike the members of a supplied text:
   "1,2" binds ["1","2"], [1,2] binds [1,2] (the difference disappears at a Ref, which renders the members) *)
Definition dNumList : value := VDict [(K_Type, VStr S_ListNumber)].
Theorem list_members_not_rendered_refuted :
  ref_value dNumList (Some (VStr [49; 44; 50])) = Ok (Some (VList [VStr [49]; VStr [50]])) /\
  ref_value dNumList (Some (VList [VInt 1; VInt 2])) = Ok (Some (VList [VInt 1; VInt 2])) /\
  normalize [] (VList [VInt 1; VInt 2]) = normalize [] (VList [VStr [49]; VStr [50]]).
Proof. repeat split; vm_compute; reflexivity. Qed.

(* ================================================================================================================ *)
(* (e) PRECEDENCE, as one theorem.  For a DECLARED name: supplied value (rendered) > Default (rendered) > [NoEcho: the
       NO_DEFAULT marker] > library default of that name > unbound.  For an UNDECLARED name (pseudo parameters included):
       the supplied value AS IT IS -- even an explicit null -- > library default > unbound *)
Theorem precedence_chain pseudo decls extra ps : bind_params pseudo decls extra = Ok ps -> NoDup (keys decls) ->
  forall k,
  match lookup k decls with
  | Some d =>
      match supplied k extra, field K_Default d with
      | Some v, _ => exists r, render_param d v S_NO_ECHO_WITH_VALUE = Ok r /\ lookup k ps = Some r
      | None, Some v => exists r, render_param d v S_NO_ECHO_WITH_DEFAULT = Ok r /\ lookup k ps = Some r
      | None, None => lookup k ps = if is_noecho d then Some (VStr S_NO_ECHO_NO_DEFAULT) else lookup k pseudo
      end
  | None => lookup k ps = match lookup k extra with Some v => Some v | None => lookup k pseudo end
  end.
Proof.
  intros Hb Hnd k. pose proof (bind_params_precedence pseudo decls extra ps Hb Hnd k) as Hp.
  destruct (lookup k decls) as [d|] eqn:Hl; [|exact Hp].
  rewrite bind_params_unfold in Hb. destruct (bind_declared decls extra) as [declared|] eqn:Hd; [|discriminate].
  destruct (bind_declared_ok_each decls extra declared k d Hd (lookup_In k decls d Hl)) as [o Ho]. rewrite Ho in Hp.
  destruct (supplied k extra) as [v|] eqn:Hs.
  - rewrite ref_value_supplied in Ho. destruct (render_param d v S_NO_ECHO_WITH_VALUE) as [r|]; [|discriminate]. inv Ho. exists r. auto.
  - destruct (field K_Default d) as [v|] eqn:Hf.
    + rewrite (ref_value_default d v Hf) in Ho. destruct (render_param d v S_NO_ECHO_WITH_DEFAULT) as [r|]; [|discriminate]. inv Ho. exists r. auto.
    + rewrite (ref_value_none d Hf) in Ho. inv Ho. destruct (is_noecho d); exact Hp.
Qed.
(* the asymmetry inside it: for a declared name an explicit null means "not supplied"; for an undeclared name it is BOUND *)
Theorem null_supplied_asymmetry pseudo decls extra ps k : bind_params pseudo decls extra = Ok ps -> NoDup (keys decls) ->
  lookup k extra = Some VNull ->
  match lookup k decls with
  | Some d => lookup k ps = match ref_value d None with Ok (Some v) => Some v | _ => lookup k pseudo end
  | None => lookup k ps = Some VNull
  end.
Proof.
  intros Hb Hnd He. pose proof (bind_params_precedence pseudo decls extra ps Hb Hnd k) as Hp. unfold supplied in Hp. rewrite He in Hp.
  destruct (lookup k decls); exact Hp.
Qed.

(* ================================================================================================================ *)
(* (f) has_hardcoded_credentials as a decision table *)
(* where the text of a credential field comes from *)
Inductive cred_src :=
| CAbsent                                        (* the field is not written *)
| CLiteral (s : str)                             (* a literal text *)
| CRefNoEcho (has_default supplied : bool).      (* {"Ref": P}, P a NoEcho parameter: with/without Default, with/without a supplied value *)

(* its value in the RESOLVED model *)
Definition noecho_marker (has_default supplied : bool) : str :=
  if supplied then S_NO_ECHO_WITH_VALUE else if has_default then S_NO_ECHO_WITH_DEFAULT else S_NO_ECHO_NO_DEFAULT.
Definition cred_val (c : cred_src) : option value :=
  match c with
  | CAbsent => None
  | CLiteral s => Some (VStr s)
  | CRefNoEcho dflt sup => Some (VStr (noecho_marker dflt sup))
  end.
Definition optf (k : str) (c : cred_src) : list (str * value) := match cred_val c with Some v => [(k, v)] | None => [] end.
(* one entry of Metadata."AWS::CloudFormation::Authentication" *)
Definition entry_of (e : cred_src * cred_src * cred_src) : value :=
  let '(ak, pw, sk) := e in VDict (optf K_accessKeyId ak ++ optf K_password pw ++ optf K_secretKey sk).
Definition md_of (entries : list (str * (cred_src * cred_src * cred_src))) : value :=
  VDict [(K_CFN_AUTH, VDict (map (fun ke => (fst ke, entry_of (snd ke))) entries))].
(* LoginProfile: none, or one whose Password comes from [c] *)
Definition login_of (lp : option cred_src) : value :=
  match lp with None => VNull | Some c => VDict (optf K_Password c) end.

(* THE TABLE.  A field of an authentication entry counts unless it is absent or spells the NO_DEFAULT marker *)
Definition field_reported (c : cred_src) : bool :=
  match c with
  | CAbsent => false
  | CLiteral s => negb (str_eqb s S_NO_ECHO_NO_DEFAULT)      (* ANY other literal, the empty text included *)
  | CRefNoEcho dflt sup => dflt || sup                        (* a NoEcho parameter that has a Default or was given a value *)
  end.
Definition entry_reported (e : cred_src * cred_src * cred_src) : bool :=
  let '(ak, pw, sk) := e in field_reported ak || field_reported pw || field_reported sk.
(* the user's password counts under the same rule, except that an EMPTY literal does not *)
Definition password_reported (lp : option cred_src) : bool :=
  match lp with
  | None | Some CAbsent => false
  | Some (CLiteral s) => match s with [] => false | _ => negb (str_eqb s S_NO_ECHO_NO_DEFAULT) end
  | Some (CRefNoEcho dflt sup) => dflt || sup
  end.

Lemma marker_eqb dflt sup : str_eqb (noecho_marker dflt sup) S_NO_ECHO_NO_DEFAULT = negb (dflt || sup).
Proof. destruct dflt, sup; vm_compute; reflexivity. Qed.
Lemma cred_ok_src c : match cred_val c with None => true | Some v => veqb v MARKER end = negb (field_reported c).
Proof.
  destruct c as [|s|dflt sup]; cbn [cred_val field_reported]; [reflexivity | |].
  - unfold MARKER. cbn [veqb]. rewrite negb_involutive. reflexivity.
  - unfold MARKER. cbn [veqb]. rewrite marker_eqb. reflexivity.
Qed.
Lemma auth_ok_entry e : auth_ok (entry_of e) = Ok (negb (entry_reported e)).
Proof.
  destruct e as [[ak pw] sk]. unfold entry_of, entry_reported, auth_ok, cred_ok. rewrite !negb_orb, <- !cred_ok_src. f_equal.
  unfold optf. destruct (cred_val ak), (cred_val pw), (cred_val sk); reflexivity.
Qed.
Lemma any_bad_entries entries :
  any_bad (map (fun ke => (fst ke, entry_of (snd ke))) entries) = Ok (existsb (fun ke => entry_reported (snd ke)) entries).
Proof.
  induction entries as [|[k e] r IH]; [reflexivity|]. cbn [map fst snd any_bad existsb]. rewrite auth_ok_entry. cbn [bind].
  destruct (entry_reported e); [reflexivity | exact IH].
Qed.

(* Resource.has_hardcoded_credentials: some entry has a counted field *)
Theorem hc_resource_table entries : has_hc (md_of entries) = Ok (existsb (fun ke => entry_reported (snd ke)) entries).
Proof. unfold md_of, has_hc. cbn [lookup]. rewrite str_eqb_refl. apply any_bad_entries. Qed.
(* IAMUser.has_hardcoded_credentials: the password counts, or some entry has a counted field *)
Theorem hc_user_table lp entries :
  has_hc_user (login_of lp) (md_of entries) = Ok (password_reported lp || existsb (fun ke => entry_reported (snd ke)) entries).
Proof.
  destruct lp as [c|]; [|exact (hc_resource_table entries)]. destruct c as [|s|dflt sup]; cbn [login_of optf cred_val has_hc_user lookup password_reported].
  - exact (hc_resource_table entries).
  - rewrite str_eqb_refl. destruct s as [|c0 s']; [exact (hc_resource_table entries)|].
    unfold MARKER. cbn [truthy veqb andb]. destruct (str_eqb (c0 :: s') S_NO_ECHO_NO_DEFAULT); [exact (hc_resource_table entries) | reflexivity].
  - rewrite str_eqb_refl. unfold MARKER. cbn [veqb]. rewrite marker_eqb, negb_involutive.
    assert (Ht : truthy (VStr (noecho_marker dflt sup)) = true) by (destruct dflt, sup; reflexivity). rewrite Ht. cbn [andb].
    destruct (dflt || sup); [reflexivity | exact (hc_resource_table entries)].
Qed.
(* the same field source is judged differently in the two places only for the EMPTY literal *)
Theorem password_vs_field c : password_reported (Some c) = field_reported c \/ c = CLiteral [].
Proof. destruct c as [|s|dflt sup]; [left; reflexivity | | left; reflexivity]. destruct s; [right; reflexivity | left; reflexivity]. Qed.

(* the link with binding: CRefNoEcho is exactly what a reference to a NoEcho parameter resolves to *)
Theorem cred_val_is_ref pseudo decls extra ps maps cf s d : bind_params pseudo decls extra = Ok ps -> NoDup (keys decls) ->
  lookup s decls = Some d -> is_noecho d = true ->
  do_ref {| params := ps; mappings := maps; conds := cf |} (VStr s) =
  match cred_val (CRefNoEcho (match field K_Default d with Some _ => true | None => false end)
                             (match supplied s extra with Some _ => true | None => false end)) with
  | Some v => Ok v | None => Err EUndefined end.
Proof.
  intros Hb Hnd Hl Hn. rewrite (do_ref_noecho pseudo decls extra ps maps cf s d Hb Hnd Hl Hn).
  cbn [cred_val]. unfold noecho_marker. destruct (supplied s extra), (field K_Default d); reflexivity.
Qed.
