(* Finite facts about the tables generated from the live source, re-proved on every run. *)
From Coq Require Import List Bool NArith.
From PV Require Import Base.Str Base.Value Resolver.Consts Resolver.GenConsts.
From PVGen Require Functions.
Import ListNotations.

Definition same_set (a b : list str) : bool :=
  forallb (fun x => mem_str x b) a && forallb (fun x => mem_str x a) b.
Definition pair_eqb (p q : str * str) : bool := str_eqb (fst p) (fst q) && str_eqb (snd p) (snd q).
Definition same_pairs (a b : list (str * str)) : bool :=
  forallb (fun x => existsb (pair_eqb x) b) a && forallb (fun x => existsb (pair_eqb x) a) b.

(* the model dispatches on exactly the function names the code implements, each to the same resolver *)
Lemma functions_table_ok :
  same_set Functions.IMPLEMENTED_FUNCTIONS MODEL_FUNCTIONS
  && same_pairs Functions.FUNCTION_MAPPINGS EXPECTED_KINDS
  && str_eqb Functions.AWS_NOVALUE S_NOVALUE
  && str_eqb Functions.NO_ECHO_NO_DEFAULT S_NO_ECHO_NO_DEFAULT
  && str_eqb Functions.NO_ECHO_WITH_DEFAULT S_NO_ECHO_WITH_DEFAULT
  && str_eqb Functions.NO_ECHO_WITH_VALUE S_NO_ECHO_WITH_VALUE
  && match lookup S_NOVALUE Functions.PSEUDO_PARAMETERS with Some (VStr s) => str_eqb s S_NOVALUE | _ => false end
  = true.
Proof. vm_compute. reflexivity. Qed.

(* the placeholder and SSM syntaxes are the ones the model's scanners implement *)
Lemma sub_regex_ok :
  str_eqb Functions.SUB_REGEX EXPECTED_SUB_REGEX && str_eqb Functions.SSM_REGEX EXPECTED_SSM_REGEX = true.
Proof. vm_compute. reflexivity. Qed.
