(* Finite facts about the tables generated from the live source, re-proved on every run. *)
From Coq Require Import List Bool NArith.
From PV Require Import Base.Str Base.Value Resolver.Consts Resolver.GenConsts.
From PVGen Require Functions.
Import ListNotations.

Definition same_set (a b : list str) : bool :=
  forallb (fun x => mem_str x b) a && forallb (fun x => mem_str x a) b.
Definition pair_eqb (p q : str * str) : bool := str_eqb (fst p) (fst q) && str_eqb (snd p) (snd q).
Definition same_pairs (a b : list (str * str)) : bool :=
  forallb (fun x => existsb (pair_eqb x) b) a && forallb (fun x => existsb (pair_eqb x) a) b.

(* every function name the model dispatches on is still implemented by the code, by the resolver the model was written from.  The code
   may implement MORE functions (a newly supported intrinsic is an ordinary upstream change): expressions that mention such a name are
   outside the model's domain -- the theorems speak about MODEL_FUNCTIONS, the correspondence check skips those cases and says so in
   the evidence (core.foreign_functions) *)
Definition incl_set (a b : list str) : bool := forallb (fun x => mem_str x b) a.
Definition incl_pairs (a b : list (str * str)) : bool := forallb (fun x => existsb (pair_eqb x) b) a.
Lemma functions_table_ok :
  incl_set MODEL_FUNCTIONS Functions.IMPLEMENTED_FUNCTIONS
  && incl_pairs EXPECTED_KINDS Functions.FUNCTION_MAPPINGS
  && incl_set (map fst Functions.FUNCTION_MAPPINGS) Functions.IMPLEMENTED_FUNCTIONS
  && incl_set Functions.IMPLEMENTED_FUNCTIONS (map fst Functions.FUNCTION_MAPPINGS)
  && str_eqb Functions.AWS_NOVALUE S_NOVALUE
  && str_eqb Functions.NO_ECHO_NO_DEFAULT S_NO_ECHO_NO_DEFAULT
  && str_eqb Functions.NO_ECHO_WITH_DEFAULT S_NO_ECHO_WITH_DEFAULT
  && str_eqb Functions.NO_ECHO_WITH_VALUE S_NO_ECHO_WITH_VALUE
  && match lookup S_NOVALUE Functions.PSEUDO_PARAMETERS with Some (VStr s) => str_eqb s S_NOVALUE | _ => false end
  = true.
Proof. vm_compute. reflexivity. Qed.

(* the placeholder and SSM syntaxes are the ones the model's scanners implement *)
Lemma sub_regex_ok :
  str_eqb Functions.SUB_REGEX EXPECTED_SUB_REGEX && str_eqb Functions.SSM_REGEX EXPECTED_SSM_REGEX = true.
Proof. vm_compute. reflexivity. Qed.
