(* resolve depends on its environment only through lookups: environments with the same lookups give the same results. *)
From Coq Require Import List Bool NArith ZArith Lia.
From PV Require Import Base.Str Base.Value Resolver.Consts Resolver.Text Resolver.Resolve Resolver.Spec.
Import ListNotations.
Local Open Scope N_scope.

Definition same_lookups {A} (a b : list (str * A)) : Prop := forall k, lookup k a = lookup k b.
Definition env_eq (e e' : env) : Prop :=
  same_lookups (params e) (params e') /\ same_lookups (mappings e) (mappings e') /\ (forall n, conds e n = conds e' n).

Lemma render_str_ext ps ps' s : same_lookups ps ps' -> render_str ps s = render_str ps' s.
Proof. intros H. unfold render_str. destruct (ssm_key s); [rewrite H|]; reflexivity. Qed.

Lemma normalize_ext ps ps' : same_lookups ps ps' -> forall v, normalize ps v = normalize ps' v.
Proof.
  intros H v. induction v using value_ind'; simpl; try reflexivity.
  - rewrite (render_str_ext ps ps' s H). reflexivity.
  - f_equal. induction H0 as [|x xs Hx Hxs IH]; [reflexivity|]. rewrite Hx, IH. reflexivity.
  - destruct (is_fn_dict d); [reflexivity|]. f_equal.
    induction H0 as [|[k x] xs Hx Hxs IH]; [reflexivity|]. simpl in Hx. rewrite Hx, IH. reflexivity.
Qed.

Lemma do_ref_ext e e' b : env_eq e e' -> do_ref e b = do_ref e' b.
Proof.
  intros (Hp & _ & _). unfold do_ref. destruct b; try reflexivity. rewrite (Hp s).
  destruct (lookup s (params e')); [apply normalize_ext; assumption | reflexivity].
Qed.
Lemma do_find_in_map_ext e e' m k1 k2 : env_eq e e' -> do_find_in_map e m k1 k2 = do_find_in_map e' m k1 k2.
Proof. intros (_ & Hm & _). unfold do_find_in_map. destruct m, k1, k2; try reflexivity. rewrite (Hm s). reflexivity. Qed.
Lemma render_var_ext e e' custom n : env_eq e e' -> render_var e custom n = render_var e' custom n.
Proof.
  intros (Hp & _ & _). unfold render_var.
  destruct (lookup n custom); [rewrite (normalize_ext _ _ Hp); reflexivity|].
  rewrite (Hp n). destruct (lookup n (params e')); [rewrite (normalize_ext _ _ Hp)|]; reflexivity.
Qed.
Lemma do_sub_ext e e' text custom : env_eq e e' -> do_sub e text custom = do_sub e' text custom.
Proof.
  intros H. unfold do_sub. f_equal. induction (sub_tokens text) as [|t ts IH]; [reflexivity|].
  simpl. rewrite IH. destruct t; simpl; try reflexivity. rewrite (render_var_ext e e' custom name H). reflexivity.
Qed.

Section ExtLists.
Variables e e' : env.
Definition SameAt (v : value) : Prop := resolve e v = resolve e' v.
Lemma rlist_ext l : Forall SameAt l -> rlist e l = rlist e' l.
Proof. induction 1 as [|x xs Hx Hxs IH]; [reflexivity|]. simpl. rewrite Hx, IH. reflexivity. Qed.
Lemma rdict_ext d : Forall (fun kv => SameAt (snd kv)) d -> rdict e d = rdict e' d.
Proof. induction 1 as [|[k x] xs Hx Hxs IH]; [reflexivity|]. simpl in *. rewrite Hx, IH. reflexivity. Qed.
Lemma rall_ext l : Forall SameAt l -> rall e l = rall e' l.
Proof. induction 1 as [|x xs Hx Hxs IH]; [reflexivity|]. simpl. rewrite Hx, IH. reflexivity. Qed.
Lemma rany_ext l : Forall SameAt l -> rany e l = rany e' l.
Proof. induction 1 as [|x xs Hx Hxs IH]; [reflexivity|]. simpl. rewrite Hx, IH. reflexivity. Qed.
End ExtLists.

Theorem resolve_ext e e' : env_eq e e' -> forall n v, (vsize v < n)%nat -> resolve e v = resolve e' v.
Proof.
  intros He. pose proof He as (Hp & Hm & Hc).
  induction n as [|n IH]; intros v Hs; [lia|].
  destruct v as [| b | z | s | k t | bs | l | d]; try reflexivity.
  - simpl. rewrite (render_str_ext _ _ s Hp). reflexivity.
  - rewrite !resolve_list. rewrite (rlist_ext e e' l); [reflexivity|].
    apply Forall_forall. intros x Hx. apply IH. pose proof (vsize_in_list x l Hx). lia.
  - assert (Hsub : forall k x, In (k, x) d -> resolve e x = resolve e' x).
    { intros k x Hx. apply IH. pose proof (vsize_in_dict k x d Hx). lia. }
    assert (Hgen : is_fn_dict d = false -> resolve e (VDict d) = resolve e' (VDict d)).
    { intros Hf. rewrite !resolve_dict_generic by assumption. rewrite (rdict_ext e e' d); [reflexivity|].
      apply Forall_forall. intros [k0 x0] Hin. simpl. eapply Hsub; eauto. }
    destruct d as [|[k body] [|kv2 rest]]; [apply Hgen; reflexivity | | apply Hgen; reflexivity].
    assert (Hbody : resolve e body = resolve e' body) by (eapply Hsub; left; reflexivity).
    assert (Hdeep : forall x, (vsize x < vsize body)%nat -> resolve e x = resolve e' x).
    { intros x Hx. apply IH. simpl in Hs. lia. }
    key_case k K_Ref. { rewrite !resolve_ref, Hbody. destruct (resolve e' body); simpl; [apply do_ref_ext; assumption | reflexivity]. }
    key_case k K_ImportValue. { rewrite !resolve_import, Hbody. destruct (resolve e' body); simpl; [apply do_ref_ext; assumption | reflexivity]. }
    key_case k K_Join.
    { destruct body as [| | | | | | l |]; try reflexivity. destruct l as [|dl [|l [|? ?]]]; try reflexivity.
      rewrite !resolve_join. rewrite (Hdeep dl), (Hdeep l) by (simpl; lia). reflexivity. }
    key_case k K_Split.
    { destruct body as [| | | | | | l |]; try reflexivity. destruct l as [|dl [|l [|? ?]]]; try reflexivity.
      rewrite !resolve_split. rewrite (Hdeep dl), (Hdeep l) by (simpl; lia). reflexivity. }
    key_case k K_Select.
    { destruct body as [| | | | | | l |]; try reflexivity. destruct l as [|dl [|l [|? ?]]]; try reflexivity.
      rewrite !resolve_select. rewrite (Hdeep dl), (Hdeep l) by (simpl; lia). reflexivity. }
    key_case k K_FindInMap.
    { destruct body as [| | | | | | l |]; try reflexivity. destruct l as [|m [|k1 [|k2 [|? ?]]]]; try reflexivity.
      rewrite !resolve_find_in_map. rewrite (Hdeep m), (Hdeep k1), (Hdeep k2) by (simpl; lia).
      destruct (resolve e' m); simpl; [|reflexivity]. destruct (resolve e' k1); simpl; [|reflexivity].
      destruct (resolve e' k2); simpl; [|reflexivity]. apply do_find_in_map_ext. assumption. }
    key_case k K_Sub.
    { destruct body as [| | | text | | | l |]; try reflexivity.
      - rewrite !resolve_sub_text. apply do_sub_ext. assumption.
      - destruct l as [|t0 [|vars [|? ?]]]; try reflexivity; destruct t0 as [| | | text | | | |]; try reflexivity.
        rewrite !resolve_sub_vars. rewrite (Hdeep vars) by (simpl; lia).
        destruct (resolve e' vars) as [cv|]; simpl; [|reflexivity]. destruct cv; try reflexivity. apply do_sub_ext. assumption. }
    key_case k K_Base64. { rewrite !resolve_base64, Hbody. reflexivity. }
    key_case k K_GetAtt. { reflexivity. }
    key_case k K_GetAZs. { reflexivity. }
    key_case k K_Condition.
    { destruct body as [| | | name | | | |]; try reflexivity. rewrite !resolve_condition, (Hc name). reflexivity. }
    key_case k K_If.
    { destruct body as [| | | | | | l |]; try reflexivity.
      destruct l as [|c [|t [|f [|? ?]]]]; try reflexivity; try (destruct c; reflexivity).
      destruct c as [| | | c | | | |]; try reflexivity.
      rewrite !resolve_if, (Hc c). rewrite (Hdeep t), (Hdeep f) by (simpl; lia). reflexivity. }
    key_case k K_And.
    { destruct body as [| | | | | | parts |]; try reflexivity. rewrite !resolve_and.
      rewrite (rall_ext e e' parts); [reflexivity|]. apply Forall_forall. intros x Hx. apply Hdeep. apply vsize_in_list. assumption. }
    key_case k K_Or.
    { destruct body as [| | | | | | parts |]; try reflexivity. rewrite !resolve_or.
      rewrite (rany_ext e e' parts); [reflexivity|]. apply Forall_forall. intros x Hx. apply Hdeep. apply vsize_in_list. assumption. }
    key_case k K_Not.
    { destruct body as [| | | | | | l |]; try reflexivity. destruct l as [|x rest]; try reflexivity.
      rewrite !resolve_not. rewrite (Hdeep x) by (simpl; lia). reflexivity. }
    key_case k K_Equals.
    { destruct body as [| | | | | | l |]; try reflexivity. destruct l as [|a [|b [|? ?]]]; try reflexivity.
      rewrite !resolve_equals. rewrite (Hdeep a), (Hdeep b) by (simpl; lia). reflexivity. }
    apply Hgen. rewrite is_fn_dict_single. unfold is_fn, MODEL_FUNCTIONS, mem_str. cbn [existsb].
    rewrite Ek, Ek0, Ek1, Ek2, Ek3, Ek4, Ek5, Ek6, Ek7, Ek8, Ek9, Ek10, Ek11, Ek12, Ek13, Ek14. reflexivity.
Qed.

Corollary resolve_env_eq e e' v : env_eq e e' -> resolve e v = resolve e' v.
Proof. intros H. apply (resolve_ext e e' H (S (vsize v))). lia. Qed.
