(* The boolean algebra of condition expressions, AS THE MODEL EVALUATES THEM (pycfmodel.resolver: resolve_and / resolve_or /
   resolve_not / resolve_equals / resolve_condition / resolve_if, _extended_bool; cf_model._ConditionResolver).

   Evaluation may fail (a Python exception = [Err]) and Fn::And / Fn::Or are evaluated LEFT TO RIGHT AND STOP AT THE FIRST
   DECIDING OPERAND (all(...) / any(...) over a generator).  Every law below is stated for that evaluation, with the exact side
   condition under which it holds; where the unrestricted law is false there is a [_refuted] theorem with a witness.

   [tv e x]        the TRUTH VALUE of the expression x: its resolved value read through pydantic's lenient bool
                   ([ext_bool] = _extended_bool).  Condition functions return a Python bool, a leaf such as "true" is resolved to
                   the text "true": they are different VALUES with the same truth value, so the laws are stated on [tv]
                   (and on [resolve] where both sides return a boolean).
   [sc_all], [sc_any]  left-to-right conjunction / disjunction of a list of results that stops at the first [false] / [true] / error.

   1. Fn::And / Fn::Or: conjunction / disjunction for lists of any length; permutation, duplicates, flattening, units, De Morgan,
      double negation, complement, distributivity, absorption;
   2. Fn::Equals: symmetry, reflexivity, characterisation;
   3. short-circuiting: exactly which operand decides, and when an exception is hidden;
   4. Condition references: the defining equations and their unique solution (acyclic declarations), unfolding a reference,
      removing a condition nobody asks about;
   5. Fn::If: equal branches, negated condition, nesting, AWS::NoValue pruning with the list-length law;
   6. the resource gate: a parameter that no condition reads does not change which resources are present. *)
From Coq Require Import List Bool NArith ZArith Lia Permutation.
From PV Require Import Base.Str Base.Value Resolver.Consts Resolver.Text Resolver.Resolve Resolver.Spec Resolver.Ext
  Resolver.Template Resolver.CondFacts Resolver.ParamFacts Resolver.PermFacts Resolver.ModelFix Resolver.Trace.
Import ListNotations.
Local Open Scope N_scope.

(* ---- the expressions, named ---- *)
Definition EAnd (l : list value) : value := VDict [(K_And, VList l)].
Definition EOr (l : list value) : value := VDict [(K_Or, VList l)].
Definition ENot (x : value) : value := VDict [(K_Not, VList [x])].
Definition EEquals (a b : value) : value := VDict [(K_Equals, VList [a; b])].
Definition ECond (n : str) : value := VDict [(K_Condition, VStr n)].
Definition EIf (c : str) (t f : value) : value := VDict [(K_If, VList [VStr c; t; f])].

(* ---- truth values ---- *)
Definition tv (e : env) (x : value) : res bool := r <- resolve e x ;; ext_bool r.
(* the truth value as a plain boolean, for operands known to evaluate without error *)
Definition tvb (e : env) (x : value) : bool := match tv e x with Ok b => b | Err _ => false end.
Definition tv_ok (e : env) (x : value) : Prop := is_ok (tv e x) = true.

Fixpoint sc_all (l : list (res bool)) : res bool :=
  match l with
  | [] => Ok true
  | r :: rs => b <- r ;; if b then sc_all rs else Ok false
  end.
Fixpoint sc_any (l : list (res bool)) : res bool :=
  match l with
  | [] => Ok false
  | r :: rs => b <- r ;; if b then Ok true else sc_any rs
  end.
Definition rneg (r : res bool) : res bool := b <- r ;; Ok (negb b).

Lemma tv_ok_inv e x : tv_ok e x -> tv e x = Ok (tvb e x).
Proof. unfold tv_ok, tvb. destruct (tv e x); simpl; [reflexivity | discriminate]. Qed.
Lemma tv_ok_intro e x b : tv e x = Ok b -> tv_ok e x.
Proof. unfold tv_ok. intros ->. reflexivity. Qed.
Lemma tvb_of e x b : tv e x = Ok b -> tvb e x = b.
Proof. unfold tvb. intros ->. reflexivity. Qed.

(* Fn::And / Fn::Or are the short-circuit conjunction / disjunction of the truth values of their operands: ANY number of
   operands (0, 1, more than 10 -- the code has no 2..10 restriction) *)
Lemma rall_sc e l : rall e l = sc_all (map (tv e) l).
Proof.
  induction l as [|x xs IH]; [reflexivity|].
  rewrite rall_cons'. cbn [map sc_all]. unfold tv at 1.
  destruct (resolve e x) as [r|err]; cbn [bind]; [|reflexivity].
  destruct (ext_bool r) as [[|]|err]; cbn [bind]; [exact IH | reflexivity | reflexivity].
Qed.
Lemma rany_sc e l : rany e l = sc_any (map (tv e) l).
Proof.
  induction l as [|x xs IH]; [reflexivity|].
  rewrite rany_cons'. cbn [map sc_any]. unfold tv at 1.
  destruct (resolve e x) as [r|err]; cbn [bind]; [|reflexivity].
  destruct (ext_bool r) as [[|]|err]; cbn [bind]; [reflexivity | exact IH | reflexivity].
Qed.

Lemma resolve_and_tv e l : resolve e (EAnd l) = (b <- sc_all (map (tv e) l) ;; Ok (VBool b)).
Proof. unfold EAnd. rewrite resolve_and, rall_sc. reflexivity. Qed.
Lemma resolve_or_tv e l : resolve e (EOr l) = (b <- sc_any (map (tv e) l) ;; Ok (VBool b)).
Proof. unfold EOr. rewrite resolve_or, rany_sc. reflexivity. Qed.
Lemma resolve_not_tv e x : resolve e (ENot x) = (b <- tv e x ;; Ok (VBool (negb b))).
Proof.
  unfold ENot. rewrite resolve_not. unfold tv. destruct (resolve e x) as [r|err]; cbn [bind]; [|reflexivity].
  destruct (ext_bool r); reflexivity.
Qed.
(* Fn::Not looks at its first operand only (function_body[0]) *)
Lemma resolve_not_rest e x rest : resolve e (VDict [(K_Not, VList (x :: rest))]) = resolve e (ENot x).
Proof. unfold ENot. rewrite !resolve_not. reflexivity. Qed.

Lemma tv_bool_result (r : res bool) : (v <- (b <- r ;; Ok (VBool b)) ;; ext_bool v) = r.
Proof. destruct r; reflexivity. Qed.
Lemma tv_and e l : tv e (EAnd l) = sc_all (map (tv e) l).
Proof. unfold tv at 1. rewrite resolve_and_tv. apply tv_bool_result. Qed.
Lemma tv_or e l : tv e (EOr l) = sc_any (map (tv e) l).
Proof. unfold tv at 1. rewrite resolve_or_tv. apply tv_bool_result. Qed.
Lemma tv_not e x : tv e (ENot x) = rneg (tv e x).
Proof. unfold tv at 1. rewrite resolve_not_tv. unfold rneg. destruct (tv e x); reflexivity. Qed.
Lemma tv_cond e n : tv e (ECond n) = conds e n.
Proof. unfold tv, ECond. rewrite resolve_condition. destruct (conds e n); reflexivity. Qed.
(* a condition function returns a boolean: its value is determined by its truth value *)
Lemma resolve_and_of_tv e l : resolve e (EAnd l) = (b <- tv e (EAnd l) ;; Ok (VBool b)).
Proof. rewrite tv_and. apply resolve_and_tv. Qed.
Lemma resolve_or_of_tv e l : resolve e (EOr l) = (b <- tv e (EOr l) ;; Ok (VBool b)).
Proof. rewrite tv_or. apply resolve_or_tv. Qed.
Lemma resolve_not_of_tv e x : resolve e (ENot x) = (b <- tv e (ENot x) ;; Ok (VBool b)).
Proof. rewrite tv_not, resolve_not_tv. unfold rneg. destruct (tv e x); reflexivity. Qed.

(* the texts "true" / "false" and the booleans are the constants *)
Lemma tv_true_text e : tv e (VStr S_true) = Ok true.
Proof. reflexivity. Qed.
Lemma tv_false_text e : tv e (VStr S_false) = Ok false.
Proof. reflexivity. Qed.
Lemma tv_bool e b : tv e (VBool b) = Ok b.
Proof. destruct b; reflexivity. Qed.

(* ---- the algebra of [sc_all] / [sc_any] ---- *)
Lemma sc_all_app a b : sc_all (a ++ b) = (x <- sc_all a ;; if x then sc_all b else Ok false).
Proof.
  induction a as [|r rs IH]; cbn [app sc_all bind]; [reflexivity|].
  destruct r as [[|]|err]; cbn [bind]; [exact IH | reflexivity | reflexivity].
Qed.
Lemma sc_any_app a b : sc_any (a ++ b) = (x <- sc_any a ;; if x then Ok true else sc_any b).
Proof.
  induction a as [|r rs IH]; cbn [app sc_any bind]; [reflexivity|].
  destruct r as [[|]|err]; cbn [bind]; [reflexivity | exact IH | reflexivity].
Qed.
Lemma sc_all_oks bs : sc_all (map Ok bs) = Ok (forallb (fun b => b) bs).
Proof. induction bs as [|[|] bs IH]; cbn [map sc_all bind forallb andb]; [reflexivity | exact IH | reflexivity]. Qed.
Lemma sc_any_oks bs : sc_any (map Ok bs) = Ok (existsb (fun b => b) bs).
Proof. induction bs as [|[|] bs IH]; cbn [map sc_any bind existsb orb]; [reflexivity | reflexivity | exact IH]. Qed.
(* De Morgan, errors and evaluation order included *)
Lemma sc_any_neg rs : sc_any (map rneg rs) = rneg (sc_all rs).
Proof.
  induction rs as [|r rs IH]; [reflexivity|]. cbn [map sc_any sc_all]. unfold rneg at 1.
  destruct r as [[|]|err]; cbn [bind negb]; [exact IH | reflexivity | reflexivity].
Qed.
Lemma sc_all_neg rs : sc_all (map rneg rs) = rneg (sc_any rs).
Proof.
  induction rs as [|r rs IH]; [reflexivity|]. cbn [map sc_any sc_all]. unfold rneg at 1.
  destruct r as [[|]|err]; cbn [bind negb]; [reflexivity | exact IH | reflexivity].
Qed.
Lemma rneg_rneg r : rneg (rneg r) = r.
Proof. destruct r as [[|]|]; reflexivity. Qed.

Lemma all_ok_map e l : Forall (tv_ok e) l -> map (tv e) l = map Ok (map (tvb e) l).
Proof.
  induction 1 as [|x xs Hx Hxs IH]; [reflexivity|]. cbn [map]. rewrite IH, (tv_ok_inv e x Hx). reflexivity.
Qed.
Lemma forallb_id_map {A} (f : A -> bool) l : forallb (fun b => b) (map f l) = forallb f l.
Proof. induction l as [|x xs IH]; simpl; [reflexivity | rewrite IH; reflexivity]. Qed.
Lemma existsb_id_map {A} (f : A -> bool) l : existsb (fun b => b) (map f l) = existsb f l.
Proof. induction l as [|x xs IH]; simpl; [reflexivity | rewrite IH; reflexivity]. Qed.

(* ================= 1. Fn::And is conjunction, Fn::Or is disjunction ================= *)
(* when every operand evaluates without error: the plain boolean conjunction / disjunction, for any number of operands *)
Theorem and_is_conjunction e l : Forall (tv_ok e) l -> resolve e (EAnd l) = Ok (VBool (forallb (tvb e) l)).
Proof. intros H. rewrite resolve_and_tv, (all_ok_map e l H), sc_all_oks, forallb_id_map. reflexivity. Qed.
Theorem or_is_disjunction e l : Forall (tv_ok e) l -> resolve e (EOr l) = Ok (VBool (existsb (tvb e) l)).
Proof. intros H. rewrite resolve_or_tv, (all_ok_map e l H), sc_any_oks, existsb_id_map. reflexivity. Qed.

Lemma forallb_incl {A} (f : A -> bool) l l' : incl l' l -> forallb f l = true -> forallb f l' = true.
Proof. rewrite !forallb_forall. intros Hi H x Hx. apply H. apply Hi. exact Hx. Qed.
Lemma forallb_same_set {A} (f : A -> bool) l l' : incl l l' -> incl l' l -> forallb f l = forallb f l'.
Proof.
  intros H1 H2. destruct (forallb f l) eqn:E1, (forallb f l') eqn:E2; try reflexivity.
  - rewrite (forallb_incl f l l' H2 E1) in E2. discriminate.
  - rewrite (forallb_incl f l' l H1 E2) in E1. discriminate.
Qed.
Lemma existsb_incl {A} (f : A -> bool) l l' : incl l l' -> existsb f l = true -> existsb f l' = true.
Proof. rewrite !existsb_exists. intros Hi (x & Hx & Hf). exists x. split; [apply Hi; exact Hx | exact Hf]. Qed.
Lemma existsb_same_set {A} (f : A -> bool) l l' : incl l l' -> incl l' l -> existsb f l = existsb f l'.
Proof.
  intros H1 H2. destruct (existsb f l) eqn:E1, (existsb f l') eqn:E2; try reflexivity.
  - rewrite (existsb_incl f l l' H1 E1) in E2. discriminate.
  - rewrite (existsb_incl f l' l H2 E2) in E1. discriminate.
Qed.

(* the value depends on the SET of operands only -- order and repetitions are immaterial -- when all operands evaluate *)
Theorem and_same_operands e l l' : Forall (tv_ok e) l -> Forall (tv_ok e) l' -> incl l l' -> incl l' l ->
  resolve e (EAnd l) = resolve e (EAnd l').
Proof. intros H H' H1 H2. rewrite !and_is_conjunction by assumption. rewrite (forallb_same_set _ l l' H1 H2). reflexivity. Qed.
Theorem or_same_operands e l l' : Forall (tv_ok e) l -> Forall (tv_ok e) l' -> incl l l' -> incl l' l ->
  resolve e (EOr l) = resolve e (EOr l').
Proof. intros H H' H1 H2. rewrite !or_is_disjunction by assumption. rewrite (existsb_same_set _ l l' H1 H2). reflexivity. Qed.

(* permutation invariance *)
Theorem and_perm e l l' : Permutation l l' -> Forall (tv_ok e) l -> resolve e (EAnd l) = resolve e (EAnd l').
Proof.
  intros Hp H. apply and_same_operands; [exact H | exact (Permutation_Forall Hp H) | |].
  - intros x Hx. exact (Permutation_in x Hp Hx).
  - intros x Hx. exact (Permutation_in x (Permutation_sym Hp) Hx).
Qed.
Theorem or_perm e l l' : Permutation l l' -> Forall (tv_ok e) l -> resolve e (EOr l) = resolve e (EOr l').
Proof.
  intros Hp H. apply or_same_operands; [exact H | exact (Permutation_Forall Hp H) | |].
  - intros x Hx. exact (Permutation_in x Hp Hx).
  - intros x Hx. exact (Permutation_in x (Permutation_sym Hp) Hx).
Qed.
(* ... and the side condition is needed: an operand that raises is hidden behind a deciding operand, and not in front of it *)
Definition S_maybe : str := [109; 97; 121; 98; 101].
Definition e_none : env := {| params := []; mappings := []; conds := fun _ => Ok false |}.
Theorem and_perm_refuted : exists e l l', Permutation l l' /\
  resolve e (EAnd l) = Ok (VBool false) /\ resolve e (EAnd l') = Err EValidation.
Proof.
  exists e_none, [VStr S_false; VStr S_maybe], [VStr S_maybe; VStr S_false].
  split; [apply perm_swap | split; vm_compute; reflexivity].
Qed.
Theorem or_perm_refuted : exists e l l', Permutation l l' /\
  resolve e (EOr l) = Ok (VBool true) /\ resolve e (EOr l') = Err EValidation.
Proof.
  exists e_none, [VStr S_true; VStr S_maybe], [VStr S_maybe; VStr S_true].
  split; [apply perm_swap | split; vm_compute; reflexivity].
Qed.

(* idempotence, unconditionally: a SECOND occurrence of an operand, anywhere after the first, can be deleted (if it is reached
   at all, the first occurrence did not decide and did not raise, so the second does neither) *)
Lemma sc_all_drop_true a b : sc_all (a ++ Ok true :: b) = sc_all (a ++ b).
Proof. rewrite !sc_all_app. reflexivity. Qed.
Lemma sc_any_drop_false a b : sc_any (a ++ Ok false :: b) = sc_any (a ++ b).
Proof. rewrite !sc_any_app. reflexivity. Qed.
Lemma sc_all_dup a r b c : sc_all (a ++ r :: b ++ r :: c) = sc_all (a ++ r :: b ++ c).
Proof.
  rewrite !(sc_all_app a). destruct (sc_all a) as [[|]|err]; cbn [bind]; try reflexivity.
  destruct r as [[|]|err]; cbn [sc_all bind]; try reflexivity. apply sc_all_drop_true.
Qed.
Lemma sc_any_dup a r b c : sc_any (a ++ r :: b ++ r :: c) = sc_any (a ++ r :: b ++ c).
Proof.
  rewrite !(sc_any_app a). destruct (sc_any a) as [[|]|err]; cbn [bind]; try reflexivity.
  destruct r as [[|]|err]; cbn [sc_any bind]; try reflexivity. apply sc_any_drop_false.
Qed.
Lemma map_mid {A B} (f : A -> B) l1 x l2 : map f (l1 ++ x :: l2) = map f l1 ++ f x :: map f l2.
Proof. rewrite map_app. reflexivity. Qed.
Theorem and_duplicate e l1 x l2 l3 : resolve e (EAnd (l1 ++ x :: l2 ++ x :: l3)) = resolve e (EAnd (l1 ++ x :: l2 ++ l3)).
Proof. rewrite !resolve_and_tv, !map_mid, !map_app. cbn [map]. rewrite sc_all_dup. reflexivity. Qed.
Theorem or_duplicate e l1 x l2 l3 : resolve e (EOr (l1 ++ x :: l2 ++ x :: l3)) = resolve e (EOr (l1 ++ x :: l2 ++ l3)).
Proof. rewrite !resolve_or_tv, !map_mid, !map_app. cbn [map]. rewrite sc_any_dup. reflexivity. Qed.
Corollary and_idempotent e x l : resolve e (EAnd (x :: x :: l)) = resolve e (EAnd (x :: l)).
Proof. exact (and_duplicate e [] x [] l). Qed.
Corollary or_idempotent e x l : resolve e (EOr (x :: x :: l)) = resolve e (EOr (x :: l)).
Proof. exact (or_duplicate e [] x [] l). Qed.

(* associativity / flattening, unconditionally (errors and evaluation order included) *)
Lemma sc_all_flatten a m c : sc_all (a ++ sc_all m :: c) = sc_all (a ++ m ++ c).
Proof.
  rewrite !sc_all_app. destruct (sc_all a) as [[|]|err]; reflexivity.
Qed.
Lemma sc_any_flatten a m c : sc_any (a ++ sc_any m :: c) = sc_any (a ++ m ++ c).
Proof.
  rewrite !sc_any_app. destruct (sc_any a) as [[|]|err]; reflexivity.
Qed.
Theorem and_flatten e l1 l2 l3 : resolve e (EAnd (l1 ++ EAnd l2 :: l3)) = resolve e (EAnd (l1 ++ l2 ++ l3)).
Proof. rewrite !resolve_and_tv, map_mid, !map_app, tv_and. rewrite sc_all_flatten. reflexivity. Qed.
Theorem or_flatten e l1 l2 l3 : resolve e (EOr (l1 ++ EOr l2 :: l3)) = resolve e (EOr (l1 ++ l2 ++ l3)).
Proof. rewrite !resolve_or_tv, map_mid, !map_app, tv_or. rewrite sc_any_flatten. reflexivity. Qed.
(* a one-operand Fn::And / Fn::Or is its operand, as a boolean *)
Theorem and_singleton e x : resolve e (EAnd [x]) = (b <- tv e x ;; Ok (VBool b)).
Proof. rewrite resolve_and_tv. cbn [map sc_all]. destruct (tv e x) as [[|]|]; reflexivity. Qed.
Theorem or_singleton e x : resolve e (EOr [x]) = (b <- tv e x ;; Ok (VBool b)).
Proof. rewrite resolve_or_tv. cbn [map sc_any]. destruct (tv e x) as [[|]|]; reflexivity. Qed.

(* identity elements: a true operand of Fn::And (a false operand of Fn::Or) can be deleted wherever it stands *)
Theorem and_unit e l1 x l2 : tv e x = Ok true -> resolve e (EAnd (l1 ++ x :: l2)) = resolve e (EAnd (l1 ++ l2)).
Proof. intros H. rewrite !resolve_and_tv, map_mid, map_app, H, sc_all_drop_true. reflexivity. Qed.
Theorem or_unit e l1 x l2 : tv e x = Ok false -> resolve e (EOr (l1 ++ x :: l2)) = resolve e (EOr (l1 ++ l2)).
Proof. intros H. rewrite !resolve_or_tv, map_mid, map_app, H, sc_any_drop_false. reflexivity. Qed.
(* absorbing elements: a false operand of Fn::And (a true operand of Fn::Or) decides, PROVIDED the operands in front of it
   evaluate without error; what comes after it is never evaluated *)
Theorem and_zero e l1 x l2 : Forall (tv_ok e) l1 -> tv e x = Ok false -> resolve e (EAnd (l1 ++ x :: l2)) = Ok (VBool false).
Proof.
  intros H Hx. rewrite resolve_and_tv, map_mid, sc_all_app, (all_ok_map e l1 H), sc_all_oks, Hx. cbn [bind sc_all].
  destruct (forallb (fun b => b) (map (tvb e) l1)); reflexivity.
Qed.
Theorem or_zero e l1 x l2 : Forall (tv_ok e) l1 -> tv e x = Ok true -> resolve e (EOr (l1 ++ x :: l2)) = Ok (VBool true).
Proof.
  intros H Hx. rewrite resolve_or_tv, map_mid, sc_any_app, (all_ok_map e l1 H), sc_any_oks, Hx. cbn [bind sc_any].
  destruct (existsb (fun b => b) (map (tvb e) l1)); reflexivity.
Qed.
(* the text operands "true" / "false" *)
Corollary and_true_text e l1 l2 : resolve e (EAnd (l1 ++ VStr S_true :: l2)) = resolve e (EAnd (l1 ++ l2)).
Proof. apply and_unit. apply tv_true_text. Qed.
Corollary or_false_text e l1 l2 : resolve e (EOr (l1 ++ VStr S_false :: l2)) = resolve e (EOr (l1 ++ l2)).
Proof. apply or_unit. apply tv_false_text. Qed.
Corollary and_false_text e l1 l2 : Forall (tv_ok e) l1 -> resolve e (EAnd (l1 ++ VStr S_false :: l2)) = Ok (VBool false).
Proof. intros H. apply and_zero; [exact H | apply tv_false_text]. Qed.
Corollary or_true_text e l1 l2 : Forall (tv_ok e) l1 -> resolve e (EOr (l1 ++ VStr S_true :: l2)) = Ok (VBool true).
Proof. intros H. apply or_zero; [exact H | apply tv_true_text]. Qed.
Theorem and_zero_refuted : exists e l1 l2, resolve e (EAnd (l1 ++ VStr S_false :: l2)) <> Ok (VBool false).
Proof. exists e_none, [VStr S_maybe], []. vm_compute. discriminate. Qed.

(* De Morgan, unconditionally: same value, same exception *)
Theorem de_morgan_and e l : resolve e (ENot (EAnd l)) = resolve e (EOr (map ENot l)).
Proof.
  rewrite resolve_not_tv, tv_and, resolve_or_tv, map_map.
  rewrite (map_ext (fun x => tv e (ENot x)) (fun x => rneg (tv e x)) (tv_not e)), <- (map_map (tv e) rneg), sc_any_neg.
  unfold rneg. destruct (sc_all (map (tv e) l)); reflexivity.
Qed.
Theorem de_morgan_or e l : resolve e (ENot (EOr l)) = resolve e (EAnd (map ENot l)).
Proof.
  rewrite resolve_not_tv, tv_or, resolve_and_tv, map_map.
  rewrite (map_ext (fun x => tv e (ENot x)) (fun x => rneg (tv e x)) (tv_not e)), <- (map_map (tv e) rneg), sc_all_neg.
  unfold rneg. destruct (sc_any (map (tv e) l)); reflexivity.
Qed.

(* double negation: the truth value of x, unconditionally; as a VALUE it is the boolean, not x's own rendering *)
Theorem double_negation_tv e x : tv e (ENot (ENot x)) = tv e x.
Proof. rewrite !tv_not. apply rneg_rneg. Qed.
Theorem double_negation e x : resolve e (ENot (ENot x)) = (b <- tv e x ;; Ok (VBool b)).
Proof. rewrite resolve_not_tv, tv_not. unfold rneg. destruct (tv e x) as [[|]|]; reflexivity. Qed.
Theorem double_negation_value_refuted : exists e x, tv e (ENot (ENot x)) = tv e x /\ resolve e (ENot (ENot x)) <> resolve e x.
Proof. exists e_none, (VStr S_true). split; [reflexivity | vm_compute; discriminate]. Qed.

(* complement, distributivity, absorption: for operands that evaluate without error *)
Theorem and_complement e x : tv_ok e x -> resolve e (EAnd [x; ENot x]) = Ok (VBool false).
Proof.
  intros H. rewrite resolve_and_tv. cbn [map sc_all]. rewrite tv_not, (tv_ok_inv e x H).
  destruct (tvb e x); reflexivity.
Qed.
Theorem or_complement e x : tv_ok e x -> resolve e (EOr [x; ENot x]) = Ok (VBool true).
Proof.
  intros H. rewrite resolve_or_tv. cbn [map sc_any]. rewrite tv_not, (tv_ok_inv e x H).
  destruct (tvb e x); reflexivity.
Qed.
Theorem and_distributes_over_or e a b c : tv_ok e a -> tv_ok e b -> tv_ok e c ->
  resolve e (EAnd [a; EOr [b; c]]) = resolve e (EOr [EAnd [a; b]; EAnd [a; c]]).
Proof.
  intros Ha Hb Hc. rewrite resolve_and_tv, resolve_or_tv. cbn [map sc_all sc_any]. rewrite tv_or, !tv_and. cbn [map sc_all sc_any].
  rewrite (tv_ok_inv e a Ha), (tv_ok_inv e b Hb), (tv_ok_inv e c Hc).
  destruct (tvb e a), (tvb e b), (tvb e c); reflexivity.
Qed.
Theorem or_distributes_over_and e a b c : tv_ok e a -> tv_ok e b -> tv_ok e c ->
  resolve e (EOr [a; EAnd [b; c]]) = resolve e (EAnd [EOr [a; b]; EOr [a; c]]).
Proof.
  intros Ha Hb Hc. rewrite resolve_and_tv, resolve_or_tv. cbn [map sc_all sc_any]. rewrite tv_and, !tv_or. cbn [map sc_all sc_any].
  rewrite (tv_ok_inv e a Ha), (tv_ok_inv e b Hb), (tv_ok_inv e c Hc).
  destruct (tvb e a), (tvb e b), (tvb e c); reflexivity.
Qed.
Theorem absorption_and_or e a b : tv_ok e a -> tv_ok e b -> tv e (EAnd [a; EOr [a; b]]) = tv e a.
Proof.
  intros Ha Hb. rewrite tv_and. cbn [map sc_all]. rewrite tv_or. cbn [map sc_any].
  rewrite (tv_ok_inv e a Ha), (tv_ok_inv e b Hb). destruct (tvb e a), (tvb e b); reflexivity.
Qed.
Theorem absorption_or_and e a b : tv_ok e a -> tv_ok e b -> tv e (EOr [a; EAnd [a; b]]) = tv e a.
Proof.
  intros Ha Hb. rewrite tv_or. cbn [map sc_any]. rewrite tv_and. cbn [map sc_all].
  rewrite (tv_ok_inv e a Ha), (tv_ok_inv e b Hb). destruct (tvb e a), (tvb e b); reflexivity.
Qed.

(* ================= 3. short-circuiting: which operand decides ================= *)
(* the operands in front of the first one that is not true (Fn::And) are all that is evaluated before it *)
Lemma sc_all_true_prefix a b : Forall (fun r => r = Ok true) a -> sc_all (a ++ b) = sc_all b.
Proof. induction 1 as [|r rs Hr Hrs IH]; [reflexivity|]. subst r. exact IH. Qed.
Lemma sc_any_false_prefix a b : Forall (fun r => r = Ok false) a -> sc_any (a ++ b) = sc_any b.
Proof. induction 1 as [|r rs Hr Hrs IH]; [reflexivity|]. subst r. exact IH. Qed.
Lemma Forall_map_iff {A B} (f : A -> B) (P : B -> Prop) l : Forall P (map f l) <-> Forall (fun x => P (f x)) l.
Proof. rewrite !Forall_forall. split; [intros H x Hx; apply H; apply in_map; exact Hx | intros H y Hy; apply in_map_iff in Hy; destruct Hy as (x & <- & Hx); apply H; exact Hx]. Qed.

(* THE SHORT-CIRCUIT LAW: after true operands, the first operand that is false decides, and that it is false is the answer
   WHATEVER follows it (an operand that would raise, an unknown function, anything) *)
Theorem and_short_circuit e l1 x l2 : Forall (fun y => tv e y = Ok true) l1 -> tv e x = Ok false ->
  resolve e (EAnd (l1 ++ x :: l2)) = Ok (VBool false).
Proof.
  intros H Hx. rewrite resolve_and_tv, map_mid, sc_all_true_prefix by (apply Forall_map_iff; exact H).
  cbn [sc_all]. rewrite Hx. reflexivity.
Qed.
Theorem or_short_circuit e l1 x l2 : Forall (fun y => tv e y = Ok false) l1 -> tv e x = Ok true ->
  resolve e (EOr (l1 ++ x :: l2)) = Ok (VBool true).
Proof.
  intros H Hx. rewrite resolve_or_tv, map_mid, sc_any_false_prefix by (apply Forall_map_iff; exact H).
  cbn [sc_any]. rewrite Hx. reflexivity.
Qed.
(* ... while an operand that raises in front of the deciding one is NOT hidden *)
Theorem and_error_first e l1 x l2 k : Forall (fun y => tv e y = Ok true) l1 -> tv e x = Err k ->
  resolve e (EAnd (l1 ++ x :: l2)) = Err k.
Proof.
  intros H Hx. rewrite resolve_and_tv, map_mid, sc_all_true_prefix by (apply Forall_map_iff; exact H).
  cbn [sc_all]. rewrite Hx. reflexivity.
Qed.
Theorem or_error_first e l1 x l2 k : Forall (fun y => tv e y = Ok false) l1 -> tv e x = Err k ->
  resolve e (EOr (l1 ++ x :: l2)) = Err k.
Proof.
  intros H Hx. rewrite resolve_or_tv, map_mid, sc_any_false_prefix by (apply Forall_map_iff; exact H).
  cbn [sc_any]. rewrite Hx. reflexivity.
Qed.

(* the complete case analysis: the three possible outcomes of Fn::And, each characterised *)
Lemma sc_all_cases rs :
  match sc_all rs with
  | Ok true => Forall (fun r => r = Ok true) rs
  | Ok false => exists a b, rs = a ++ Ok false :: b /\ Forall (fun r => r = Ok true) a
  | Err k => exists a b, rs = a ++ Err k :: b /\ Forall (fun r => r = Ok true) a
  end.
Proof.
  induction rs as [|r rs IH]; cbn [sc_all]; [constructor|].
  destruct r as [[|]|k]; cbn [bind].
  - destruct (sc_all rs) as [[|]|k].
    + constructor; [reflexivity | exact IH].
    + destruct IH as (a & b & -> & Ha). exists (Ok true :: a), b. split; [reflexivity | constructor; [reflexivity | exact Ha]].
    + destruct IH as (a & b & -> & Ha). exists (Ok true :: a), b. split; [reflexivity | constructor; [reflexivity | exact Ha]].
  - exists [], rs. split; [reflexivity | constructor].
  - exists [], rs. split; [reflexivity | constructor].
Qed.
Lemma sc_any_cases rs :
  match sc_any rs with
  | Ok false => Forall (fun r => r = Ok false) rs
  | Ok true => exists a b, rs = a ++ Ok true :: b /\ Forall (fun r => r = Ok false) a
  | Err k => exists a b, rs = a ++ Err k :: b /\ Forall (fun r => r = Ok false) a
  end.
Proof.
  induction rs as [|r rs IH]; cbn [sc_any]; [constructor|].
  destruct r as [[|]|k]; cbn [bind].
  - exists [], rs. split; [reflexivity | constructor].
  - destruct (sc_any rs) as [[|]|k].
    + destruct IH as (a & b & -> & Ha). exists (Ok false :: a), b. split; [reflexivity | constructor; [reflexivity | exact Ha]].
    + constructor; [reflexivity | exact IH].
    + destruct IH as (a & b & -> & Ha). exists (Ok false :: a), b. split; [reflexivity | constructor; [reflexivity | exact Ha]].
  - exists [], rs. split; [reflexivity | constructor].
Qed.
Lemma map_eq_mid {A B} (f : A -> B) l a y b : map f l = a ++ y :: b ->
  exists l1 x l2, l = l1 ++ x :: l2 /\ map f l1 = a /\ f x = y /\ map f l2 = b.
Proof.
  revert a; induction l as [|z l IH]; intros a H.
  - destruct a; discriminate.
  - destruct a as [|a0 a]; cbn [map app] in H.
    + inv H. exists [], z, l. repeat split; reflexivity.
    + inversion H as [[H0 H1]]. destruct (IH a H1) as (l1 & x & l2 & -> & <- & <- & <-).
      exists (z :: l1), x, l2. repeat split; reflexivity.
Qed.

Theorem and_false_iff e l : resolve e (EAnd l) = Ok (VBool false) <->
  exists l1 x l2, l = l1 ++ x :: l2 /\ Forall (fun y => tv e y = Ok true) l1 /\ tv e x = Ok false.
Proof.
  split.
  - intros H. rewrite resolve_and_tv in H. pose proof (sc_all_cases (map (tv e) l)) as Hc.
    destruct (sc_all (map (tv e) l)) as [[|]|k]; cbn [bind] in H; try discriminate.
    destruct Hc as (a & b & Hm & Ha). destruct (map_eq_mid _ _ _ _ _ Hm) as (l1 & x & l2 & -> & <- & Hx & _).
    exists l1, x, l2. split; [reflexivity | split; [apply Forall_map_iff in Ha; exact Ha | exact Hx]].
  - intros (l1 & x & l2 & -> & H1 & Hx). apply and_short_circuit; assumption.
Qed.
Theorem and_error_iff e l k : resolve e (EAnd l) = Err k <->
  exists l1 x l2, l = l1 ++ x :: l2 /\ Forall (fun y => tv e y = Ok true) l1 /\ tv e x = Err k.
Proof.
  split.
  - intros H. rewrite resolve_and_tv in H. pose proof (sc_all_cases (map (tv e) l)) as Hc.
    destruct (sc_all (map (tv e) l)) as [[|]|k']; cbn [bind] in H; try discriminate. inv H.
    destruct Hc as (a & b & Hm & Ha). destruct (map_eq_mid _ _ _ _ _ Hm) as (l1 & x & l2 & -> & <- & Hx & _).
    exists l1, x, l2. split; [reflexivity | split; [apply Forall_map_iff in Ha; exact Ha | exact Hx]].
  - intros (l1 & x & l2 & -> & H1 & Hx). apply and_error_first; assumption.
Qed.
Theorem or_true_iff e l : resolve e (EOr l) = Ok (VBool true) <->
  exists l1 x l2, l = l1 ++ x :: l2 /\ Forall (fun y => tv e y = Ok false) l1 /\ tv e x = Ok true.
Proof.
  split.
  - intros H. rewrite resolve_or_tv in H. pose proof (sc_any_cases (map (tv e) l)) as Hc.
    destruct (sc_any (map (tv e) l)) as [[|]|k]; cbn [bind] in H; try discriminate.
    destruct Hc as (a & b & Hm & Ha). destruct (map_eq_mid _ _ _ _ _ Hm) as (l1 & x & l2 & -> & <- & Hx & _).
    exists l1, x, l2. split; [reflexivity | split; [apply Forall_map_iff in Ha; exact Ha | exact Hx]].
  - intros (l1 & x & l2 & -> & H1 & Hx). apply or_short_circuit; assumption.
Qed.
Theorem or_error_iff e l k : resolve e (EOr l) = Err k <->
  exists l1 x l2, l = l1 ++ x :: l2 /\ Forall (fun y => tv e y = Ok false) l1 /\ tv e x = Err k.
Proof.
  split.
  - intros H. rewrite resolve_or_tv in H. pose proof (sc_any_cases (map (tv e) l)) as Hc.
    destruct (sc_any (map (tv e) l)) as [[|]|k']; cbn [bind] in H; try discriminate. inv H.
    destruct Hc as (a & b & Hm & Ha). destruct (map_eq_mid _ _ _ _ _ Hm) as (l1 & x & l2 & -> & <- & Hx & _).
    exists l1, x, l2. split; [reflexivity | split; [apply Forall_map_iff in Ha; exact Ha | exact Hx]].
  - intros (l1 & x & l2 & -> & H1 & Hx). apply or_error_first; assumption.
Qed.
(* so an error is hidden exactly when a deciding operand stands in front of it: the value of a condition CAN depend on the
   order of the operands (a value against an exception), never a value against another value *)
Theorem and_order_value_stable e l l' b b' : Permutation l l' ->
  resolve e (EAnd l) = Ok (VBool b) -> resolve e (EAnd l') = Ok (VBool b') -> b = b'.
Proof.
  intros Hp H H'.
  assert (Hf : forall m c, resolve e (EAnd m) = Ok (VBool c) -> c = true <-> Forall (fun y => tv e y = Ok true) m).
  { intros m c Hm. rewrite resolve_and_tv in Hm. pose proof (sc_all_cases (map (tv e) m)) as Hc.
    destruct (sc_all (map (tv e) m)) as [[|]|k]; cbn [bind] in Hm; inv Hm.
    - split; [intros _; apply Forall_map_iff in Hc; exact Hc | reflexivity].
    - split; [discriminate|]. intros HF. destruct Hc as (a & b0 & Hm & _).
      destruct (map_eq_mid _ _ _ _ _ Hm) as (l1 & x & l2 & -> & _ & Hx & _).
      rewrite Forall_forall in HF. rewrite (HF x) in Hx by (apply in_or_app; right; left; reflexivity). discriminate. }
  destruct b, b'; try reflexivity.
  - symmetry. apply (proj2 (Hf l' false H')). apply (Permutation_Forall Hp). apply (proj1 (Hf l true H)). reflexivity.
  - apply (proj2 (Hf l false H)). apply (Permutation_Forall (Permutation_sym Hp)). apply (proj1 (Hf l' true H')). reflexivity.
Qed.

(* ================= 2. Fn::Equals ================= *)
(* Python's == on resolved values is [veqb] (objects compared by lookups); it is reflexive and symmetric on values whose objects
   have no repeated key (everything json.load or a Python dict can hold) *)
Lemma veqb_l_refl l : (forall x, In x l -> veqb x x = true) -> veqb_l l l = true.
Proof.
  induction l as [|x xs IH]; intros H; [reflexivity|]. cbn [veqb_l].
  rewrite (H x) by (left; reflexivity). apply IH. intros y Hy. apply H. right. exact Hy.
Qed.
Lemma veqb_refl_n : forall n a, (vsize a < n)%nat -> nodup_keys a -> veqb a a = true.
Proof.
  induction n as [|n IH]; intros a Hs Hn; [lia|].
  destruct a as [| b | z | s | k t | bs | l | d]; cbn [veqb]; try reflexivity.
  - destruct b; reflexivity.
  - apply Z.eqb_refl.
  - apply str_eqb_refl.
  - rewrite str_eqb_refl. destruct k; reflexivity.
  - apply str_eqb_refl.
  - change (veqb_l l l = true). apply veqb_l_refl. intros x Hx. apply IH.
    + pose proof (vsize_in_list x l Hx). lia.
    + exact (nodup_in_list l x Hn Hx).
  - change (Nat.eqb (length d) (length d) && veqb_d d d = true). rewrite Nat.eqb_refl, veqb_d_forallb. cbn [andb].
    apply forallb_forall. intros [k x] Hx. cbn [fst snd]. apply nodup_dict_iff in Hn. destruct Hn as [Hnd Hmem].
    rewrite (lookup_nodup k x d Hnd Hx). apply IH.
    + pose proof (vsize_in_dict k x d Hx). lia.
    + rewrite Forall_forall in Hmem. exact (Hmem (k, x) Hx).
Qed.
Lemma veqb_refl a : nodup_keys a -> veqb a a = true.
Proof. apply (veqb_refl_n (S (vsize a))). lia. Qed.

Lemma veqb_l_sym la : forall lb, (forall x y, In x la -> In y lb -> veqb x y = veqb y x) -> veqb_l la lb = veqb_l lb la.
Proof.
  induction la as [|x xs IH]; intros [|y ys] H; try reflexivity. cbn [veqb_l].
  rewrite (H x y) by (left; reflexivity). f_equal. apply IH. intros x' y' Hx Hy. apply H; right; assumption.
Qed.
(* one half of the symmetry for objects: with unique keys and equally many entries, "every entry of da is found in db with an
   equal value" implies the same with da and db exchanged (pigeonhole) *)
Lemma veqb_d_half da db :
  NoDup (keys da) -> NoDup (keys db) -> length da = length db ->
  (forall k x y, In (k, x) da -> In (k, y) db -> veqb x y = veqb y x) ->
  veqb_d db da = true -> veqb_d da db = true.
Proof.
  intros Hna Hnb Hlen Hsym H. rewrite veqb_d_forallb in *. rewrite forallb_forall in H. apply forallb_forall.
  intros [k y] Hy. cbn [fst snd].
  assert (Hincl : incl (keys da) (keys db)).
  { intros k' Hk'. unfold keys in Hk'. apply in_map_iff in Hk'. destruct Hk' as ([k0 x0] & Hk0 & Hin). cbn [fst] in Hk0. subst k0.
    specialize (H (k', x0) Hin). cbn [fst snd] in H. destruct (lookup k' db) as [y0|] eqn:El; [|discriminate].
    apply lookup_In in El. eapply In_keys. exact El. }
  assert (Hincl' : incl (keys db) (keys da)).
  { apply NoDup_length_incl; [exact Hna | unfold keys; rewrite !map_length; lia | exact Hincl]. }
  assert (Hk : In k (keys da)) by (apply Hincl'; eapply In_keys; exact Hy).
  unfold keys in Hk. apply in_map_iff in Hk. destruct Hk as ([k0 x] & Hk0 & Hx). cbn [fst] in Hk0. subst k0.
  rewrite (lookup_nodup k x da Hna Hx).
  specialize (H (k, x) Hx). cbn [fst snd] in H. rewrite (lookup_nodup k y db Hnb Hy) in H.
  rewrite <- (Hsym k x y Hx Hy). exact H.
Qed.
Lemma veqb_sym_n : forall n a, (vsize a < n)%nat -> forall b, nodup_keys a -> nodup_keys b -> veqb a b = veqb b a.
Proof.
  induction n as [|n IH]; intros a Hs b Ha Hb; [lia|].
  destruct a as [| x | x | x | k x | x | la | da]; destruct b as [| y | y | y | k' y | y | lb | db]; try reflexivity.
  - cbn [veqb]. destruct x, y; reflexivity.
  - cbn [veqb]. apply Z.eqb_sym.
  - cbn [veqb]. apply str_eqb_sym.
  - cbn [veqb]. rewrite (str_eqb_sym x y). destruct k, k'; reflexivity.
  - cbn [veqb]. apply str_eqb_sym.
  - rewrite !veqb_list. apply veqb_l_sym. intros x y Hx Hy. apply IH.
    + pose proof (vsize_in_list x la Hx). lia.
    + exact (nodup_in_list la x Ha Hx).
    + exact (nodup_in_list lb y Hb Hy).
  - rewrite !veqb_dict. rewrite (Nat.eqb_sym (length db) (length da)).
    destruct (Nat.eqb (length da) (length db)) eqn:El; [|reflexivity]. apply Nat.eqb_eq in El. cbn [andb].
    apply nodup_dict_iff in Ha. destruct Ha as [Hna Hma]. apply nodup_dict_iff in Hb. destruct Hb as [Hnb Hmb].
    rewrite Forall_forall in Hma, Hmb.
    assert (Hsym : forall k x y, In (k, x) da -> In (k, y) db -> veqb x y = veqb y x).
    { intros k x y Hx Hy. apply IH.
      - pose proof (vsize_in_dict k x da Hx). lia.
      - exact (Hma (k, x) Hx).
      - exact (Hmb (k, y) Hy). }
    destruct (veqb_d db da) eqn:E1, (veqb_d da db) eqn:E2; try reflexivity.
    + rewrite (veqb_d_half da db Hna Hnb El Hsym E1) in E2. discriminate.
    + assert (Hsym' : forall k y x, In (k, y) db -> In (k, x) da -> veqb y x = veqb x y).
      { intros k y x Hy Hx. symmetry. exact (Hsym k x y Hx Hy). }
      rewrite (veqb_d_half db da Hnb Hna (eq_sym El) Hsym' E2) in E1. discriminate.
Qed.
Lemma veqb_sym a b : nodup_keys a -> nodup_keys b -> veqb a b = veqb b a.
Proof. apply (veqb_sym_n (S (vsize a))). lia. Qed.

Lemma py_eq_sym a b : nodup_keys a -> nodup_keys b -> py_eq a b = py_eq b a.
Proof.
  intros Ha Hb. pose proof (veqb_sym a b Ha Hb) as Hv.
  destruct a as [| x | x | x | k x | x | la | da]; destruct b as [| y | y | y | k' y | y | lb | db];
    cbv beta iota delta [py_eq]; try reflexivity;
    try (rewrite (orb_comm (has_numeric _) (has_numeric _)), Hv; reflexivity).
  destruct x, y; reflexivity.
Qed.

(* SYMMETRY.  The truth value never depends on the order of the two operands; the exception does when BOTH operands raise
   (the first one met is reported) *)
Theorem equals_symmetric_results e a b a' b' : resolve e a = Ok a' -> resolve e b = Ok b' -> nodup_keys a' -> nodup_keys b' ->
  resolve e (EEquals a b) = resolve e (EEquals b a).
Proof.
  intros Ha Hb Hna Hnb. unfold EEquals. rewrite !resolve_equals, Ha, Hb. cbn [bind]. rewrite (py_eq_sym a' b' Hna Hnb). reflexivity.
Qed.
Theorem equals_symmetric e a b : env_nodup e -> nodup_keys a -> nodup_keys b ->
  is_ok (resolve e a) = true \/ is_ok (resolve e b) = true ->
  resolve e (EEquals a b) = resolve e (EEquals b a).
Proof.
  intros He Hna Hnb Hok. unfold EEquals. rewrite !resolve_equals.
  destruct (resolve e a) as [a'|ka] eqn:Ea, (resolve e b) as [b'|kb] eqn:Eb; cbn [bind]; try reflexivity.
  - rewrite (py_eq_sym a' b' (resolve_nodup e a a' He Hna Ea) (resolve_nodup e b b' He Hnb Eb)). reflexivity.
  - destruct Hok as [H|H]; discriminate.
Qed.
Theorem equals_symmetric_refuted : exists e a b, resolve e (EEquals a b) <> resolve e (EEquals b a).
Proof.
  exists e_none, (VDict [(K_Join, VList [])]), (VDict [(K_Ref, VList [])]). vm_compute. discriminate.
Qed.

(* REFLEXIVITY: on every operand that resolves to text (every scalar: numbers, booleans, dates, texts ...), and more generally on
   every operand whose resolved value the model compares at all *)
Theorem equals_reflexive_scalar e a s : resolve e a = Ok (VStr s) -> resolve e (EEquals a a) = Ok (VBool true).
Proof. intros H. unfold EEquals. rewrite resolve_equals, H. cbn [bind py_eq has_numeric orb veqb]. rewrite str_eqb_refl. reflexivity. Qed.
Theorem equals_reflexive e a a' : resolve e a = Ok a' -> nodup_keys a' -> is_ok (py_eq a' a') = true ->
  resolve e (EEquals a a) = Ok (VBool true).
Proof.
  intros H Hn Hok. unfold EEquals. rewrite resolve_equals, H. cbn [bind].
  assert (Hp : py_eq a' a' = Ok true).
  { destruct a' as [| x | x | x | k x | x | la | da]; cbv beta iota delta [py_eq] in *;
      try (destruct (has_numeric _ || has_numeric _); [discriminate | rewrite (veqb_refl _ Hn); reflexivity]).
    destruct x; reflexivity. }
  rewrite Hp. reflexivity.
Qed.

(* CHARACTERISATION.
   (i) scalars: the operands are equal iff their RENDERINGS are the same text (1 and "1", true and "TRUE", 1.50 and "1.50" as the
       float prints) *)
Theorem equals_scalars_iff e a b sa sb : resolve e a = Ok (VStr sa) -> resolve e b = Ok (VStr sb) ->
  (resolve e (EEquals a b) = Ok (VBool true) <-> sa = sb) /\ (resolve e (EEquals a b) = Ok (VBool false) <-> sa <> sb).
Proof.
  intros Ha Hb. unfold EEquals. rewrite (equals_renderings e a b sa sb Ha Hb).
  destruct (str_eqb sa sb) eqn:E.
  - apply str_eqb_spec in E. split; split; intros H; try tauto; try discriminate.
  - apply str_eqb_neq in E. split; split; intros H; try tauto; try discriminate.
Qed.
(* what the rendering of a scalar is *)
Theorem scalar_renderings e :
  (forall b, resolve e (VBool b) = Ok (VStr (bool_text b))) /\
  (forall z, resolve e (VInt z) = Ok (VStr (str_of_Z z))) /\
  (forall s, resolve e (VStr s) = Ok (VStr (render_str (params e) s))) /\
  (forall k t, resolve e (VTyped k t) = Ok (VStr t)) /\
  (forall bs, resolve e (VBytes bs) = Ok (VStr (b64encode bs))).
Proof. repeat split; reflexivity. Qed.

(* (ii) lists (of lists ...) of texts are compared member by member, in order: equal iff the resolved lists are the same *)
Lemma veqb_l_eq la : forall lb, (forall x y, In x la -> veqb x y = true -> x = y) -> veqb_l la lb = true -> la = lb.
Proof.
  induction la as [|x xs IH]; intros [|y ys] H E; try reflexivity; try discriminate.
  cbn [veqb_l] in E. apply andb_true_iff in E. destruct E as [E1 E2].
  rewrite (H x y (or_introl eq_refl) E1). f_equal. apply IH; [|exact E2]. intros x' y' Hx. apply H. right. exact Hx.
Qed.
Lemma veqb_no_dict_eq_n : forall n a, (vsize a < n)%nat -> forall b, no_dict a = true -> has_numeric a = false ->
  veqb a b = true -> a = b.
Proof.
  induction n as [|n IH]; intros a Hs b Hd Hn E; [lia|].
  destruct a as [| x | x | x | k x | x | la | da]; try discriminate;
    destruct b as [| y | y | y | k' y | y | lb | db]; try discriminate; try reflexivity.
  - cbn [veqb] in E. apply str_eqb_spec in E. subst. reflexivity.
  - cbn [veqb] in E. apply str_eqb_spec in E. subst. reflexivity.
  - rewrite veqb_list in E. f_equal. apply (veqb_l_eq la lb); [|exact E].
    intros x y Hx Exy. cbn [no_dict] in Hd. rewrite forallb_forall in Hd. cbn [has_numeric] in Hn.
    apply IH; [pose proof (vsize_in_list x la Hx); lia | apply Hd; exact Hx | | exact Exy].
    destruct (has_numeric x) eqn:Ex; [|reflexivity].
    assert (Hex : existsb has_numeric la = true) by (apply existsb_exists; exists x; split; assumption). congruence.
Qed.
Lemma no_dict_nodup_n : forall n a, (vsize a < n)%nat -> no_dict a = true -> nodup_keys a.
Proof.
  induction n as [|n IH]; intros a Hs Hd; [lia|].
  destruct a as [| x | x | x | k x | x | la | da]; try reflexivity; [|discriminate].
  apply nodup_list_iff. apply Forall_forall. intros x Hx. cbn [no_dict] in Hd. rewrite forallb_forall in Hd.
  apply IH; [pose proof (vsize_in_list x la Hx); lia | apply Hd; exact Hx].
Qed.
Theorem equals_flat_iff e a b a' b' : resolve e a = Ok a' -> resolve e b = Ok b' ->
  no_dict a' = true -> has_numeric a' = false -> has_numeric b' = false ->
  exists r, resolve e (EEquals a b) = Ok (VBool r) /\ (r = true <-> a' = b').
Proof.
  intros Ha Hb Hd Hna Hnb. unfold EEquals. rewrite resolve_equals, Ha, Hb. cbn [bind].
  assert (Hp : py_eq a' b' = Ok (veqb a' b')).
  { destruct a' as [| x | x | x | k x | x | la | da]; try discriminate; cbv beta iota delta [py_eq]; rewrite ?Hna, ?Hnb; reflexivity. }
  rewrite Hp. cbn [bind]. exists (veqb a' b'). split; [reflexivity|]. split.
  - intros E. apply (veqb_no_dict_eq_n (S (vsize a')) a' (Nat.lt_succ_diag_r _) b' Hd Hna E).
  - intros <-. apply veqb_refl. apply (no_dict_nodup_n (S (vsize a')) a' (Nat.lt_succ_diag_r _) Hd).
Qed.

(* (iii) in general (objects included): equal iff the resolved values are the same up to the order of the keys of objects *)
Lemma veqb_l_F2 la : forall lb, (forall x y, In x la -> In y lb -> veqb x y = true -> vperm x y) -> veqb_l la lb = true ->
  Forall2 vperm la lb.
Proof.
  induction la as [|x xs IH]; intros [|y ys] H E; try discriminate; [constructor|].
  cbn [veqb_l] in E. apply andb_true_iff in E. destruct E as [E1 E2]. constructor.
  - apply H; [left; reflexivity | left; reflexivity | exact E1].
  - apply IH; [|exact E2]. intros x' y' Hx Hy. apply H; right; assumption.
Qed.
Lemma veqb_true_vperm_n : forall n a, (vsize a < n)%nat -> forall b, nodup_keys a -> nodup_keys b -> veqb a b = true -> vperm a b.
Proof.
  induction n as [|n IH]; intros a Hs b Ha Hb E; [lia|].
  destruct a as [| x | x | x | k x | x | la | da]; destruct b as [| y | y | y | k' y | y | lb | db]; try discriminate.
  - constructor.
  - cbn [veqb] in E. apply eqb_prop in E. subst. constructor.
  - cbn [veqb] in E. apply Z.eqb_eq in E. subst. constructor.
  - cbn [veqb] in E. apply str_eqb_spec in E. subst. constructor.
  - cbn [veqb] in E. apply andb_true_iff in E. destruct E as [E1 E2]. apply str_eqb_spec in E2. subst.
    destruct k, k'; try discriminate; constructor.
  - cbn [veqb] in E. apply str_eqb_spec in E. subst. constructor.
  - rewrite veqb_list in E. constructor. apply (veqb_l_F2 la lb); [|exact E]. intros x y Hx Hy Exy. apply IH.
    + pose proof (vsize_in_list x la Hx). lia.
    + exact (nodup_in_list la x Ha Hx).
    + exact (nodup_in_list lb y Hb Hy).
    + exact Exy.
  - rewrite veqb_dict in E. apply andb_true_iff in E. destruct E as [El E]. apply Nat.eqb_eq in El.
    rewrite veqb_d_forallb in E. rewrite forallb_forall in E.
    apply nodup_dict_iff in Ha. destruct Ha as [Hna Hma]. apply nodup_dict_iff in Hb. destruct Hb as [Hnb Hmb].
    rewrite Forall_forall in Hma, Hmb.
    set (pick := fun kx : str * value => (fst kx, match lookup (fst kx) db with Some y => y | None => snd kx end)).
    apply (vp_dict da (map pick da) db).
    + assert (HF : forall d, incl d da -> Forall2 (fun a b => fst a = fst b /\ vperm (snd a) (snd b)) d (map pick d)).
      { induction d as [|[k x] d IHd]; intros Hi; [constructor|]. cbn [map]. constructor.
        - unfold pick. cbn [fst snd]. split; [reflexivity|].
          assert (Hx : In (k, x) da) by (apply Hi; left; reflexivity).
          specialize (E (k, x) Hx). cbn [fst snd] in E. destruct (lookup k db) as [y|] eqn:Ey; [|discriminate].
          apply IH; [pose proof (vsize_in_dict k x da Hx); lia | exact (Hma (k, x) Hx) | | exact E].
          apply lookup_In in Ey. exact (Hmb (k, y) Ey).
        - apply IHd. intros z Hz. apply Hi. right. exact Hz. }
      apply HF. intros z Hz. exact Hz.
    + apply NoDup_Permutation_bis.
      * apply (NoDup_map_inv fst). rewrite map_map. unfold pick. cbn [fst]. exact Hna.
      * rewrite map_length. lia.
      * intros [k y] Hky. apply in_map_iff in Hky. destruct Hky as ([k0 x] & Hp & Hx). unfold pick in Hp. cbn [fst snd] in Hp.
        specialize (E (k0, x) Hx). cbn [fst snd] in E. destruct (lookup k0 db) as [y0|] eqn:Ey; [|discriminate].
        inv Hp. apply lookup_In. exact Ey.
Qed.
Lemma veqb_true_iff_vperm a b : nodup_keys a -> nodup_keys b -> (veqb a b = true <-> vperm a b).
Proof.
  intros Ha Hb. split.
  - apply (veqb_true_vperm_n (S (vsize a))); [lia | exact Ha | exact Hb].
  - intros H. rewrite <- (veqb_vperm a a a b (vperm_refl a) H Ha). apply veqb_refl. exact Ha.
Qed.
Theorem equals_iff_vperm e a b a' b' : resolve e a = Ok a' -> resolve e b = Ok b' ->
  has_numeric a' = false -> has_numeric b' = false -> nodup_keys a' -> nodup_keys b' ->
  exists r, resolve e (EEquals a b) = Ok (VBool r) /\ (r = true <-> vperm a' b').
Proof.
  intros Ha Hb Hna Hnb Hda Hdb. unfold EEquals. rewrite resolve_equals, Ha, Hb. cbn [bind].
  assert (Hp : py_eq a' b' = Ok (veqb a' b')).
  { destruct a' as [| x | x | x | k x | x | la | da]; try discriminate; cbv beta iota delta [py_eq]; rewrite ?Hna, ?Hnb; reflexivity. }
  rewrite Hp. cbn [bind]. exists (veqb a' b'). split; [reflexivity | apply veqb_true_iff_vperm; assumption].
Qed.

(* ================= 4. Condition references ================= *)
(* ---- boolean positions: the places where CloudFormation allows {"Condition": name} -- the operands of Fn::And / Fn::Or /
        Fn::Not, at any depth.  There only the TRUTH VALUE of the operand is used. ---- *)
Inductive bctx :=
| BHole
| BAnd (l1 : list value) (c : bctx) (l2 : list value)
| BOr (l1 : list value) (c : bctx) (l2 : list value)
| BNot (c : bctx) (rest : list value).
Fixpoint plug (c : bctx) (x : value) : value :=
  match c with
  | BHole => x
  | BAnd l1 c l2 => EAnd (l1 ++ plug c x :: l2)
  | BOr l1 c l2 => EOr (l1 ++ plug c x :: l2)
  | BNot c rest => VDict [(K_Not, VList (plug c x :: rest))]
  end.

Lemma tv_not_rest e x rest : tv e (VDict [(K_Not, VList (x :: rest))]) = rneg (tv e x).
Proof. unfold tv at 1. rewrite resolve_not_rest. apply tv_not. Qed.

(* congruence: in a boolean position an operand can be replaced by any expression with the same truth value *)
Theorem tv_plug e c x y : tv e x = tv e y -> tv e (plug c x) = tv e (plug c y).
Proof.
  intros H. induction c as [| l1 c IH l2 | l1 c IH l2 | c IH rest]; cbn [plug].
  - exact H.
  - rewrite !tv_and, !map_mid, IH. reflexivity.
  - rewrite !tv_or, !map_mid, IH. reflexivity.
  - rewrite !tv_not_rest, IH. reflexivity.
Qed.
Corollary resolve_plug e c x y : c <> BHole -> tv e x = tv e y -> resolve e (plug c x) = resolve e (plug c y).
Proof.
  intros Hc H. pose proof (tv_plug e c x y H) as Ht. destruct c as [| l1 c l2 | l1 c l2 | c rest]; [contradiction | | |]; cbn [plug] in *.
  - rewrite !resolve_and_of_tv, Ht. reflexivity.
  - rewrite !resolve_or_of_tv, Ht. reflexivity.
  - rewrite !resolve_not_rest, !resolve_not_of_tv. rewrite !tv_not_rest in Ht. rewrite !tv_not, Ht. reflexivity.
Qed.

(* ---- the accesses made in a boolean context: what stands in front of the hole, then (if the hole is reached) the accesses of
        the operand in the hole, then what follows, which depends on the operand through its truth value only ---- *)
Definition is_true_res (r : res bool) : bool := match r with Ok true => true | _ => false end.
Definition is_false_res (r : res bool) : bool := match r with Ok false => true | _ => false end.

Lemma fst_tv e x : (r <- fst (resolve_tr e x) ;; ext_bool r) = tv e x.
Proof. rewrite resolve_tr_result. reflexivity. Qed.

Lemma tall_head e p l2 :
  snd (tall e (p :: l2)) = trace_of e p ++ (if is_true_res (tv e p) then snd (tall e l2) else []) /\
  fst (tall e (p :: l2)) = (b <- tv e p ;; if b then fst (tall e l2) else Ok false).
Proof.
  rewrite tall_cons. unfold tv, trace_of. rewrite <- (resolve_tr_result e p).
  destruct (resolve_tr e p) as [[r|k] t]; cbn [tbind fst snd bind]; [|split; [rewrite app_nil_r|]; reflexivity].
  destruct (ext_bool r) as [[|]|k]; cbn [tpure tbind fst snd bind is_true_res app]; split; rewrite ?app_nil_r; reflexivity.
Qed.
Lemma tany_head e p l2 :
  snd (tany e (p :: l2)) = trace_of e p ++ (if is_false_res (tv e p) then snd (tany e l2) else []) /\
  fst (tany e (p :: l2)) = (b <- tv e p ;; if b then Ok true else fst (tany e l2)).
Proof.
  rewrite tany_cons. unfold tv, trace_of. rewrite <- (resolve_tr_result e p).
  destruct (resolve_tr e p) as [[r|k] t]; cbn [tbind fst snd bind]; [|split; [rewrite app_nil_r|]; reflexivity].
  destruct (ext_bool r) as [[|]|k]; cbn [tpure tbind fst snd bind is_false_res app]; split; rewrite ?app_nil_r; reflexivity.
Qed.
Lemma tall_mid e l1 p l2 :
  snd (tall e (l1 ++ p :: l2)) =
  snd (tall e l1) ++ (if is_true_res (fst (tall e l1)) then trace_of e p ++ (if is_true_res (tv e p) then snd (tall e l2) else []) else []).
Proof.
  induction l1 as [|z l1 IH].
  - cbn [app]. exact (proj1 (tall_head e p l2)).
  - change ((z :: l1) ++ p :: l2) with (z :: (l1 ++ p :: l2)).
    rewrite (proj1 (tall_head e z (l1 ++ p :: l2))), (proj1 (tall_head e z l1)), (proj2 (tall_head e z l1)).
    destruct (tv e z) as [[|]|k]; cbn [is_true_res bind]; rewrite ?app_nil_r; try reflexivity.
    rewrite IH, app_assoc. reflexivity.
Qed.
Lemma tany_mid e l1 p l2 :
  snd (tany e (l1 ++ p :: l2)) =
  snd (tany e l1) ++ (if is_false_res (fst (tany e l1)) then trace_of e p ++ (if is_false_res (tv e p) then snd (tany e l2) else []) else []).
Proof.
  induction l1 as [|z l1 IH].
  - cbn [app]. exact (proj1 (tany_head e p l2)).
  - change ((z :: l1) ++ p :: l2) with (z :: (l1 ++ p :: l2)).
    rewrite (proj1 (tany_head e z (l1 ++ p :: l2))), (proj1 (tany_head e z l1)), (proj2 (tany_head e z l1)).
    destruct (tv e z) as [[|]|k]; cbn [is_false_res bind]; rewrite ?app_nil_r; try reflexivity.
    rewrite IH, app_assoc. reflexivity.
Qed.
Lemma trace_and e l : trace_of e (EAnd l) = snd (tall e l).
Proof. unfold trace_of, EAnd. rewrite rt_and, snd_tbind. destruct (fst (tall e l)); cbn [tpure snd]; apply app_nil_r. Qed.
Lemma trace_or e l : trace_of e (EOr l) = snd (tany e l).
Proof. unfold trace_of, EOr. rewrite rt_or, snd_tbind. destruct (fst (tany e l)); cbn [tpure snd]; apply app_nil_r. Qed.
Lemma trace_not e x rest : trace_of e (VDict [(K_Not, VList (x :: rest))]) = trace_of e x.
Proof. unfold trace_of. rewrite rt_not, snd_tbind. destruct (fst (resolve_tr e x)); cbn [tpure snd]; apply app_nil_r. Qed.
Lemma trace_cond e n : trace_of e (ECond n) = [ACond n].
Proof. reflexivity. Qed.

(* the shape shared by the three constructs *)
Lemma sandwich_step e (T : value -> trace) pre (reach : bool) (post : res bool -> trace) px py (tx ty : trace) :
  (forall p, T p = pre ++ (if reach then trace_of e p ++ post (tv e p) else [])) ->
  tv e px = tv e py ->
  (forall a, In a (trace_of e py) -> In a (trace_of e px) \/ (In a ty /\ incl tx (trace_of e px))) ->
  forall a, In a (T py) -> In a (T px) \/ (In a ty /\ incl tx (T px)).
Proof.
  intros HT Htv IH a Ha. rewrite (HT py) in Ha. rewrite (HT px). apply in_app_or in Ha. destruct Ha as [Ha|Ha].
  - left. apply in_or_app. left. exact Ha.
  - destruct reach; [|destruct Ha]. apply in_app_or in Ha. destruct Ha as [Ha|Ha].
    + destruct (IH a Ha) as [H|[H1 H2]].
      * left. apply in_or_app. right. apply in_or_app. left. exact H.
      * right. split; [exact H1|]. intros z Hz. apply in_or_app. right. apply in_or_app. left. apply H2. exact Hz.
    + left. apply in_or_app. right. apply in_or_app. right. rewrite Htv. exact Ha.
Qed.

(* replacing the operand x in the hole by y with the same truth value: every access made afterwards was made before, or is an
   access of y -- and in that case the hole is reached, so the accesses of x were all made before *)
Theorem plug_trace e c x y : tv e x = tv e y ->
  forall a, In a (trace_of e (plug c y)) ->
    In a (trace_of e (plug c x)) \/ (In a (trace_of e y) /\ incl (trace_of e x) (trace_of e (plug c x))).
Proof.
  intros H. induction c as [| l1 c IH l2 | l1 c IH l2 | c IH rest]; cbn [plug]; intros a Ha.
  - right. split; [exact Ha | intros z Hz; exact Hz].
  - apply (sandwich_step e (fun p => trace_of e (EAnd (l1 ++ p :: l2))) (snd (tall e l1)) (is_true_res (fst (tall e l1)))
             (fun r => if is_true_res r then snd (tall e l2) else []) (plug c x) (plug c y) (trace_of e x) (trace_of e y)).
    + intros p. rewrite trace_and. apply tall_mid.
    + apply tv_plug. exact H.
    + exact IH.
    + exact Ha.
  - apply (sandwich_step e (fun p => trace_of e (EOr (l1 ++ p :: l2))) (snd (tany e l1)) (is_false_res (fst (tany e l1)))
             (fun r => if is_false_res r then snd (tany e l2) else []) (plug c x) (plug c y) (trace_of e x) (trace_of e y)).
    + intros p. rewrite trace_or. apply tany_mid.
    + apply tv_plug. exact H.
    + exact IH.
    + exact Ha.
  - rewrite trace_not in *. exact (IH a Ha).
Qed.

(* ---- acyclic declarations.  [cond_ranked ps maps decl rk]: every condition that the body of a declared condition n ASKS ABOUT,
        when it is evaluated with the template's own condition values, has a smaller rank than n.  This is the weakest form of
        "the references are acyclic" (a reference in an operand that is never evaluated does not count, nor one to an
        undeclared name of small rank); it is decidable for a given rank function ([cond_rankedb]). ---- *)
Definition cond_ranked (ps maps decl : list (str * value)) (rk : str -> nat) : Prop :=
  forall n body, lookup n decl = Some body ->
  forall m, In (ACond m) (trace_of (cenv ps maps (cond_root ps maps decl)) body) -> (rk m < rk n)%nat.
Definition cond_rankedb (ps maps decl : list (str * value)) (rk : str -> nat) : bool :=
  forallb (fun nb => forallb (fun a => match a with ACond m => Nat.ltb (rk m) (rk (fst nb)) | _ => true end)
                             (trace_of (cenv ps maps (cond_root ps maps decl)) (snd nb))) decl.
Lemma cond_rankedb_sound ps maps decl rk : cond_rankedb ps maps decl rk = true -> cond_ranked ps maps decl rk.
Proof.
  unfold cond_rankedb. rewrite forallb_forall. intros H n body Hl m Hm. apply lookup_In in Hl.
  specialize (H (n, body) Hl). cbn [fst snd] in H. rewrite forallb_forall in H. specialize (H (ACond m) Hm).
  apply Nat.ltb_lt in H. exact H.
Qed.

Lemma mem_keys_lookup {A} n (d : list (str * A)) : mem_str n (keys d) = false -> lookup n d = None.
Proof.
  intros H. apply lookup_None. intros Hin. apply mem_str_In in Hin. congruence.
Qed.
Lemma lookup_mem_keys {A} n (d : list (str * A)) x : lookup n d = Some x -> mem_str n (keys d) = true.
Proof. intros H. apply mem_str_In. apply lookup_In in H. eapply In_keys. exact H. Qed.
Lemma keys_length {A} (d : list (str * A)) : length (keys d) = length d.
Proof. unfold keys. apply map_length. Qed.

Lemma tv_cenv_frame ps maps (c c' : str -> res bool) body :
  (forall m, In (ACond m) (trace_of (cenv ps maps c) body) -> c' m = c m) ->
  tv (cenv ps maps c') body = tv (cenv ps maps c) body.
Proof.
  intros H. unfold tv. rewrite (resolve_frame (cenv ps maps c) (cenv ps maps c') body); [reflexivity|].
  apply agree_split. repeat split; intros k Hk; try reflexivity. cbn [conds cenv]. symmetry. apply H. exact Hk.
Qed.
Lemma cond_val_tv ps maps decl f rem n body : mem_str n rem = true -> lookup n decl = Some body ->
  cond_val ps maps decl (S f) rem n = tv (cenv ps maps (cond_val ps maps decl f (remove_str n rem))) body.
Proof. intros H1 H2. rewrite (cond_val_step ps maps decl f rem n body H1 H2). reflexivity. Qed.

Section Ranked.
Variables ps maps decl : list (str * value).
Variable rk : str -> nat.
Hypothesis Hrk : cond_ranked ps maps decl rk.
Let c := cond_root ps maps decl.

(* [rem] contains every declared name of rank at most rk n: nothing that n can reach is "in progress" *)
Definition covers (rem : list str) (n : str) : Prop :=
  forall i, mem_str i (keys decl) = true -> (rk i <= rk n)%nat -> mem_str i rem = true.
Lemma covers_keys n : covers (keys decl) n.
Proof. intros i Hi _. exact Hi. Qed.
Lemma covers_remove rem n m : covers rem n -> (rk m < rk n)%nat -> covers (remove_str n rem) m.
Proof.
  intros H Hlt i Hi Hle. rewrite mem_remove. apply andb_true_intro. split; [apply H; [exact Hi | lia]|].
  apply negb_true_iff. apply str_eqb_neq. intros ->. lia.
Qed.

(* what an evaluation computes, as long as nothing below n is in progress: the body of n at the template's own values *)
Lemma ranked_step : forall r n, (rk n < r)%nat -> forall fuel rem, covers rem n -> (length rem < fuel)%nat ->
  cond_val ps maps decl fuel rem n =
  match lookup n decl with Some body => tv (cenv ps maps c) body | None => Ok false end.
Proof.
  induction r as [|r IH]; intros n Hn fuel rem Hc Hf; [lia|].
  destruct fuel as [|f]; [lia|].
  destruct (lookup n decl) as [body|] eqn:El; [|apply cond_val_undeclared; exact El].
  assert (Hm : mem_str n rem = true) by (apply Hc; [exact (lookup_mem_keys n decl body El) | lia]).
  rewrite (cond_val_tv ps maps decl f rem n body Hm El).
  apply tv_cenv_frame. intros m Hmt. pose proof (Hrk n body El m Hmt) as Hlt.
  pose proof (remove_length n rem Hm) as Hlen.
  assert (Hcm : covers (remove_str n rem) m) by (apply covers_remove; assumption).
  rewrite (IH m ltac:(lia) f (remove_str n rem) Hcm ltac:(lia)).
  unfold c, cond_root. rewrite (IH m ltac:(lia) (S (length decl)) (keys decl) (covers_keys m) ltac:(rewrite keys_length; lia)).
  reflexivity.
Qed.

(* THE DEFINING EQUATIONS: the value of a declared condition is the truth value of its body, evaluated with every reference
   answered by the value of the referenced condition; an undeclared name is false *)
Theorem ranked_equation n body : lookup n decl = Some body -> cond_root ps maps decl n = tv (cenv ps maps (cond_root ps maps decl)) body.
Proof.
  intros El. unfold cond_root at 1.
  rewrite (ranked_step (S (rk n)) n (Nat.lt_succ_diag_r _) (S (length decl)) (keys decl) (covers_keys n) ltac:(rewrite keys_length; lia)), El.
  reflexivity.
Qed.
Theorem undeclared_false n : lookup n decl = None -> cond_root ps maps decl n = Ok false.
Proof. intros El. apply cond_val_undeclared. exact El. Qed.

(* context independence: the same value in every evaluation context in which nothing below n is in progress *)
Theorem ranked_context_free n fuel rem : covers rem n -> (length rem < fuel)%nat ->
  cond_val ps maps decl fuel rem n = cond_root ps maps decl n.
Proof.
  intros Hc Hf. rewrite (ranked_step (S (rk n)) n (Nat.lt_succ_diag_r _) fuel rem Hc Hf).
  destruct (lookup n decl) as [body|] eqn:El; [symmetry; apply ranked_equation; exact El | symmetry; apply undeclared_false; exact El].
Qed.

(* ... and the equations have no other solution: the condition values are "the booleans CloudFormation defines" *)
Theorem ranked_unique (f : str -> res bool) :
  (forall n, lookup n decl = None -> f n = Ok false) ->
  (forall n body, lookup n decl = Some body -> f n = tv (cenv ps maps f) body) ->
  forall n, f n = cond_root ps maps decl n.
Proof.
  intros Hnone Hsome.
  assert (H : forall r n, (rk n < r)%nat -> f n = c n).
  { induction r as [|r IH]; intros n Hn; [lia|].
    destruct (lookup n decl) as [body|] eqn:El.
    - rewrite (Hsome n body El). unfold c. rewrite (ranked_equation n body El).
      apply tv_cenv_frame. intros m Hm. apply IH. pose proof (Hrk n body El m Hm). lia.
    - rewrite (Hnone n El). symmetry. apply undeclared_false. exact El. }
  intros n. apply (H (S (rk n))). lia.
Qed.
End Ranked.

(* ---- UNFOLDING A REFERENCE: in the body of condition m, a reference {"Condition": n} in a boolean position is replaced by the
        declared body of n.  No condition value changes. ---- *)
Lemma lookup_set_key_value k m v d : lookup k (set_key m v d) = if str_eqb k m then Some v else lookup k d.
Proof.
  induction d as [|[k' x] d IH]; cbn [lookup set_key].
  - destruct (str_eqb k m); reflexivity.
  - destruct (str_eqb m k') eqn:E; cbn [lookup].
    + apply str_eqb_spec in E. subst k'. destruct (str_eqb k m); reflexivity.
    + destruct (str_eqb k k') eqn:E2; [|exact IH]. apply str_eqb_spec in E2. subst k'.
      rewrite (str_eqb_sym k m), E. reflexivity.
Qed.
Lemma keys_set_key m v d x : lookup m d = Some x -> keys (set_key m v d) = keys d.
Proof.
  induction d as [|[k' y] d IH]; cbn [lookup set_key]; [discriminate|].
  destruct (str_eqb m k') eqn:E.
  - intros _. reflexivity.
  - intros H. unfold keys in *. cbn [map fst]. rewrite (IH H). reflexivity.
Qed.

Theorem unfold_reference ps maps decl rk m n C bn :
  cond_ranked ps maps decl rk ->
  lookup m decl = Some (plug C (ECond n)) -> lookup n decl = Some bn ->
  forall k, cond_root ps maps (set_key m (plug C bn) decl) k = cond_root ps maps decl k.
Proof.
  intros Hrk Hm Hn. set (decl' := set_key m (plug C bn) decl). set (c := cond_root ps maps decl).
  assert (Hkeys : keys decl' = keys decl) by (apply (keys_set_key m _ decl _ Hm)).
  assert (Hlen : length decl' = length decl) by (rewrite <- !keys_length, Hkeys; reflexivity).
  assert (Hcn : tv (cenv ps maps c) (ECond n) = tv (cenv ps maps c) bn).
  { rewrite tv_cond. cbn [conds cenv]. unfold c. apply (ranked_equation ps maps decl rk Hrk n bn Hn). }
  assert (H : forall r k, (rk k < r)%nat -> forall fuel rem, covers decl rk rem k -> (length rem < fuel)%nat ->
              cond_val ps maps decl' fuel rem k = c k).
  { induction r as [|r IH]; intros k Hk fuel rem Hc Hf; [lia|].
    destruct fuel as [|f]; [lia|].
    destruct (lookup k decl) as [body|] eqn:El.
    - assert (Hmem : mem_str k rem = true) by (apply Hc; [exact (lookup_mem_keys k decl body El) | lia]).
      pose proof (remove_length k rem Hmem) as Hlen'.
      assert (Hlow : forall j, (rk j < rk k)%nat -> cond_val ps maps decl' f (remove_str k rem) j = c j).
      { intros j Hj. apply IH; [lia | apply covers_remove; assumption | lia]. }
      destruct (str_eqb k m) eqn:Ekm.
      + apply str_eqb_spec in Ekm. subst k. rewrite Hm in El. inv El.
        assert (El' : lookup m decl' = Some (plug C bn)).
        { unfold decl'. rewrite lookup_set_key_value, str_eqb_refl. reflexivity. }
        rewrite (cond_val_tv ps maps decl' f rem m (plug C bn) Hmem El').
        pose proof (ranked_equation ps maps decl rk Hrk m _ Hm) as Heq. fold c in Heq. rewrite Heq.
        rewrite (tv_plug (cenv ps maps c) C (ECond n) bn Hcn).
        apply tv_cenv_frame. intros j Hj. apply Hlow.
        destruct (plug_trace (cenv ps maps c) C (ECond n) bn Hcn (ACond j) Hj) as [H1|[H1 H2]].
        * exact (Hrk m _ Hm j H1).
        * assert (Hnm : (rk n < rk m)%nat).
          { apply (Hrk m _ Hm n). apply H2. rewrite trace_cond. left. reflexivity. }
          pose proof (Hrk n bn Hn j H1). lia.
      + assert (El' : lookup k decl' = Some body).
        { unfold decl'. rewrite lookup_set_key_value, Ekm. exact El. }
        rewrite (cond_val_tv ps maps decl' f rem k body Hmem El').
        pose proof (ranked_equation ps maps decl rk Hrk k body El) as Heq. fold c in Heq. rewrite Heq.
        apply tv_cenv_frame. intros j Hj. apply Hlow. exact (Hrk k body El j Hj).
    - assert (El' : lookup k decl' = None).
      { unfold decl'. rewrite lookup_set_key_value. destruct (str_eqb k m) eqn:Ekm; [|exact El].
        apply str_eqb_spec in Ekm. subst k. congruence. }
      rewrite (cond_val_undeclared ps maps decl' f rem k El'). symmetry. apply undeclared_false. exact El. }
  intros k. unfold cond_root at 1. rewrite Hlen. fold decl'. rewrite Hkeys.
  apply (H (S (rk k)) k (Nat.lt_succ_diag_r _)); [apply covers_keys | rewrite keys_length; lia].
Qed.

(* all condition values at once, and the resolved model *)
Lemma cond_all_ext ps maps decl decl' names : (forall n, cond_root ps maps decl' n = cond_root ps maps decl n) ->
  cond_all ps maps decl' names = cond_all ps maps decl names.
Proof. intros H. induction names as [|n r IH]; [reflexivity|]. cbn [cond_all]. rewrite (H n), IH. reflexivity. Qed.
Theorem unfold_reference_model pseudo decls extra maps cdecl rs rk m n C bn :
  (forall ps, bind_params pseudo decls extra = Ok ps -> cond_ranked ps maps cdecl rk) ->
  lookup m cdecl = Some (plug C (ECond n)) -> lookup n cdecl = Some bn ->
  resolve_model pseudo decls extra maps (set_key m (plug C bn) cdecl) rs = resolve_model pseudo decls extra maps cdecl rs.
Proof.
  intros Hrk Hm Hn. rewrite !resolve_model_unfold. destruct (bind_params pseudo decls extra) as [ps|k] eqn:Eb; [|reflexivity].
  cbn [bind]. unfold resolve_model_from. rewrite (keys_set_key m _ cdecl _ Hm).
  rewrite (cond_all_ext ps maps cdecl _ (keys cdecl) (unfold_reference ps maps cdecl rk m n C bn (Hrk ps eq_refl) Hm Hn)).
  reflexivity.
Qed.

(* what a Condition / Fn::If inside a RESOURCE sees is exactly the value of the declared condition (false if undeclared) *)
Lemma cond_all_lookup ps maps decl names l : cond_all ps maps decl names = Ok l ->
  forall n, match lookup n l with
            | Some b => mem_str n names = true /\ cond_root ps maps decl n = Ok b
            | None => mem_str n names = false
            end.
Proof.
  revert l; induction names as [|n0 r IH]; intros l H n; cbn [cond_all] in H.
  - inv H. reflexivity.
  - bind_inv. inv H. cbn [lookup mem_str existsb]. destruct (str_eqb n n0) eqn:Enn.
    + apply str_eqb_spec in Enn. subst n0. split; [reflexivity | assumption].
    + specialize (IH a0 eq_refl n). cbn [orb]. exact IH.
Qed.
Theorem conds_fun_is_cond_root ps maps decl resolved : cond_all ps maps decl (keys decl) = Ok resolved ->
  forall n, conds_fun resolved n = cond_root ps maps decl n.
Proof.
  intros H n. pose proof (cond_all_lookup ps maps decl (keys decl) resolved H n) as Hl. unfold conds_fun.
  destruct (lookup n resolved) as [b|].
  - destruct Hl as [_ Hb]. symmetry. exact Hb.
  - symmetry. apply cond_val_undeclared. apply mem_keys_lookup. exact Hl.
Qed.

(* ---- REMOVING A CONDITION that no other condition asks about, that gates no resource and that no kept resource asks about:
        every other condition keeps its value and the resources are resolved to the same result ---- *)
Definition remove_key (n : str) (d : list (str * value)) : list (str * value) := filter (fun kv => negb (str_eqb n (fst kv))) d.
Lemma lookup_remove_key n k d : lookup k (remove_key n d) = if str_eqb n k then None else lookup k d.
Proof.
  unfold remove_key. rewrite (lookup_filter_keys k d (fun x => negb (str_eqb n x))). destruct (str_eqb n k); reflexivity.
Qed.
Lemma keys_remove_key n d : keys (remove_key n d) = remove_str n (keys d).
Proof.
  unfold remove_key, remove_str, keys. induction d as [|[k x] d IH]; [reflexivity|]. cbn [filter map fst].
  destruct (str_eqb n k); cbn [negb map fst]; rewrite IH; reflexivity.
Qed.
Lemma remove_key_length n d : (length (remove_key n d) <= length d)%nat.
Proof. apply filter_length_le. Qed.

Lemma remove_cond_val ps maps decl n : forall f rem rem' k,
  (forall x, x <> n -> mem_str x rem' = mem_str x rem) -> k <> n ->
  ~ In (ACond n) (cond_trace ps maps decl f rem k) ->
  cond_val ps maps (remove_key n decl) f rem' k = cond_val ps maps decl f rem k.
Proof.
  induction f as [|f IH]; intros rem rem' k Hmem Hk Hn; [reflexivity|].
  cbn [cond_val cond_trace] in *. rewrite (Hmem k Hk). destruct (mem_str k rem); [|reflexivity].
  rewrite lookup_remove_key. assert (Ek : str_eqb n k = false) by (apply str_eqb_neq; intros ->; apply Hk; reflexivity).
  rewrite Ek. destruct (lookup k decl) as [body|]; [|reflexivity].
  change {| params := ps; mappings := maps; conds := cond_val ps maps (remove_key n decl) f (remove_str k rem') |}
    with (cenv ps maps (cond_val ps maps (remove_key n decl) f (remove_str k rem'))).
  change {| params := ps; mappings := maps; conds := cond_val ps maps decl f (remove_str k rem) |}
    with (cenv ps maps (cond_val ps maps decl f (remove_str k rem))).
  change (cond_env ps maps decl f (remove_str k rem)) with (cenv ps maps (cond_val ps maps decl f (remove_str k rem))) in Hn.
  change (tv (cenv ps maps (cond_val ps maps (remove_key n decl) f (remove_str k rem'))) body =
          tv (cenv ps maps (cond_val ps maps decl f (remove_str k rem))) body).
  apply tv_cenv_frame. intros m Hm.
  assert (Hmn : m <> n). { intros ->. apply Hn. apply in_or_app. left. exact Hm. }
  apply IH.
  - intros x Hx. rewrite !mem_remove, (Hmem x Hx). reflexivity.
  - exact Hmn.
  - intros Hin. apply Hn. apply in_or_app. right. apply in_flat_map. exists (ACond m). split; [exact Hm | exact Hin].
Qed.
Theorem remove_unasked_condition ps maps decl n k : k <> n -> ~ In (ACond n) (cond_root_trace ps maps decl k) ->
  cond_root ps maps (remove_key n decl) k = cond_root ps maps decl k.
Proof.
  intros Hk Hn. unfold cond_root.
  rewrite (cond_val_fuel ps maps (remove_key n decl) (S (length (remove_key n decl))) (S (length decl)) (keys (remove_key n decl)) k).
  - apply remove_cond_val; [|exact Hk | exact Hn]. intros x Hx. rewrite keys_remove_key, mem_remove.
    assert (E : str_eqb n x = false) by (apply str_eqb_neq; intros ->; apply Hx; reflexivity). rewrite E. apply andb_true_r.
  - rewrite keys_length. lia.
  - rewrite keys_length. pose proof (remove_key_length n decl). lia.
Qed.
Lemma cond_all_member_ok ps maps decl names l : cond_all ps maps decl names = Ok l ->
  forall k, In k names -> exists b, cond_root ps maps decl k = Ok b.
Proof.
  revert l; induction names as [|n0 r IH]; intros l H k Hk; [destruct Hk|]. cbn [cond_all] in H. bind_inv.
  destruct Hk as [<-|Hk]; [eexists; eassumption | eapply IH; [reflexivity | exact Hk]].
Qed.
Lemma cond_all_total ps maps decl names : (forall k, In k names -> exists b, cond_root ps maps decl k = Ok b) ->
  exists l, cond_all ps maps decl names = Ok l.
Proof.
  induction names as [|n0 r IH]; intros H; [eexists; reflexivity|]. cbn [cond_all].
  destruct (H n0 (or_introl eq_refl)) as [b Hb]. rewrite Hb. cbn [bind].
  destruct IH as [l Hl]; [intros k Hk; apply H; right; exact Hk|]. rewrite Hl. eexists; reflexivity.
Qed.
Theorem remove_unasked_condition_model ps maps decl rs n resolved :
  (forall k, k <> n -> ~ In (ACond n) (cond_root_trace ps maps decl k)) ->
  ~ In n (gate_names rs) ->
  cond_all ps maps decl (keys decl) = Ok resolved ->
  ~ In (ACond n) (resources_trace (renv ps maps resolved) resolved rs) ->
  exists resolved', cond_all ps maps (remove_key n decl) (keys (remove_key n decl)) = Ok resolved' /\
    (forall k, k <> n -> lookup k resolved' = lookup k resolved) /\
    resolve_resources (renv ps maps resolved') resolved' rs = resolve_resources (renv ps maps resolved) resolved rs.
Proof.
  intros Hask Hgate Hall Hres.
  assert (Hroot : forall k, k <> n -> cond_root ps maps (remove_key n decl) k = cond_root ps maps decl k).
  { intros k Hk. apply remove_unasked_condition; [exact Hk | apply Hask; exact Hk]. }
  assert (Hin : forall k, In k (keys (remove_key n decl)) -> k <> n /\ In k (keys decl)).
  { intros k Hk. rewrite keys_remove_key in Hk. apply mem_str_In in Hk. rewrite mem_remove in Hk.
    apply andb_true_iff in Hk. destruct Hk as [H1 H2]. apply negb_true_iff in H2. apply str_eqb_neq in H2.
    split; [intros ->; apply H2; reflexivity | apply mem_str_In; exact H1]. }
  destruct (cond_all_total ps maps (remove_key n decl) (keys (remove_key n decl))) as [resolved' Hall'].
  { intros k Hk. destruct (Hin k Hk) as [Hkn Hkd]. rewrite (Hroot k Hkn). exact (cond_all_member_ok _ _ _ _ _ Hall k Hkd). }
  assert (Hlk : forall k, k <> n -> lookup k resolved' = lookup k resolved).
  { intros k Hk. pose proof (cond_all_lookup _ _ _ _ _ Hall' k) as H1. pose proof (cond_all_lookup _ _ _ _ _ Hall k) as H2.
    rewrite keys_remove_key, mem_remove in H1.
    assert (E : str_eqb n k = false) by (apply str_eqb_neq; intros ->; apply Hk; reflexivity). rewrite E, andb_true_r in H1.
    destruct (lookup k resolved') as [b'|], (lookup k resolved) as [b|]; try reflexivity.
    - destruct H1 as [_ H1], H2 as [_ H2]. rewrite (Hroot k Hk) in H1. congruence.
    - destruct H1 as [H1 _]. congruence.
    - destruct H2 as [H2 _]. congruence. }
  exists resolved'. split; [exact Hall' | split; [exact Hlk|]].
  apply resolve_resources_frame.
  - intros c Hc. symmetry. apply Hlk. intros ->. contradiction.
  - apply agree_split. repeat split; intros c Hc; try reflexivity. cbn [conds renv]. unfold conds_fun.
    rewrite (Hlk c); [reflexivity|]. intros ->. contradiction.
Qed.

(* ================= 5. Fn::If ================= *)
Theorem if_same_branches e c x b : conds e c = Ok b -> resolve e (EIf c x x) = resolve e x.
Proof. intros H. unfold EIf. rewrite resolve_if, H. destruct b; reflexivity. Qed.
(* inside resources the condition table never raises: there the law is unconditional *)
Theorem if_same_branches_resource ps maps resolved c x : resolve (renv ps maps resolved) (EIf c x x) = resolve (renv ps maps resolved) x.
Proof. apply (if_same_branches _ c x (match lookup c resolved with Some b => b | None => false end)). reflexivity. Qed.
Theorem if_same_branches_refuted : exists e c x, resolve e (EIf c x x) <> resolve e x.
Proof.
  exists {| params := []; mappings := []; conds := fun _ => Err ERecursion |}, [67], (VStr [120]). vm_compute. discriminate.
Qed.

(* the first operand of Fn::If is the NAME of a condition: "If (Not c)" is an If on a condition whose value is the negation *)
Theorem if_negated e c c' t f : conds e c' = rneg (conds e c) -> resolve e (EIf c' t f) = resolve e (EIf c f t).
Proof. intros H. unfold EIf. rewrite !resolve_if, H. unfold rneg. destruct (conds e c) as [[|]|]; reflexivity. Qed.
(* ... in particular a condition declared as {"Fn::Not": [{"Condition": c}]} *)
Theorem declared_negation ps maps decl rk c c' : cond_ranked ps maps decl rk -> lookup c' decl = Some (ENot (ECond c)) ->
  cond_root ps maps decl c' = rneg (cond_root ps maps decl c).
Proof. intros Hrk Hl. rewrite (ranked_equation ps maps decl rk Hrk c' _ Hl), tv_not, tv_cond. reflexivity. Qed.
Theorem if_negated_resource ps maps decl rk resolved c c' t f :
  cond_ranked ps maps decl rk -> lookup c' decl = Some (ENot (ECond c)) -> cond_all ps maps decl (keys decl) = Ok resolved ->
  resolve (renv ps maps resolved) (EIf c' t f) = resolve (renv ps maps resolved) (EIf c f t).
Proof.
  intros Hrk Hl Hall. apply if_negated. cbn [conds renv]. rewrite !(conds_fun_is_cond_root ps maps decl resolved Hall).
  apply (declared_negation ps maps decl rk c c' Hrk Hl).
Qed.

(* nested Fn::If on the same condition collapses (unconditionally) *)
Theorem if_nested_then e c a b d : resolve e (EIf c (EIf c a b) d) = resolve e (EIf c a d).
Proof.
  unfold EIf. rewrite (resolve_if e c (VDict [(K_If, VList [VStr c; a; b])]) d), (resolve_if e c a d).
  destruct (conds e c) as [[|]|k] eqn:E; cbn [bind]; try reflexivity. rewrite resolve_if, E. reflexivity.
Qed.
Theorem if_nested_else e c a b d : resolve e (EIf c a (EIf c b d)) = resolve e (EIf c a d).
Proof.
  unfold EIf. rewrite (resolve_if e c a (VDict [(K_If, VList [VStr c; b; d])])), (resolve_if e c a d).
  destruct (conds e c) as [[|]|k] eqn:E; cbn [bind]; try reflexivity. rewrite resolve_if, E. reflexivity.
Qed.

(* AWS::NoValue pruning in lists: the resolved list is the list of the members' results with exactly the AWS::NoValue results
   removed, in order; hence the LENGTH LAW *)
Theorem rlist_spec e l l' : rlist e l = Ok l' <->
  exists rs, Forall2 (fun x r => resolve e x = Ok r) l rs /\ l' = filter (fun r => negb (is_novalue r)) rs.
Proof.
  split.
  - revert l'; induction l as [|x xs IH]; intros l' H.
    + inv H. exists []. split; [constructor | reflexivity].
    + rewrite rlist_cons' in H. bind_inv. inv H. destruct (IH a0 eq_refl) as (rs & HF & ->).
      exists (a :: rs). split; [constructor; assumption|]. cbn [filter]. destruct (is_novalue a); reflexivity.
  - intros (rs & HF & ->). induction HF as [|x r xs rs Hx HF IH]; [reflexivity|].
    rewrite rlist_cons', Hx, IH. cbn [bind filter]. destruct (is_novalue r); reflexivity.
Qed.
Lemma filter_partition_length {A} (f : A -> bool) l :
  (length (filter (fun x => negb (f x)) l) + length (filter f l) = length l)%nat.
Proof. induction l as [|x xs IH]; [reflexivity|]. cbn [filter]. destruct (f x); cbn [negb length]; lia. Qed.
Lemma F2_same_length {A B} (R : A -> B -> Prop) l l' : Forall2 R l l' -> length l = length l'.
Proof. induction 1 as [|a b l l' Hab HF IH]; [reflexivity | cbn [length]; rewrite IH; reflexivity]. Qed.
Theorem list_length_after_pruning e l l' : resolve e (VList l) = Ok (VList l') ->
  exists rs, Forall2 (fun x r => resolve e x = Ok r) l rs /\ l' = filter (fun r => negb (is_novalue r)) rs /\
    (length l' + length (filter is_novalue rs) = length l)%nat.
Proof.
  intros H. rewrite resolve_list in H. bind_inv. inv H. apply rlist_spec in E. destruct E as (rs & HF & ->).
  exists rs. split; [exact HF | split; [reflexivity|]]. rewrite filter_partition_length. symmetry. exact (F2_same_length _ _ _ HF).
Qed.
(* the same for the entries of an object *)
Theorem rdict_spec e d d' : rdict e d = Ok d' <->
  exists rs, Forall2 (fun kx kr => fst kx = fst kr /\ resolve e (snd kx) = Ok (snd kr)) d rs /\
             d' = filter (fun kr => negb (is_novalue (snd kr))) rs.
Proof.
  split.
  - revert d'; induction d as [|[k x] xs IH]; intros d' H.
    + inv H. exists []. split; [constructor | reflexivity].
    + rewrite rdict_cons' in H. bind_inv. inv H. destruct (IH a0 eq_refl) as (rs & HF & ->).
      exists ((k, a) :: rs). split; [constructor; [split; [reflexivity | assumption] | assumption]|].
      cbn [filter snd]. destruct (is_novalue a); reflexivity.
  - intros (rs & HF & ->). induction HF as [|[k x] [k' r] xs rs [Hk Hx] HF IH]; [reflexivity|].
    cbn [fst snd] in Hk, Hx. subst k'. rewrite rdict_cons', Hx, IH. cbn [bind filter snd]. destruct (is_novalue r); reflexivity.
Qed.
(* a Fn::If member whose chosen branch is AWS::NoValue disappears, one whose chosen branch is a value is that value *)
Theorem if_novalue_member e c nv x l : conds e c = Ok true -> resolve e nv = Ok (VStr S_NOVALUE) ->
  rlist e (EIf c nv x :: l) = rlist e l.
Proof.
  intros Hc Hnv. rewrite rlist_cons'. unfold EIf. rewrite resolve_if, Hc. cbn [bind]. rewrite Hnv. cbn [bind].
  destruct (rlist e l); reflexivity.
Qed.
Theorem if_value_member e c nv x r l : conds e c = Ok false -> resolve e x = Ok r -> is_novalue r = false ->
  rlist e (EIf c nv x :: l) = (l' <- rlist e l ;; Ok (r :: l')).
Proof.
  intros Hc Hx Hr. rewrite rlist_cons'. unfold EIf. rewrite resolve_if, Hc. cbn [bind]. rewrite Hx. cbn [bind]. rewrite Hr. reflexivity.
Qed.

(* ================= 6. the resource gate ================= *)
Definition gate_open (resolved : list (str * bool)) (r : value) : bool :=
  match gate resolved r with Ok true => true | _ => false end.
(* which resources are present is decided by the gates alone *)
Theorem resolve_resources_keys e resolved rs out : resolve_resources e resolved rs = Ok out ->
  keys out = keys (filter (fun kv => gate_open resolved (snd kv)) rs).
Proof.
  revert out; induction rs as [|[id r] rest IH]; intros out H; cbn [resolve_resources] in H.
  - inv H. reflexivity.
  - cbn [filter snd]. unfold gate_open at 1. destruct (gate resolved r) as [[|]|k]; cbn [bind] in H; [| |discriminate].
    + bind_inv. inv H. unfold keys in *. cbn [map fst]. rewrite (IH a0 eq_refl). reflexivity.
    + apply IH. exact H.
Qed.
(* changing parameters (or mappings) that no condition reads -- transitively, through the conditions it asks about -- changes no
   condition value, hence no gate; if both models resolve, they have the same resources *)
Theorem presence_unread_parameters ps ps' maps maps' cdecl rs resolved out :
  (forall k, In (AParam k) (conds_trace ps maps cdecl (keys cdecl)) -> lookup k ps = lookup k ps') ->
  (forall m, In (AMap m) (conds_trace ps maps cdecl (keys cdecl)) -> lookup m maps = lookup m maps') ->
  cond_all ps maps cdecl (keys cdecl) = Ok resolved ->
  resolve_resources (renv ps maps resolved) resolved rs = Ok out ->
  cond_all ps' maps' cdecl (keys cdecl) = Ok resolved /\
  forall out', resolve_resources (renv ps' maps' resolved) resolved rs = Ok out' -> keys out' = keys out.
Proof.
  intros Hp Hm Hall Hres. split.
  - rewrite (cond_all_frame ps ps' maps maps' cdecl (keys cdecl)); [exact Hall | split; assumption].
  - intros out' Hres'. rewrite (resolve_resources_keys _ _ _ _ Hres), (resolve_resources_keys _ _ _ _ Hres'). reflexivity.
Qed.
(* one parameter, put in front of (= overriding) the others *)
Theorem presence_one_parameter ps maps cdecl k x :
  ~ In (AParam k) (conds_trace ps maps cdecl (keys cdecl)) ->
  cond_all ((k, x) :: ps) maps cdecl (keys cdecl) = cond_all ps maps cdecl (keys cdecl).
Proof.
  intros Hk. apply cond_all_frame. split; [|reflexivity]. intros k' Hk'. cbn [lookup].
  destruct (str_eqb k' k) eqn:E; [|reflexivity]. apply str_eqb_spec in E. subst. contradiction.
Qed.
