"""Leaf / node oracles for the generic-casting model (C13, C18) and the presentation of implementation results.

The annotations are computed with pydantic `TypeAdapter` on pycfmodel's *type aliases and classes in isolation* and with
the standard library (json, float).  Nothing here calls `_Auxiliar.cast`, `Generic` or any resource class: that is the
code under test."""
import json
from datetime import date, datetime
from functools import lru_cache
from ipaddress import IPv4Network, IPv6Network

from wire import Typed

K_FN, K_PROP, K_DUMP = "\0fn", "\0prop", "\0dump"
PK = ["Policy", "PolicyDocument", "SecurityGroupEgressProp", "SecurityGroupIngressProp", "Statement", "StatementCondition", "Tag"]


@lru_cache(None)
def _adapters():
    from pydantic import TypeAdapter

    from pycfmodel.model.resources.properties.types import Properties
    from pycfmodel.model.types import ResolvableDate, ResolvableDatetime, ResolvableInt, ResolvableIPNetwork
    return {
        "int": TypeAdapter(ResolvableInt), "date": TypeAdapter(ResolvableDate), "datetime": TypeAdapter(ResolvableDatetime),
        "net": TypeAdapter(ResolvableIPNetwork), "props": TypeAdapter(Properties),
    }


def funcs():
    from pycfmodel.constants import IMPLEMENTED_FUNCTIONS
    return sorted(IMPLEMENTED_FUNCTIONS)


def _try(name, x):
    try:
        return _adapters()[name].validate_python(x)
    except Exception:
        return None


def _aborts(name, x):
    """does the parser RAISE something that is not a pydantic ValidationError (e.g. datetime.date: year 0 is out of range)?"""
    from pydantic import ValidationError
    try:
        _adapters()[name].validate_python(x)
    except ValidationError:
        return False
    except Exception:
        return True
    return False


def fl(x):
    """wire form of a Python float"""
    return Typed("float", repr(x))


def net_wire(n):
    return Typed("net4" if isinstance(n, IPv4Network) else "net6", str(n))


def scalar_ann(x):
    i = _try("int", x)
    if isinstance(x, str):
        try:
            float(x)
            is_num = True
        except ValueError:
            is_num = False
    else:
        is_num = isinstance(x, (int, float))
    d = _try("date", x)
    dt = _try("datetime", x)
    n = _try("net", x)
    return [i if isinstance(i, int) and not isinstance(i, bool) else None, is_num,
            d.isoformat() if isinstance(d, date) else None,
            dt.isoformat() if isinstance(dt, datetime) else None,
            net_wire(n) if isinstance(n, (IPv4Network, IPv6Network)) else None,
            d is None and _aborts("date", x), dt is None and _aborts("datetime", x)]


def digest(d):
    """short digest of a canonical dump (a Statement dumps to ~6 kB because of StatementCondition's 200 optional fields)"""
    import hashlib
    return hashlib.blake2b(json.dumps(d, default=str, sort_keys=True).encode(), digest_size=10).hexdigest()


def canon_dump(inst):
    return type(inst).__name__ + ":" + digest(inst.model_dump())


def canon_condition(c):
    return json.dumps(c.model_dump(exclude_none=True), default=str, sort_keys=True)


def statements_payload(pd):
    """[[sid, condition-or-None], ...] of a PolicyDocument instance"""
    out = []
    for st in pd.statement_as_list():
        sid = st.Sid if isinstance(st.Sid, str) else (None if st.Sid is None else json.dumps(st.Sid.model_dump(), sort_keys=True))
        out.append([sid, canon_condition(st.Condition) if st.Condition is not None else None])
    return out


class Refused(Exception):
    """the library's classes refuse an object that is a policy document by a purely syntactic, library-independent reading"""
    def __init__(self, node, got):
        super().__init__(f"well-formed policy document recognised as {got}")
        self.node, self.got = node, got


_SAFE_OPS = {"StringEquals", "StringLike", "ArnLike", "StringNotEquals", "ArnEquals"}     # operators whose values are plain text
_PRINCIPAL_KEYS = {"AWS", "Service", "Federated", "CanonicalUser"}


def _str_or_strs(v):
    return isinstance(v, str) or (isinstance(v, list) and all(isinstance(z, str) for z in v))


_DATE_OPS = {"DateEquals", "DateNotEquals", "DateLessThan", "DateLessThanEquals", "DateGreaterThan", "DateGreaterThanEquals"}
_NUM_OPS = {"NumericEquals", "NumericNotEquals", "NumericLessThan", "NumericLessThanEquals", "NumericGreaterThan", "NumericGreaterThanEquals"}
_DATE_VALUES = {"2020-01-01T00:00:01Z", "2020-01-01T00:00:00Z", "2019-07-16T19:15:00Z", "2020-06-01", "1767225600", 1767225600, 1600000000, "1600000000"}


def _typed_condition_ok(op, block):
    """documented value spellings of the typed operators (a fixed, small vocabulary: sufficient, not necessary)"""
    def vals(z):
        return z if isinstance(z, list) else [z]
    if not (isinstance(block, dict) and block and all(isinstance(k, str) for k in block)):
        return False
    if op in _DATE_OPS:
        return all(all((not isinstance(v, bool)) and isinstance(v, (str, int)) and v in _DATE_VALUES for v in vals(z)) for z in block.values())
    if op in _NUM_OPS:
        return all(all((isinstance(v, int) and not isinstance(v, bool) and 0 <= v < 10 ** 6) or (isinstance(v, str) and v.isascii() and v.isdigit() and len(v) < 7)
                       for v in vals(z)) for z in block.values())
    if op == "Bool":
        return all(not isinstance(z, list) and (isinstance(z, bool) or z in ("true", "false")) for z in block.values())
    if op in ("IpAddress", "NotIpAddress"):
        import ipaddress
        def net(v):
            try:
                ipaddress.ip_network(v, strict=True)
                return isinstance(v, str)
            except Exception:
                return False
        return all(all(net(v) for v in vals(z)) for z in block.values())
    return False


def well_formed_statement(st):
    if not isinstance(st, dict) or not set(st) <= {"Sid", "Effect", "Action", "NotAction", "Resource", "NotResource", "Principal",
                                                    "NotPrincipal", "Condition"}:
        return False
    if not (isinstance(st.get("Effect"), str) and st["Effect"].lower() in ("allow", "deny")):
        return False
    if "Sid" in st and not isinstance(st["Sid"], str):
        return False
    for k in ("Action", "NotAction", "Resource", "NotResource"):
        if k in st and not _str_or_strs(st[k]):
            return False
    for k in ("Principal", "NotPrincipal"):
        if k in st:
            p = st[k]
            if not (_str_or_strs(p) or (isinstance(p, dict) and p and set(p) <= _PRINCIPAL_KEYS and all(_str_or_strs(z) for z in p.values()))):
                return False
    if "Condition" in st:
        c = st["Condition"]
        if not (isinstance(c, dict) and c):
            return False
        for op, b in c.items():
            if op in _SAFE_OPS:
                if not (isinstance(b, dict) and b and all(isinstance(k, str) and _str_or_strs(z) for k, z in b.items())):
                    return False
            elif not _typed_condition_ok(op, b):
                return False
    return True


def well_formed_document(x):
    """a SUFFICIENT, purely syntactic condition for "x is an IAM policy document" (what the generators plant): the library's
    PolicyDocument class must accept every such object -- whatever its Sids look like.  The recogniser used by the model is
    the library's own union (an oracle computed with the code under test: audit finding A2); this predicate is the part of it
    that does not depend on that code."""
    if not isinstance(x, dict) or "Statement" not in x or not set(x) <= {"Version", "Statement", "Id"}:
        return False
    if "Version" in x and x["Version"] not in ("2012-10-17", "2008-10-17"):
        return False
    if "Id" in x and not isinstance(x["Id"], str):
        return False
    body = x["Statement"]
    sts = body if isinstance(body, list) else [body]
    return all(well_formed_statement(st) for st in sts)


def recognise(x):
    """TypeAdapter(Properties) on one object node in isolation -> [kind, dump, name, statements] or None"""
    inst = _try("props", x)
    if well_formed_document(x) and type(inst).__name__ != "PolicyDocument":
        raise Refused(x, type(inst).__name__)
    if inst is None:
        return None
    kind = type(inst).__name__
    if kind not in PK:
        raise RuntimeError(f"Properties union produced {kind}")
    name, doc = None, None
    if kind == "PolicyDocument":
        doc = statements_payload(inst)
    elif kind == "Policy":
        name = inst.PolicyName if isinstance(inst.PolicyName, str) else None
        pd = inst.PolicyDocument
        doc = statements_payload(pd) if hasattr(pd, "statement_as_list") else []
    return [PK.index(kind), canon_dump(inst), name, doc]


def annotate(x, depth=0):
    """plain JSON-like Python value -> wire encoding of Typed/GValue.gvalue"""
    if x is None:
        return None
    if isinstance(x, bool):
        return [1, x, scalar_ann(x)]
    if isinstance(x, int):
        return [2, x, scalar_ann(x)]
    if isinstance(x, float):
        return [3, repr(x), scalar_ann(x)]
    if isinstance(x, str):
        j = []
        if depth < 12:
            try:
                decoded = json.loads(x)
                # the pre-pass of generic casting replaces text by the JSON value it encodes -- except when that value is text again
                # (a JSON string literal: fix F29, it was peeled once more at every re-validation of the dumped model)
                j = [] if isinstance(decoded, str) else [annotate(decoded, depth + 1)]
            except Exception:
                j = []
        return [4, x, j, scalar_ann(x)]
    if isinstance(x, list):
        return [5, [annotate(v, depth) for v in x]]
    if isinstance(x, dict):
        return [6, {k: annotate(v, depth) for k, v in x.items()}, recognise(x)]
    raise TypeError(type(x))


def annotate_props(props):
    return {k: annotate(v) for k, v in props.items()}


# ---------------------------------------------------------------------------------------------
# presentation of what the implementation produced

def plain(v):
    """raw JSON-like value -> wire value (floats carried by their repr)"""
    if isinstance(v, float):
        return fl(v)
    if isinstance(v, list):
        return [plain(x) for x in v]
    if isinstance(v, dict):
        return {k: plain(x) for k, x in v.items()}
    if isinstance(v, (datetime, date, IPv4Network, IPv6Network)):
        return atom(v)
    return v


def atom(v):
    if isinstance(v, datetime):
        return Typed("datetime", v.isoformat())
    if isinstance(v, date):
        return Typed("date", v.isoformat())
    if isinstance(v, (IPv4Network, IPv6Network)):
        return net_wire(v)
    if isinstance(v, float):
        return fl(v)
    return v


def present(p):
    """Properties.<name> of a generic resource -> the form Typed/GValue.tenc produces (value AND Python type)"""
    from pydantic import BaseModel

    from pycfmodel.model.base import FunctionDict
    from pycfmodel.model.generic import Generic
    if p is None or isinstance(p, (bool, int, str)):
        return p
    if isinstance(p, (float, date, IPv4Network, IPv6Network)):
        return atom(p)
    if isinstance(p, list):
        return [present(x) for x in p]
    if isinstance(p, FunctionDict):
        return {K_FN: plain(p.model_dump())}
    if isinstance(p, Generic):
        return {k: present(getattr(p, k)) for k in (p.__pydantic_extra__ or {})}
    if isinstance(p, BaseModel):
        name = type(p).__name__
        return {K_PROP: PK.index(name) if name in PK else -1, K_DUMP: canon_dump(p)}
    if isinstance(p, dict):
        return {"\0rawdict": plain(p)}
    return {"\0unknown": type(p).__name__}


def present_dump(p, d):
    """model_dump() output d of parsed value p -> the form Typed/GValue.tdump produces"""
    from pydantic import BaseModel

    from pycfmodel.model.base import FunctionDict
    from pycfmodel.model.generic import Generic
    if isinstance(p, FunctionDict):
        return plain(d)
    if isinstance(p, Generic):
        if not isinstance(d, dict) or list(d) != list(p.__pydantic_extra__ or {}):
            return {"\0baddump": repr(d)[:200]}
        return {k: present_dump(getattr(p, k), d[k]) for k in d}
    if isinstance(p, BaseModel):
        return {K_DUMP: type(p).__name__ + ":" + digest(d)}
    if isinstance(p, list):
        if not isinstance(d, list) or len(d) != len(p):
            return {"\0baddump": repr(d)[:200]}
        return [present_dump(a, b) for a, b in zip(p, d)]
    return present(d)
