"""Schema-driven generators shared by C14 and C15: valid instances of every class of the generated schema table
(gen_tables.schema_table(), read from the LIVE pydantic classes), their damaged variants, and per-leaf-kind bookkeeping.
All values are plain JSON-like data (what json.load gives pycfmodel); every choice comes from the given rng."""
import copy

import gen_tables

_TABLE = None


def table():
    global _TABLE
    if _TABLE is None:
        _TABLE = gen_tables.live_or_snapshot("schema_table", gen_tables.schema_table, drop=("modules",))
    return _TABLE


def modelled_types():
    return {t for t, _ in table()["modelled"]}


def unmodelled(names):
    """type strings used as examples of UNMODELLED resources: a type that has become modelled since (an ordinary upstream change) is
    dropped from the list instead of being fed to the generic-resource surfaces"""
    live = modelled_types()
    out = [n for n in names if n not in live]
    return out or ["Custom::Thing"]


FN_OBJECTS = [{"Ref": "P1"}, {"Fn::Sub": "${AWS::Region}-x"}, {"Fn::GetAtt": ["Res", "Arn"]}, {"Fn::ImportValue": "exp"},
              {"Fn::Join": ["-", ["a", {"Ref": "AWS::AccountId"}]]}, {"Fn::If": ["C1", "a", "b"]}, {"Fn::Select": [0, ["a", "b"]]},
              {"Fn::FindInMap": ["M", "k1", "s"]}, {"Fn::Base64": "x"}, {"Fn::Split": [",", "a,b"]}, {"Fn::GetAZs": ""},
              {"Ref": "AWS::NoValue"}]
FN_STR = [{"Ref": "P1"}, {"Fn::Sub": "${AWS::Region}-x"}, {"Fn::GetAtt": ["Res", "Arn"]}, {"Fn::ImportValue": "exp"},
          {"Fn::Join": ["-", ["a", {"Ref": "AWS::AccountId"}]]}, {"Fn::If": ["C1", "a", "b"]}, {"Fn::Select": [0, ["a", "b"]]},
          {"Fn::FindInMap": ["M", "k1", "s"]},
          # references that CANNOT be resolved: the placeholder text must be accepted wherever text is (seeded change C03-r4m2 typed
          # DeletionPolicy as a Literal, so UNDEFINED_PARAM_... made resolve() raise)
          {"Ref": "NoSuchParameter"}, {"Fn::FindInMap": ["M", "no-such-key", "s"]}, {"Fn::Sub": "${NotBound}-x"},
          # values that begin or end with blanks: text is text, nothing trims it (seeded change C01-r6Cm2: str_strip_whitespace on one class)
          {"Fn::Join": [" ", ["Signing key for", ""]]}, {"Fn::Select": [1, {"Fn::Split": [",", "A, B"]}]}, {"Fn::Sub": "\tx${AWS::Region}\n"},
          {"Fn::Join": ["", [" ", {"Ref": "P1"}, " "]]}]
STRS = ["a", "b", "prod", "x-y", "my bucket", "arn:aws:s3:::b", "", "é中", "x€y", "7", "0", "true", "False", "1.5", "None",
        "2012-10-17", "10.0.0.0/8", "{\"a\": 1}", "*", "s3:Get*", "AWS::S3::Bucket", "null", " lead", "trail ", "\ttab\n", " "]
NET4 = ["10.0.0.0/8", "10.1.2.3/8", "0.0.0.0/0", "192.168.1.1", "172.16.0.0/12", "1.2.3.4/32", "10.0.0.0/255.0.0.0", "100.64.0.0/10",
        "10.0.0.0/0.255.255.255", "8.8.8.8/31", "203.0.113.0/24"]
NET6 = ["::/0", "2001:db8::/32", "2001:db8::1/32", "fe80::1", "::1/128", "2001:0db8:0000:0000:0000:0000:0000:0001/64",
        "::ffff:1.2.3.4/128", "fc00::/7", "2001:DB8::/33"]
DATES = ["2012-10-17", "2008-10-17", "2020-02-29", "1999-12-31"]
DATETIMES = ["2020-01-01T00:00:00Z", "2019-07-16T19:15:00Z", "2021-12-31T23:59:59+01:00", "2020-01-01T00:00:00", "2020-06-01",
             1600000000, 0, 1600000000123, "1600000000", "2020-01-01T10:20:30.123456Z"]
B64 = ["aGVsbG8=", "", "AA==", "QUJD", "/+8=", "aGVsbG8gd29ybGQ=", "AAECAwQFBgc=", "YWJjZA=="]
INTS = [0, 1, 22, 443, 65535, -1, 12345678901234567890, "22", "0", "-1", "65535"]
BOOLS = [True, False, "true", "false", "True", "FALSE", "tRuE"]
ANYS = [None, "x", 5, True, ["a", 1], {"k": "v"}, {"Ref": "P1"}, "2012-10-17", "10.0.0.0/8", [], {},
        # text that is a JSON string literal, once and twice encoded (F29: each validation peeled one layer of quotes)
        '"x"', '"\\"x\\""', '"\\"1\\""', '"\\"true\\""', '["\\"x\\""]', '{"a": "\\"2020-01-01\\""}', '"\\"\\\\\\"x\\\\\\"\\""']


class Gen:
    """valid-instance generator.  rich=False: plain representative values (C14); rich=True: every spelling family (C15)."""

    def __init__(self, rng, rich=False, fn_rate=0.12, opt_rate=0.5, resolvable=False):
        self.r = rng
        self.rich = rich
        # resolvable: the instance must survive resolve(): function objects only where a string is expected and only
        # string-valued ones, no object that merely LOOKS like a function, resource Condition = a declared name
        self.resolvable = resolvable
        self.fn_rate = fn_rate
        self.opt_rate = opt_rate
        self.nodes = []      # (path, class name) of every model node generated
        self.leaves = {}     # leaf kind -> count  ("fn@kind": function object in a Resolvable[kind] position)

    def bump(self, k):
        self.leaves[k] = self.leaves.get(k, 0) + 1

    def fn(self):
        if self.resolvable:
            return copy.deepcopy(self.r.choice(FN_STR))
        return copy.deepcopy(self.r.choice(FN_OBJECTS[:-1]))

    # ---- leaves
    def leaf(self, kind):
        r = self.r
        self.bump(kind)
        if kind == "str":
            return r.choice(STRS) if self.rich else r.choice(STRS[:6] + [" lead", "trail "])
        if kind == "strnum":
            return r.choice(STRS[:6] + [" lead", "trail "] + ([5, 0, 1.5, -3, "7"] if self.rich else []))
        if kind == "int":
            return r.choice(INTS) if self.rich else r.choice(INTS[:5])
        if kind == "posint":
            return r.choice([1, 5, 64, "7"] if self.rich else [1, 5, 64])
        if kind == "int|str":
            return r.choice(["tcp", "udp", "-1", -1, 6, "6", "icmp"])
        if kind == "bool":
            return r.choice([True, False, "true", "false", "yes", 0, 1] if self.rich else [True, False])
        if kind == "semibool":
            return r.choice(BOOLS) if self.rich else r.choice(BOOLS[:4])
        if kind == "date":
            return r.choice(DATES)
        if kind == "datetime":
            return r.choice(DATETIMES) if self.rich else r.choice(DATETIMES[:3])
        if kind == "net4":
            return r.choice(NET4) if self.rich else r.choice(NET4[:4])
        if kind == "net6":
            return r.choice(NET6) if self.rich else r.choice(NET6[:4])
        if kind == "binary":
            return r.choice(B64)
        if kind == "fn":
            return self.fn()
        if kind == "generic":
            return self.generic(2)
        if kind == "any":
            return copy.deepcopy(r.choice(ANYS))
        if kind == "dict" and self.resolvable:
            return {k: r.choice(["x", ["a", "b"], {"k": "v"}]) for k in r.sample(["a", "b", "c"], r.randint(0, 2))}
        if kind == "dict":
            return {k: copy.deepcopy(r.choice(ANYS)) for k in r.sample(["a", "b", "Ref", "k:1"], r.randint(0, 3))} \
                if r.random() < 0.8 else {"Ref": "x"}
        if kind == "list":
            return [copy.deepcopy(r.choice(ANYS)) for _ in range(r.randint(0, 3))]
        raise ValueError(kind)

    def generic(self, d):
        """a generic sub-object: members of every family the generic cast recognises"""
        r = self.r
        out = {}
        for k in r.sample(["Name", "Enabled", "Count", "When", "Day", "Cidr", "Cidr6", "Items", "Nested", "Rules", "Fn", "Tags", "Doc",
                           "Empty", "Mixed", "Json"], r.randint(0, 5)):
            out[k] = self.generic_member(k, d)
        return out

    def generic_member(self, k, d):
        r = self.r
        self.bump("generic:" + k)
        if k == "Name":
            return r.choice(STRS)
        if k == "Enabled":
            return r.choice(BOOLS)
        if k == "Count":
            return r.choice([0, 5, "7", -2, 12345678901234567890])
        if k == "When":
            return r.choice(["2020-01-01T00:00:00Z", "2019-07-16T19:15:00+02:00"])
        if k == "Day":
            return r.choice(DATES)
        if k == "Cidr":
            return r.choice(NET4) if r.random() < 0.7 else [r.choice(NET4), r.choice(NET4)]
        if k == "Cidr6":
            return r.choice(NET6)
        if k == "Items":
            return [r.choice(STRS) for _ in range(r.randint(0, 3))]
        if k == "Nested":
            return self.generic(d - 1) if d > 0 else {"Leaf": "x"}
        if k == "Rules":
            return [self.generic(d - 1) if d > 0 else {"Id": "r"} for _ in range(r.randint(0, 2))]
        if k == "Fn":
            return self.fn()
        if k == "Tags":
            return [{"Key": "k", "Value": r.choice(["v", 5, True])}]
        if k == "Doc":
            return {"Version": "2012-10-17", "Statement": [{"Effect": "Allow", "Action": "s3:GetObject", "Resource": "*"}]}
        if k == "Empty":
            return r.choice([[], "", None])
        if k == "Mixed":
            return [r.choice(STRS), r.choice([1, 2]), self.fn()]
        if k == "Json":
            return r.choice(["{\"a\": \"b\"}", "[1, 2]", "{bad json", '"x"', '"\\"x\\""', '"\\"1\\""', '"\\"true\\""', '["\\"x\\""]',
                             '{"a": "\\"2020-01-01\\""}', '"\\"\\\\\\"x\\\\\\"\\""', '"10.0.0.0/8"', '"[1]"'])
        raise ValueError(k)

    # ---- types
    def value(self, t, path, d=3):
        r = self.r
        k = t[0]
        if k == "leaf":
            return self.leaf(t[1])
        if k == "lit":
            self.bump("literal")
            return t[1]
        if k == "list":
            return [self.value(t[1], path + (i,), d) for i in range(r.choice([0, 1, 1, 2, 3]))]
        if k == "dictof":
            keys = r.sample(["aws:k", "k2", "a", "s3:prefix", "aws:SourceIp"], r.choice([0, 1, 1, 2]))
            return {kk: self.value(t[1], path + (kk,), d) for kk in keys}
        if k == "opt":
            if r.random() < 0.15:
                self.bump("none")
                return None
            return self.value(t[1], path, d)
        if k == "resolvable":
            # the rarer typed positions get their function objects more often, so that every Resolvable position is covered
            rate = self.fn_rate if t[1] == ("leaf", "str") else min(0.35, 3 * self.fn_rate)
            if r.random() < rate and (not self.resolvable or t[1] in (("leaf", "str"), ("leaf", "strnum"))):
                self.bump("fn@" + kind_of(t[1]))
                return self.fn()
            return self.value(t[1], path, d)
        if k in ("lr", "smart"):
            alts = t[1]
            if ("leaf", "fn") in alts and r.random() < self.fn_rate and not self.resolvable:
                self.bump("fn@union")
                return self.fn()
            alts = [a for a in alts if a != ("leaf", "fn")]
            return self.value(r.choice(alts), path, d)
        if k == "model":
            return self.model(t[1], path, d)
        if k == "resource":
            return self.resource(path, d)
        raise ValueError(t)

    def model(self, name, path, d=3):
        r = self.r
        c = table()["classes"][name]
        self.nodes.append((path, name))
        self.bump("model:" + name)
        out = {}
        fields = c["fields"]
        if name == "StatementCondition":
            # one operator per value family first (the ~200 operators share 9 field types), so that every family is drawn evenly
            fams = {}
            for f in fields:
                fams.setdefault(repr(f[3]), []).append(f)
            nf = len(fams) if (self.rich and r.random() < 0.25) else min(len(fams), r.choice([0, 1, 1, 2, 3]))
            chosen = [r.choice(fams[k]) for k in r.sample(sorted(fams), nf)]
            for fn_, dflt, hook, ty in fields:
                if (fn_, dflt, hook, ty) in chosen:
                    key = fn_
                    for pre in ("ForAllValues", "ForAnyValue"):
                        if fn_.startswith(pre) and r.random() < 0.7:
                            key = pre + ":" + fn_[len(pre):]
                    v = self.value(ty, path + (key,), d - 1)
                    if v is not None:
                        out[key] = v
            return out
        for fn_, dflt, hook, ty in fields:
            if dflt != "DRequired" and (d <= 0 or r.random() > self.opt_rate):
                continue
            if hook == "HEffect":
                self.bump("effect")
                out[fn_] = r.choice(["Allow", "Deny", "allow", "DENY", "aLLoW"]) if (self.resolvable or r.random() > self.fn_rate / 2) else self.fn()
            elif hook == "HTagValue":
                self.bump("tagvalue")
                out[fn_] = r.choice(["v", "", 5, 1.5, True, False, "é"]) if self.rich else r.choice(["v", 5, True])
            elif self.resolvable and fn_ == "Condition" and "Resource" in c["bases"]:
                out[fn_] = "C1"
            elif hook == "HCheckType":
                out[fn_] = r.choice(unmodelled(["Custom::Thing", "AWS::SNS::Topic", "AWS::Foo::Bar"]))
            else:
                out[fn_] = self.value(ty, path + (fn_,), d - 1)
        return out

    def resource(self, path, d=3, type_string=None):
        r = self.r
        t = table()
        if type_string is None:
            type_string = r.choice([ty for ty, _ in t["modelled"]] + unmodelled(["Custom::Thing", "AWS::SNS::Topic"]))
        cls = dict(t["modelled"]).get(type_string)
        if cls is None:
            self.nodes.append((path, "GenericResource"))
            self.bump("model:GenericResource")
            out = {"Type": type_string, "Properties": self.generic(2)}
            if r.random() < 0.2:
                del out["Properties"]
            if r.random() < 0.2:
                out["DependsOn"] = r.choice(["R1", ["R1", "R2"]])
            if r.random() < 0.15:
                out["Metadata"] = {"Note": "n", "K": ["v"]}
            return out
        return self.model(cls, path, d)


def kind_of(t):
    if t[0] == "leaf":
        return t[1]
    if t[0] == "model":
        return "model"
    return t[0]


# ---------------------------------------------------------------------------------------------
# damage

def get_at(v, path):
    for p in path:
        v = v[p]
    return v


def set_at(v, path, new):
    v = copy.deepcopy(v)
    cur = v
    for p in path[:-1]:
        cur = cur[p]
    cur[path[-1]] = new
    return v


def may_accept(t, v):
    """conservative: False only when NO validator of type t can accept v (used for must-reject expectations)"""
    k = t[0]
    if k == "lit":
        return v == t[1]
    if k == "leaf":
        kind = t[1]
        if kind in ("any",):
            return True
        if kind in ("dict", "generic"):
            return isinstance(v, dict)
        if kind == "list":
            return isinstance(v, list)
        if kind == "fn":
            return isinstance(v, dict) and len(v) == 1
        if isinstance(v, (dict, list)) or v is None:
            return False
        if kind == "str":
            return isinstance(v, str)
        if kind == "semibool":
            return isinstance(v, (bool, str))
        if kind == "binary":
            return isinstance(v, (str, bytes))
        return True     # numbers are accepted by int / date / datetime / network / strnum ... : unsure -> may accept
    if k == "list":
        return isinstance(v, list) and all(may_accept(t[1], x) for x in v)
    if k == "dictof":
        return isinstance(v, dict) and all(may_accept(t[1], x) for x in v.values())
    if k == "opt":
        return v is None or may_accept(t[1], v)
    if k == "resolvable":
        return may_accept(t[1], v) or may_accept(("leaf", "fn"), v)
    if k in ("lr", "smart"):
        return any(may_accept(a, v) for a in t[1])
    if k == "model":
        if not isinstance(v, dict):
            return False
        c = table()["classes"][t[1]]
        names = {f[0] for f in c["fields"]}
        strip = (lambda s: s.replace(":", "")) if c["hook"] == "CRemoveColon" else (lambda s: s)
        keys = {strip(x) for x in v}
        if c["extra"] == "forbid" and not keys <= names:
            return False
        if any(f[1] == "DRequired" and f[0] not in keys for f in c["fields"]):
            return False
        return True
    if k == "resource":
        return isinstance(v, dict)
    raise ValueError(t)


RETYPES = {"two-key object": {"a": 1, "b": 2}, "list of objects": [{"a": 1}, {"b": 2}], "number": 12345}


def damages(rng, resource, nodes, cls_name):
    """yield (kind, damaged resource, must_reject) for one valid modelled resource.
    nodes: (path, class) of the model nodes inside it (paths relative to the resource)."""
    t = table()
    classes = t["classes"]
    for path, name in nodes:
        c = classes[name]
        node = get_at(resource, path)
        if not isinstance(node, dict):
            continue
        fmap = {f[0]: f for f in c["fields"]}
        strip = (lambda s: s.replace(":", "")) if c["hook"] == "CRemoveColon" else (lambda s: s)
        # drop each required property
        for key in list(node):
            f = fmap.get(strip(key))
            if f and f[1] == "DRequired":
                d = dict(node)
                del d[key]
                # without its Type a definition is simply a generic resource
                yield "drop-required:" + name, set_at(resource, path, d) if path else d, not (key == "Type" and not path)
        # add an unknown property at this nesting level
        for unk in ("Zzz", "unknownProperty"):
            if unk not in fmap:
                d = dict(node)
                d[unk] = rng.choice(["x", 1, {"k": "v"}])
                yield "add-unknown:" + name, set_at(resource, path, d) if path else d, c["extra"] == "forbid"
                break
        # retype each property
        for key in list(node):
            f = fmap.get(strip(key))
            if not f or key == "Type":
                continue
            for rk, rv in RETYPES.items():
                if rng.random() < 0.5:
                    continue
                d = dict(node)
                d[key] = copy.deepcopy(rv)
                yield f"retype:{rk}:{kind_of(strip_opt(f[3]))}", set_at(resource, path, d) if path else d, not may_accept(f[3], rv)


def strip_opt(t):
    while t[0] in ("opt", "resolvable"):
        t = t[1]
    return t


def leaf_kinds_in_schema():
    """every leaf kind that occurs in a field type of the table (the coverage target of C15)"""
    out = set()

    def walk(t):
        if t[0] == "leaf":
            out.add(t[1])
        elif t[0] == "lit":
            out.add("literal")
        elif t[0] in ("list", "dictof", "opt"):
            walk(t[1])
        elif t[0] == "resolvable":
            out.add("fn@" + kind_of(t[1]))
            walk(t[1])
        elif t[0] in ("lr", "smart"):
            if ("leaf", "fn") in t[1]:
                out.add("fn@union")
            for a in t[1]:
                if a != ("leaf", "fn"):
                    walk(a)
        elif t[0] == "model":
            out.add("model:" + t[1])
        elif t[0] == "resource":
            out.add("model:GenericResource")
    for c in table()["classes"].values():
        for f in c["fields"]:
            walk(f[3])
    return out
